#!/usr/bin/env python3
# Generates MANIFEST.json from the table below (one entry per claimed property).
import json
props=[json.loads(l) for l in open('/verif/properties.jsonl')]
ids=[p['id'] for p in props]
E1="E1 choice/product enumeration (harness/mc)"
checks={
 "C15": dict(level="exploration", engine="E1",
   technique="bounded exhaustive input enumeration of the real framing helpers against a reference splitter",
   text="Every list of <=3 items over 7 boundary lengths (+64-item lists), every byte string of length <=3 (16.8 M) and every LEB128 prefix shape of 1..6 bytes x body length declared-1/declared/+1 is pushed through the real encode/decode helpers and compared with a 20-line strict reference splitter; single-item (uTP) framing for both versions. Complete for the stated finite space; says nothing about longer arbitrary strings outside the shape family.",
   note="Trusts the reference splitter in harness/c15.go and the leb128 dependency only as executed; inputs > 3 bytes only in the structured family.", design="5/C15"),
 "C14": dict(level="exploration", engine="E1",
   technique="bounded exhaustive enumeration of boundary values and of short / mutated byte strings through every real codec; round-trip and canonical re-encoding oracle",
   text="55 codecs (11 portal messages, 4 ping payloads, history/beacon/state containers and content keys). Values: full product of per-field boundary lengths/counts derived from the ssz-max/ssz-size tags (in and just over each limit) -> encode -> decode -> equal; over-limit values must fail to encode or be rejected. Bytes: all strings up to 2 (thorough 3) bytes per codec, and every truncation, extension, offset-window replacement and single-byte mutant of every canonical encoding (beacon containers: of the repository's genuine vectors); whatever decodes must re-encode to the identical bytes and respect every declared limit.",
   note="Limits above 65536 (transaction/receipt/uncle sizes) are not reached. fastssz/ztyp are executed as they are. Mutants are single-point.", design="5/C14"),
 "C04": dict(level="model_checking", engine="E2",
   technique="explicit-state BFS over the real pebble-backed store (replay on a fresh instance per transition) against a reference map, plus exhaustive op sequences after a retained Get",
   text="BFS over {put (8 colliding ids x 4 sizes, 300 kB on two ids), get, reopen, flush, compact, churn} from three real start states (empty, populated+reopened, after one prune) x 3 node ids, depth 2 (thorough 3), states deduplicated on (reference map, persisted and in-memory counter, radius); after every transition the database is scanned and every pool id read back through the API. Second family: every op sequence of length <= 2 (thorough 3) over 9 operations after a Get whose returned slice is retained (memtable, sstable and post-churn origins): the bytes handed back must never change. Runs in worker processes so that a crash (use-after-free) is reported as a violation.",
   note="pebble opened with 64 kB memtable/cache by the harness; capacity 1 MB; in-memory file system; ids of other lengths identified with their padded/truncated form.", design="5/C04"),
}
na_reason="check not built yet (work in progress; will be claimed once its checker exists)"
m={"version":1,
 "setup_cmd":"./setup.sh",
 "hooks":{"guard":"verif (Go build tag)","enable":"go build -tags verif -overlay .build/overlay.json (see build.sh); hook files are *verif_export.go with //go:build verif",
          "baseline_off_cmd":"cd /repo && /root/go/pkg/mod/golang.org/toolchain@v0.0.1-go1.24.2.linux-amd64/bin/go test -mod=mod -json -vet=off -count=1 -timeout 25m ./...",
          "source_commits":[], "add_only":True},
 "engines":[
  {"name":"E1","path":"harness/mc/dfs.go","serves_properties":[],"kind_free_text":"stateless choice-sequence DFS with deviation bound; product enumeration"},
  {"name":"E2","path":"harness/mc/bfs.go","serves_properties":[],"kind_free_text":"explicit-state BFS; a state is the event history reaching it, successor = replay on a fresh real instance + 1 event; dedup on a canonical rendering"},
 ],
 "checks":[], "not_applicable":[],
 "notes":"All checks run the implementation itself (no separate model); see DESIGN.md. ./check <id> quick|thorough rebuilds the harness from /repo's working tree with -tags verif and an AST-instrumented overlay."}
import subprocess
try:
  m["hooks"]["source_commits"]=subprocess.check_output(["git","-C","/repo","log","--format=%H","--grep=^verif hooks"],text=True).split()
except Exception: pass
for i in ids:
  if i in checks:
    c=checks[i]
    m["checks"].append({"property_id":i,"quick_cmd":f"./check {i} quick","thorough_cmd":f"./check {i} thorough",
      "evidence_file":f"/verif/evidence/{i}.json","replay_cmd_template":f"./check {i} quick --replay {{path}}",
      "engine":c["engine"],"level_claimed":{"category":c["level"],"text":c["text"],"design_ref":c["design"]},
      "level_note":c["note"],"technique":c["technique"]})
  else:
    m["not_applicable"].append({"property_id":i,"reason":na_reason})
for e in m["engines"]:
  e["serves_properties"]=[i for i in ids if i in checks and e["name"] in checks[i]["engine"]]
json.dump(m,open('/verif/MANIFEST.json','w'),indent=1)
print("claimed:",[c["property_id"] for c in m["checks"]])
