#!/usr/bin/env python3
# Generates MANIFEST.json from the table below (one entry per claimed property).
import json
props=[json.loads(l) for l in open('/verif/properties.jsonl')]
ids=[p['id'] for p in props]
E1="E1 choice/product enumeration (harness/mc)"
checks={
 "C15": dict(level="exploration", engine="E1",
   technique="bounded exhaustive input enumeration of the real framing helpers against a reference splitter",
   text="Every list of <=3 items over 7 boundary lengths (+64-item lists), every byte string of length <=3 (16.8 M) and every LEB128 prefix shape of 1..6 bytes x body length declared-1/declared/+1 is pushed through the real encode/decode helpers and compared with a 20-line strict reference splitter; single-item (uTP) framing for both versions. Complete for the stated finite space; says nothing about longer arbitrary strings outside the shape family.",
   note="Trusts the reference splitter in harness/c15.go and the leb128 dependency only as executed; inputs > 3 bytes only in the structured family.", design="5/C15"),
 "C14": dict(level="exploration", engine="E1",
   technique="bounded exhaustive enumeration of boundary values and of short / mutated byte strings through every real codec; round-trip and canonical re-encoding oracle",
   text="55 codecs (11 portal messages, 4 ping payloads, history/beacon/state containers and content keys). Values: full product of per-field boundary lengths/counts derived from the ssz-max/ssz-size tags (in and just over each limit) -> encode -> decode -> equal; over-limit values must fail to encode or be rejected. Bytes: all strings up to 2 (thorough 3) bytes per codec, and every truncation, extension, offset-window replacement and single-byte mutant of every canonical encoding (beacon containers: of the repository's genuine vectors); whatever decodes must re-encode to the identical bytes and respect every declared limit.",
   note="Limits above 65536 (transaction/receipt/uncle sizes) are not reached. fastssz/ztyp are executed as they are. Mutants are single-point.", design="5/C14"),
 "C04": dict(level="model_checking", engine="E2",
   technique="explicit-state BFS over the real pebble-backed store (replay on a fresh instance per transition) against a reference map, plus exhaustive op sequences after a retained Get",
   text="BFS over {put (8 colliding ids x 4 sizes, 300 kB on two ids), get, reopen, flush, compact, churn} from three real start states (empty, populated+reopened, after one prune) x 3 node ids, depth 2 (thorough 3), states deduplicated on (reference map, persisted and in-memory counter, radius); after every transition the database is scanned and every pool id read back through the API. Second family: every op sequence of length <= 2 (thorough 3) over 9 operations after a Get whose returned slice is retained (memtable, sstable and post-churn origins): the bytes handed back must never change. Runs in worker processes so that a crash (use-after-free) is reported as a violation.",
   note="pebble opened with 64 kB memtable/cache by the harness; capacity 1 MB; in-memory file system; ids of other lengths identified with their padded/truncated form.", design="5/C04"),
 "C05": dict(level="model_checking", engine="E2+E3+E6",
   technique="explicit-state BFS over put histories on the real store + exhaustive preemption-bounded interleavings of concurrent Puts at AST-injected yield points under a controlled scheduler",
   text="(a) BFS over put histories: 6 pool ids x 6 boundary sizes (0, 20 kB, exactly 5%, 5%+1, 30%, capacity+1) from 4 real start states (empty, 93% full, 93% full after a prune, capacity 0) x 3 node ids, depth 2 (thorough 3); after every put the database is scanned and the clauses evaluated: an over-capacity put frees >=5% or everything; items <=5% => held <= capacity; in-memory and persisted usage >= held; dropped keys >= kept keys. (b) 7 scenarios of 2-3 concurrent putters (same id, both crossing capacity, overwrite racing a prune, ...): every interleaving with <=2 preemptions (thorough 3) at the yields injected before each shared-state statement of storage.go, with mutexes of the instrumented file modelled by the scheduler; clauses evaluated once all calls returned.",
   note="Capacity 1 MB / 0 only; statement-level interleaving granularity; pebble internals not interleaved; the Compact goroutine runs when no putter is enabled; in-memory FS. Short-lived worker processes because prune() leaks a pebble iterator per call.", design="5/C05"),
 "C06": dict(level="model_checking", engine="E2+E1",
   technique="explicit-state BFS over put histories with the radius oracle + full product of boundary (node id, radius, distance) triples through the in-range test and the Store RPC",
   text="(a) the C05(a) exploration with pool distances whose big- and little-endian readings order differently; after every put: radius did not grow, a refusal for insufficient radius only at distance >= radius, every retained item within the advertised radius (big-endian XOR metric, from a scan of the database). Each clause is also evaluated under the byte-reversed reading so that the known endianness finding has its own fingerprints and anything else is a new violation. (b) 29-value boundary lattice of radii x (lattice + radius+-1) distances x 3 node ids through inRange, and lattice x lattice through PortalProtocolAPI.Store on a real unstarted node with an identity content-id function; the boundary distance == radius is left free.",
   note="Known finding (3 fingerprints, one cause): little-endian decoding of big-endian keys in the store, pinned by TestPrune. Offer filtering and gossip use of inRange are exercised in C09/C20.", design="5/C06"),
 "C03": dict(level="exploration", engine="E1",
   technique="exhaustive enumeration of positions x corruptions over synthetic accumulators through the real header validator against an independent SHA-256 tree reference",
   text="Seven synthetic accumulator worlds (pre-merge epochs of 1/2/8191/8192 records and a 3-epoch chain; 3 historical roots + 3 Capella + 3 Deneb summaries with all 9x8192 positions committed; an era-dispatch world). Per position (quick: every 16th + boundaries; thorough: all 8192): honest proof verifies; every node with a bit flipped, the header of position +-1 / xor 2^k / +-8192, a twin header, slot moved to neighbours / era ends / below Capella / 2^40 / 2^64-1, zero-record padding, wrong node counts and re-cut containers are refused with an error, never a panic; era dispatch at merge/shanghai/cancun boundaries. Cross-checked against history.BuildProof and history.Accumulator.",
   note="The oracle-backed summaries path (GetHistoricalSummaries via the beacon network) is not exercised; summaries are supplied directly.", design="5/C03"),
 "C12": dict(level="model_checking", engine="E1+E2",
   technique="exhaustive grid of (update kind x participation x slot relation x single corruption) through the real verifier against a transcription of the statement's clauses + explicit-state BFS over update sequences applied to the real store",
   text="Verification: synthetic 512-member committees (three, for two rotations), sparse state trees, aggregate signatures; update kinds {full, finality, optimistic} x participation {1,342,512} (thorough {0,1,341,342,511,512}) x slot/period relations x one corruption (signature bit, bitmap bit added/removed, each branch node, header fields, committee key, other committee, fork version, genesis root) on all 9 wire-type conversions: implementation accepts => all seven clauses hold; every honest update within the statement is accepted. Application: BFS over verify->apply sequences of a 16-entry (thorough 72-entry) update menu around two period boundaries, depth 4 (thorough 6, reaches a fixpoint); after every transition: slots monotone, optimistic >= finalized, finalized/committees change only with >= 2/3 participation, current committee rotates only to the stored next committee.",
   note="Fixture slots lie in mainnet's Altair era (the zrnt fork's ForkVersion is off by one fork from Capella on: dependency, outside the statement); no Electra conversions exist in the repository; fake clock via synctest.", design="5/C12"),
 "C13": dict(level="exploration", engine="E1",
   technique="exhaustive enumeration of every node on every path of small and medium tries x a fixed mutation-operator set through the real validator and Put against an independent proof walker",
   text="Account tries over all 63 subsets of a 6-key pool (root branch, extensions, embedded nodes, single leaf), a hand-assembled trie with non-canonical nodes, tries of 1/4/50 (thorough 200/500) hashed keys with storage tries and bytecode; every hash-referenced node is a claim. ~38 mutation operators at every applicable position, singly and in ordered pairs (thorough: + bit flip then structural operator): validator accepts <=> an independent walker written against go-ethereum's rlp accepts (tri-state: silent where the statement is); rejection is an error, never a panic; Put stores exactly the final node / the code and nothing on error.",
   note="Reference silent on non-canonical nodes, slim account RLP and beyond wire limits (counted, never accepted by the implementation).", design="5/C13"),
 "C17": dict(level="fault_enumeration", engine="E5",
   technique="exhaustive crash-point enumeration: every file-system write operation index of every history x {keep, drop unsynced}, freeze, copy, reopen the real store, evaluate recovery clauses",
   text="6 put histories (crossing capacity, overwrite, empty and oversize values, stores left at 94% / 96% / 100% of capacity, many small items then a prune) x 2 pebble configurations (defaults; 128 kB memtable with eager L0 compaction so that flushes, sstables, manifest edits, WAL rotation and compactions occur) on pebble's strict in-memory FS. For every write-kind FS operation index k (58-123 per history) and both loss models the world is frozen at k, the tree copied and reopened with pebble.Open + NewStorage: open succeeds; every item present (scan and Get) is byte-identical to a value put under that id before the cut; persisted and in-memory usage >= bytes present; an over-capacity store is pruned on open; radius is the maximum at <= 95% (or when nothing is retained) and the farthest retained key above; then two further puts are checked.",
   note="Fail-stop at operation boundaries, all-or-nothing loss of unsynced data, no torn writes (pebble's MemFS models neither). Where the fault-free operation count varies between runs the evidence says exhaustive:false.", design="5/C17"),
 "C02": dict(level="exploration", engine="E1",
   technique="exhaustive enumeration of bit/byte/truncation/extension/splice/cross-pairing mutants of genuine and synthetic (key, content) vectors x header-source answers through the real validator, validateContents and the block getters against an independent reference",
   text="100 seeds (26 genuine mainnet blocks from all four proof eras by hash and by number, bodies and receipts of nine mainnet blocks; 18 synthetic blocks: legacy / Shanghai bodies x 0/1/3 transactions x uncles x withdrawals, empty and non-empty receipts). Per seed: honest pair accepted; every bit flip, byte mutation and truncation of the content (quick: strided above 4 kB), extensions, every bit / truncation / extension of the key, every ordered cross-pairing under four header-source answers, right header with one root changed / same roots other hash / error, re-encoding in the other SSZ container, field splices, multi-item batches; the validator returns nil only if the content is bound to the header whose hash (number) is the key's; nothing reaches Put and no getter returns unless validation passed (recording store; getters on two real nodes over loopback).",
   note="Header-proof validity itself is C03's business (slot-only variants of beacon-era proofs are counted, not judged). The getter part runs real discv5/uTP on loopback UDP and is judged for soundness only.", design="5/C02"),
}
na_reason="check not built yet (work in progress; will be claimed once its checker exists)"
m={"version":1,
 "setup_cmd":"./setup.sh",
 "hooks":{"guard":"verif (Go build tag)","enable":"go build -tags verif -overlay .build/overlay.json (see build.sh); hook files are *verif_export.go with //go:build verif",
          "baseline_off_cmd":"cd /repo && /root/go/pkg/mod/golang.org/toolchain@v0.0.1-go1.24.2.linux-amd64/bin/go test -mod=mod -json -vet=off -count=1 -timeout 25m ./...",
          "source_commits":[], "add_only":True},
 "engines":[
  {"name":"E1","path":"harness/mc/dfs.go","serves_properties":[],"kind_free_text":"stateless choice-sequence DFS with deviation bound; product enumeration"},
  {"name":"E3","path":"harness/sched.go","serves_properties":[],"kind_free_text":"controlled concurrency: gates + synctest quiescence; schedules = choice sequences with a preemption bound; mutexes of instrumented files modelled"},
  {"name":"E6","path":"harness/cmd/instr/main.go","serves_properties":[],"kind_free_text":"AST yield / lock-hook injection into the current sources, applied with go build -overlay"},
  {"name":"E5","path":"harness/c17.go","serves_properties":[],"kind_free_text":"crash-point enumeration on pebble's vfs (errorfs injector that freezes the world at operation k; strict MemFS keep/drop unsynced)"},
  {"name":"E2","path":"harness/mc/bfs.go","serves_properties":[],"kind_free_text":"explicit-state BFS; a state is the event history reaching it, successor = replay on a fresh real instance + 1 event; dedup on a canonical rendering"},
 ],
 "checks":[], "not_applicable":[],
 "notes":"All checks run the implementation itself (no separate model); see DESIGN.md. ./check <id> quick|thorough rebuilds the harness from /repo's working tree with -tags verif and an AST-instrumented overlay."}
import subprocess
try:
  m["hooks"]["source_commits"]=subprocess.check_output(["git","-C","/repo","log","--format=%H","--grep=^verif hooks"],text=True).split()
except Exception: pass
for i in ids:
  if i in checks:
    c=checks[i]
    m["checks"].append({"property_id":i,"quick_cmd":f"./check {i} quick","thorough_cmd":f"./check {i} thorough",
      "evidence_file":f"/verif/evidence/{i}.json","replay_cmd_template":f"./check {i} quick --replay {{path}}",
      "engine":c["engine"],"level_claimed":{"category":c["level"],"text":c["text"],"design_ref":c["design"]},
      "level_note":c["note"],"technique":c["technique"]})
  else:
    m["not_applicable"].append({"property_id":i,"reason":na_reason})
for e in m["engines"]:
  e["serves_properties"]=[i for i in ids if i in checks and e["name"] in checks[i]["engine"]]
json.dump(m,open('/verif/MANIFEST.json','w'),indent=1)
print("claimed:",[c["property_id"] for c in m["checks"]])
