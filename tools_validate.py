#!/usr/bin/env python3
# validates MANIFEST.json and every evidence file against the schemas (python3-vt has jsonschema)
import json,sys,glob,jsonschema
ok=True
m=json.load(open('/verif/MANIFEST.json'))
jsonschema.validate(m,json.load(open('/root/.vp/MANIFEST.schema.json')))
es=json.load(open('/root/.vp/EVIDENCE.schema.json'))
props=[json.loads(l)['id'] for l in open('/verif/properties.jsonl')]
claimed=[c['property_id'] for c in m['checks']]
na=[c['property_id'] for c in m.get('not_applicable',[])]
for p in props:
    if p not in claimed and p not in na: print("property neither claimed nor not_applicable:",p); ok=False
for c in m['checks']:
    f=c['evidence_file']
    try:
        e=json.load(open(f)); jsonschema.validate(e,es)
        if e['level']!=c['level_claimed']['category']: print("level mismatch",f); ok=False
    except Exception as ex:
        print("evidence problem",f,str(ex)[:200]); ok=False
print("OK" if ok else "PROBLEMS")
sys.exit(0 if ok else 1)
