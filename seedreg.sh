#!/bin/bash
# seedreg.sh [lanes]: re-evaluates EVERY kept seeded change (seeded/<id>/patch.diff) against the current checks,
# each against the quick tier of the property it was written for. Works on private copies only: per lane a copy of
# /verif under /tmp and a scratch git worktree of /repo (VERIF_REPO), both removed at the end; /repo's working tree
# and /verif's evidence are never touched. Prints one line per seed; exit 0 iff every seed is reported (exit 1 of
# the check with a VIOLATION line). An infrastructure error (exit 2) under a seed counts as NOT caught.
cd "$(dirname "${BASH_SOURCE[0]}")"
lanes=${1:-4}
ls seeded | grep '^C[0-9][0-9]-s' > /tmp/seedreg.all
lane() {
  l=$1; shift
  V=/tmp/seedreg-verif-$l; R=/tmp/seedreg-repo-$l
  rm -rf $V; git -C /repo worktree remove --force $R 2>/dev/null; rm -rf $R
  rsync -a --exclude .build --exclude .git --exclude replays ./ $V/; mkdir -p $V/replays
  git -C /repo worktree add -q --detach $R HEAD || exit 2
  for id in "$@"; do
    p=${id%%-*}
    git -C $R checkout -q -- .
    git -C $R apply "$PWD/seeded/$id/patch.diff" 2>/dev/null || { echo "SEED $id patch-does-not-apply"; continue; }
    (cd $V && VERIF_REPO=$R VERIF_OUT=/tmp/seedreg-out-$l ./check $p quick > /tmp/seedreg-$l.cur 2>&1); e=$?
    echo "SEED $id prop=$p exit=$e $(grep -c '^VIOLATION' /tmp/seedreg-$l.cur) fingerprints; first: $(grep fingerprint /tmp/seedreg-$l.cur | head -1 | cut -c1-150)"
    rm -rf /tmp/seedreg-out-$l
  done
  git -C /repo worktree remove --force $R; rm -rf $V $R /tmp/seedreg-$l.cur
}
for l in $(seq 0 $((lanes-1))); do
  lane $l $(awk -v l=$l -v n=$lanes 'NR%n==l' /tmp/seedreg.all) > /tmp/seedreg-$l.log 2>&1 &
done
wait
cat /tmp/seedreg-*.log | sort > /tmp/seedreg.log; rm -f /tmp/seedreg-*.log
cat /tmp/seedreg.log
n=$(grep -c '^SEED' /tmp/seedreg.log); c=$(grep -c 'exit=1 [1-9]' /tmp/seedreg.log)
echo "SEEDREG $c of $n kept seeds caught by the check of their own property"
[ "$n" -gt 0 ] && [ "$c" -eq "$n" ]
