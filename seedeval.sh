#!/bin/bash
# seedeval.sh <seed-out-dir> <pkgdir> <run-regex> <id> [props...]
# 1. confirms in a scratch worktree: demo passes unchanged, fails with the patch, package tests still pass
# 2. applies the patch to /repo, runs ./check <prop> quick for each prop, undoes it
set -u
src=$1; pkg=$2; re=$3; id=$4; shift 4
export GOFLAGS=-mod=mod GOPROXY=off GOSUMDB=off GOTOOLCHAIN=local
G=/root/go/pkg/mod/golang.org/toolchain@v0.0.1-go1.24.2.linux-amd64/bin/go
W=/tmp/seedeval-$id
# tests run in a private network namespace (loopback only): several confirmations can run side by side
nt() { unshare -n bash -c 'ip link set lo up 2>/dev/null; "$@"' -- "$@"; }
# SEEDEVAL_PHASE=confirm: only step 1 (never touches /repo's working tree); =check: only step 2, reusing step 1's verdict
if [ "${SEEDEVAL_PHASE:-}" != check ]; then
rm -rf $W; git -C /repo worktree add -q --detach $W HEAD || exit 2
cp $src/demo_test.go $W/$pkg/zz_seed_demo_test.go
(cd $W && nt $G test -vet=off -count=1 -run "$re" ./$pkg/ > /tmp/seedeval-$id.unchanged.log 2>&1); u=$?
git -C $W apply $src/patch.diff || { echo "PATCH DOES NOT APPLY"; git -C /repo worktree remove --force $W; exit 2; }
(cd $W && $G build ./... > /tmp/seedeval-$id.build.log 2>&1); b=$?
(cd $W && nt $G test -vet=off -count=1 -run "$re" ./$pkg/ > /tmp/seedeval-$id.changed.log 2>&1); c=$?
rm $W/$pkg/zz_seed_demo_test.go
(cd $W && nt $G test -vet=off -count=1 -timeout 20m ./$pkg/ 2>&1 | grep "^--- FAIL" | grep -v "TestPortalWireProtocol \|TestTraceContentLookup " > /tmp/seedeval-$id.suite.log); 
s=$(wc -l < /tmp/seedeval-$id.suite.log)
echo "CONFIRM id=$id demo_unchanged_exit=$u (want 0) build_exit=$b (want 0) demo_changed_exit=$c (want !=0) package_suite_new_failures=$s (want 0)"
git -C /repo worktree remove --force $W
echo "$u $b $c $s" > /tmp/seedeval-$id.confirm
fi
[ "${SEEDEVAL_PHASE:-}" = confirm ] && exit 0
read u b c s < /tmp/seedeval-$id.confirm || exit 2
cd /verif
git -C /repo apply $src/patch.diff || { echo "patch does not apply to /repo"; exit 2; }
for p in "$@"; do
  VERIF_OUT=/tmp/seedeval-$id.out ./check $p quick > /tmp/seedeval-$id.$p.log 2>&1; e=$?
  echo "CHECK id=$id prop=$p exit=$e $(grep -c '^VIOLATION' /tmp/seedeval-$id.$p.log) violations: $(grep 'fingerprint' /tmp/seedeval-$id.$p.log | head -3 | tr '\n' ' ' | cut -c1-300)"
done
git -C /repo checkout -- .
rm -rf /tmp/seedeval-$id.out
git -C /repo status --short | head -3
# keep it (only if confirmed)
if [ $u -eq 0 ] && [ $b -eq 0 ] && [ $c -ne 0 ] && [ $s -eq 0 ]; then
  D=/verif/seeded/$id; mkdir -p $D
  cp $src/patch.diff $src/demo_test.go $D/
  python3 - "$src/meta.json" "$D/meta.json" "$id" "$pkg" "$re" "$@" <<'PY'
import json,sys,re,glob
src,dst,id,pkg,rx=sys.argv[1:6]; props=sys.argv[6:]
m=json.load(open(src))
m['seed_id']=id
m['confirmed_by_me']={"demo_on_unchanged_tree":"pass","build_with_change":"ok","demo_with_change":"fail","package_tests_with_change":"no new failures (the 2 always-failing offline tests excepted)",
  "how":f"scratch worktree of /repo HEAD; go test -run '{rx}' ./{pkg}/ before and after git apply patch.diff; then go test ./{pkg}/"}
res={}
for p in props:
    log=open(f'/tmp/seedeval-{id}.{p}.log').read()
    fps=re.findall(r'fingerprint: (.*)',log)
    res[p]={"caught":bool(re.search(r'^VIOLATION',log,re.M)),"fingerprints":fps[:6]}
m['checks_run']={"how":"git -C /repo apply patch.diff; ./check <prop> quick; git -C /repo checkout -- .","results":res}
json.dump(m,open(dst,'w'),indent=1)
print("KEPT",dst,{p:res[p]['caught'] for p in res})
PY
else
  echo "NOT KEPT (not confirmed)"
fi
