package main

import (
	"context"
	"fmt"
	"os"

	"github.com/zen-eth/shisui/cmd/shisui/utils"
	"github.com/zen-eth/shisui/portalwire"
	"github.com/zen-eth/shisui/verifcfg"
	"verifharness/mc"
)

// C16 (configuration part) — "... than the CONFIGURED limit ... all limits >= 0". The limit
// an operator configures reaches the slot counters through the command line:
// --utp-conn-size-limit -> the command's flag parsing -> getPortalConfig ->
// PortalProtocolConfig.MaxUtpConnSize -> NewZenEthUtp (what portal.NewNode calls). The
// command's package cannot be imported (package main); the build presents its two source
// files, as they are in the working tree, under another package name (virtual package
// verifcfg in the overlay). For every limit of a small menu (and the flag left out) the
// configuration must carry exactly that limit and the transfer service built from it must
// hand out exactly that many inbound and that many outbound slots.

type c16ConfigCase struct {
	Part  string `json:"part"` // "command-line-limit"
	Limit int    `json:"limit"`
	Given bool   `json:"flag_given"`
}

func c16CountSlots(get func() (portalwire.Permit, bool)) int {
	var held []portalwire.Permit
	for len(held) < 5000 {
		p, ok := get()
		if !ok {
			break
		}
		held = append(held, p)
	}
	for _, p := range held {
		p.Release()
	}
	return len(held)
}

func c16ConfigRun(r *mc.Report, c c16ConfigCase) {
	dir, err := os.MkdirTemp("", "verif-c16cfg-")
	if err != nil {
		r.EngineError("C16 config: " + err.Error())
		return
	}
	defer os.RemoveAll(dir)
	args := []string{"--" + utils.PortalDataDirFlag.Name, dir}
	want := portalwire.DefaultUtpConnSize
	site := "getPortalConfig:flag-left-out"
	if c.Given {
		args = append(args, "--"+utils.PortalUtpConnSizeLimitFlag.Name, fmt.Sprint(c.Limit))
		want = c.Limit
		site = map[bool]string{true: "getPortalConfig:limit-zero", false: "getPortalConfig:limit-positive"}[c.Limit == 0]
	}
	cfg, err := verifcfg.ConfigFromArgs(args)
	if err != nil || cfg == nil {
		r.Violation("configured-limit-is-the-limit-in-force", site, fmt.Sprintf("command line %v: no configuration (%v)", args[2:], err), c)
		return
	}
	svc := portalwire.NewZenEthUtp(context.Background(), cfg.PortalProtocolConfig, nil, c20Conn{})
	in, out := c16CountSlots(svc.GetInboundPermit), c16CountSlots(svc.GetOutboundPermit)
	if cfg.PortalProtocolConfig.MaxUtpConnSize != want || in != want || out != want {
		r.Violation("configured-limit-is-the-limit-in-force", site,
			fmt.Sprintf("command line %v: the configuration carries limit %d, the transfer service built from it hands out %d inbound and %d outbound slots; configured: %d", args[2:], cfg.PortalProtocolConfig.MaxUtpConnSize, in, out, want), c)
	}
	r.Exec(fmt.Sprintf("config|given=%v|%d|%d|%d", c.Given, want, in, out))
	r.Count("command_line_limits", 1)
}

func c16ConfigCases() []c16ConfigCase {
	out := []c16ConfigCase{{Part: "command-line-limit"}}
	for _, l := range []int{0, 1, 2, 3, 7, 49, 50, 51, 1000} {
		out = append(out, c16ConfigCase{"command-line-limit", l, true})
	}
	return out
}

func c16Config(r *mc.Report) {
	for _, c := range c16ConfigCases() {
		c16ConfigRun(r, c)
	}
}
