package main

import (
	"bytes"
	"fmt"
	"math/big"
	"sort"

	"github.com/ethereum/go-ethereum/core/rawdb"
	"github.com/ethereum/go-ethereum/core/types"
	"github.com/ethereum/go-ethereum/crypto"
	"github.com/ethereum/go-ethereum/rlp"
	"github.com/ethereum/go-ethereum/trie"
	"github.com/ethereum/go-ethereum/triedb"
	"github.com/holiman/uint256"
)

// c13Trie: every hash-referenced node of a trie (and its root) by nibble path.
type c13Trie struct {
	root  hexb
	nodes map[string]hexb
	order []string
}

func (t *c13Trie) index() *c13Trie {
	t.order = t.order[:0]
	for p := range t.nodes {
		t.order = append(t.order, p)
	}
	sort.Strings(t.order)
	t.root = crypto.Keccak256(t.nodes[""])
	return t
}

// c13Build builds the trie with go-ethereum and takes the node set of its commit.
func c13Build(kv [][2][]byte) *c13Trie {
	tr := trie.NewEmpty(triedb.NewDatabase(rawdb.NewMemoryDatabase(), nil))
	for _, e := range kv {
		tr.MustUpdate(e[0], e[1])
	}
	root, set := tr.Commit(false)
	t := &c13Trie{nodes: map[string]hexb{}}
	for p, n := range set.Nodes {
		if !bytes.Equal(crypto.Keccak256(n.Blob), n.Hash[:]) {
			panic("c13: node set blob does not hash to its hash")
		}
		t.nodes[p] = n.Blob
	}
	if t.index(); !bytes.Equal(t.root, root[:]) {
		panic("c13: node set has no root")
	}
	return t
}

// chain: the nodes stored at every prefix of path, root first.
func (t *c13Trie) chain(path string) (out []hexb) {
	for l := 0; l <= len(path); l++ {
		if n, ok := t.nodes[path[:l]]; ok {
			out = append(out, n)
		}
	}
	return
}

func nibblesOf(b []byte) string {
	out := make([]byte, 0, 2*len(b))
	for _, c := range b {
		out = append(out, c>>4, c&0xf)
	}
	return string(out)
}

type c13Ctx struct {
	alts  []hexb   // nodes that are not on the proof
	child hexb     // a node the target references by hash (nil: none)
	other *c13Case // the genuine case of the same kind for another account of the same world
}

type c13Base struct {
	c       c13Case
	ctx     c13Ctx
	genuine bool // built from a go-ethereum trie: the reference must accept it
	small   bool // small trie: the thorough tier also applies bit flip + operator pairs
}

var c13Unrelated = func() hexb {
	b, _ := rlp.EncodeToBytes([]any{[]byte{0x20, 0x77, 0x77}, bytes.Repeat([]byte{0x77}, 40)})
	return b
}()

// nodeClaims: one genuine claim per stored node of t (kind/addr/acct/block are filled by the caller).
func (t *c13Trie) nodeClaims(name string, proto c13Case, genuine, small bool) (out []c13Base) {
	for i, p := range t.order {
		c := proto.clone()
		c.Base = fmt.Sprintf("%s node@%x", name, p)
		c.Op = "genuine"
		c.Path, c.Hash, c.Proof = hexb(p), crypto.Keccak256(t.nodes[p]), t.chain(p)
		ctx := c13Ctx{alts: []hexb{c13Unrelated}}
		if i+1 < len(t.order) && len(t.order[i+1]) > len(p) && t.order[i+1][:len(p)] == p {
			ctx.child = t.nodes[t.order[i+1]]
		}
		for _, q := range t.order {
			if !(len(q) <= len(p) && p[:len(q)] == q) && !bytes.Equal(t.nodes[q], ctx.child) {
				ctx.alts = append(ctx.alts, t.nodes[q])
				break
			}
		}
		out = append(out, c13Base{c: c, ctx: ctx, genuine: genuine, small: small})
	}
	return
}

// The structural pool: 3-byte keys. 012345/012346 (equal long values: two identical
// hashed leaves with an empty key under one branch), 012347 (short value: embedded
// empty-key leaf), 1abcde (hashed leaf with a 5-nibble key), 2f1234/2f1235 (short
// values: an embedded extension holding an embedded branch with embedded leaves).
// Subsets give a root branch, root extensions 0123(4) / 2f123, a 4-nibble extension
// 1234 below a root branch, embedded children and single-leaf tries.
func c13Pool() [][2][]byte {
	la, lb := bytes.Repeat([]byte{0xaa}, 40), bytes.Repeat([]byte{0xbb}, 40)
	return [][2][]byte{
		{{0x01, 0x23, 0x45}, la}, {{0x01, 0x23, 0x46}, la}, {{0x01, 0x23, 0x47}, {0x07}},
		{{0x1a, 0xbc, 0xde}, lb}, {{0x2f, 0x12, 0x34}, {0x0a}}, {{0x2f, 0x12, 0x35}, {0x0b}},
	}
}

func c13PoolSubset(mask int) *c13Trie {
	var kv [][2][]byte
	for i, e := range c13Pool() {
		if mask>>i&1 == 1 {
			kv = append(kv, e)
		}
	}
	return c13Build(kv)
}

func hp(leaf bool, nib ...byte) []byte {
	f := byte(0)
	if leaf {
		f = 0x20
	}
	if len(nib)%2 == 1 {
		f, nib = f|0x10|nib[0], nib[1:]
	}
	out := []byte{f}
	for i := 0; i < len(nib); i += 2 {
		out = append(out, nib[i]<<4|nib[i+1])
	}
	return out
}

func enc(v any) hexb {
	b, err := rlp.EncodeToBytes(v)
	if err != nil {
		panic(err)
	}
	return b
}

func branchOf(kids map[int][]byte) hexb {
	items := make([]any, 17)
	for i := range items {
		items[i] = []byte{}
	}
	for i, h := range kids {
		items[i] = h
	}
	return enc(items)
}

// c13Assembled: a trie put together by hand. Every node hash-links to the root, but
// some are not what go-ethereum would produce:
//
//	3 -> X1: extension with compact key 00 (no nibbles) -> Y      [non-canonical]
//	4 -> X2: extension with an empty compact key        -> Y      [non-canonical]
//	5 -> L : leaf, key [7], whose 32-byte VALUE is keccak(B); B: branch, 7 -> C (leaf)
//	6 -> E : extension [1] with an empty child                    [non-canonical]
//	8 -> Y : leaf
//
// The claims are the paths an offerer would name for these nodes.
func c13Assembled() *c13Trie {
	long := bytes.Repeat([]byte{0xcc}, 40)
	y := enc([]any{hp(true, 1, 2), long})
	c := enc([]any{hp(true, 9), long})
	b := branchOf(map[int][]byte{7: crypto.Keccak256(c)})
	l := enc([]any{hp(true, 7), crypto.Keccak256(b)})
	x1 := enc([]any{[]byte{0x00}, crypto.Keccak256(y)})
	x2 := enc([]any{[]byte{}, crypto.Keccak256(y)})
	e := enc([]any{hp(false, 1), []byte{}})
	root := branchOf(map[int][]byte{3: crypto.Keccak256(x1), 4: crypto.Keccak256(x2), 5: crypto.Keccak256(l), 6: crypto.Keccak256(e), 8: crypto.Keccak256(y)})
	t := &c13Trie{nodes: map[string]hexb{"": root, "\x03": x1, "\x04": x2, "\x05": l, "\x06": e, "\x08": y}}
	return t.index()
}

// assembledClaims adds, to the per-node claims, the claims that run through the
// odd nodes: Y below the keyless extensions, C below the leaf L, Y below E.
func assembledClaims(name string, proto c13Case) []c13Base {
	t := c13Assembled()
	out := t.nodeClaims(name, proto, false, true)
	long := bytes.Repeat([]byte{0xcc}, 40)
	y := t.nodes["\x08"]
	c := enc([]any{hp(true, 9), long})
	b := branchOf(map[int][]byte{7: crypto.Keccak256(c)})
	for _, x := range []struct {
		what  string
		path  []byte
		proof []hexb
	}{
		{"Y below keyless extension X1", []byte{3}, []hexb{t.nodes[""], t.nodes["\x03"], y}},
		{"Y below keyless extension X2", []byte{4}, []hexb{t.nodes[""], t.nodes["\x04"], y}},
		{"C below B, linked only by the value of leaf L", []byte{5, 7}, []hexb{t.nodes[""], t.nodes["\x05"], b, c}},
		{"B, linked only by the value of leaf L", []byte{5}, []hexb{t.nodes[""], t.nodes["\x05"], b}},
		{"Y below childless extension E", []byte{6, 1}, []hexb{t.nodes[""], t.nodes["\x06"], y}},
	} {
		cs := proto.clone()
		cs.Base, cs.Op = name+" "+x.what, "genuine"
		cs.Path, cs.Proof, cs.Hash = x.path, x.proof, crypto.Keccak256(x.proof[len(x.proof)-1])
		out = append(out, c13Base{c: cs, ctx: c13Ctx{alts: []hexb{c13Unrelated, y}}, small: true})
	}
	return out
}

func c13Block(root []byte) (block, other hexb, roots map[string]hexb) {
	h := func(n int64, r []byte) hexb {
		hd := &types.Header{Number: big.NewInt(n), Difficulty: big.NewInt(0), Root: [32]byte(r)}
		return hexb(hd.Hash().Bytes())
	}
	r2 := crypto.Keccak256(root)
	block, other = h(17, root), h(18, r2)
	return block, other, map[string]hexb{block.String(): root, other.String(): r2}
}

// c13AddrHashes: n address hashes; the first two share their first byte (so that the
// account trie has an extension / a deeper branch), the rest are consecutive.
func c13AddrHashes(n int) [][]byte {
	h := func(i int) []byte { return crypto.Keccak256([]byte(fmt.Sprintf("c13-account-%d", i))) }
	seen := map[byte]int{}
	a, b := -1, -1
	for i := 0; a < 0; i++ {
		if j, ok := seen[h(i)[0]]; ok {
			a, b = j, i
		}
		seen[h(i)[0]] = i
	}
	out := [][]byte{h(a), h(b)}
	for i := 0; len(out) < n; i++ {
		if i != a && i != b {
			out = append(out, h(i))
		}
	}
	return out[:n]
}

func hashedSlots(n int) (kv [][2][]byte) {
	for i := 0; i < n; i++ {
		v, _ := rlp.EncodeToBytes(uint64(1000 + i))
		kv = append(kv, [2][]byte{crypto.Keccak256([]byte{byte(i), byte(i >> 8), 0x55}), v})
	}
	return
}

// c13World: an account trie of n accounts under one block. Accounts 0..3 are
// contracts: 0 = 100-byte code + the full structural pool as storage trie,
// 1 = 1-byte code + 20 hashed slots, 2 = 3000-byte code + one hashed slot,
// 3 = no code + the hand-assembled trie as storage; the others hold nothing.
func c13World(n int, small bool) (out []c13Base) {
	name := fmt.Sprintf("world%d", n)
	addrs := c13AddrHashes(n)
	asm := c13Assembled()
	stor := []*c13Trie{c13PoolSubset(63), c13Build(hashedSlots(20)), c13Build(hashedSlots(1)), asm}
	codes := [][]byte{bytes.Repeat([]byte{0x60, 0x01, 0x50, 0x5b}, 25), {0x00}, bytes.Repeat([]byte{0x5b, 0x60, 0xfe}, 1000), {}}
	var kv [][2][]byte
	for i, a := range addrs {
		acc := types.StateAccount{Nonce: uint64(i), Balance: uint256.NewInt(uint64(1_000_000 + i)), Root: types.EmptyRootHash, CodeHash: types.EmptyCodeHash[:]}
		if i < len(stor) {
			acc.Root, acc.CodeHash = [32]byte(stor[i].root), crypto.Keccak256(codes[i])
		}
		kv = append(kv, [2][]byte{a, enc(&acc)})
	}
	at := c13Build(kv)
	block, _, roots := c13Block(at.root)
	out = at.nodeClaims(name+" account trie", c13Case{Kind: 0x20, Block: block, Roots: roots}, true, small)

	var code, store [][]c13Base // per contract
	for i := 0; i < len(addrs) && i < 5; i++ {
		proto := c13Case{Addr: addrs[i], Acct: at.chain(nibblesOf(addrs[i])), Block: block, Roots: roots}
		bc := proto.clone()
		bc.Kind, bc.Base, bc.Op, bc.Code = 0x22, fmt.Sprintf("%s code of account %d", name, i), "genuine", []byte{}
		if i < len(codes) {
			bc.Code = codes[i]
		}
		bc.Hash = crypto.Keccak256(bc.Code)
		code = append(code, []c13Base{{c: bc, ctx: c13Ctx{alts: []hexb{c13Unrelated, at.nodes[at.order[len(at.order)-1]]}}, genuine: true, small: small}})
		if i >= len(stor) {
			continue
		}
		proto.Kind = 0x21
		sn := fmt.Sprintf("%s storage of account %d", name, i)
		if stor[i] == asm {
			store = append(store, assembledClaims(sn, proto))
		} else {
			store = append(store, stor[i].nodeClaims(sn, proto, true, small))
		}
	}
	for _, group := range [][][]c13Base{code, store} {
		for i, g := range group {
			for j := range g {
				g[j].small = small
				g[j].ctx.alts = append(g[j].ctx.alts, g[j].c.Acct[len(g[j].c.Acct)-1])
				if len(group) > 1 {
					g[j].ctx.other = &group[(i+1)%len(group)][0].c
				}
			}
			out = append(out, g...)
		}
	}
	return out
}

// c13Bases lists every genuine case in a fixed order.
func c13Bases(full bool) (out []c13Base) {
	for mask := 1; mask < 64; mask++ {
		t := c13PoolSubset(mask)
		block, _, roots := c13Block(t.root)
		out = append(out, t.nodeClaims(fmt.Sprintf("pool%06b", mask), c13Case{Kind: 0x20, Block: block, Roots: roots}, true, true)...)
	}
	asm := c13Assembled()
	block, _, roots := c13Block(asm.root)
	out = append(out, assembledClaims("assembled", c13Case{Kind: 0x20, Block: block, Roots: roots})...)
	sizes := []int{1, 4, 50}
	if full {
		sizes = append(sizes, 200, 500)
	}
	for _, n := range sizes {
		out = append(out, c13World(n, n <= 4)...)
	}
	return out
}
