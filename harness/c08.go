package main

import (
	"bytes"
	"context"
	"encoding/binary"
	"encoding/json"
	"fmt"
	"io"
	"net"
	"sync"
	"sync/atomic"
	"testing/synctest"
	"time"

	"github.com/ethereum/go-ethereum/p2p/enode"
	"github.com/ethereum/go-ethereum/p2p/enr"
	"github.com/ethereum/go-ethereum/rlp"
	utp "github.com/zen-eth/utp-go"

	"github.com/zen-eth/shisui/portalwire"
	"github.com/zen-eth/shisui/storage"
	"verifharness/mc"
)

// C08 — FINDCONTENT yields exactly the stored bytes, else closer peers, in one packet.
//
// Handler level (this file, E1): the full product of
//   stored content size {absent, 0, 1, T-1, T, T+1, T+2, 2048, 2049, 70 000} (T = the
//     inline threshold computed from the repository's constants)
//   x routing table {0, 1, 16, 272 = every bucket full} signed v4 records of
//     {minimal, 231, 232, 289, 290, 300 = ENR limit} bytes (4 or 5 records + offsets
//     end exactly at / just over the 1175 payload bytes)
//   x asker {not in the table, in the table, in the table with an older record}
//   x asker record {minimal, 300 bytes}
//   x every pairing of advertised version sets {0},{1},{0,1} that share a version
//   x content id {the asker's id, the responder's id, its complement, and - when the
//     content is absent - the id of each table entry (quick: one per bucket)}
// (thorough adds T-4..T+4, 2047, 2050, 4096, 65535, 65536 and 1 MiB to the sizes)
// on a fresh unstarted responder per case (map-backed store, identity content-id
// function, table filled through the table's own add handler) inside a synctest
// bubble. Its transfer service is the real UtpTransportService / utp-go socket over
// an in-process packet pipe instead of discv5 TALKREQ; the other end of the pipe is
// the socket of a second node, the asker, which feeds every reply to the real
// processContent — for a connection-id reply that dials the announced id and reads
// the stream, so "a goroutine is really accepting on that id" is observed as "the
// dial is answered and the stream, un-framed at the version the asker negotiated,
// equals the stored bytes".
// Not decided here (end-to-end part over the in-memory discv5 network): loss and
// reordering on the link, a dial that arrives before the accept is registered, the
// TALKREQ wrapping of uTP packets and talkRespOverhead against the real packet codec.

func init() {
	register(&Prop{ID: "C08", Level: "exploration", Run: runC08, Replay: replayC08,
		Workers: func(e *Env) int { return cpus() }, Procs: 1, CrashIsViolation: true,
		Budget: func(t string) time.Duration {
			if t == "thorough" {
				return 20 * time.Minute
			}
			return 5 * time.Minute
		}})
}

func runC08(r *mc.Report, e *Env) {
	r.Rule = "every case is one execution of the real handleFindContent on a fresh node, its reply judged against the store and the table and then fed to the real processContent of a second node (uTP transfers run between the two real sockets); distinct = distinct (branch, content size, records listed, reply length, negotiated version, asker placement, content id) observations"
	r.Assume("transfers run over a loss-free, in-order, in-process packet pipe between the two real uTP sockets (shared by the cases of a worker, as a node's sub-protocols share one transfer service), and the dial starts after the accept is registered")
	r.Assume("one discv5 packet carries maxPacketSize - talkRespOverhead TALKRESP payload bytes, both taken from the repository's constants (1280 - 103)")
	r.Assume("one responder and one asker identity; table records are v4-signed with loopback endpoints; content ids are 32 bytes (identity content-id function)")
	c08Handler(r, e) // the end-to-end part is a second call here
}

const (
	c08RespKey = 8
	c08AskKey  = 9
	c08Limit   = portalwire.VerifMaxPacketSize - portalwire.VerifTalkRespOverhead // largest TALKRESP payload in one discv5 packet
	c08Inline  = c08Limit - 2                                                     // message id + union selector
)

type c08Case struct {
	Size     int    `json:"size"`           // stored content length; -1: the node does not hold the key
	Table    int    `json:"table"`          // routing-table entries besides the asker: 0, 1, 16, 272
	RecSize  int    `json:"rec_size"`       // encoded size of every table record (0: minimal)
	Asker    string `json:"asker"`          // "absent" | "listed" | "listed-older-record"
	AskerRec int    `json:"asker_rec_size"` // encoded size of the asker's record (0: minimal)
	RespVers []int  `json:"responder_versions"`
	AskVers  []int  `json:"asker_versions"`
	Cid      string `json:"content_id"` // "asker" | "self" | "far" | "entry:<k>"
}

func c08Cases(thorough bool) []c08Case {
	sizes := []int{-1, 0, 1, c08Inline - 1, c08Inline, c08Inline + 1, c08Inline + 2, 2048, 2049, 70000}
	if thorough {
		sizes = append(sizes, c08Inline-4, c08Inline-3, c08Inline-2, c08Inline+3, c08Inline+4, 2047, 2050, 4096, 65535, 65536, 1<<20)
	}
	type tab struct{ n, rec int }
	tabs := []tab{{0, 0}}
	for _, n := range []int{1, 16, 272} {
		// k x (size+4) around 1175: 4 x 293 = 1172 | 4 x 294 = 1176, 5 x 235 = 1175 | 5 x 236 = 1180
		for _, rec := range []int{0, 231, 232, 289, 290, enr.SizeLimit} {
			tabs = append(tabs, tab{n, rec})
		}
	}
	sets := [][]int{{0}, {1}, {0, 1}}
	var out []c08Case
	for _, size := range sizes {
		for _, t := range tabs {
			cids := []string{"asker", "self", "far"}
			for k := 0; size < 0 && k < t.n; k++ { // the id of a table entry (quick: one per bucket of the full table)
				if thorough || t.n <= 16 || k%16 == 0 {
					cids = append(cids, fmt.Sprintf("entry:%d", k))
				}
			}
			for _, asker := range []string{"absent", "listed", "listed-older-record"} {
				for _, arec := range []int{0, enr.SizeLimit} {
					for _, rv := range sets {
						for _, av := range sets {
							if _, err := portalwire.VerifFindBiggestSameNumber(c08Vers(rv), c08Vers(av)); err != nil {
								continue
							}
							for _, cid := range cids {
								out = append(out, c08Case{size, t.n, t.rec, asker, arec, rv, av, cid})
							}
						}
					}
				}
			}
		}
	}
	return out
}

func c08Handler(r *mc.Report, e *Env) {
	cases := c08Cases(e.Thorough())
	r.Set("inline_threshold", c08Inline)
	r.Set("handler_cases", len(cases))
	var mine []c08Case
	for i, c := range cases {
		if e.Mine(i) {
			mine = append(mine, c)
		}
	}
	var expired atomic.Bool // the bubble's clock is not the deadline's
	defer time.AfterFunc(time.Until(e.Deadline), func() { expired.Store(true) }).Stop()
	c08Bubble(r, mine, func(c c08Case) bool {
		return !expired.Load() && e.Mark(func() string { b, _ := json.Marshal(c); return string(b) })
	})
}

func replayC08(r *mc.Report, e *Env, raw json.RawMessage) {
	var c c08Case
	if err := json.Unmarshal(raw, &c); err != nil {
		panic(err)
	}
	c08Bubble(r, []c08Case{c}, func(c08Case) bool { return true })
}

// c08Bubble runs the cases one after the other in one synctest bubble over one pair
// of uTP sockets (as the sub-protocols of a real node share one transfer service):
// utp-go never ends a socket's write loop, so every socket dropped would leave 24 MB
// of channel buffers behind.
func c08Bubble(r *mc.Report, cases []c08Case, admit func(c08Case) bool) {
	finished := false
	msg := inBubble(func() {
		w := c08NewWorld()
		defer w.close()
		for _, c := range cases {
			if !admit(c) {
				continue
			}
			// every wait in the code under test has a timeout; this is the net under a missing one
			watchdog := time.AfterFunc(time.Hour, func() { panic(fmt.Sprintf("c08: case %+v still running after a virtual hour", c)) })
			c08Exec(r, w, c)
			watchdog.Stop()
		}
		finished = true
	})
	if !finished {
		r.EngineError("C08: the bubble ended early: " + msg)
	}
}

func c08Vers(v []int) []uint8 {
	out := make([]uint8, len(v))
	for i, x := range v {
		out[i] = uint8(x)
	}
	return out
}

// ---- fixtures ----

// c08Deep: key indices whose node ids fall into buckets 0..8 of detKey(c08RespKey)'s
// table (found once by search, 2^-16..2^-9 of all keys each). They are only hints:
// c08Keys verifies every one and finds what is missing by scanning.
var c08Deep = []int{
	49294, 155222, 181699, 212670, 334131, 430370, 479928, 532651, 539961, 541563, 588605, 632194, 676859, 684355, 744227, 766340,
	84212, 141745, 165989, 265795, 311921, 365663, 392984, 425896, 626069, 714965, 752202, 768841, 802044, 836547, 838437, 965179,
	45111, 54943, 97725, 122691, 139758, 191615, 226826, 230255, 253615, 262579, 265881, 291234, 293055, 294417, 307200, 342017,
	7632, 10024, 50114, 54169, 60545, 77777, 82201, 97116, 119601, 120249, 137061, 152510, 162697, 175361, 215507, 219745,
	5073, 6510, 9116, 14629, 18423, 33430, 41402, 43930, 44809, 49028, 54870, 55798, 68423, 83069, 92497, 92904,
	1932, 2159, 4359, 4683, 5899, 20721, 27262, 37247, 38796, 38989, 49842, 50765, 55989, 57426, 57496, 62545,
	3039, 4328, 8060, 8693, 11250, 12413, 15509, 15614, 18814, 21134, 23496, 23992, 24164, 27458, 27593, 30669,
	1511, 2502, 2747, 4154, 4724, 6857, 7048, 8486, 8801, 9507, 10022, 10398, 11062, 11197, 14350, 15121,
	2100, 2221, 2404, 3153, 3360, 3648, 3915, 4385, 5501, 5931, 6477, 6480, 6854, 7600, 8439, 8957,
}

func c08ID(idx int) enode.ID { return enode.PubkeyToIDV4(&detKey(idx).PublicKey) }

// c08Keys: 16 key indices for each bucket of the responder's table.
var c08Keys = sync.OnceValue(func() *[portalwire.VNBuckets][]int {
	var keys [portalwire.VNBuckets][]int
	self, missing, seen := c08ID(c08RespKey), portalwire.VNBuckets*portalwire.VBucketSize, map[int]bool{}
	try := func(idx int) {
		b := max(enode.LogDist(self, c08ID(idx))-portalwire.VBucketMinDist-1, 0)
		if !seen[idx] && len(keys[b]) < portalwire.VBucketSize {
			keys[b] = append(keys[b], idx)
			missing--
		}
		seen[idx] = true
	}
	for _, idx := range c08Deep {
		try(idx)
	}
	for idx := 1000; missing > 0; idx++ {
		try(idx)
	}
	return &keys
})

// c08TableKeys: the key indices of a table of n entries, closest bucket first.
func c08TableKeys(n int) []int {
	keys := c08Keys()
	var out []int
	switch n {
	case 1:
		out = []int{keys[portalwire.VNBuckets-1][0]}
	case 16:
		for b := 0; b < 16; b++ {
			out = append(out, keys[b][0])
		}
	case 272:
		for b := range keys {
			out = append(out, keys[b]...)
		}
	}
	return out
}

var c08Recs, c08Sampled sync.Map

// c08Record: a signed v4 record of key idx whose RLP encoding is exactly size bytes
// long (0: no padding entry).
func c08Record(idx, size int, seq uint64, vers []uint8) *enode.Node {
	ck := fmt.Sprint(idx, size, seq, vers)
	if n, ok := c08Recs.Load(ck); ok {
		return n.(*enode.Node)
	}
	build := func(pad int) (*enode.Node, int) {
		entries := []enr.Entry{portalwire.Tag}
		if vers != nil {
			entries = append(entries, versEntry(vers))
		}
		if pad >= 0 {
			entries = append(entries, enr.WithEntry("zpad", bytes.Repeat([]byte{0xee}, pad)))
		}
		n := signedNode(detKey(idx), seq, net.IP{127, 0, 0, 1}, 2000+idx%60000, entries...)
		b, _ := rlp.EncodeToBytes(n.Record())
		return n, len(b)
	}
	n, got := build(-1)
	for pad := max(size-got-9, 0); size != 0 && got != size; pad++ {
		if pad > size {
			panic(fmt.Sprintf("c08: no padding gives a %d-byte record for key %d", size, idx))
		}
		n, got = build(pad)
	}
	c08Recs.Store(ck, n)
	return n
}

func c08Content(size int) []byte {
	b := make([]byte, size)
	for i := range b {
		b[i] = byte(i*7 + i>>8 + 3)
	}
	return b
}

type c08Peer string

func (p c08Peer) Hash() string { return string(p) }

// c08Pipe is one end of an in-process packet link between two uTP sockets.
type c08Pipe struct {
	in    chan []byte
	done  chan struct{}
	from  utp.ConnectionPeer // how the peer at the other end is known to this socket
	other *c08Pipe
}

func c08NewPipe(a, b enode.ID) (*c08Pipe, *c08Pipe) {
	pa := &c08Pipe{in: make(chan []byte, 4096), done: make(chan struct{}), from: c08Peer(b.String())}
	pb := &c08Pipe{in: make(chan []byte, 4096), done: make(chan struct{}), from: c08Peer(a.String())}
	pa.other, pb.other = pb, pa
	return pa, pb
}

func (c *c08Pipe) ReadFrom(b []byte) (int, utp.ConnectionPeer, error) {
	select {
	case pkt := <-c.in:
		return copy(b, pkt), c.from, nil
	case <-c.done:
		return 0, nil, io.EOF
	}
}

func (c *c08Pipe) WriteTo(b []byte, _ utp.ConnectionPeer) (int, error) {
	select {
	case c.other.in <- append([]byte{}, b...):
	case <-c.other.done:
	}
	return len(b), nil
}

func (c *c08Pipe) Close() error { close(c.done); return nil }

// c08SplitList splits an SSZ list of variable-size items (the body of an ENRs reply).
func c08SplitList(b []byte) ([][]byte, bool) {
	if len(b) == 0 {
		return nil, true
	}
	if len(b) < 4 {
		return nil, false
	}
	first := int(binary.LittleEndian.Uint32(b))
	if first == 0 || first%4 != 0 || first > len(b) {
		return nil, false
	}
	var out [][]byte
	for i, prev := first/4-1, len(b); i >= 0; i-- {
		o := int(binary.LittleEndian.Uint32(b[4*i:]))
		if o < first || o > prev {
			return nil, false
		}
		out = append([][]byte{b[o:prev]}, out...)
		prev = o
	}
	return out, true
}

// ---- one case ----

// c08World: the packet pipe and the two transfer services on it.
type c08World struct {
	pipeR, pipeA *c08Pipe
	utpR, utpA   *portalwire.UtpTransportService
}

func c08NewWorld() *c08World {
	w := &c08World{}
	w.pipeR, w.pipeA = c08NewPipe(c08ID(c08RespKey), c08ID(c08AskKey))
	w.utpR = portalwire.VerifNewUtpOverConnCfg(context.Background(), portalwire.DefaultPortalProtocolConfig(), w.pipeR)
	w.utpA = portalwire.VerifNewUtpOverConnCfg(context.Background(), portalwire.DefaultPortalProtocolConfig(), w.pipeA)
	return w
}

func (w *c08World) close() {
	w.utpR.Stop()
	w.utpA.Stop()
	w.pipeR.Close()
	w.pipeA.Close()
}

func c08Exec(r *mc.Report, w *c08World, c c08Case) {
	askerRec := c08Record(c08AskKey, c.AskerRec, 2, c08Vers(c.AskVers))
	var cid enode.ID
	switch c.Cid {
	case "asker":
		cid = askerRec.ID()
	case "self":
		cid = c08ID(c08RespKey)
	case "far":
		cid = c08ID(c08RespKey)
		for i := range cid {
			cid[i] = ^cid[i]
		}
	default:
		var k int
		fmt.Sscanf(c.Cid, "entry:%d", &k)
		cid = c08ID(c08TableKeys(c.Table)[k])
	}

	// responder: unstarted node, stub store, identity content id, real transfer service over the pipe
	st := storage.NewMockStorage()
	var stored []byte
	if c.Size >= 0 {
		stored = c08Content(c.Size)
		st.Put(cid[:], cid[:], stored)
	}
	resp := newBareNode(bareOpts{keyIdx: c08RespKey, versions: c08Vers(c.RespVers), store: st})
	defer resp.Close()
	resp.P.VerifSetContentIdFunc(func(k []byte) []byte { return k })
	resp.P.Utp = w.utpR
	vt := resp.initTable()
	vt.MarkInitDone()
	inTable := map[string]enode.ID{} // encoded record → id, for every entry of the table
	insert := func(n *enode.Node) {
		if vt.InsertDirect(n, true) {
			b, _ := rlp.EncodeToBytes(n.Record())
			inTable[string(b)] = n.ID()
		}
	}
	switch c.Asker {
	case "listed":
		insert(askerRec)
	case "listed-older-record":
		insert(c08Record(c08AskKey, enr.SizeLimit-c.AskerRec, 1, c08Vers(c.AskVers)))
	}
	others := 0
	for _, idx := range c08TableKeys(c.Table) {
		before := len(inTable)
		insert(c08Record(idx, c.RecSize, 1, nil))
		others += len(inTable) - before
	}

	// asker: a second node with a running table loop (processContent reports the responder to it)
	ask := newBareNode(bareOpts{keyIdx: c08AskKey, versions: c08Vers(c.AskVers)})
	avt := ask.initTable()
	avt.SetSource(&portalwire.VSource{Hold: int64(5000 * time.Hour), Next: func(string) int64 { return 0 }})
	go avt.Loop()
	defer avt.Close() // also closes the asker's node database
	ask.P.Utp = w.utpA

	version, _ := portalwire.VerifFindBiggestSameNumber(c08Vers(c.RespVers), c08Vers(c.AskVers))
	viol := func(clause, site, detail string) {
		r.Violation(clause, site, fmt.Sprintf("%s (case %+v)", detail, c), c)
	}

	var reply []byte
	var err error
	addr := &net.UDPAddr{IP: askerRec.IP(), Port: askerRec.UDP()}
	if msg, site := panicsTo(func() {
		reply, err = resp.P.VerifHandleFindContent(askerRec, addr, &portalwire.FindContent{ContentKey: cid[:]})
	}); msg != "" {
		viol("no-panic", site, "handleFindContent panicked: "+msg)
		return
	}
	if err != nil {
		viol("request-is-answered", "handleFindContent", "handler returned the error: "+err.Error())
		return
	}
	if len(reply) < 2 || reply[0] != portalwire.CONTENT {
		viol("reply-is-a-content-message", "handleFindContent", "reply "+hx(reply))
		return
	}
	branch := map[byte]string{portalwire.ContentRawSelector: "raw", portalwire.ContentConnIdSelector: "connection-id", portalwire.ContentEnrsSelector: "enrs"}[reply[1]]
	if branch == "" {
		viol("reply-is-a-content-message", "handleFindContent", "unknown union selector in "+hx(reply))
		return
	}
	r.Count(branch+"_replies", 1)
	r.Max("max_reply_len", int64(len(reply)))
	if len(reply) > c08Limit {
		viol("reply-fits-one-packet", branch, fmt.Sprintf("%s reply of %d bytes, one discv5 packet carries at most %d", branch, len(reply), c08Limit))
	}
	if c.Size < 0 && branch != "enrs" {
		viol("absent-content-yields-no-content", branch, "the node does not hold the key and answered "+hx(reply))
		return
	}
	if c.Size >= 0 && branch == "enrs" {
		viol("held-content-is-delivered", "enrs", fmt.Sprintf("the node holds %d bytes and answered with a record list", c.Size))
		return
	}

	listed := []enode.ID{}
	switch branch {
	case "raw":
		if !bytes.Equal(reply[2:], stored) {
			viol("inline-bytes-equal-stored", "handleFindContent", fmt.Sprintf("stored %s, reply carries %s", hx(stored), hx(reply[2:])))
			return
		}
	case "connection-id":
		if len(reply) != 4 {
			viol("connection-id-is-two-bytes", "handleFindContent", "reply "+hx(reply))
			return
		}
		if c.Size+2 <= c08Limit { // allowed by the statement: the bytes still arrive
			r.Count("model_drift_stream_for_content_that_fits", 1)
		}
		synctest.Wait() // the goroutine spawned by the handler has registered its accept
	case "enrs":
		items, ok := c08SplitList(reply[2:])
		if !ok {
			viol("reply-is-a-content-message", "enrs", "record list does not parse: "+hx(reply))
			return
		}
		r.Max("max_records_listed", int64(len(items)))
		prev := -1
		for i, it := range items {
			id, ok := inTable[string(it)]
			if !ok {
				viol("lists-only-table-records", "handleFindContent", fmt.Sprintf("record %d of the reply (%s) is not a record of the routing table", i, hx(it)))
				return
			}
			if id == askerRec.ID() {
				viol("never-the-askers-record", "handleFindContent", fmt.Sprintf("record %d of %d is the asker's", i, len(items)))
				return
			}
			d := enode.LogDist(id, cid)
			if d < prev {
				viol("non-decreasing-log-distance", "handleFindContent", fmt.Sprintf("record %d at log-distance %d follows one at %d", i, d, prev))
				return
			}
			prev = d
			listed = append(listed, id)
		}
		if len(items) == 0 && others > 0 {
			viol("closer-peers-are-listed", "handleFindContent", fmt.Sprintf("empty list although the table holds %d nodes besides the asker", others))
			return
		}
	}

	// asking side
	var sel byte
	var val interface{}
	if msg, site := panicsTo(func() { sel, val, err = ask.P.VerifProcessContent(resp.P.Self(), reply) }); msg != "" {
		viol("no-panic", site, "processContent panicked: "+msg)
		return
	}
	r.Count("asking_side_evaluations", 1)
	site := branch
	if branch == "connection-id" {
		site = fmt.Sprintf("stream-v%d", version)
	}
	got, _ := val.([]byte)
	nodes, _ := val.([]*enode.Node)
	ids := []enode.ID{}
	for _, n := range nodes {
		ids = append(ids, n.ID())
	}
	switch {
	case err != nil || sel != reply[1]:
		viol("peer-ends-up-with-what-was-sent", site, fmt.Sprintf("processContent: selector %#x, err=%v", sel, err))
		return
	case branch == "enrs" && fmt.Sprint(ids) != fmt.Sprint(listed):
		viol("peer-ends-up-with-what-was-sent", site, fmt.Sprintf("reply lists %d records, processContent returned %d nodes or another order", len(listed), len(ids)))
		return
	case branch != "enrs" && !bytes.Equal(got, stored):
		viol("peer-ends-up-with-stored-bytes", site, fmt.Sprintf("stored %s, the asker got %s", hx(stored), hx(got)))
		return
	}
	if branch == "connection-id" {
		r.Count("transfers_completed", 1)
		synctest.Wait() // both ends have finished the stream
	}
	r.Exec(fmt.Sprintf("%s/%d/%d/%d/v%d/%s/%s", branch, c.Size, len(listed), len(reply), version, c.Asker, c.Cid))
	if _, dup := c08Sampled.LoadOrStore(fmt.Sprint(branch, len(listed) > 3), true); !dup {
		r.Sample(map[string]any{"case": c, "branch": branch, "reply_len": len(reply), "records_listed": len(listed), "negotiated_version": version})
	}
}
