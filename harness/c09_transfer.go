package main

import (
	"fmt"
	"testing/synctest"
	"time"

	bitfield "github.com/OffchainLabs/go-bitfield"
	"github.com/ethereum/go-ethereum/p2p/enode"

	"github.com/zen-eth/shisui/portalwire"
	"verifharness/mc"
)

// ---- part 2: handleOfferedContents ----

func c09ContentsCases(thorough bool, emit func(c09Case)) {
	max := 3
	if thorough {
		max = 4
	}
	var rec func(items []int)
	rec = func(items []int) {
		for keys := 0; keys <= max; keys++ {
			for _, qfull := range []bool{false, true} {
				emit(c09Case{Part: "contents", Keys: keys, Items: append([]int{}, items...), QFull: qfull})
			}
		}
		if len(items) < max {
			for _, sz := range c09Sizes {
				rec(append(items, sz))
			}
		}
	}
	rec(nil)
	for _, n := range []int{63, 64} { // long lists: equal and off by one
		items := make([]int, n)
		for i := range items {
			items[i] = c09Sizes[i%3]
		}
		emit(c09Case{Part: "contents", Keys: 64, Items: items})
	}
}

func c09Contents(r *mc.Report, c c09Case) {
	bn := newBareNode(bareOpts{keyIdx: 9, queueCap: c09QueueCap})
	defer bn.Close()
	keys, items := make([][]byte, c.Keys), make([][]byte, len(c.Items))
	for i := range keys {
		keys[i] = fillBytes(32, byte(0xa0+i))
	}
	for i, sz := range c.Items {
		items[i] = fillBytes(sz, byte(i+1))
	}
	if c.QFull {
		c09FillQueue(bn)
	}
	var err error
	var pmsg, psite string
	done := make(chan struct{})
	go func() {
		defer close(done)
		pmsg, psite = panicsTo(func() { err = bn.P.VerifHandleOfferedContents(c09PeerID, keys, portalwire.VerifEncodeContents(items)) })
	}()
	synctest.Wait()
	select {
	case <-done:
	default:
		r.Violation("stream-handled-without-blocking", fmt.Sprintf("queue-full=%v", c.QFull), "handleOfferedContents is still blocked when every goroutine is idle", c)
		return
	}
	if pmsg != "" {
		r.Violation("no-panic", psite, "handleOfferedContents panicked: "+pmsg, c)
		return
	}
	got := c09Drain(bn)
	match := len(keys) == len(items)
	switch {
	case !match && len(got) != 0:
		r.Violation("different-item-count-discarded", "handleOfferedContents", fmt.Sprintf("%d keys, %d items: %d element(s) queued (err=%v)", len(keys), len(items), len(got), err), c)
		return
	case match && c.QFull:
		r.Count(fmt.Sprintf("contents_full_queue_dropped_err=%v", err != nil), 1) // reported, not judged
	case match && !(len(got) == 1 && c09Pairs(got[0], c09PeerID, keys, items)) && !(len(keys) == 0 && len(got) == 0): // nothing accepted: no element is fine too
		r.Violation("delivered-items-match-accepted-keys", "handleOfferedContents", fmt.Sprintf("%d keys, %d items: %d element(s) queued, not the given keys paired with the given items in order (err=%v)", len(keys), len(items), len(got), err), c)
		return
	}
	r.Exec(fmt.Sprintf("contents:%d:%v:q%v:queued%d:err%v", c.Keys, c.Items, c.QFull, len(got), err != nil))
}

// ---- part 3: the offering side, processOffer ----

var c09KindName = map[byte]string{portalwire.TransientOfferRequestKind: "transient", portalwire.TransientOfferRequestWithResultKind: "with-result", portalwire.PersistOfferRequestKind: "persist"}

func c09OfferingCases(thorough bool, emit func(c09Case)) {
	max := 3
	if thorough {
		max = 4
	}
	for _, kind := range []byte{portalwire.TransientOfferRequestKind, portalwire.TransientOfferRequestWithResultKind, portalwire.PersistOfferRequestKind} {
		for ver := 0; ver <= 1; ver++ {
			for n := 1; n <= max; n++ {
				if kind == portalwire.TransientOfferRequestWithResultKind && n > 1 {
					break
				}
				for _, shape := range []string{"empty", "wrong-code", "short", "bad-offset", "no-verdict-bytes", "fewer", "more", "declined", "unknown-codes"} {
					emit(c09Case{Part: "offering", Kind: kind, Ver: ver, N: n, Shape: shape})
				}
				for mask := uint(1); mask < 1<<uint(n); mask++ {
					emit(c09Case{Part: "offering", Kind: kind, Ver: ver, N: n, Shape: "subset", Mask: mask})
				}
			}
		}
	}
}

// c09VerdictBytes encodes n verdicts accepting the keys in mask: a bit list (v0) or
// per-key codes (v1; the declined positions carry the decline codes 1..6 in turn).
func c09VerdictBytes(ver, n int, mask uint, declineCode func(i int) byte) []byte {
	if ver == 0 {
		bl := bitfield.NewBitlist(uint64(n))
		for _, i := range c09Mask(n, mask) {
			bl.SetBitAt(uint64(i), true)
		}
		return bl
	}
	codes := make([]byte, n)
	for i := range codes {
		if mask>>uint(i)&1 == 0 {
			codes[i] = declineCode(i)
		}
	}
	return codes
}

// c09Reply builds the talk response of the given shape; wellFormed = a decodable ACCEPT
// with exactly n verdicts.
func c09Reply(c c09Case, connId uint16) (resp []byte, wellFormed bool) {
	cycle := func(i int) byte { return byte(1 + i%6) }
	msg := func(code byte, offset byte, verdicts []byte) []byte {
		return append([]byte{code, byte(connId >> 8), byte(connId), offset, 0, 0, 0}, verdicts...)
	}
	all := uint(1)<<uint(c.N) - 1
	switch c.Shape {
	case "empty":
		return []byte{}, false
	case "wrong-code":
		return msg(portalwire.CONTENT, 6, c09VerdictBytes(c.Ver, c.N, all, cycle)), false
	case "short":
		return []byte{portalwire.ACCEPT, 0x12, 0x34}, false
	case "bad-offset":
		return msg(portalwire.ACCEPT, 7, c09VerdictBytes(c.Ver, c.N, all, cycle)), false
	case "no-verdict-bytes": // v0: a bit list without its length bit is undecodable; v1: zero verdicts
		return msg(portalwire.ACCEPT, 6, nil), false
	case "fewer":
		return msg(portalwire.ACCEPT, 6, c09VerdictBytes(c.Ver, c.N-1, all>>1, cycle)), false
	case "more":
		return msg(portalwire.ACCEPT, 6, c09VerdictBytes(c.Ver, c.N+1, all<<1|1, cycle)), false
	case "declined":
		return msg(portalwire.ACCEPT, 6, c09VerdictBytes(c.Ver, c.N, 0, cycle)), true
	case "unknown-codes": // v1 only differs from "declined": codes outside the defined range
		return msg(portalwire.ACCEPT, 6, c09VerdictBytes(c.Ver, c.N, 0, func(i int) byte { return byte(200 + i) })), true
	}
	return msg(portalwire.ACCEPT, 6, c09VerdictBytes(c.Ver, c.N, c.Mask, cycle)), true
}

func c09Offering(r *mc.Report, nw *c09Net, c c09Case) {
	bn, st := c09Node(nw, 2)
	vt := bn.initTable()
	go vt.Loop() // processOffer hands the target to the table loop
	defer vt.Close()
	keys := make([][]byte, c.N)
	var entries []*portalwire.ContentEntry
	for i := range keys {
		keys[i] = c09Key(enode.ID{}, i, 0)
		st.items[string(keys[i])] = c09Content(i + 1)
		entries = append(entries, &portalwire.ContentEntry{ContentKey: keys[i], Content: c09Content(i + 1)})
	}
	req := &portalwire.OfferRequest{Kind: c.Kind}
	switch c.Kind {
	case portalwire.TransientOfferRequestKind:
		req.Request = &portalwire.TransientOfferRequest{Contents: entries}
	case portalwire.TransientOfferRequestWithResultKind:
		req.Request = &portalwire.TransientOfferRequestWithResult{Content: entries[0], Result: make(chan *portalwire.OfferTrace, 1)} // buffered like api.go's
	default:
		req.Request = &portalwire.PersistOfferRequest{ContentKeys: keys}
	}
	nw.seq += 4
	connId := 0x2000 + nw.seq
	resp, wellFormed := c09Reply(c, connId)
	permit := &c09Permit{}
	tag := fmt.Sprintf("%s:v%d", c09KindName[c.Kind], c.Ver)
	sent0 := nw.nodeEnd.sent.Load()
	var err error
	if msg, site := panicsTo(func() {
		_, err = bn.P.VerifProcessOffer(c09PeerRec([]int{c.Ver}), resp, req, permit)
	}); msg != "" {
		r.Violation("no-panic", site, "processOffer panicked: "+msg, c)
		return
	}
	fail := func(clause, site, detail string) {
		r.Violation(clause, site, detail, c)
		time.Sleep(c09Settle)
	}
	var want [][]byte
	if wellFormed {
		for _, i := range c09Mask(c.N, c.Mask) {
			want = append(want, c09Content(i+1))
		}
	}
	outcome := "no-transfer"
	if len(want) > 0 {
		data, aerr := nw.accept(connId)
		if aerr != nil {
			fail("offerer-sends-contents-of-accepted-keys", tag+":no-transfer", fmt.Sprintf("reply accepts keys %v on id %04x (processOffer err=%v) but no stream arrives: %v", c09Mask(c.N, c.Mask), connId, err, aerr))
			return
		}
		if items, derr := portalwire.VerifDecodeContents(data); derr != nil || !eqLists(items, want) {
			fail("offerer-sends-contents-of-accepted-keys", tag+":wrong-items", fmt.Sprintf("reply accepts keys %v: streamed %d bytes = %d items (decode err %v), expected the %d offered contents of those keys in order", c09Mask(c.N, c.Mask), len(data), len(items), derr, len(want)))
			return
		}
		outcome = "sent-exactly-the-accepted"
	} else {
		synctest.Wait()
		time.Sleep(5 * time.Second)
		if d := nw.nodeEnd.sent.Load() - sent0; d != 0 {
			fail("no-transfer-without-valid-acceptance", tag+":"+c.Shape, fmt.Sprintf("reply shape %q (processOffer err=%v): the node sent %d uTP packets", c.Shape, err, d))
			return
		}
	}
	time.Sleep(c09Settle)
	trace := "-"
	if w, ok := req.Request.(*portalwire.TransientOfferRequestWithResult); ok && len(w.Result) > 0 {
		trace = fmt.Sprint((<-w.Result).Type)
	}
	rel := permit.n.Load() // C16's clause; reported only
	r.Count(fmt.Sprintf("offering_permit_release_calls=%d", rel), 1)
	if rel == 0 {
		r.Count("offering_permit_never_released:"+c.Shape+":"+tag, 1)
	}
	r.Exec(fmt.Sprintf("offering:%s:n%d:%s:%b:err%v:%s:trace%s:rel%d", tag, c.N, c.Shape, c.Mask, err != nil, outcome, trace, rel))
}
