package main

import (
	"bytes"
	"context"
	"crypto/sha256"
	"encoding/json"
	"fmt"
	"net"
	"net/netip"
	"slices"
	"sort"
	"strings"
	"sync"
	"sync/atomic"
	"testing/synctest"
	"time"

	"github.com/ethereum/go-ethereum/p2p/discover"
	"github.com/ethereum/go-ethereum/p2p/enode"
	"github.com/ethereum/go-ethereum/p2p/enr"
	"github.com/holiman/uint256"
	"github.com/zen-eth/shisui/portalwire"
	pingext "github.com/zen-eth/shisui/portalwire/ping_ext"
	"github.com/zen-eth/shisui/storage"
	"verifharness/mc"
)

// C20 — gossip goes to at most eight covered peers and never back to the source.
//
// (1) selection: an unstarted node whose table holds n signed records, n in {0,1,3,4,5,8,9,
//     12,33,40}; per table node the radius is unknown / covers / does not cover the content
//     id (all 3^n assignments for n <= 8, thorough n <= 9; banded patterns above), installed
//     only by real ping / pong processing; source none / stranger / nearest covered / fifth
//     covered node; 3 content ids (thorough 6); tight (distance+-1) and loose (max / 0)
//     radii; every outcome of the shuffle of the farther candidates for n <= 9 (scripted
//     source), five structured shuffles above; 50 or 3 free transfer slots. Oracle = the
//     clauses of the statement (c20Judge) on the returned peers and the queued offers.
// (2) bookkeeping: every sequence of <= 3 (thorough 4) {ping,pong} x {client-info, basic-
//     radius, history-radius, error} x {r1,r2} from one table node, on the history, state and
//     beacon networks: the cache holds the last radius reported in a supported type, gossip
//     uses it, and the pong we send carries our store's radius and our ENR sequence number.
// (3) the same bookkeeping for a node whose bucket is full (c20_repl.go): its first contact parks it
//     in the bucket's replacement list, bucket entries are removed, it is promoted; (4) long-lived
//     part (c20_long.go).

func init() {
	register(&Prop{ID: "C20", Level: "exploration", Run: runC20, Replay: replayC20,
		Workers: func(e *Env) int { return minInt(cpus(), 12) }, Procs: 1, CrashIsViolation: true,
		Budget: func(t string) time.Duration {
			if t == "thorough" {
				return 20 * time.Minute
			}
			return 5 * time.Minute
		}})
}

// c20Expired is raised by a timer started outside the bubbles (time is virtual inside them).
var c20Expired atomic.Bool

type c20Case struct {
	Kind   string   `json:"kind"` // "select" | "radius" | "repl" (c20_repl.go) | "long" (c20_long.go)
	N      int      `json:"n"`
	Limit  int      `json:"limit"` // outbound transfer slots
	Cid    int      `json:"cid"`
	States string   `json:"states,omitempty"` // per table node, nearest the content id first: u unknown, c covers, x does not cover
	Src    string   `json:"src,omitempty"`    // none | stranger | cov0 | cov4 (nearest / fifth-nearest covered table node)
	Loose  bool     `json:"loose,omitempty"`  // radii max / 0 instead of distance+1 / distance-1
	Script []uint32 `json:"script,omitempty"` // the 32-bit draws answered to the shuffle
	// AllShuffles: the case stands for every outcome of the shuffle (reachability clause)
	AllShuffles bool     `json:"all_shuffles,omitempty"`
	Proto       string   `json:"proto,omitempty"`
	Seq         []string `json:"seq,omitempty"` // radius: events "ping|pong:<payload type>:r1|r2"
}

var c20Protos = map[string]portalwire.ProtocolId{"history": portalwire.History, "state": portalwire.State, "beacon": portalwire.Beacon}

// which radius-carrying payload types each network supports (ping_extension.go)
var c20Carries = map[string]map[uint16]bool{
	"history": {pingext.ClientInfo: true, pingext.HistoryRadius: true},
	"state":   {pingext.ClientInfo: true, pingext.BasicRadius: true},
	"beacon":  {pingext.ClientInfo: true, pingext.BasicRadius: true},
}

// c20Conn is the connection handed to NewZenEthUtp, which only asks for its address.
type c20Conn struct{}

func (c20Conn) ReadFromUDPAddrPort([]byte) (int, netip.AddrPort, error) {
	return 0, netip.AddrPort{}, net.ErrClosed
}
func (c20Conn) WriteToUDPAddrPort(b []byte, _ netip.AddrPort) (int, error) { return len(b), nil }
func (c20Conn) Close() error                                               { return nil }
func (c20Conn) LocalAddr() net.Addr                                        { return &net.UDPAddr{IP: net.IP{127, 0, 0, 1}, Port: 9020} }

// c20Source is the table's random source: while a script is loaded its entries answer the
// 32-bit draws Shuffle makes; everything else comes from a splitmix sequence that load restarts
// (so a case plays the same draws in the explorer and in a replay).
type c20Source struct {
	mu     sync.Mutex
	script []uint32
	ctr    uint64
}

func (s *c20Source) Int63() int64 {
	s.mu.Lock()
	defer s.mu.Unlock()
	if len(s.script) > 0 {
		v := s.script[0]
		s.script = s.script[1:]
		return int64(v) << 31
	}
	s.ctr += 0x9e3779b97f4a7c15
	z := s.ctr
	z = (z ^ z>>30) * 0xbf58476d1ce4e5b9
	z = (z ^ z>>27) * 0x94d049bb133111eb
	return int64((z ^ z>>31) >> 1)
}
func (s *c20Source) Seed(int64) {}
func (s *c20Source) load(v []uint32) {
	s.mu.Lock()
	s.script, s.ctr = append([]uint32{}, v...), 0
	s.mu.Unlock()
}

// c20Scripts: for n <= 9 every outcome of Shuffle(m) (draws int31n(m), ..., int31n(2); the
// draw v = (j+1/2)*2^32/k yields j without rejection); above, five structured draw patterns.
func c20Scripts(n, m int) [][]uint32 {
	if m < 2 {
		return [][]uint32{nil}
	}
	if n > 9 {
		rep := func(vs ...uint32) []uint32 {
			s := make([]uint32, 40)
			for i := range s {
				s[i] = vs[i%len(vs)]
			}
			return s
		}
		return [][]uint32{nil, rep(0x100), rep(0xffffff00), rep(0x80000100), rep(0x100, 0xffffff00)}
	}
	out := [][]uint32{{}}
	for k := m; k >= 2; k-- {
		var next [][]uint32
		for _, s := range out {
			for j := 0; j < k; j++ {
				next = append(next, append(append([]uint32{}, s...), uint32((uint64(2*j+1)<<31)/uint64(k))))
			}
		}
		out = next
	}
	return out
}

var c20Tables = map[string][]*enode.Node{}

// c20Table: the first n deterministic keys that fit the buckets of self (16 per log
// distance; for n = 33: 16 + 16 + a single node in the farthest bucket, so that for a
// content id next to self the 33rd-nearest node is unique).
func c20Table(self enode.ID, n int) []*enode.Node {
	key := fmt.Sprintf("%x/%d", self[:4], n)
	if t, ok := c20Tables[key]; ok {
		return t
	}
	taken := map[int]int{}
	var out []*enode.Node
	for i := 0; len(out) < n; i++ {
		k := detKey(2000 + i)
		d := enode.LogDist(self, enode.PubkeyToIDV4(&k.PublicKey))
		room := 16
		if n == 33 && d == 256 {
			room = 1
		}
		if d < 254 || taken[d] >= room {
			continue
		}
		taken[d]++
		out = append(out, signedNode(k, 1, net.IP{127, 0, 0, 1}, 20000+i))
	}
	c20Tables[key] = out
	return out
}

type c20Fix struct {
	proto string
	n     int
	limit int
	bn    *bareNode
	vt    *portalwire.VTable
	rs    *c20Source
	st    *fixedRadiusStore
	nodes []*enode.Node
	d5    *discover.UDPv5
	conn  *mconn
	x     *enode.Node // replacement-list part: the reporting node (not one of nodes)
}

// newC20Fix must run inside a bubble: the table loop is started (gossip reads the
// table only once its initial refresh is done, and pong processing goes through it).
func newC20Fix(proto string, n, limit int) *c20Fix { return newC20FixConf(proto, n, limit, nil) }

func newC20FixConf(proto string, n, limit int, conf *portalwire.PortalProtocolConfig) *c20Fix {
	st := &fixedRadiusStore{ContentStorage: storage.NewMockStorage(), radius: new(uint256.Int).SetAllOne()}
	bn := newBareNode(bareOpts{keyIdx: c20KeyIdx, proto: c20Protos[proto], store: st, conf: conf})
	bn.P.Utp = portalwire.NewZenEthUtp(context.Background(), &portalwire.PortalProtocolConfig{MaxUtpConnSize: limit}, nil, c20Conn{})
	bn.P.VerifSetContentIdFunc(func(k []byte) []byte { return k })
	// a real discv5 endpoint on a wire that loses every datagram: a record refresh (a ping or
	// pong announcing a newer ENR sequence number triggers one) goes out and times out
	w := newWire()
	w.immediate, w.mute = true, true
	conn := w.listen("127.0.0.1", 9020)
	d5, err := discover.ListenV5(conn, bn.LN, quietD5Config(bn.Key, nil))
	if err != nil {
		panic(err)
	}
	bn.P.DiscV5 = d5
	f := &c20Fix{proto: proto, n: n, limit: limit, bn: bn, vt: bn.initTable(), rs: &c20Source{}, st: st, d5: d5, conn: conn}
	f.vt.SetSource(f.rs)
	go f.vt.Loop()
	synctest.Wait()
	f.nodes = c20Table(bn.P.Self().ID(), n)
	for _, nd := range f.nodes {
		if !f.vt.InsertDirect(nd, true) {
			panic("C20 fixture: the table refused a node")
		}
	}
	return f
}

func (f *c20Fix) close() { // stops the loop and closes the node database
	f.d5.Close()
	f.conn.Close()
	f.vt.Close()
}

// cid: content id k. 0, 3: next to the first / last table node; 1: next to the local node (log
// distances are the bucket distances: large tie groups); 2: unrelated; 4, 5: all zeros / ones.
func (f *c20Fix) cid(k int) []byte {
	id := enode.ID(sha256.Sum256([]byte("verif-C20-content")))
	switch {
	case k == 0 && f.n > 0:
		id = f.nodes[0].ID()
		id[31] ^= 1
	case k == 3 && f.n > 0:
		id = f.nodes[f.n-1].ID()
		id[31] ^= 1
	case k == 1:
		id = f.bn.P.Self().ID()
		id[31] ^= 1
	case k >= 4:
		id = enode.ID(bytes.Repeat([]byte{byte(4 - k)}, 32))
	}
	return id[:]
}

func c20Dist(id enode.ID, cid []byte) *uint256.Int {
	var x [32]byte
	for i := range x {
		x[i] = id[i] ^ cid[i]
	}
	return new(uint256.Int).SetBytes32(x[:])
}

func c20SSZ(v *uint256.Int) []byte {
	b, err := v.MarshalSSZ()
	if err != nil {
		panic(err)
	}
	return b
}

// rank: table indices ordered by XOR distance to cid (hence by log distance first).
func (f *c20Fix) rank(cid []byte) []int {
	idx := make([]int, len(f.nodes))
	for i := range idx {
		idx[i] = i
	}
	sort.Slice(idx, func(a, b int) bool { return c20Dist(f.nodes[idx[a]].ID(), cid).Lt(c20Dist(f.nodes[idx[b]].ID(), cid)) })
	return idx
}

func c20Payload(typ uint16, radius []byte) []byte {
	var b []byte
	var err error
	switch typ {
	case pingext.ClientInfo:
		b, err = pingext.NewClientInfoAndCapabilitiesPayload(radius, []uint16{0, 1, 2, 65535}).MarshalSSZ()
	case pingext.BasicRadius:
		b, err = pingext.NewBasicRadiusPayload(radius).MarshalSSZ()
	case pingext.HistoryRadius:
		b, err = pingext.NewHistoryRadiusPayload(radius, 3).MarshalSSZ()
	default:
		b = pingext.GetErrorPayloadBytes(pingext.ErrorNotSupported)
	}
	if err != nil {
		panic(err)
	}
	return b
}

func (f *c20Fix) ping(nd *enode.Node, typ uint16, radius []byte) ([]byte, error) {
	return f.pingSeq(nd, nd.Seq(), typ, radius)
}

func (f *c20Fix) pingSeq(nd *enode.Node, seq uint64, typ uint16, radius []byte) ([]byte, error) {
	return f.bn.P.VerifHandlePing(nd.ID(), &portalwire.Ping{EnrSeq: seq, PayloadType: typ, Payload: c20Payload(typ, radius)})
}

// pong: what processPong returns (an error for an unsupported type) is not something the statement speaks about.
// talkPing delivers the ping as a TALKREQ from nd's endpoint.
func (f *c20Fix) talkPing(nd *enode.Node, seq uint64, typ uint16, radius []byte) []byte {
	b, err := (&portalwire.Ping{EnrSeq: seq, PayloadType: typ, Payload: c20Payload(typ, radius)}).MarshalSSZ()
	if err != nil {
		panic(err)
	}
	return f.bn.P.VerifHandleTalkRequest(nd, &net.UDPAddr{IP: nd.IP(), Port: nd.UDP()}, append([]byte{portalwire.PING}, b...))
}

func (f *c20Fix) pong(nd *enode.Node, typ uint16, radius []byte) {
	f.pongSeq(nd, nd.Seq(), typ, radius)
}

func (f *c20Fix) pongSeq(nd *enode.Node, seq uint64, typ uint16, radius []byte) {
	b, err := (&portalwire.Pong{EnrSeq: seq, PayloadType: typ, Payload: c20Payload(typ, radius)}).MarshalSSZ()
	if err != nil {
		panic(err)
	}
	f.bn.P.VerifProcessPong(nd, append([]byte{portalwire.PONG}, b...))
}

// gossip runs the real gossip with the scripted shuffle and takes the queued offers back out.
func (f *c20Fix) gossip(src *enode.ID, script []uint32, keys, contents [][]byte) (got []enode.ID, offers []*portalwire.OfferRequestWithNode, err error) {
	f.vt.SetSource(f.rs)
	f.rs.load(script)
	peers, err := f.bn.P.GossipAndReturnPeers(src, keys, contents)
	f.rs.load(nil)
	for _, p := range peers {
		got = append(got, p.ID())
	}
	offers = f.bn.P.VerifDrainOfferQueue()
	for _, o := range offers {
		o.VerifPermit().Release()
	}
	return got, offers, err
}

// c20Judge evaluates the selection clauses of the statement on the chosen nodes. ids and
// st ('u','c','x': last reported radius unknown / covers / does not cover) describe the
// table; ties in log distance may be broken either way, at the 32-nearest cut as well.
func c20Judge(ids []enode.ID, st []byte, src *enode.ID, cid []byte, got []enode.ID) (clause, detail string) {
	n := len(ids)
	ld := make([]int, n)
	at := map[enode.ID]int{}
	for i, id := range ids {
		ld[i] = c20Dist(id, cid).BitLen()
		at[id] = i
	}
	if len(got) > 8 {
		return "at-most-eight", fmt.Sprintf("%d peers chosen", len(got))
	}
	cut, slack, inCut := 257, 0, 0 // beyond the 32 nearest: ld > cut; of the nodes at ld == cut at most slack belong
	if n > 32 {
		s := append([]int{}, ld...)
		sort.Ints(s)
		cut = s[31]
		slack = 32
		for _, d := range ld {
			if d < cut {
				slack--
			}
		}
	}
	chosen := map[int]bool{}
	for _, g := range got {
		i, ok := at[g]
		switch {
		case !ok:
			return "among-32-nearest-table-nodes", fmt.Sprintf("%s is not a table node", g.TerminalString())
		case chosen[i]:
			return "each-peer-once", fmt.Sprintf("table node %d chosen twice", i)
		case src != nil && g == *src:
			return "never-the-source", fmt.Sprintf("table node %d is the source of the content", i)
		case st[i] == 'u':
			return "never-unknown-radius", fmt.Sprintf("table node %d never reported a radius", i)
		case st[i] == 'x':
			return "radius-covers-content", fmt.Sprintf("table node %d last reported a radius below its distance to the content", i)
		case ld[i] > cut:
			return "among-32-nearest-table-nodes", fmt.Sprintf("table node %d is at log distance %d, the 32nd-nearest at %d", i, ld[i], cut)
		}
		chosen[i] = true
		if n > 32 && ld[i] == cut {
			inCut++
		}
	}
	if n > 32 && inCut > slack {
		return "among-32-nearest-table-nodes", fmt.Sprintf("%d peers at log distance %d chosen, only %d of that group are among the 32 nearest", inCut, cut, slack)
	}
	var sure []int // eligible nodes that belong to the 32 nearest however ties are broken
	outCut := 0    // nodes of the cut group that are not eligible
	for i := range ids {
		elig := st[i] == 'c' && (src == nil || ids[i] != *src)
		if elig && (n <= 32 || ld[i] < cut) {
			sure = append(sure, i)
		}
		if n > 32 && ld[i] == cut && !elig {
			outCut++
		}
	}
	sort.Slice(sure, func(a, b int) bool { return ld[sure[a]] < ld[sure[b]] })
	d4 := 257
	if len(sure) >= 4 {
		d4 = ld[sure[3]]
	}
	near := 0
	for i := range chosen {
		if ld[i] <= d4 {
			near++
		}
	}
	for _, i := range sure {
		if (len(sure) <= 4 || ld[i] < d4) && !chosen[i] {
			return "four-nearest-covered", fmt.Sprintf("table node %d (log distance %d) is among the four nearest covered nodes and was not chosen", i, ld[i])
		}
	}
	if len(sure) >= 4 && near < 4 {
		return "four-nearest-covered", fmt.Sprintf("only %d chosen peers are within log distance %d of the fourth-nearest covered node", near, d4)
	}
	if len(sure) < 4 && n > 32 && inCut < minInt(4-len(sure), slack-outCut) {
		return "four-nearest-covered", fmt.Sprintf("%d covered nodes below the cut chosen plus %d at the cut; at least %d covered nodes of the cut group are among the 32 nearest", len(sure), inCut, slack-outCut)
	}
	return "", ""
}

func c20SizeClass(n int) string {
	switch {
	case n <= 4:
		return "table-le-4"
	case n <= 32:
		return "table-le-32"
	}
	return "table-gt-32"
}

// c20Batch: the content id is the first key (identity content-id function); cid k carries k+1 items.
func c20Batch(cid []byte, k int) (keys, contents [][]byte) {
	for i := 0; i <= k; i++ {
		key := append([]byte{}, cid...)
		key[0] ^= byte(i) << 4
		keys = append(keys, key)
		contents = append(contents, bytes.Repeat([]byte{byte(0xa0 + i)}, 10+i))
	}
	return
}

func c20JudgeOffers(got []enode.ID, offers []*portalwire.OfferRequestWithNode, limit int, keys, contents [][]byte) string {
	if want := minInt(limit, len(got)); len(offers) != want {
		return fmt.Sprintf("%d offers queued for %d chosen peers with %d free slots", len(offers), len(got), limit)
	}
	seen := map[enode.ID]bool{}
	for _, o := range offers {
		id := o.Node.ID()
		ok := false
		for _, g := range got {
			ok = ok || g == id
		}
		if !ok || seen[id] {
			return fmt.Sprintf("offer queued for %s which is not a (distinct) chosen peer", id.TerminalString())
		}
		seen[id] = true
		tr, isTr := o.Request.Request.(*portalwire.TransientOfferRequest)
		if !isTr || o.Request.Kind != portalwire.TransientOfferRequestKind || len(tr.Contents) != len(keys) {
			return fmt.Sprintf("offer for %s does not carry the %d-item batch", id.TerminalString(), len(keys))
		}
		for i, ce := range tr.Contents {
			if !bytes.Equal(ce.ContentKey, keys[i]) || !bytes.Equal(ce.Content, contents[i]) {
				return fmt.Sprintf("offer for %s: item %d differs from the batch", id.TerminalString(), i)
			}
		}
	}
	return ""
}

// c20RunSelect executes one selection case; ok=false: the fixture must be rebuilt.
// ps: the chosen peers as positions in the nearest-first order of the table.
func c20RunSelect(r *mc.Report, f *c20Fix, c c20Case) (ok bool, ps []int) {
	cid := f.cid(c.Cid)
	rank := f.rank(cid)
	ids, st := make([]enode.ID, f.n), make([]byte, f.n)
	var cov []int
	for p, i := range rank {
		ids[i], st[i] = f.nodes[i].ID(), c.States[p]
		if st[i] == 'c' {
			cov = append(cov, i)
		}
	}
	var src *enode.ID
	switch c.Src {
	case "stranger":
		id := enode.PubkeyToIDV4(&detKey(1999).PublicKey)
		src = &id
	case "cov0":
		src = &ids[cov[0]]
	case "cov4":
		src = &ids[cov[4]]
	}
	keys, contents := c20Batch(cid, c.Cid)
	site := "GossipAndReturnPeers:" + c20SizeClass(f.n)
	var got []enode.ID
	var offers []*portalwire.OfferRequestWithNode
	var err error
	if msg, psite := panicsTo(func() {
		f.bn.P.VerifResetPeerCaches()
		max := new(uint256.Int).SetAllOne()
		for i, nd := range f.nodes {
			d := c20Dist(nd.ID(), cid)
			in, out := new(uint256.Int).AddUint64(d, 1), new(uint256.Int).SubUint64(d, 1)
			if c.Loose {
				in, out = max, new(uint256.Int)
			}
			typ := []uint16{pingext.ClientInfo, pingext.HistoryRadius}[i/2%2]
			radius := c20SSZ(map[byte]*uint256.Int{'c': in, 'x': out, 'u': in}[st[i]])
			switch {
			case st[i] == 'u' && i%2 == 0: // never heard of
			case st[i] == 'u': // a covering radius, but in a payload type this network does not support
				f.ping(nd, pingext.BasicRadius, radius)
			case i%2 == 0:
				f.ping(nd, typ, radius)
			default:
				f.pong(nd, typ, radius)
			}
		}
		synctest.Wait() // the ping is processed in a goroutine of its own
		got, offers, err = f.gossip(src, c.Script, keys, contents)
	}); msg != "" {
		r.Violation("no-panic", psite, msg, c)
		return false, nil
	}
	if clause, detail := c20Judge(ids, st, src, cid, got); clause != "" {
		if clause == "never-the-source" {
			site += ":src-" + c.Src
		}
		r.Violation(clause, site, fmt.Sprintf("n=%d states(nearest first)=%s src=%s cid#%d err=%v: %s", f.n, c.States, c.Src, c.Cid, err, detail), c)
		return true, nil
	}
	if d := c20JudgeOffers(got, offers, f.limit, keys, contents); d != "" {
		r.Violation("one-offer-with-whole-batch-per-peer", site, fmt.Sprintf("n=%d states=%s src=%s: %s", f.n, c.States, c.Src, d), c)
		return true, nil
	}
	pos := map[enode.ID]int{}
	for p, i := range rank {
		pos[ids[i]] = p
	}
	for _, g := range got {
		ps = append(ps, pos[g])
	}
	sort.Ints(ps)
	elig := len(cov)
	if c.Src == "cov0" || c.Src == "cov4" {
		elig--
	}
	if len(got) < minInt(8, elig) && f.n <= 32 { // "up to 4" others: fewer is not a violation
		r.Count("model_drift_fewer_peers_than_eligible", 1)
	}
	if err != nil {
		r.Count("gossip_returned_error", 1)
	}
	r.Count(fmt.Sprintf("select_cases_with_%d_peers", len(got)), 1)
	if f.n <= 12 {
		r.Exec(fmt.Sprintf("select:%d:%d:%s:%d:%v", f.n, c.Cid, c.Src, elig, ps))
	} else {
		r.Exec(fmt.Sprintf("select:%d:%d:%s:%d:%d:%d", f.n, c.Cid, c.Src, elig, len(got), len(offers)))
	}
	return true, ps
}

func c20Patterns(n int) []string {
	seen := map[string]bool{}
	var out []string
	add := func(f func(i int) byte) {
		b := make([]byte, n)
		for i := range b {
			b[i] = f(i)
		}
		if !seen[string(b)] {
			seen[string(b)] = true
			out = append(out, string(b))
		}
	}
	pick := func(c bool, a, b byte) byte {
		if c {
			return a
		}
		return b
	}
	for _, ch := range []byte("cux") {
		add(func(int) byte { return ch })
	}
	for _, k := range []int{1, 3, 4, 5, 8, 9, 12, 31, 32, 33} {
		if k < n {
			add(func(i int) byte { return pick(i < k, 'c', 'u') })
			add(func(i int) byte { return pick(i < k, 'c', 'x') })
		}
	}
	for _, k := range []int{1, 4, 8} {
		if k < n {
			add(func(i int) byte { return pick(i < k, 'u', 'c') })
			add(func(i int) byte { return pick(i < k, 'x', 'c') })
			add(func(i int) byte { return pick(i >= n-k, 'c', 'x') })
			add(func(i int) byte { return pick(i >= n-k, 'c', 'u') })
		}
	}
	for ph := 0; ph < 3; ph++ {
		add(func(i int) byte { return "cux"[(i+ph)%3] })
	}
	for _, p := range []int{0, 3, 4, 7, n - 1} {
		if p < n {
			add(func(i int) byte { return pick(i == p, 'u', 'c') })
			add(func(i int) byte { return pick(i == p, 'x', 'c') })
		}
	}
	return out
}

// c20Groups calls f for every (states, cid, src, margin) of table size n; the shuffle
// scripts are enumerated per group by the caller.
func c20Groups(n, limit int, thorough bool, f func(c c20Case)) {
	var states []string
	cids := 3
	if thorough {
		cids = 6
	}
	if n <= 8 || (thorough && n <= 9) {
		for v, total := 0, pow3(n); v < total; v++ {
			b := make([]byte, n)
			for i, w := 0, v; i < n; i, w = i+1, w/3 {
				b[i] = "ucx"[w%3]
			}
			states = append(states, string(b))
		}
	} else {
		states = c20Patterns(n)
	}
	for _, s := range states {
		nc := strings.Count(s, "c")
		for cid := 0; cid < cids; cid++ {
			for _, src := range []string{"none", "stranger", "cov0", "cov4"} {
				if (src == "cov0" && nc < 1) || (src == "cov4" && nc < 5) {
					continue
				}
				for _, loose := range []bool{false, true} {
					if limit < 8 && loose {
						continue
					}
					f(c20Case{Kind: "select", N: n, Limit: limit, Cid: cid, States: s, Src: src, Loose: loose})
				}
			}
		}
	}
}

func pow3(n int) int {
	p := 1
	for ; n > 0; n-- {
		p *= 3
	}
	return p
}

var c20Sizes = []int{0, 1, 3, 4, 5, 8, 9, 12, 33, 40}

var c20SampleSelect = map[string]bool{"5/cxcuc/1/cov0/false": true, "9/ccccccccc/2/none/false": true, "40/" + strings.Repeat("x", 8) + strings.Repeat("c", 32) + "/1/cov4/true": true}

func c20Select(r *mc.Report, e *Env, unit *int) {
	for _, n := range c20Sizes {
		limits := []int{50}
		if n == 5 || n == 12 {
			limits = append(limits, 3)
		}
		for _, limit := range limits {
			msg := inBubble(func() {
				var f *c20Fix
				c20Groups(n, limit, e.Thorough(), func(c c20Case) {
					*unit++
					if !e.Mine(*unit) || c20Expired.Load() {
						return
					}
					if f == nil {
						f = newC20Fix("history", n, limit)
					}
					elig := strings.Count(c.States, "c")
					if c.Src == "cov0" || c.Src == "cov4" {
						elig--
					}
					scripts := c20Scripts(n, minInt(elig, 32)-4)
					if limit < 8 {
						scripts = scripts[:1]
					}
					reached := map[string]bool{}
					allPlayed := true
					for si, s := range scripts {
						c.Script = s
						if !e.Mark(func() string { b, _ := json.Marshal(c); return string(b) }) {
							allPlayed = false
							continue
						}
						ok, ps := c20RunSelect(r, f, c)
						reached[fmt.Sprint(ps)] = true
						allPlayed = allPlayed && ok
						if c20SampleSelect[fmt.Sprintf("%d/%s/%d/%s/%v", n, c.States, c.Cid, c.Src, c.Loose)] && si == 0 && limit == 50 {
							r.Sample(map[string]any{"case": c, "shuffles_played": len(scripts), "chosen_positions_nearest_first": ps})
						}
						if !ok {
							f.close()
							f = newC20Fix("history", n, limit)
						}
					}
					if m := elig - 4; n <= 9 && m >= 4 { // all m! shuffles were played: each choice of 4 of the m others should be reachable
						possible := m * (m - 1) * (m - 2) * (m - 3) / 24
						r.Count("extra_peer_subsets_possible", int64(possible))
						r.Count("extra_peer_subsets_reached", int64(len(reached)))
						// "chosen at random among the other covered ones": with every outcome of the random
						// draws played, every choice of 4 of the m others must occur for some outcome
						if allPlayed && limit >= 8 && len(reached) < possible {
							c.Script, c.AllShuffles = nil, true
							r.Violation("others-chosen-at-random-among-all-covered", "GossipAndReturnPeers:unreachable-choice",
								fmt.Sprintf("%d covered nodes besides the 4 nearest: over all %d outcomes of the shuffle only %d of the %d possible choices of 4 of them occur (%v)", m, len(scripts), len(reached), possible, keysOfBool(reached)), c)
						}
					}
				})
				if f != nil {
					f.close()
				}
			})
			if msg != "" {
				r.EngineError(fmt.Sprintf("select n=%d limit=%d: %s", n, limit, msg))
			}
		}
	}
}

// ---- (2) radius bookkeeping ----

var (
	c20D  = new(uint256.Int).AddUint64(new(uint256.Int).Lsh(uint256.NewInt(1), 200), 12345) // distance of the reporting node to the content
	c20Rs = map[string]*uint256.Int{
		"r1": new(uint256.Int).AddUint64(new(uint256.Int).Lsh(uint256.NewInt(1), 201), 9), // covers
		"r2": new(uint256.Int).AddUint64(new(uint256.Int).Lsh(uint256.NewInt(1), 199), 7), // does not
	}
)

func c20Events() []string {
	var evs []string
	for _, dir := range []string{"ping", "pong"} {
		for _, typ := range []uint16{pingext.ClientInfo, pingext.BasicRadius, pingext.HistoryRadius} {
			for _, rn := range []string{"r1", "r2"} {
				evs = append(evs, fmt.Sprintf("%s:%d:%s", dir, typ, rn))
			}
			// the same message announcing a newer record sequence number (refresh attempted, unanswered)
			evs = append(evs, fmt.Sprintf("%s:%d:r1:newer", dir, typ), fmt.Sprintf("%s:%d:r2:newer", dir, typ))
		}
		evs = append(evs, fmt.Sprintf("%s:%d:r1", dir, pingext.Error))
	}
	// the node leaves the table (liveness, explicit deletion); the operator adds its record by hand
	evs = append(evs, "del", "addenr")
	return evs
}

// radiusOf decodes the DataRadius of a payload in the given type.
func c20RadiusOf(typ uint16, payload []byte) ([]byte, error) {
	switch typ {
	case pingext.ClientInfo:
		p := &pingext.ClientInfoAndCapabilitiesPayload{}
		err := p.UnmarshalSSZ(payload)
		return p.DataRadius[:], err
	case pingext.BasicRadius:
		p := &pingext.BasicRadiusPayload{}
		err := p.UnmarshalSSZ(payload)
		return p.DataRadius[:], err
	case pingext.HistoryRadius:
		p := &pingext.HistoryRadiusPayload{}
		err := p.UnmarshalSSZ(payload)
		return p.DataRadius[:], err
	}
	return nil, fmt.Errorf("payload type %d carries no radius", typ)
}

// c20JudgePong: the answer to a ping (step k of c.Seq) is a pong that carries our store's radius and
// our current ENR sequence number in the type asked for, or an error payload for a type this
// network does not support. false: a violation was reported.
func c20JudgePong(r *mc.Report, f *c20Fix, c c20Case, k int, site string, typ uint16, carries bool, reply []byte) bool {
	pong := &portalwire.Pong{}
	if len(reply) == 0 || reply[0] != portalwire.PONG || pong.UnmarshalSSZ(reply[1:]) != nil {
		r.Violation("ping-is-answered-with-a-pong", site, fmt.Sprintf("seq %v step %d: reply=%x", c.Seq, k, reply), c)
		return false
	}
	switch {
	case carries:
		rb, derr := c20RadiusOf(typ, pong.Payload)
		ok := derr == nil && pong.PayloadType == typ && pong.EnrSeq == f.bn.LN.Seq()
		if ok { // byte order of the radius is C06's business
			le, be := new(uint256.Int), new(uint256.Int).SetBytes(rb)
			ok = le.UnmarshalSSZ(rb) == nil && (le.Eq(f.st.radius) || be.Eq(f.st.radius))
		}
		if !ok {
			r.Violation("pong-carries-own-radius-and-enr-seq", site, fmt.Sprintf("seq %v step %d: pong type %d seq %d (ours %d) radius %x (store %s) decode err %v", c.Seq, k, pong.PayloadType, pong.EnrSeq, f.bn.LN.Seq(), rb, f.st.radius.Hex(), derr), c)
			return false
		}
	case typ != pingext.Error:
		if ep := (&pingext.ErrorPayload{}); pong.PayloadType != pingext.Error || ep.UnmarshalSSZ(pong.Payload) != nil {
			r.Violation("unsupported-type-answered-with-error-payload", site, fmt.Sprintf("seq %v step %d: pong type %d payload %x", c.Seq, k, pong.PayloadType, pong.Payload), c)
			return false
		}
	}
	return true
}

func c20RunRadius(r *mc.Report, f *c20Fix, c c20Case) bool {
	x := f.nodes[1]
	cid, d := x.ID().Bytes(), c20D.Bytes32()
	for i := range cid {
		cid[i] ^= d[i]
	}
	ids := make([]enode.ID, f.n)
	for i, nd := range f.nodes {
		ids[i] = nd.ID()
	}
	keys, contents := c20Batch(cid, 0)
	last, trace := "", []string{}
	// inTable / assumed: X is in the routing table; its radius is the maximum installed by AddEnr
	// for a node that was outside the table (an operator's default, not a report)
	inTable, assumed := true, false
	f.bn.P.VerifResetPeerCaches()
	f.vt.InsertDirect(x, true) // a previous sequence may have ended with X deleted
	for k, ev := range c.Seq {
		var dir, rn string
		var typ uint16
		p := strings.Split(ev, ":")
		dir = p[0]
		site := f.proto + ":" + dir
		var radius []byte
		carries := false
		if len(p) >= 3 {
			rn = p[2]
			fmt.Sscan(p[1], &typ)
			site = fmt.Sprintf("%s:%s:type-%d", f.proto, dir, typ)
			radius = c20SSZ(c20Rs[rn])
			carries = c20Carries[f.proto][typ]
		}
		f.st.radius = new(uint256.Int).AddUint64(new(uint256.Int).Lsh(uint256.NewInt(1), uint(250-k)), uint64(k+1))
		var reply, cached []byte
		var got []enode.ID
		if msg, psite := panicsTo(func() {
			if k > 0 { // our record changes between messages: the pong must carry the current sequence number
				f.bn.LN.Set(enr.WithEntry("c20", uint64(f.bn.LN.Seq())))
				f.bn.LN.Node()
			}
			seq := x.Seq()
			if len(p) > 3 && p[3] == "newer" {
				seq += uint64(k) + 1 // the node says its record has changed: we try to fetch it, nobody answers
			}
			switch dir {
			case "ping": // through the TALKREQ entry point: a sender outside the table is first added as an inbound contact
				reply = f.talkPing(x, seq, typ, radius)
			case "pong":
				f.pongSeq(x, seq, typ, radius)
			case "del":
				f.vt.Delete(x)
			case "addenr":
				f.bn.P.AddEnr(x)
			}
			synctest.Wait()
			if seq != x.Seq() {
				time.Sleep(20 * time.Second) // virtual: past the timeout of the record refresh
				synctest.Wait()
			}
			cached = f.bn.P.VerifCachedRadius(x.ID())
			cnt, _ := f.bn.P.Gossip(nil, keys, contents) // the counting entry point; judged on the offers it queued
			for _, o := range f.bn.P.VerifDrainOfferQueue() {
				o.VerifPermit().Release()
				got = append(got, o.Node.ID())
			}
			if cnt != len(got) {
				r.Count("model_drift_gossip_count_differs_from_offers", 1)
			}
		}); msg != "" {
			r.Violation("no-panic", psite, msg, c)
			return false
		}
		if dir == "ping" && !c20JudgePong(r, f, c, k, site, typ, carries, reply) {
			return true
		}
		switch dir {
		case "ping", "pong": // either makes X a table node again (the fixture's buckets have room)
			inTable = true
			if carries {
				last, assumed = rn, false
			}
		case "del":
			inTable = false
		case "addenr":
			if !inTable {
				inTable, assumed = true, true
			}
		}
		var want []byte
		st := []byte(strings.Repeat("u", f.n))
		switch {
		case assumed:
			want = c20SSZ(new(uint256.Int).SetAllOne())
			st[1] = 'c'
		case last != "":
			want = c20SSZ(c20Rs[last])
			st[1] = map[string]byte{"r1": 'c', "r2": 'x'}[last]
		}
		if !inTable {
			st[1] = 'u' // not a table node: never a target, whatever the cache says
		}
		if !bytes.Equal(cached, want) {
			clause := "cache-holds-last-reported-radius"
			switch {
			case dir == "addenr":
				clause = "addenr-leaves-a-reported-radius-alone"
			case dir == "del":
				clause = "delete-leaves-radius-unchanged"
			case !carries:
				clause = "unsupported-type-leaves-radius-unchanged"
			}
			r.Violation(clause, site, fmt.Sprintf("seq %v step %d: cached %x, last reported in a supported type %x", c.Seq, k, cached, want), c)
			return true
		}
		if clause, detail := c20Judge(ids, st, nil, cid, got); clause != "" {
			r.Violation("gossip-uses-last-reported-radius", site, fmt.Sprintf("seq %v step %d (last reported %q): %s: %s", c.Seq, k, last, clause, detail), c)
			return true
		}
		trace = append(trace, fmt.Sprintf("%s>%s/%d", ev, last, len(got)))
		r.Count("radius_steps", 1)
	}
	r.Exec("radius:" + f.proto + ":" + strings.Join(trace, ","))
	return true
}

// c20SharedConfig: two sub-protocols of one process, built from ONE config object as portal/node.go
// builds them. A node that is in both tables reports a covering radius on the first network and a
// non-covering one on the second: each network must keep using what was reported on it.
func c20SharedConfig(r *mc.Report) {
	for _, pair := range [][2]string{{"history", "state"}, {"state", "beacon"}, {"beacon", "history"}} {
		cs := c20Case{Kind: "radius", N: 3, Limit: 50, Proto: pair[0], Seq: []string{"shared-config:" + pair[0] + "+" + pair[1]}}
		msg := inBubble(func() {
			conf := portalwire.DefaultPortalProtocolConfig()
			f1, f2 := newC20FixConf(pair[0], 3, 50, conf), newC20FixConf(pair[1], 3, 50, conf)
			defer f1.close()
			defer f2.close()
			x := f1.nodes[1]
			cid, d := x.ID().Bytes(), c20D.Bytes32()
			for i := range cid {
				cid[i] ^= d[i]
			}
			keys, contents := c20Batch(cid, 0)
			f1.talkPing(x, x.Seq(), pingext.ClientInfo, c20SSZ(c20Rs["r1"]))
			synctest.Wait()
			f2.talkPing(x, x.Seq(), pingext.ClientInfo, c20SSZ(c20Rs["r2"]))
			synctest.Wait()
			cached := f1.bn.P.VerifCachedRadius(x.ID())
			got, _, _ := f1.gossip(nil, nil, keys, contents)
			chosen := slices.Contains(got, x.ID())
			if !bytes.Equal(cached, c20SSZ(c20Rs["r1"])) || !chosen {
				r.Violation("cache-holds-last-reported-radius", "two-sub-protocols-one-config:"+pair[0]+"+"+pair[1], fmt.Sprintf("the node reported %x on the %s network and then %x on the %s network (same process, one config object): the %s network now holds %x for it and gossip target = %v", c20SSZ(c20Rs["r1"]), pair[0], c20SSZ(c20Rs["r2"]), pair[1], pair[0], cached, chosen), cs)
			}
			r.Exec(fmt.Sprintf("sharedconf|%s+%s|%v", pair[0], pair[1], chosen))
		})
		if msg != "" {
			r.EngineError("C20 shared config: " + msg)
		}
	}
}

func c20Radius(r *mc.Report, e *Env, unit *int) {
	if e.Of <= 1 || e.Shard == 0 {
		c20SharedConfig(r)
	}
	evs, length, total := c20Events(), 3, 0
	if e.Thorough() {
		length = 4
	}
	for _, proto := range []string{"history", "state", "beacon"} {
		msg := inBubble(func() {
			var f *c20Fix
			var rec func(seq []string)
			rec = func(seq []string) {
				if len(seq) < length { // every shorter sequence is a prefix of a full one and is judged step by step
					for _, ev := range evs {
						rec(append(append([]string{}, seq...), ev))
					}
					return
				}
				*unit++
				cs := c20Case{Kind: "radius", N: 3, Limit: 50, Proto: proto, Seq: seq}
				if !e.Mine(*unit) || c20Expired.Load() || !e.Mark(func() string { b, _ := json.Marshal(cs); return string(b) }) {
					return
				}
				if f == nil {
					f = newC20Fix(proto, 3, 50)
				}
				if !c20RunRadius(r, f, cs) {
					f.close()
					f = nil
				}
				if proto != "beacon" && strings.HasPrefix(strings.Join(seq, ","), "ping:0:r1,pong:2:r2,ping:1:r1") && seq[length-1] == evs[0] {
					r.Sample(cs)
				}
			}
			rec(nil)
			if f != nil {
				f.close()
			}
		})
		if msg != "" {
			r.EngineError("radius " + proto + ": " + msg)
		}
	}
	for l, p := 1, len(evs); l <= length; l, p = l+1, p*len(evs) {
		total += p
	}
	r.Set("radius_sequences_per_network", map[string]int{"alphabet": len(evs), "max_length": length, "sequences": total})
}

func runC20(r *mc.Report, e *Env) {
	r.Rule = "every case drives the real ping/pong processing and GossipAndReturnPeers of an unstarted node whose table loop runs in a bubble; selection cases count when gossip returned, distinct = distinct (table size, content id, source, eligible count, ranks of the chosen peers); radius cases count per 3-event sequence, distinct = distinct (network, per-step last radius and gossip size); replacement-list cases likewise, with the place of the reporting node (bucket entry / replacement list / outside) read from the real table after every step"
	r.Assume("long-lived part: up to 1500 (thorough 6000) repeated identical reports per chain; histories in which peers sharing a cache ring change their radius hundreds of times are outside the bound (the radius cache is lossy by construction)")
	r.Assume("table sizes {0,1,3,4,5,8,9,12,33,40} of 272; radius assignments exhaustive up to 8 nodes (thorough: 9), banded patterns above; shuffles exhaustive up to 9 nodes, five structured draw patterns above")
	r.Assume("keys and contents have equal length >= 1 (callers' contract); a full offer queue is C16's subject; a record refresh triggered by a higher sequence number goes out on a wire that loses everything (it is attempted and times out)")
	r.Assume("replacement-list part: one full bucket (16 entries) plus two nodes elsewhere, none of which ever reports; the reporting node is the only one parked in the replacement list, so it is the one promoted when an entry of its bucket is removed (by deletion or FINDNODES failures; removal after failed revalidation ends in the same table operation and is not driven); sequences of 3 events (thorough: also 4 without the newer-record messages)")
	defer time.AfterFunc(time.Until(e.Deadline), func() { c20Expired.Store(true) }).Stop()
	r.Set("bound", map[string]any{"table_sizes": c20Sizes, "all_radius_assignments_up_to_nodes": map[bool]int{false: 8, true: 9}[e.Thorough()], "all_shuffles_up_to_nodes": 9,
		"content_ids": map[bool]int{false: 3, true: 6}[e.Thorough()], "ping_pong_sequence_length": map[bool]int{false: 3, true: 4}[e.Thorough()]})
	unit := 0
	c20Select(r, e, &unit)
	c20Radius(r, e, &unit)
	c20Repl(r, e, &unit)
	c20Long(r, e, &unit)
}

func replayC20(r *mc.Report, e *Env, raw json.RawMessage) {
	var c c20Case
	if err := json.Unmarshal(raw, &c); err != nil {
		panic(err)
	}
	if c.Kind == "long" {
		var lc c20LongCase
		json.Unmarshal(raw, &lc)
		c20LongRun(r, lc)
		return
	}
	if msg := inBubble(func() {
		if c.Kind == "repl" {
			c20ReplDebug = true
			f := newC20ReplFix(c.Proto)
			if !f.replReset() {
				r.EngineError("C20 replacement-list part: the fixture could not be set up")
			} else {
				c20RunRepl(r, f, c)
			}
			f.close()
			return
		}
		if c.Kind == "radius" {
			f := newC20Fix(c.Proto, c.N, c.Limit)
			c20RunRadius(r, f, c)
			f.close()
			return
		}
		f := newC20Fix("history", c.N, c.Limit)
		if c.AllShuffles {
			elig := strings.Count(c.States, "c")
			if c.Src == "cov0" || c.Src == "cov4" {
				elig--
			}
			reached := map[string]bool{}
			scripts := c20Scripts(c.N, minInt(elig, 32)-4)
			for _, s := range scripts {
				c.Script = s
				_, ps := c20RunSelect(r, f, c)
				reached[fmt.Sprint(ps)] = true
			}
			m := elig - 4
			possible := m * (m - 1) * (m - 2) * (m - 3) / 24
			fmt.Printf("outcome: %d shuffles played, %d of %d choices of 4 of the %d other covered nodes reached: %v\n", len(scripts), len(reached), possible, m, keysOfBool(reached))
			if len(reached) < possible {
				fmt.Println("REPLAY: reproduced C20/others-chosen-at-random-among-all-covered/GossipAndReturnPeers:unreachable-choice")
			}
		} else {
			c20RunSelect(r, f, c)
		}
		f.close()
	}); msg != "" {
		r.EngineError(msg)
	}
}

func keysOfBool(m map[string]bool) []string {
	ks := make([]string, 0, len(m))
	for k := range m {
		ks = append(ks, k)
	}
	sort.Strings(ks)
	return ks
}
