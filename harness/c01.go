package main

import (
	"context"
	"encoding/binary"
	"encoding/json"
	"fmt"
	"math"
	"os"
	"runtime"
	"runtime/debug"
	"runtime/pprof"
	"strings"
	"sync/atomic"
	"testing/synctest"
	"time"

	"github.com/zen-eth/shisui/portalwire"
	utp "github.com/zen-eth/utp-go"
	"verifharness/mc"
)

// C01 — no remote input can crash or wedge the node.
//
// One worker process = one synctest bubble holding what one shisui process holds: a discv5
// endpoint (on a wire that loses everything except during the uTP exchanges of part 5), a
// started uTP service on it, and for each of
// history / beacon / state an unstarted PortalProtocol with the network's real storage
// adapter over pebble on an in-memory file system (empty and populated) and its real
// validator over a stub header source. Every case is one direct call of an entry point in
// its own goroutine, followed by synctest.Wait: the call must have returned (at once, or
// after the virtual clock has passed every timeout), must not have panicked, no goroutine
// it started may kill the process, and a non-empty talk reply must decode as the response
// to the request. State a case leaves behind (table entry of an unknown sender, peer
// caches, validation queue, store contents) is undone, so every case starts from the same
// state and replays alone.

func init() {
	register(&Prop{ID: "C01", Level: "exploration", Run: runC01, Replay: replayC01, CrashIsViolation: true, Procs: 1,
		Workers: func(e *Env) int { return minInt(cpus(), 16) },
		Budget: func(t string) time.Duration {
			if t == "thorough" {
				return 40 * time.Minute
			}
			return 10 * time.Minute
		}})
}

type c01Case struct {
	Net    string   `json:"net,omitempty"`
	Store  string   `json:"store,omitempty"`       // "empty" | "populated"
	Entry  string   `json:"entry"`                 // talkreq | pong | nodes | content | accept | offered | item | get | utp
	Sender int      `json:"sender"`                // 0: in the table, versions {0,1}; 1: in no table, no version entry
	Seed   string   `json:"seed,omitempty"`        // the seed the input is a mutant of (documentation)
	Mut    int      `json:"mut,omitempty"`         // number of the mutant in the seed's stream (offered / item: regenerated from it unless written out)
	In     hexb     `json:"in,omitempty"`          // request / response / stream body / uTP packet
	Prev   hexb     `json:"prev,omitempty"`        // talkreq: a request of the same sender handled first
	Req    string   `json:"request,omitempty"`     // accept: the kind of offer the reply answers
	Items  []string `json:"items,omitempty"`       // offered: the items offered; item / get: the item the case derives from
	Key    *hexb    `json:"key,omitempty"`         // item / get: the content key (absent: the item's)
	Own    bool     `json:"written_out,omitempty"` // offered: In is the stream body; item: Cont is the content (else: mutant Mut of the honest one)
	Cont   hexb     `json:"content,omitempty"`
	Oracle string   `json:"oracle,omitempty"`    // offered: the header source's answer ("seed" | "error" | "fixed")
	Conn   bool     `json:"in_flight,omitempty"` // utp: packet number Pkt of a live transfer into the node is changed by in-flight operator Mut
	Pkt    int      `json:"packet,omitempty"`
}

const c01WriteOut = 4096 // inputs up to this size are written into the case

type c01World struct {
	r     *mc.Report
	e     *Env
	c     *c01Corpus
	h     *c01Host
	nodes map[string]*c01Node
	base  int // goroutines at quiescence
	n     int
	over  *atomic.Bool
	beat  *atomic.Int64
	full  bool
	last  string          // what the last case observed
	shown map[string]bool // entries of which a case was written into the evidence
}

func newC01World(r *mc.Report, e *Env) *c01World {
	w := &c01World{r: r, e: e, c: c01LoadCorpus(), nodes: map[string]*c01Node{}, shown: map[string]bool{}, full: e.Thorough(), over: new(atomic.Bool), beat: new(atomic.Int64)}
	w.h = newC01Host()
	for _, net := range c01Nets {
		w.nodes[net+"/populated"] = newC01Node(w.h, net, w.c, true)
		w.nodes[net+"/empty"] = newC01Node(w.h, net, w.c, false)
	}
	synctest.Wait()
	w.base = runtime.NumGoroutine()
	return w
}

// call runs f in its own goroutine. returned = f was finished at the next quiescent point,
// or at the one after the virtual clock was advanced past every timeout.
func (w *c01World) call(f func()) (msg, site string, returned bool) {
	var done atomic.Bool
	go func() {
		msg, site = panicsTo(f)
		done.Store(true)
	}()
	synctest.Wait()
	if !done.Load() {
		time.Sleep(c01Settle)
		synctest.Wait()
	}
	return msg, site, done.Load()
}

// settle lets every goroutine the case started run to its end (they wait for uTP / discv5 timeouts).
func (w *c01World) settle() {
	if runtime.NumGoroutine() > w.base {
		time.Sleep(c01Settle)
		synctest.Wait()
		if g := runtime.NumGoroutine(); g > w.base {
			w.r.Count("goroutines_left_after_settling", int64(g-w.base))
			w.base = g
		}
	}
}

var c01Answer = map[byte]byte{portalwire.PING: portalwire.PONG, portalwire.FINDNODES: portalwire.NODES, portalwire.FINDCONTENT: portalwire.CONTENT, portalwire.OFFER: portalwire.ACCEPT}

// c01ReplyCheck: "" if reply is empty or the well-formed response to msg.
func c01ReplyCheck(msg, reply []byte, v1 bool) (class, bad string) {
	if len(reply) == 0 {
		return "", ""
	}
	if len(msg) == 0 {
		return "reply-to-empty-request", fmt.Sprintf("reply %s to an empty request", hx(reply))
	}
	want, known := c01Answer[msg[0]]
	if !known || reply[0] != want {
		return "reply-code", fmt.Sprintf("reply code %#x to request code %#x", reply[0], msg[0])
	}
	if len(reply) > portalwire.VerifMaxPacketSize-portalwire.VerifTalkRespOverhead {
		return "reply-size", fmt.Sprintf("reply of %d bytes does not fit a packet (%d)", len(reply), portalwire.VerifMaxPacketSize-portalwire.VerifTalkRespOverhead)
	}
	var dec interface{ UnmarshalSSZ([]byte) error }
	body := reply[1:]
	switch want {
	case portalwire.PONG:
		dec = &portalwire.Pong{}
	case portalwire.NODES:
		dec = &portalwire.Nodes{}
	case portalwire.ACCEPT:
		dec = &portalwire.Accept{}
		if v1 {
			dec = &portalwire.AcceptV1{}
		}
	case portalwire.CONTENT:
		if len(body) == 0 {
			return "reply-decodes", "CONTENT reply without selector"
		}
		switch body[0] {
		case portalwire.ContentConnIdSelector:
			dec = &portalwire.ConnectionId{}
		case portalwire.ContentRawSelector:
			dec = &portalwire.Content{}
		case portalwire.ContentEnrsSelector:
			dec = &portalwire.Enrs{}
		default:
			return "reply-decodes", fmt.Sprintf("CONTENT reply with selector %#x", body[0])
		}
		body = body[1:]
	}
	if err := dec.UnmarshalSSZ(body); err != nil {
		return "reply-decodes", fmt.Sprintf("reply %s does not decode as %T: %v", hx(reply), dec, err)
	}
	return "", ""
}

func errDigest(err error) string {
	if err == nil {
		return "ok"
	}
	return errClass(err.Error())
}

// c01ContentMutants: truncations, extensions and offset windows of a content (no byte mutants: C02 / C13 flip bits).
func c01ContentMutants(b []byte, emit func([]byte)) {
	c14MutantsOf(b, len(b) <= c01WriteOut, false, emit)
	// the trailing 8 bytes as a little-endian integer at its boundaries: in a post-merge header
	// item this is the proof's slot (the last field of the last container), which selects the
	// accumulator entry the proof is checked against
	if len(b) >= 8 {
		off := len(b) - 8
		old := binary.LittleEndian.Uint64(b[off:])
		// ... and at the ends of the accumulators: 758 historical roots cover slots below 758*8192
		// (= mainnet's Capella fork slot), the summaries start there
		const capella = 758 * 8192
		for _, v := range []uint64{0, 1, 8191, 8192, old % 8192, old - 8192, old + 8192, old - 1, old + 1, capella - 8192, capella - 1, capella, capella + 8191, capella + 8192, 1<<63 - 1, 1 << 63, math.MaxUint64 - 8191, math.MaxUint64} {
			if v != old {
				m := append([]byte{}, b...)
				binary.LittleEndian.PutUint64(m[off:], v)
				emit(m)
			}
		}
	}
}

// c01BodyMutants: framing mutants of a uTP stream body: everything for a small body; for a
// large one truncations / extensions / offset windows of the whole and every mutant of its
// first 16 bytes (where the first length prefix is).
func c01BodyMutants(b []byte, emit func([]byte)) {
	if len(b) <= c01WriteOut {
		c14MutantsOf(b, true, true, emit)
		return
	}
	c14MutantsOf(b, false, false, emit)
	c14MutantsOf(b[:16], true, true, func(p []byte) { emit(append(append([]byte{}, p...), b[16:]...)) })
}

// c01VarintShapes: every byte string of 1..6 bytes whose bytes carry a septet of {00,01,0f,10,7b,7f}
// and are continuation bytes except possibly the last (ffffffff0f = 2^32-1, fbffffff0f = 2^32-5,
// 8080808010 = 2^32, six-byte and unterminated prefixes).
func c01VarintShapes(emit func([]byte)) {
	septs := []byte{0x00, 0x01, 0x0f, 0x10, 0x7b, 0x7f}
	var shape func(prefix []byte, remaining int)
	shape = func(prefix []byte, remaining int) {
		for _, s := range septs {
			emit(append(append([]byte{}, prefix...), s))
			if remaining > 1 {
				shape(append(append([]byte{}, prefix...), s|0x80), remaining-1)
			} else {
				emit(append(append([]byte{}, prefix...), s|0x80))
			}
		}
	}
	shape(nil, 6)
}

func nth(stream func(func([]byte)), ord int) (out []byte) {
	n := 0
	stream(func(m []byte) {
		if n++; n == ord {
			out = m
		}
	})
	return
}

func (w *c01World) itemsOf(c *c01Case) (its []*c01Item) {
	for _, name := range c.Items {
		it := w.c.item(c.Net, name)
		if it == nil {
			panic("c01: unknown item " + name)
		}
		its = append(its, it)
	}
	return
}

func (w *c01World) honestBody(its []*c01Item) []byte {
	var contents [][]byte
	for _, it := range its {
		contents = append(contents, it.Content)
	}
	return portalwire.VerifEncodeContents(contents)
}

// exec runs one case and judges it. big: the stream body / content when it is too large to
// be written into the case (nil: regenerate it from the mutant number).
func (w *c01World) exec(c *c01Case, big []byte) {
	w.beat.Add(1)
	n := w.nodes[c.Net+"/"+c.Store]
	sender, addr := w.h.senders[c.Sender], w.h.addrs[c.Sender]
	its := w.itemsOf(c)
	in := []byte(c.In)
	var obs, class, bad, step string
	var f func()
	switch c.Entry {
	case "talkreq":
		f = func() {
			if c.Prev != nil {
				step = "first request"
				class, bad = c01ReplyCheck(c.Prev, n.p.VerifHandleTalkRequest(sender, addr, c.Prev), c.Sender == 0)
				step = "second request"
			}
			reply := n.p.VerifHandleTalkRequest(sender, addr, in)
			if bad == "" {
				class, bad = c01ReplyCheck(in, reply, c.Sender == 0)
			}
			if len(in) > 0 && in[0] == portalwire.PING && c.Sender == 0 && c.Prev == nil {
				// what the peer said about itself is remembered (radius, capabilities, record sequence);
				// the node's next ping to that peer - the revalidation timer sends one on its own -
				// is built from it. Nobody answers (the wire is mute): the call must time out, not crash.
				step = "our next ping to the sender"
				time.Sleep(time.Millisecond) // virtual: the goroutine that files what the ping said runs first
				n.p.VerifPing(sender)
				step = ""
			}
			obs = fmt.Sprintf("%d|%d", len(in), len(reply))
			if len(reply) > 1 {
				obs = fmt.Sprintf("%x|%x|%d", in[0], reply[:2], len(reply)/64)
			}
		}
	case "pong":
		f = func() { _, _, err := n.p.VerifProcessPong(sender, in); obs = errDigest(err) }
	case "nodes":
		f = func() { _, err := n.p.VerifProcessNodes(sender, in, []uint{256, 255, 254, 253}); obs = errDigest(err) }
	case "content":
		f = func() { _, _, err := n.p.VerifProcessContent(sender, in); obs = errDigest(err) }
	case "accept":
		f = func() {
			_, err := n.p.VerifProcessOffer(sender, in, w.c.offerRequest(c.Net, c.Req), &portalwire.NoPermit{})
			obs = c.Req + "|" + errDigest(err)
		}
	case "offered":
		switch {
		case c.Own:
		case big != nil:
			in = big
		case c.Mut == 0:
			in = w.honestBody(its)
		default:
			in = nth(func(e func([]byte)) { c01BodyMutants(w.honestBody(its), e) }, c.Mut)
		}
		var keys [][]byte
		for _, it := range its {
			keys = append(keys, it.Key)
		}
		n.or.mode, n.or.seed, n.or.root = c.Oracle, its[0].Header, its[0].Root
		f = func() {
			step = "handleOfferedContents"
			err := n.p.VerifHandleOfferedContents(sender.ID(), keys, in)
			obs = errDigest(err)
			select {
			case el := <-n.q:
				step = "validateContents"
				obs += "|" + errDigest(n.validate(el.ContentKeys, el.Contents))
			default:
			}
		}
	case "item", "get":
		key, content := its[0].Key, []byte(c.Cont)
		if c.Key != nil {
			key = *c.Key
		}
		switch {
		case c.Own:
		case big != nil:
			content = big
		case c.Mut == 0 || c.Key != nil:
			content = its[0].Content
		default:
			content = nth(func(e func([]byte)) { c01ContentMutants(its[0].Content, e) }, c.Mut)
		}
		id := n.p.ToContentId(key)
		if c.Entry == "get" {
			f = func() { _, err := n.st.Get(key, id); obs = errDigest(err) }
			break
		}
		n.or.seed, n.or.root = its[0].Header, its[0].Root
		f = func() { // every step is judged on its own: a panicking validator does not hide the adapter
			accepted := false
			try := func(name string, g func() error) {
				var err error
				if m, st := panicsTo(func() { err = g() }); m != "" {
					// Put is reached from the network only with content the validator accepted
					refused := name == "Put" && !accepted
					w.panicked(c, m, st, name, refused)
					obs += "panic|"
					return
				}
				obs += errDigest(err) + "|"
				accepted = accepted || (err == nil && name != "Put")
			}
			for _, mode := range []string{"seed", "error", "fixed"} {
				n.or.mode, n.or.calls = mode, 0
				try("ValidateContent with header source answer '"+mode+"'", func() error { return n.val.ValidateContent(key, content) })
				if n.or.calls == 0 {
					break
				}
			}
			try("Put", func() error { return n.st.Put(key, id, content) })
			if accepted { // what the network has stored a peer can ask for
				try("Get after Put", func() error { _, err := n.st.Get(key, id); return err })
			}
		}
	case "ask-pong", "ask-nodes", "ask-enr", "ask-content", "ask-accept":
		// our own request goes out over the wire; sender 0's endpoint answers it with the case's bytes
		f = func() {
			w.h.answer = func([]byte) []byte { return in }
			w.h.wire.mute = false
			defer func() { w.h.wire.mute, w.h.answer = true, nil }()
			var err error
			switch c.Entry {
			case "ask-pong":
				_, err = n.p.VerifPing(sender)
			case "ask-nodes":
				_, err = n.p.VerifFindNodes(sender, []uint{256, 255, 254, 253})
			case "ask-enr":
				_, err = n.p.RequestENR(sender)
			case "ask-content":
				_, _, err = n.p.VerifFindContent(sender, its[0].Key)
			case "ask-accept":
				_, err = n.p.VerifOffer(sender, w.c.offerRequest(c.Net, c.Req), &portalwire.NoPermit{})
			}
			obs = c.Req + "|" + errDigest(err)
		}
	case "utp":
		f = func() { w.h.utpIn(sender, addr, in) }
		if c.Conn {
			f = func() {
				seen := 0
				got := w.transfer(func(pkt []byte) []byte {
					if seen++; seen-1 == c.Pkt && c.Mut < c01FlightOps(len(pkt)) {
						obs = "tampered|"
						return c01InFlight(pkt, c.Mut)
					}
					return pkt
				})
				obs += fmt.Sprint(got)
				if got == 3000 {
					w.r.Count("utp_transfers_delivering_every_byte", 1)
				}
			}
		}
	default:
		panic("c01: unknown entry " + c.Entry)
	}
	var msg, site string
	returned := true
	if c.Conn { // the exchange waits for quiescence itself
		msg, site = panicsTo(f)
	} else {
		msg, site, returned = w.call(f)
	}
	switch {
	case msg != "":
		w.panicked(c, msg, site, step, false)
	case !returned:
		w.r.Violation("handling-call-returns", c.Entry+":"+c.Seed, fmt.Sprintf("%s had not returned %s (virtual) after the call", c.where(step), c01Settle), c)
	case bad != "":
		w.r.Violation("reply-well-formed", class, c.where(step)+": "+bad, c)
	}
	if runtime.NumGoroutine() > w.base {
		w.r.Count("cases_followed_by_a_clock_advance", 1)
	}
	w.settle()
	// leave no trace
	if n != nil {
		if c.Sender >= 1 {
			n.vt.Forget(sender.ID())
		}
		if c.Entry == "pong" || strings.HasPrefix(c.Entry, "ask-") || (c.Entry == "talkreq" && (len(in) > 0 && in[0] == portalwire.PING || len(c.Prev) > 0 && c.Prev[0] == portalwire.PING)) {
			n.p.VerifResetPeerCaches()
		}
		if c.Entry == "offered" || c.Entry == "item" {
			n.undo()
		}
	}
	w.last = obs
	if obs == "" || msg != "" {
		w.r.Trivial()
	} else {
		w.r.Exec(c.Net + c.Store + c.Entry + "|" + obs)
	}
	w.r.Count("calls_"+c.Entry, 1)
}

func (c *c01Case) where(step string) string {
	s := c.Entry
	if c.Net != "" {
		s = c.Net + "/" + c.Store + " " + s
	}
	if step != "" {
		s += " (" + step + ")"
	}
	return s
}

func (w *c01World) panicked(c *c01Case, msg, site, step string, refused bool) {
	clause := "no-panic"
	if refused {
		clause = "no-panic-storing-content-the-validator-refused"
	}
	w.r.Violation(clause, site+":"+errClass(msg), c.where(step)+" panicked: "+msg, c)
}

// do numbers the cases, deals them out to the workers and marks the one being executed.
func (w *c01World) do(c *c01Case, big []byte) {
	w.n++
	if w.over.Load() || !w.e.Mine(w.n) || !w.e.Mark(func() string { b, _ := json.Marshal(c); return string(b) }) {
		return
	}
	if w.e.Shard == 0 && !w.shown[c.Entry] && (c.Seed != "" || c.Entry == "utp") {
		w.shown[c.Entry] = true
		w.r.Sample(c)
	}
	w.exec(c, big)
}

const c01ShortLen = 2

func (w *c01World) enumerate() {
	for _, net := range c01Nets {
		for _, store := range []string{"populated", "empty"} {
			w.talkRequests(net, store)
			if store == "populated" { // the response processors do not read the store (processOffer does, for what it sends)
				w.talkResponses(net, store)
				w.askedResponses(net, store)
			}
			w.streamBodies(net, store)
			w.contentItems(net, store)
		}
	}
	w.utpChannel()
}

// (1) TALKREQ payloads
func (w *c01World) talkRequests(net, store string) {
	reqs := w.c.requestSeeds(net)
	for sender := 0; sender < 4; sender++ {
		proto := c01Case{Net: net, Store: store, Entry: "talkreq", Sender: sender}
		if sender < 3 { // the sender without an endpoint: the request seeds and their mutants only
			c01Shorts(c01ShortLen, func(b []byte) { c := proto; c.In = b; w.do(&c, nil) })
		}
		for _, s := range reqs {
			proto.Seed = s.Name
			k := 0
			one := func(m []byte) {
				c := proto
				c.Mut, c.In = k, m
				w.do(&c, nil)
				k++
			}
			one(s.B)
			c01Mutants(s, true, true, func(m []byte) {
				one(m)
				if w.full && len(s.B) <= 64 && sender == 0 {
					c14Mutants(m, true, func(m2 []byte) {
						c := proto
						c.Seed, c.Mut, c.In = s.Name+" (2-point)", k-1, m2
						w.do(&c, nil)
					})
				}
			})
		}
		for _, a := range reqs {
			for _, b := range reqs {
				c := proto
				c.Seed, c.Prev, c.In = a.Name+" then "+b.Name, a.B, b.B
				w.do(&c, nil)
			}
		}
	}
}

// (2) TALKRESP payloads
func (w *c01World) talkResponses(net, store string) {
	resps := w.c.responseSeeds(w.h, net)
	for _, entry := range []string{"pong", "nodes", "content", "accept"} {
		kinds := []string{""}
		if entry == "accept" {
			kinds = []string{"persist", "transient", "transient-with-result"}
		}
		for sender := 0; sender < 2; sender++ {
			for _, kind := range kinds {
				proto := c01Case{Net: net, Store: store, Entry: entry, Sender: sender, Req: kind}
				c01Shorts(c01ShortLen, func(b []byte) { c := proto; c.In = b; w.do(&c, nil) })
				for _, s := range resps[entry] {
					proto.Seed = s.Name
					k := 0
					one := func(m []byte) {
						c := proto
						c.Mut, c.In = k, m
						w.do(&c, nil)
						k++
					}
					one(s.B)
					c01Mutants(s, true, true, one)
				}
			}
		}
	}
}

// (2b) the same TALKRESP payloads as the answer to a real request of ours: ping, findNodes,
// RequestENR, findContent and offer send over the wire to sender 0's endpoint, which replies with
// the case's bytes; the callers of the response processors run too. Strings of length <= 1,
// every seed and every 1-point mutant.
func (w *c01World) askedResponses(net, store string) {
	resps := w.c.responseSeeds(w.h, net)
	for _, ask := range [][2]string{{"ask-pong", "pong"}, {"ask-nodes", "nodes"}, {"ask-enr", "nodes"}, {"ask-content", "content"}, {"ask-accept", "accept"}} {
		kinds := []string{""}
		if ask[0] == "ask-accept" {
			kinds = []string{"persist", "transient"}
		}
		for _, kind := range kinds {
			proto := c01Case{Net: net, Store: store, Entry: ask[0], Sender: 0, Req: kind, Items: []string{w.c.items[net][0].Name}}
			c01Shorts(1, func(b []byte) { c := proto; c.In = b; w.do(&c, nil) })
			for _, s := range resps[ask[1]] {
				proto.Seed = s.Name
				k := 0
				one := func(m []byte) {
					c := proto
					c.Mut, c.In = k, m
					w.do(&c, nil)
					k++
				}
				one(s.B)
				c01Mutants(s, true, true, one)
			}
		}
	}
}

// (3) uTP stream bodies of accepted offers: handleOfferedContents, then the network's validateContents
func (w *c01World) streamBodies(net, store string) {
	items := w.c.items[net]
	offers := [][]string{}
	for _, it := range items {
		offers = append(offers, []string{it.Name})
	}
	offers = append(offers, []string{items[0].Name, items[1].Name}, []string{items[1].Name, items[0].Name, items[2].Name})
	for i, names := range offers {
		for _, oracle := range []string{"seed", "error"} {
			proto := c01Case{Net: net, Store: store, Entry: "offered", Items: names, Oracle: oracle, Seed: fmt.Sprint("stream body for ", names)}
			k := 0
			one := func(b []byte) {
				c := proto
				if c.Mut = k; len(b) <= c01WriteOut {
					c.Own, c.In = true, append(hexb{}, b...)
				}
				w.do(&c, b)
				k++
			}
			body := w.honestBody(w.itemsOf(&proto))
			one(body)
			if oracle == "seed" || len(names) == 1 {
				c01BodyMutants(body, one)
			}
			if len(names) > 1 {
				continue
			}
			proto.Seed, proto.Mut = "", 0
			if i == 0 {
				// every LEB128 prefix shape of 1..6 bytes over boundary septets (values up to and beyond
				// 2^32, with and without a dangling continuation bit): alone, followed by one byte,
				// and after a well-formed item
				c01VarintShapes(func(b []byte) {
					for _, in := range [][]byte{b, append(append([]byte{}, b...), 0xaa), append([]byte{0x01, 0xaa}, b...)} {
						c := proto
						c.Seed, c.Own, c.In = "length-prefix shape", true, append(hexb{}, in...)
						w.do(&c, nil)
					}
				})
			}
			c01Shorts(c01ShortLen, func(b []byte) {
				// the framing decoder sees the body only: one context decides a body it refuses
				// or splits into another number of items than were offered
				if l, err := portalwire.VerifDecodeContents(b); (err == nil && len(l) == 1) || (i == 0 && oracle == "seed") {
					c := proto
					c.Own, c.In = true, append(hexb{}, b...)
					w.do(&c, nil)
				}
			})
		}
	}
}

// (4) validator and adapter: ValidateContent, Put, Get
func (w *c01World) contentItems(net, store string) {
	items := w.c.items[net]
	for _, it := range items {
		proto := c01Case{Net: net, Store: store, Entry: "item", Items: []string{it.Name}, Seed: it.Name}
		get := proto
		get.Entry = "get"
		w.do(&proto, nil)
		w.do(&get, nil)
		k := 0
		c01Mutants(c01Seed{B: it.Key, Ints: it.Ints, Sels: []int{0}}, false, true, func(m []byte) {
			k++
			key := append(hexb{}, m...)
			for _, c := range []c01Case{proto, get} {
				c.Key, c.Mut, c.Seed = &key, k, "key of "+it.Name
				w.do(&c, nil)
			}
		})
		k = 0
		c01ContentMutants(it.Content, func(m []byte) {
			k++
			c := proto
			c.Mut, c.Seed = k, "content of "+it.Name
			if len(m) <= c01WriteOut {
				c.Own, c.Cont = true, append(hexb{}, m...)
			}
			w.do(&c, m)
		})
	}
	c01Shorts(c01ShortLen, func(b []byte) {
		key := append(hexb{}, b...)
		proto := c01Case{Net: net, Store: store, Entry: "get", Items: []string{items[0].Name}, Key: &key}
		w.do(&proto, nil)
		proto.Entry = "item"
		for _, content := range [][]byte{{}, {0}, nil} {
			c := proto
			c.Own, c.Cont = content != nil, content
			w.do(&c, nil)
		}
	})
}

// (5) the uTP channel: TALKREQ payloads of the "utp" protocol into the started uTP service
func (w *c01World) utpChannel() {
	proto := c01Case{Entry: "utp"}
	k := 0
	one := func(m []byte) {
		c := proto
		c.Mut, c.In = k, m
		w.do(&c, nil)
		k++
	}
	c01Shorts(c01ShortLen, one)
	for _, s := range c01UtpPackets() {
		proto.Seed, k = s.Name, 0
		one(s.B)
		c01Mutants(s, true, true, one) // byte 0 is type and version: all 256 values
	}
	// a genuine transfer from sender 0 (a live uTP service behind a live discv5 endpoint) into
	// the node, with one packet changed on its way in
	proto = c01Case{Entry: "utp", Conn: true, Seed: "transfer of 3000 bytes into the node"}
	var lens []int
	w.transfer(func(pkt []byte) []byte { lens = append(lens, len(pkt)); return pkt })
	w.r.Max("max_utp_packets_into_the_node_per_transfer", int64(len(lens)))
	for i, l := range lens {
		for op := 0; op < c01FlightOps(l); op++ {
			c := proto
			c.Pkt, c.Mut = i, op
			w.do(&c, nil)
		}
	}
}

// c01UtpPackets: one packet of every type as utp-go's own encoder writes it.
func c01UtpPackets() (out []c01Seed) {
	for _, p := range []struct {
		name string
		typ  byte
		body []byte
		sack []bool
	}{{"syn", 4, nil, nil}, {"data", 0, fillBytes(100, 0xda), nil}, {"fin", 1, nil, nil}, {"state", 2, nil, nil},
		{"state with selective ack", 2, nil, []bool{true, false, true}}, {"reset", 3, nil, nil}} {
		b := utp.NewPacketBuilder(utp.PacketType(p.typ), 0x1234, 0x01020304, 1<<20, 100).WithAckNum(77).WithTsDiffMicros(5000)
		if p.body != nil {
			b = b.WithPayload(p.body)
		}
		if p.sack != nil {
			b = b.WithSelectiveAck(utp.NewSelectiveAck(p.sack))
		}
		out = append(out, c01Seed{Name: "utp/" + p.name, B: b.Build().Encode()})
	}
	return
}

var c01FlightBytes = []byte{0x00, 0x01, 0x7f, 0x80, 0xff}

// c01FlightOps / c01InFlight: the position-determined mutants of a packet of l bytes (the
// bytes of a live exchange differ from run to run): truncations, one more byte, byte 0
// (type, version) set to every value, every other header / extension byte set to the five
// boundary values, incremented and with its low bit flipped.
func c01FlightOps(l int) int { return minInt(l, 27) + 1 + 256 + (minInt(l, 26)-1)*7 }

func c01InFlight(pkt []byte, op int) []byte {
	m := append([]byte{}, pkt...)
	t := minInt(len(pkt), 27)
	switch {
	case op < t:
		return m[:op]
	case op == t:
		return append(m, 0)
	case op < t+1+256:
		m[0] = byte(op - t - 1)
		return m
	}
	op -= t + 1 + 256
	pos, v := 1+op/7, op%7
	switch {
	case v < 5:
		m[pos] = c01FlightBytes[v]
	case v == 5:
		m[pos]++
	default:
		m[pos] ^= 1
	}
	return m
}

// transfer runs one uTP exchange: sender 0 dials the connection the node waits on, writes
// 3000 bytes and closes; tamper sees every packet on its way into the node.
func (w *c01World) transfer(tamper func([]byte) []byte) (got int) {
	h := w.h
	h.wire.mu.Lock()
	h.wire.mute = false
	h.wire.mu.Unlock()
	h.tamper = tamper
	cid := h.utp.CidWithAddr(h.senders[0], h.addrs[0], false)
	go func() {
		ctx, cancel := context.WithTimeout(context.Background(), 15*time.Second)
		defer cancel()
		if s, err := h.utp.AcceptWithCid(ctx, cid); err == nil {
			var data []byte
			rctx, rcancel := context.WithTimeout(context.Background(), 60*time.Second)
			defer rcancel()
			got, _ = s.ReadToEOF(rctx, &data)
			s.Close()
		}
	}()
	go func() {
		ctx, cancel := context.WithTimeout(context.Background(), 15*time.Second)
		defer cancel()
		if s, err := h.peerUtp.DialWithCid(ctx, h.ln.Node(), cid.Send); err == nil {
			wctx, wcancel := context.WithTimeout(context.Background(), 60*time.Second)
			defer wcancel()
			s.Write(wctx, fillBytes(3000, 0x5a))
			s.Close()
		}
	}()
	synctest.Wait()
	for i := 0; i < 3 && runtime.NumGoroutine() > w.base; i++ {
		time.Sleep(c01Settle)
		synctest.Wait()
	}
	h.wire.mu.Lock()
	h.wire.mute = true
	h.wire.mu.Unlock()
	h.tamper = func(b []byte) []byte { return b }
	return got
}

func runC01(r *mc.Report, e *Env) {
	r.Rule = "every case is one direct call of an entry point of the real code (talk handler, the four response processors, handleOfferedContents + the network's validateContents, ValidateContent + adapter Put / Get, the uTP talk handler) on a node with real adapters over pebble, in a synctest bubble; non-trivial = the call produced a reply or an error value; distinct = distinct (network, store state, entry, outcome class) observations"
	r.Assume("byte strings longer than 2 bytes are covered as 1-point mutants of the seed corpus (thorough: 2-point for requests of <= 64 bytes); single-byte mutants of contents are left to C02 / C13 / C14")
	r.Assume("the remote party never answers: outgoing discv5 and uTP traffic is lost, every transfer the node starts ends in its timeout on the virtual clock")
	r.Assume("beacon light client objects of the current fork are zero-valued synthetic ones (the repository's genuine vectors are Capella and are refused by the validator); the ephemeral header index of the history store is written by the harness (no repository code writes it)")
	r.SetMaxSamples(9)
	debug.SetGCPercent(400) // the uTP sockets' buffers are 50 MB of pointers to scan
	var over atomic.Bool    // the bubble's clock is virtual: the deadline is watched from outside
	var beat atomic.Int64
	stop := time.AfterFunc(time.Until(e.Deadline), func() { over.Store(true) })
	defer stop.Stop()
	go func() { // watchdog on the real clock: a call that spins is a wedge that synctest.Wait cannot see
		for last := int64(0); ; last = beat.Load() {
			time.Sleep(90 * time.Second)
			if last != 0 && beat.Load() == last {
				fmt.Fprintln(os.Stderr, "panic: wedged: no case finished within 90 s of real time")
				pprof.Lookup("goroutine").WriteTo(os.Stderr, 2)
				os.Exit(4)
			}
		}
	}()
	if msg := inBubble(func() {
		w := newC01World(r, e)
		w.over, w.beat = &over, &beat
		w.enumerate()
		if w.over.Load() {
			r.NotExhaustive("internal deadline reached")
		}
		r.Set("bound", map[string]any{"short_strings_up_to": 2, "two_point_mutants": w.full, "networks": c01Nets, "store_states": []string{"empty", "populated"}, "senders": 3})
		e.FinishNow(r) // the uTP socket's tickers would keep the bubble's clock running for ever
	}); msg != "" {
		r.EngineError("bubble ended with: " + msg)
	}
}

func replayC01(r *mc.Report, e *Env, raw json.RawMessage) {
	var c c01Case
	if err := json.Unmarshal(raw, &c); err != nil {
		panic(err)
	}
	go func() {
		time.Sleep(60 * time.Second)
		fmt.Println("REPLAY: the case did not finish within 60 s of real time")
		os.Exit(1)
	}()
	inBubble(func() {
		w := newC01World(r, e)
		w.exec(&c, nil)
		fmt.Println("REPLAY: observed", w.last)
		for _, v := range r.Violations {
			fmt.Printf("REPLAY: reproduced %s\n  %s\n", v.Fingerprint, v.Detail)
		}
		if len(r.Violations) > 0 {
			os.Exit(1)
		}
		fmt.Println("REPLAY: no violation reproduced")
		os.Exit(0)
	})
}
