package main

import (
	"bytes"
	"encoding/json"
	"fmt"
	"net"
	"slices"
	"time"

	bitfield "github.com/OffchainLabs/go-bitfield"
	"github.com/ethereum/go-ethereum/p2p/enode"
	"github.com/ethereum/go-ethereum/p2p/enr"
	"github.com/holiman/uint256"
	"github.com/zen-eth/shisui/portalwire"
	"github.com/zen-eth/shisui/storage"
	"verifharness/mc"
)

// C19 — peers settle on the highest common protocol version and frame data accordingly.
//
// Enumerated exhaustively (quick: version lists = every duplicate-free sequence of length
// <= 3 over {0,1,2,255}, which contains every ordering of every non-empty subset of
// {0,1,2}; thorough: length <= 4 over {0,1,2,3,255}; plus 5 lists with duplicates):
// (1) helper: every ordered pair of lists through findBiggestSameNumber;
// (2) negotiation: a real unstarted node per local list (and one without a "pv" entry) x
//     peer record advertising each list / no entry / 4 malformed entries, asked twice and
//     once more after the cache TTL on the virtual clock, the oracle applied to every call;
// (3) consumers: every ordered pairing of the lists {0},{1},{0,1},{1,0} and six lists naming
//     versions above 1 ({2},{1,2},{2,1,0},{0,2},{255,1},{255,2}; cross-side clauses only) x
//     content sizes {0,1,5000} through encodeUtpContent on one side and decodeUtpContent on
//     the other, and x every key-class vector of length <= 3 (+ two 9-key vectors) through
//     the ACCEPT encoding of one side and the ACCEPT parsing of the other.

func init() {
	// shard 0 runs the in-process parts, every further shard is one RPC task (c19_rpc.go)
	register(&Prop{ID: "C19", Level: "exploration", Run: runC19, Replay: replayC19, Workers: func(e *Env) int { return 1 + len(c19RPCTasks(e)) }})
}

type c19Case struct {
	Part string `json:"part"`           // "helper" | "negotiate" | "framing" | "accept" | "rpc-v0-verdicts" | "rpc-offer"
	A    []int  `json:"a"`              // local version list (negotiate: empty = no "pv" entry, protocol default)
	B    []int  `json:"b,omitempty"`    // the other list
	Peer string `json:"peer,omitempty"` // negotiate: what the peer record carries under "pv"
	Size int    `json:"size,omitempty"` // framing: content length
	Keys string `json:"keys,omitempty"` // accept, rpc-offer: one class per offered key: s(tored) f(resh) o(ut of radius)
	Bits string `json:"bits,omitempty"` // rpc-v0-verdicts: the version-0 ACCEPT, one character per offered key, '1' = accepted
	// rpc-offer: the record the RPC is given for B has no "pv" entry
	Unadv bool `json:"b_record_without_version_entry,omitempty"`
}

func u8s(xs []int) []uint8 {
	out := make([]uint8, len(xs))
	for i, x := range xs {
		out[i] = uint8(x)
	}
	return out
}

func ints(xs []uint8) []int {
	out := make([]int, len(xs))
	for i, x := range xs {
		out[i] = int(x)
	}
	return out
}

// c19Max is the statement's "highest version present in both".
func c19Max(a, b []uint8) (best uint8, ok bool) {
	for _, x := range a {
		if slices.Contains(b, x) && (!ok || x > best) {
			best, ok = x, true
		}
	}
	return
}

// c19Seqs: every non-empty duplicate-free sequence over vals of length <= maxLen.
func c19Seqs(vals []uint8, maxLen int) (out [][]uint8) {
	var rec func(cur []uint8)
	rec = func(cur []uint8) {
		if len(cur) > 0 {
			out = append(out, cur)
		}
		if len(cur) == maxLen {
			return
		}
		for _, v := range vals {
			if !slices.Contains(cur, v) {
				rec(append(slices.Clone(cur), v))
			}
		}
	}
	rec(nil)
	return
}

var c19Dups = [][]uint8{{0, 0}, {1, 1, 0}, {1, 0, 1}, {2, 2, 2}, {255, 0, 255}}

func c19Lists(e *Env) [][]uint8 {
	if e.Thorough() {
		return c19Seqs([]uint8{0, 1, 2, 3, 255}, 4)
	}
	return c19Seqs([]uint8{0, 1, 2, 255}, 3)
}

// ---- (1) the helper ----

func c19Helper(r *mc.Report, a, b []uint8) {
	c := c19Case{Part: "helper", A: ints(a), B: ints(b)}
	var got uint8
	var err error
	if msg, site := panicsTo(func() { got, err = portalwire.VerifFindBiggestSameNumber(a, b) }); msg != "" {
		r.Violation("no-panic", site, msg, c)
		return
	}
	want, common := c19Max(a, b)
	switch {
	case common && err != nil:
		r.Violation("highest-common-version", "findBiggestSameNumber:error-despite-common-version", fmt.Sprintf("a=%v b=%v: %v, want %d", a, b, err, want), c)
	case common && got != want:
		r.Violation("highest-common-version", "findBiggestSameNumber:not-the-maximum", fmt.Sprintf("a=%v b=%v: got %d, want %d", a, b, got, want), c)
	case !common && err == nil:
		r.Violation("no-common-version-is-an-error-on-every-call", "findBiggestSameNumber", fmt.Sprintf("a=%v b=%v: got %d without error", a, b, got), c)
	}
	r.Exec(fmt.Sprintf("helper:%v:%d", common, want))
}

func c19RunHelper(r *mc.Report, e *Env) {
	lists := append(c19Lists(e), c19Dups...)
	for _, a := range lists {
		for _, b := range lists {
			c19Helper(r, a, b)
		}
	}
	r.Count("helper_pairs", int64(len(lists)*len(lists)))
	r.Sample(c19Case{Part: "helper", A: []int{2, 0, 1}, B: []int{255, 1, 0}})
}

// ---- (2) negotiation on a real node, with the cache ----

const c19TTL = time.Second

var (
	c19Calls     = [3]string{"first-call", "second-call", "call-after-cache-expiry"}
	c19Malformed = []string{"uint-list", "nested-list", "empty-list", "no-versions"}
)

// c19Local is an unstarted node advertising a (empty: no "pv" entry at all).
func c19Local(a []uint8) *bareNode {
	if len(a) == 0 {
		a = nil
	}
	return newBareNode(bareOpts{keyIdx: 1900, versions: a, ttl: c19TTL})
}

// c19PeerRecord builds a fresh signed record (the versions cache is keyed by record
// object, so every case starts from an empty cache entry). The version list is an RLP
// byte string; the malformed kinds put an RLP list or an empty string under the same key.
func c19PeerRecord(kind string, b []uint8) *enode.Node {
	var es []enr.Entry
	switch kind {
	case "versions":
		es = []enr.Entry{versEntry(b)}
	case "uint-list":
		es = []enr.Entry{enr.WithEntry("pv", []uint16{0, 1})}
	case "nested-list":
		es = []enr.Entry{enr.WithEntry("pv", [][]uint8{{0, 1}})}
	case "empty-list":
		es = []enr.Entry{enr.WithEntry("pv", []uint16{})}
	case "no-versions":
		es = []enr.Entry{versEntry{}}
	}
	return signedNode(detKey(1901), 1, net.IP{127, 0, 0, 1}, 10901, es...)
}

func c19Negotiate(r *mc.Report, n *bareNode, c c19Case) {
	a, b := u8s(c.A), u8s(c.B)
	if len(a) == 0 {
		a = []uint8(portalwire.Versions)
	}
	if got := n.P.VerifCurrentVersions(); !slices.Equal(got, a) {
		r.Violation("local-version-set-is-the-advertised-one", "NewPortalProtocol", fmt.Sprintf("record advertises %v, node works with %v", a, got), c)
		return
	}
	peer := c19PeerRecord(c.Peer, b)
	var vs [3]uint8
	var errs [3]error
	var pmsg, psite string
	if bm := inBubble(func() {
		pmsg, psite = panicsTo(func() {
			for i := range vs {
				if i == 2 {
					time.Sleep(2 * c19TTL)
				}
				vs[i], errs[i] = n.P.VerifGetOrStoreHighestVersion(peer)
			}
		})
	}); bm != "" {
		r.EngineError("C19 negotiate bubble: " + bm)
		return
	}
	if pmsg != "" {
		r.Violation("no-panic", psite, fmt.Sprintf("local %v, peer %s %v: %s", a, c.Peer, b, pmsg), c)
		return
	}
	want, common := c19Max(a, b)
	outcome := ""
	for i, call := range c19Calls {
		v, err := vs[i], errs[i]
		site := "getOrStoreHighestVersion:" + call
		detail := fmt.Sprintf("local %v, peer %s %v, %s: got (%d, %v)", a, c.Peer, b, call, v, err)
		switch {
		case c.Peer == "none":
			if err != nil || v != a[0] {
				r.Violation("base-version-when-peer-advertises-none", site, detail+fmt.Sprintf(", want (%d, nil)", a[0]), c)
			}
		case c.Peer != "versions":
			how := "error"
			if err == nil {
				how = "base"
				if v != a[0] {
					how = "other-own-version"
				}
				if !slices.Contains(a, v) {
					how = "foreign-version"
					r.Violation("malformed-entry-is-an-error-or-an-own-version", "getOrStoreHighestVersion:"+c.Peer+":"+call, detail+", a version the node does not speak", c)
				}
			}
			r.Count("malformed_"+c.Peer+"_"+how, 1)
		case common:
			if err != nil || v != want {
				r.Violation("highest-common-version", site, detail+fmt.Sprintf(", want (%d, nil)", want), c)
			}
		case err == nil:
			if i == 1 && errs[0] != nil {
				site = "getOrStoreHighestVersion:second-call-after-failed-negotiation"
			}
			r.Violation("no-common-version-is-an-error-on-every-call", site, detail+", want an error", c)
		}
		if err != nil {
			outcome += "/err"
		} else {
			outcome += fmt.Sprintf("/%d", v)
		}
	}
	r.Exec("negotiate:" + c.Peer + outcome)
}

func c19RunNegotiate(r *mc.Report, e *Env) {
	lists := c19Lists(e)
	peers := append(slices.Clone(lists), c19Dups...)
	n := 0
	for _, a := range append([][]uint8{nil}, lists...) {
		if e.Expired() {
			return
		}
		node := c19Local(a)
		c := c19Case{Part: "negotiate", A: ints(a)}
		for _, b := range peers {
			c.Peer, c.B = "versions", ints(b)
			c19Negotiate(r, node, c)
		}
		c.B = nil
		for _, kind := range append([]string{"none"}, c19Malformed...) {
			c.Peer = kind
			c19Negotiate(r, node, c)
		}
		n += len(peers) + 1 + len(c19Malformed)
		node.Close()
	}
	r.Count("negotiations_x3_calls", int64(n))
	r.Sample(c19Case{Part: "negotiate", A: []int{1, 0}, Peer: "versions", B: []int{2, 255}})
	r.Sample(c19Case{Part: "negotiate", A: []int{1, 0}, Peer: "nested-list"})
}

// ---- (3) both consumers between two sides ----

var c19Supported = [][]uint8{{0}, {1}, {0, 1}, {1, 0}}

// c19Future: lists that also name versions above 1. Two sides that negotiate such a version
// must still agree with each other: what the statement fixes for it is that the same version
// governs both consumers on both sides, so only the cross-side clauses are judged (B decodes
// what A framed; A reads B's verdicts), not the concrete byte layout.
var c19Future = [][]uint8{{2}, {1, 2}, {2, 1, 0}, {0, 2}, {255, 1}, {255, 2}}

// c19Pair: side A (versions a) offers / sends to side B (versions b). B stores the
// 's' keys, advertises a radius of half the id space, and derives content ids as the key.
type c19Pair struct {
	A, B       *bareNode
	recA, recB *enode.Node
	vtA        *portalwire.VTable
}

func newC19Pair(a, b []uint8) *c19Pair {
	st := &fixedRadiusStore{ContentStorage: storage.NewMockStorage(), radius: new(uint256.Int).Lsh(uint256.NewInt(1), 255)}
	p := &c19Pair{A: newBareNode(bareOpts{keyIdx: 1910, versions: a}), B: newBareNode(bareOpts{keyIdx: 1911, versions: b, store: st})}
	p.recA, p.recB = p.A.LN.Node(), p.B.LN.Node()
	p.B.P.VerifSetContentIdFunc(func(k []byte) []byte { return k })
	for i := 0; i < 9; i++ {
		k := c19Key(p.recB.ID(), 's', i)
		st.Put(k, k, []byte{1})
	}
	p.vtA = p.A.initTable() // processOffer records the peer in the table
	go p.vtA.Loop()
	return p
}

func (p *c19Pair) close() {
	p.vtA.Close() // also closes A's node database
	p.B.Close()
}

// c19Key: the i-th offered key of a class, as a content id relative to B's node id.
func c19Key(self enode.ID, class byte, i int) []byte {
	k := slices.Clone(self[:])
	k[31] ^= byte(i + 1)
	k[30] ^= class
	if class == 'o' {
		k[0] ^= 0x80
	}
	return k
}

// c19Fresh: a new object for the same record, i.e. a peer the versions cache has not seen.
func c19Fresh(n *enode.Node) *enode.Node {
	c, err := enode.New(enode.ValidSchemes, n.Record())
	if err != nil {
		panic(err)
	}
	return c
}

func c19Framing(r *mc.Report, p *c19Pair, c c19Case) {
	x := bytes.Repeat([]byte{0xc1}, c.Size)
	framed := refJoin([][]byte{x})
	v, common := c19Max(u8s(c.A), u8s(c.B))
	var enc, dec []byte
	var eerr, derr error
	if msg, site := panicsTo(func() {
		enc, eerr = p.A.P.VerifEncodeUtpContent(c19Fresh(p.recB), x)
		stream := enc
		if !common {
			stream = framed // v0 takes any stream, v1 takes this one: only a refusal to negotiate errs
		}
		dec, derr = p.B.P.VerifDecodeUtpContent(c19Fresh(p.recA), stream)
	}); msg != "" {
		r.Violation("no-panic", site, fmt.Sprintf("A %v -> B %v, %d bytes: %s", c.A, c.B, c.Size, msg), c)
		return
	}
	if !common {
		if eerr == nil {
			r.Violation("no-common-version-no-transfer", "encodeUtpContent:first-use", fmt.Sprintf("A %v frames content for B %v without error", c.A, c.B), c)
		}
		if derr == nil {
			r.Violation("no-common-version-no-transfer", "decodeUtpContent:first-use", fmt.Sprintf("B %v unframes a stream from A %v without error", c.B, c.A), c)
		}
		r.Exec("framing:refused")
		return
	}
	want := x
	if v == 1 {
		want = framed
	}
	switch {
	case eerr != nil || (v <= 1 && !bytes.Equal(enc, want)): // above version 1 the layout is not fixed by the statement: round trip only
		r.Violation("framing-follows-negotiated-version", "encodeUtpContent", fmt.Sprintf("A %v -> B %v (version %d), %d bytes: got %s err=%v, want %s", c.A, c.B, v, c.Size, hx(enc), eerr, hx(want)), c)
	case derr != nil || !bytes.Equal(dec, x):
		r.Violation("framing-round-trips-between-sides", "decodeUtpContent", fmt.Sprintf("A %v -> B %v (version %d), %d bytes: B decodes %s err=%v", c.A, c.B, v, c.Size, hx(dec), derr), c)
	}
	r.Exec(fmt.Sprintf("framing:v%d:%d->%d", v, c.Size, len(enc)))
}

func c19Accept(r *mc.Report, p *c19Pair, c c19Case) {
	keys := make([][]byte, len(c.Keys))
	var fresh []int
	for i := range keys {
		keys[i] = c19Key(p.recB.ID(), c.Keys[i], i)
		if c.Keys[i] == 'f' {
			fresh = append(fresh, i)
		}
	}
	offer := &portalwire.Offer{ContentKeys: keys}
	req := &portalwire.OfferRequest{Kind: portalwire.PersistOfferRequestKind, Request: &portalwire.PersistOfferRequest{ContentKeys: keys}}
	addr := &net.UDPAddr{IP: net.IP{127, 0, 0, 1}, Port: p.recA.UDP()}
	// With nothing to accept no transfer is started and the real handlers run without a
	// uTP service; otherwise the ACCEPT is built and parsed by the functions they call.
	real := len(fresh) == 0
	v, common := c19Max(u8s(c.A), u8s(c.B))
	who := fmt.Sprintf("A %v offers %q to B %v", c.A, c.Keys, c.B)
	var viol [][3]string // clause, site, detail
	flag := func(cond bool, clause, site, detail string) {
		if cond {
			viol = append(viol, [3]string{clause, site, who + ": " + detail})
		}
	}
	digest := "accept:refused"
	msg, site := panicsTo(func() {
		if !common {
			if real {
				resp, err := p.B.P.VerifHandleOffer(c19Fresh(p.recA), addr, offer)
				flag(err == nil, "no-common-version-no-transfer", "handleOffer:first-use", fmt.Sprintf("answered %s", hx(resp)))
			}
			declined := bytes.Repeat([]byte{byte(portalwire.GenericDeclined)}, len(keys))
			for _, acc := range []portalwire.CommonAccept{&portalwire.Accept{ContentKeys: bitfield.NewBitlist(uint64(len(keys)))}, &portalwire.AcceptV1{ContentKeys: declined}} {
				acc.SetConnectionId([]byte{0, 0})
				ssz, _ := acc.MarshalSSZ()
				got, err := p.A.P.VerifParseOfferResp(c19Fresh(p.recB), ssz)
				flag(err == nil, "no-common-version-no-transfer", "parseOfferResp:first-use", fmt.Sprintf("parsed a %T", acc))
				if err == nil && len(got.GetAcceptIndices()) > 0 {
					continue // read as an acceptance: processOffer would dial
				}
				_, err = p.A.P.VerifProcessOffer(c19Fresh(p.recB), append([]byte{portalwire.ACCEPT}, ssz...), req, &portalwire.NoPermit{})
				flag(err == nil, "no-common-version-no-transfer", "processOffer:first-use", fmt.Sprintf("processed a %T", acc))
			}
			return
		}
		// B's side: the version it negotiates decides the encoding
		vB, err := p.B.P.VerifGetOrStoreHighestVersion(p.recA)
		if err != nil || vB != v {
			flag(true, "highest-common-version", "getOrStoreHighestVersion:accepting-side", fmt.Sprintf("got (%d, %v), want %d", vB, err, v))
			return
		}
		mine, _, err := p.B.P.VerifFilterContentKeys(offer, vB)
		if err != nil && v > 1 {
			digest = fmt.Sprintf("accept:v%d:refused-by-B", v) // a version this build does not implement: an error and no transfer
			return
		}
		if err != nil {
			flag(true, "accept-encoding-follows-negotiated-version", "filterContentKeys", err.Error())
			return
		}
		_, isV1 := mine.(*portalwire.AcceptV1)
		flag(v <= 1 && isV1 != (v == 1), "accept-encoding-follows-negotiated-version", "filterContentKeys", fmt.Sprintf("version %d encoded as %T", v, mine))
		if mine.GetKeyLength() != len(keys) || !slices.Equal(mine.GetAcceptIndices(), fresh) {
			r.Count("model_drift", 1) // which keys B wants is C09's business
		}
		connID := []byte{0, 0}
		if !real {
			connID = []byte{0x12, 0x34}
		}
		mine.SetConnectionId(connID)
		ssz, err := mine.MarshalSSZ()
		if err != nil {
			flag(true, "accept-encoding-follows-negotiated-version", "filterContentKeys", "ACCEPT does not serialise: "+err.Error())
			return
		}
		resp := append([]byte{portalwire.ACCEPT}, ssz...)
		if real {
			got, err := p.B.P.VerifHandleOffer(p.recA, addr, offer)
			flag(err != nil || !bytes.Equal(got, resp), "accept-encoding-follows-negotiated-version", "handleOffer", fmt.Sprintf("answered %s err=%v, the negotiated version %d gives %s", hx(got), err, v, hx(resp)))
		}
		// A's side: what it reads out of that ACCEPT
		theirs, err := p.A.P.VerifParseOfferResp(p.recB, ssz)
		if err != nil && v > 1 {
			digest = fmt.Sprintf("accept:v%d:refused-by-A", v)
			return
		}
		if err != nil {
			flag(true, "accept-decodes-to-the-same-verdicts", "parseOfferResp", fmt.Sprintf("ACCEPT %s (version %d): %v", hx(ssz), v, err))
			return
		}
		same := fmt.Sprintf("%T", theirs) == fmt.Sprintf("%T", mine) && theirs.GetKeyLength() == mine.GetKeyLength() &&
			slices.Equal(theirs.GetAcceptIndices(), mine.GetAcceptIndices()) && bytes.Equal(theirs.GetContentKeys(), mine.GetContentKeys()) &&
			bytes.Equal(theirs.GetConnectionId(), connID)
		flag(!same, "accept-decodes-to-the-same-verdicts", "parseOfferResp", fmt.Sprintf("B sent %T keys=%d accepted=%v codes=%x, A read %T keys=%d accepted=%v codes=%x conn=%x",
			mine, mine.GetKeyLength(), mine.GetAcceptIndices(), mine.GetContentKeys(), theirs, theirs.GetKeyLength(), theirs.GetAcceptIndices(), theirs.GetContentKeys(), theirs.GetConnectionId()))
		if real && len(theirs.GetAcceptIndices()) == 0 { // otherwise processOffer would dial
			out, err := p.A.P.VerifProcessOffer(p.recB, resp, req, &portalwire.NoPermit{})
			flag(err != nil || !bytes.Equal(out, mine.GetContentKeys()), "accept-decodes-to-the-same-verdicts", "processOffer", fmt.Sprintf("returned %x err=%v, B's verdicts are %x", out, err, mine.GetContentKeys()))
		}
		digest = fmt.Sprintf("accept:v%d:real=%v:%x", v, real, ssz)
	})
	if msg != "" {
		r.Violation("no-panic", site, who+": "+msg, c)
		return
	}
	for _, x := range viol {
		r.Violation(x[0], x[1], x[2], c)
	}
	r.Exec(digest)
}

// c19KeyVectors: every class vector of length 1..3 and two vectors crossing the bitlist's byte boundary.
func c19KeyVectors() []string {
	out := []string{"sosososos", "sfosfosfo"}
	var rec func(cur string)
	rec = func(cur string) {
		if cur != "" {
			out = append(out, cur)
		}
		if len(cur) < 3 {
			for _, k := range "sfo" {
				rec(cur + string(k))
			}
		}
	}
	rec("")
	return out
}

func c19RunConsumers(r *mc.Report, e *Env) {
	vectors := c19KeyVectors()
	lists := append(slices.Clone(c19Supported), c19Future...)
	for _, a := range lists {
		for _, b := range lists {
			if e.Expired() {
				return
			}
			p := newC19Pair(a, b)
			for _, size := range []int{0, 1, 5000} {
				c19Framing(r, p, c19Case{Part: "framing", A: ints(a), B: ints(b), Size: size})
			}
			for _, keys := range vectors {
				c19Accept(r, p, c19Case{Part: "accept", A: ints(a), B: ints(b), Keys: keys})
			}
			p.close()
		}
	}
	r.Count("consumer_pairings", int64(len(lists)*len(lists)))
	r.Count("key_vectors_per_pairing", int64(len(vectors)))
	r.Sample(c19Case{Part: "framing", A: []int{0, 1}, B: []int{0}, Size: 5000})
	r.Sample(c19Case{Part: "accept", A: []int{1}, B: []int{0, 1}, Keys: "sfo"})
}

func runC19(r *mc.Report, e *Env) {
	if e.Of > 1 && e.Shard > 0 {
		c19RPCTaskRun(r, e, e.Shard-1)
		return
	}
	r.Rule = "every case runs the real helper / getOrStoreHighestVersion (3 calls on the virtual clock) / framing and ACCEPT code of two real unstarted nodes; distinct = distinct (part, negotiated versions per call | framing version and lengths | ACCEPT bytes) observations"
	r.Assume("version lists are bounded as stated; lists over other values of 0..255 are not enumerated")
	r.Assume("consumers: every use negotiates afresh (a new record object per use), so the cached-failure defect of the negotiation is reported once, by the negotiation part; offers in which a key is accepted go through filterContentKeys/parseOfferResp directly because the handlers would start a uTP transfer")
	c19RunHelper(r, e)
	c19RunNegotiate(r, e)
	c19RunConsumers(r, e)
	c19RunStale(r, e)
	c19RunV0Verdicts(r, e)
	c19RPCEvidence(r, e)
	// the end-to-end part (one offer and one large find-content per pairing over the in-memory network) is added here
}

func replayC19(r *mc.Report, e *Env, raw json.RawMessage) {
	var sc c19StaleCase
	if json.Unmarshal(raw, &sc) == nil && sc.Part == "stale-table-record" {
		c19Stale(r, sc)
		return
	}
	var c c19Case
	if err := json.Unmarshal(raw, &c); err != nil {
		panic(err)
	}
	switch c.Part {
	case "helper":
		c19Helper(r, u8s(c.A), u8s(c.B))
	case "negotiate":
		n := c19Local(u8s(c.A))
		defer n.Close()
		c19Negotiate(r, n, c)
	case "rpc-v0-verdicts":
		n := c19Local(u8s(c.A))
		defer n.Close()
		c19V0Verdicts(r, n, c)
	case "rpc-offer":
		c19RPCReplay(r, c)
	case "framing", "accept":
		p := newC19Pair(u8s(c.A), u8s(c.B))
		defer p.close()
		if c.Part == "framing" {
			c19Framing(r, p, c)
		} else {
			c19Accept(r, p, c)
		}
	}
}
