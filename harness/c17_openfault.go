package main

import (
	"bytes"
	"encoding/binary"
	"fmt"
	"path"
	"runtime"
	"strings"
	"sync/atomic"
	"testing/synctest"
	"time"

	"github.com/cockroachdb/pebble"
	"github.com/cockroachdb/pebble/vfs"
	"github.com/cockroachdb/pebble/vfs/errorfs"
	"github.com/holiman/uint256"
	"github.com/zen-eth/shisui/storage"
	sp "github.com/zen-eth/shisui/storage/pebble"
	"verifharness/mc"
)

// C17, second part — the reopen itself meets a failing file system.
//
// The crash-point part freezes the world at operation k; every read the reopen performs
// succeeds. Here the first life of the store ends with a clean shutdown between two puts, the
// database is opened, and NewStorage runs while the r-th read-kind file-system operation it
// performs (open, read, read-at, stat, list of a table file, ...) returns an error - only that
// one (a transient fault) or that one and every later one until NewStorage returns (an
// outage). Whatever NewStorage answers, life goes on: if it failed (or pebble gave up with a
// panic of its own) the process is started again without faults and that open must succeed;
// then further puts on the store that was handed out, a clean shutdown and a clean reopen,
// judged by the recovery clauses of the first part. Failing loudly is fine; a store that is
// handed out must have loaded a consistent state.

type c17FaultCase struct {
	Kind       string `json:"kind"` // "open-fault"
	History    string `json:"history"`
	Prefix     int    `json:"puts_in_first_life"`
	Small      bool   `json:"small_memtable"`
	FirstCapMB uint64 `json:"capacity_mb_in_first_life"`
	End        string `json:"end_of_first_life"`              // "close" (the log is replayed by the next open) | "flush-close" (everything in table files)
	Op         int64  `json:"fault_at_read_op_of_NewStorage"` // -1: no fault
	Mode       string `json:"fault_mode,omitempty"`           // "once" | "from"
}

const c17FaultKind = "open-fault"

// c17FaultSpec names a start state family: the first Prefix puts of a history.
type c17FaultSpec struct {
	H      c17History
	Prefix int
}

const c17FaultChunk = 2 // put sequences per worker process

// c17FaultSpecs: every non-empty prefix of every history of the first part (menu and
// generated), each distinct put sequence once.
func c17FaultSpecs(thorough bool) []c17FaultSpec {
	depth := 2
	if thorough {
		depth = 3
	}
	seen := map[string]bool{}
	var out []c17FaultSpec
	for _, h := range append(append([]c17History{}, c17Histories...), c17Generated(depth)...) {
		for p := 1; p <= len(h.Ops); p++ {
			key := fmt.Sprint(h.Ops[:p])
			if seen[key] {
				continue
			}
			seen[key] = true
			out = append(out, c17FaultSpec{h, p})
		}
	}
	return out
}

func c17FaultTasks(thorough bool) []c17Task {
	specs := c17FaultSpecs(thorough)
	var ts []c17Task
	for i := 0; i < len(specs); i += c17FaultChunk {
		ts = append(ts, c17Task{Fault: specs[i:minInt(i+c17FaultChunk, len(specs))]})
	}
	return ts
}

func c17Cfg(capMB uint64) storage.PortalStorageConfig {
	return storage.PortalStorageConfig{StorageCapacityMB: capMB, NodeId: c04Nodes["mixed"], NetworkName: "verif"}
}

// c17FirstLife runs the first n puts of h on a store of the given capacity, lets the
// background work settle after each, closes the database and returns the file tree.
func c17FirstLife(h *c17History, n int, small bool, capMB uint64) (tree c17Tree, err error) {
	fs := vfs.NewMem()
	fs.MkdirAll("db", 0o755)
	db, err := pebble.Open("db", c17Opts(fs, small))
	if err != nil {
		return nil, err
	}
	cs, err := sp.NewStorage(c17Cfg(capMB), db)
	if err != nil {
		return nil, err
	}
	for i := 0; i < n; i++ {
		cs.Put(nil, c17Id(h.Ops[i].Id), c17Val(h.Ops[i], i))
		synctest.Wait()
	}
	// a clean shutdown: pebble hands the buffered tail of its log to the file system (a kill
	// at this point would lose whatever the log writer has not passed on yet - the crash part's subject)
	if err := db.Close(); err != nil && !strings.Contains(err.Error(), "leaked iterators") {
		return nil, err
	}
	tree = c17Tree{}
	return tree, readTree(fs, "", tree)
}

// c17FlushClose: the database (no store code involved) is opened on the tree, flushed and closed.
func c17FlushClose(t c17Tree, small bool) (c17Tree, error) {
	fs := t.materialize()
	db, err := pebble.Open("db", c17Opts(fs, small))
	if err != nil {
		return nil, err
	}
	synctest.Wait()
	if err := db.Flush(); err != nil {
		return nil, err
	}
	synctest.Wait()
	if err := db.Close(); err != nil {
		return nil, err
	}
	out := c17Tree{}
	return out, readTree(fs, "", out)
}

func c17Scan(db *pebble.DB) (items []kv, rec uint64, has bool) {
	it, err := db.NewIter(nil)
	if err != nil {
		panic(err)
	}
	defer it.Close()
	for it.First(); it.Valid(); it.Next() {
		if bytes.Equal(it.Key(), storage.SizeKey) {
			if len(it.Value()) == 8 {
				rec, has = binary.BigEndian.Uint64(it.Value()), true
			}
			continue
		}
		items = append(items, kv{append([]byte{}, it.Key()...), append([]byte{}, it.Value()...)})
	}
	return
}

var c17OpNames = map[errorfs.Op]string{errorfs.OpOpen: "open", errorfs.OpOpenDir: "opendir", errorfs.OpList: "list", errorfs.OpStat: "stat",
	errorfs.OpGetDiskUsage: "diskusage", errorfs.OpFileRead: "read", errorfs.OpFileReadAt: "readat", errorfs.OpFileStat: "fstat"}

// c17ReadFaults counts the read-kind operations that the armed goroutine performs and fails
// the k-th (mode once) or the k-th and all later ones (mode from).
type c17ReadFaults struct {
	armed atomic.Bool
	g     int
	k     int64
	from  bool
	cnt   int64 // touched by goroutine g only
	fired int64
	ops   []string
}

func (j *c17ReadFaults) MaybeError(op errorfs.Op, p string) error {
	if !j.armed.Load() || op.OpKind() != errorfs.OpKindRead || goid() != j.g {
		return nil
	}
	i := j.cnt
	j.cnt++
	j.ops = append(j.ops, c17OpNames[op]+":"+strings.TrimLeft(path.Ext(p), "."))
	if j.k >= 0 && (i == j.k || (j.from && i > j.k)) {
		j.fired++
		return errorfs.ErrInjected
	}
	return nil
}

// panicOrigin runs f; if it panics it returns the message, the innermost function that is
// not part of the Go runtime (who raised it) and the innermost repository function.
func panicOrigin(f func()) (msg, origin, site string) {
	defer func() {
		if rec := recover(); rec != nil {
			msg, site = fmt.Sprint(rec), repoFrame()
			pcs := make([]uintptr, 64)
			n := runtime.Callers(2, pcs)
			frames := runtime.CallersFrames(pcs[:n])
			for {
				fr, more := frames.Next()
				if fr.Function != "" && !strings.HasPrefix(fr.Function, "runtime.") && !strings.Contains(fr.Function, "panicOrigin") {
					origin = fr.Function
					break
				}
				if !more {
					break
				}
			}
		}
	}()
	f()
	return
}

type c17FaultOutcome struct {
	digest  string
	ops     []string // the read-kind operations NewStorage performed (fault-free run: the alphabet)
	fired   int64
	outcome string // "no-fault" | "not-reached" | "failed-loudly" | "handed-out" | "pebble-panic"
}

// c17FaultRun executes one case on the start tree (inside the caller's bubble).
func c17FaultRun(r *mc.Report, c c17FaultCase, h *c17History, start c17Tree) (out c17FaultOutcome) {
	viol := func(clause, site, detail string) { r.Violation(clause, site, detail, c) }
	capB := uint64(c05Cap)
	// what the start state holds (a database of its own, so that the block cache of the one
	// under test stays cold)
	var before []kv
	var recBefore uint64
	{
		db0, err := pebble.Open("db", c17Opts(start.materialize(), c.Small))
		if err != nil {
			viol("reopen-succeeds", "pebble.Open", fmt.Sprintf("the database does not open after %d puts: %v", c.Prefix, err))
			return
		}
		synctest.Wait()
		before, recBefore, _ = c17Scan(db0)
		db0.Close()
	}
	inj := &c17ReadFaults{g: goid(), k: c.Op, from: c.Mode == "from"}
	mem := start.materialize()
	fs := errorfs.Wrap(mem, inj)
	db, err := pebble.Open("db", c17Opts(fs, c.Small))
	if err != nil {
		viol("reopen-succeeds", "pebble.Open", fmt.Sprintf("the database does not open after %d puts: %v", c.Prefix, err))
		return
	}
	synctest.Wait() // the database's own start-up work (table statistics) is over: not under fault
	var cs storage.ContentStorage
	inj.armed.Store(true)
	msg, origin, site := panicOrigin(func() { cs, err = sp.NewStorage(c17Cfg(1), db) })
	inj.armed.Store(false)
	out.ops, out.fired = inj.ops, inj.fired
	label := "open-under-read-fault"
	switch {
	case msg != "":
		if strings.HasPrefix(origin, repoPkg) || !(strings.Contains(origin, "cockroachdb/pebble") || strings.Contains(origin, "quietLogger")) {
			// raised by the repository's own code (or by a library it handed a bad value to)
			viol("no-panic", site+":open-under-read-fault", fmt.Sprintf("NewStorage panicked (raised in %s) with %d read faults injected: %s", origin, inj.fired, msg))
			out.outcome = "panic"
			return
		}
		// the database engine itself gave up on the injected fault: the process dies
		r.Count("open_fault_pebble_internal_panics", 1)
		out.outcome, cs, err = "pebble-panic", nil, fmt.Errorf("panic")
	case c.Op < 0:
		out.outcome = "no-fault"
		label = "open-without-fault"
	case inj.fired == 0:
		out.outcome = "not-reached"
		label = "open-without-fault"
	case err != nil:
		out.outcome = "failed-loudly"
	default:
		out.outcome = "handed-out"
	}
	if err != nil && inj.fired == 0 && msg == "" {
		viol("reopen-succeeds", "NewStorage", fmt.Sprintf("no fault was delivered, yet the store does not open after %d puts: %v", c.Prefix, err))
		return
	}
	dbOpen := true
	shutdown := func() bool { // the process ends, nothing is lost
		synctest.Wait()
		if dbOpen {
			panicOrigin(func() { db.Close() })
			dbOpen = false
		}
		t := c17Tree{}
		if e := readTree(mem, "", t); e != nil {
			r.EngineError("copy: " + e.Error())
			return false
		}
		mem = t.materialize()
		return true
	}
	restart := func() bool { // ... and the database is opened again, no faults
		if !shutdown() {
			return false
		}
		var e error
		if db, e = pebble.Open("db", c17Opts(mem, c.Small)); e != nil {
			viol("reopen-succeeds", "pebble.Open:after-"+label, fmt.Sprintf("the database does not open again: %v", e))
			return false
		}
		dbOpen = true
		synctest.Wait()
		return true
	}
	defer func() {
		if dbOpen {
			synctest.Wait()
			panicOrigin(func() { db.Close() })
		}
	}()
	if err != nil {
		// failing loudly is fine; the operator starts the node again
		if !restart() {
			return
		}
		before, recBefore, _ = c17Scan(db)
		label = "retry-after-failed-open-under-read-fault"
		cs, err = sp.NewStorage(c17Cfg(1), db)
		if err != nil {
			viol("reopen-succeeds", "NewStorage:"+label, fmt.Sprintf("the open under a read fault failed (fine), but the fault-free retry fails too: %v", err))
			return
		}
	}
	synctest.Wait()
	// the store that was handed out must have loaded a consistent state
	after, recAfter, hasRec := c17Scan(db)
	A := held(after)
	if inMem := sp.VerifSize(cs); inMem < A {
		viol("persisted-usage-not-below-present", "NewStorage:in-memory-usage:"+label, fmt.Sprintf("NewStorage returned a store (%d read faults delivered, operations %v) whose usage counter is %d while %d bytes are present (persisted record %d): every later put persists a figure below the bytes present", inj.fired, inj.ops, inMem, A, recAfter))
	}
	if (hasRec && recAfter < A) || (!hasRec && A > 0) {
		viol("persisted-usage-not-below-present", "persisted-record:"+label, fmt.Sprintf("persisted usage %d (present=%v) but %d bytes are present", recAfter, hasRec, A))
	}
	if recBefore <= capB && len(after) < len(before) {
		viol("open-prunes-only-an-over-capacity-store", "NewStorage:"+label, fmt.Sprintf("persisted usage %d <= capacity, yet opening removed %d of %d items", recBefore, len(before)-len(after), len(before)))
	}
	radius := cs.Radius()
	over95 := recBefore > uint64(float64(capB)*0.95)
	derived := false
	if len(after) > 0 {
		far := after[len(after)-1].K
		le := new(uint256.Int)
		le.UnmarshalSSZ(far)
		derived = radius.Eq(beUint(far)) || radius.Eq(le)
	}
	switch {
	case !over95 && !radius.Eq(maxU256):
		viol("radius-maximum-below-95-percent", "NewStorage:"+label, fmt.Sprintf("persisted usage %d <= 95%% of capacity but the radius after opening is %s", recBefore, radius.Hex()))
	case over95 && len(after) > 0 && !derived:
		if out.outcome == "handed-out" {
			// The statement speaks of a process that dies, not of reads that fail: a store that
			// was handed out although the scan for the farthest item (or the pruning scan) met a
			// read error is recorded, not judged (see the evidence counters).
			r.Count("open_fault_handed_out_without_rederived_radius", 1)
		} else {
			viol("radius-from-farthest-retained-above-95-percent", "NewStorage:"+label, fmt.Sprintf("persisted usage %d > 95%% of capacity; radius after opening %s", recBefore, radius.Hex()))
		}
	}
	if recBefore > capB && A != 0 && int64(held(before))-int64(A) < int64(capB/20) {
		if out.outcome == "handed-out" {
			r.Count("open_fault_handed_out_over_capacity_unpruned", 1)
		} else {
			viol("over-capacity-pruned-on-open", "NewStorage:"+label, fmt.Sprintf("persisted usage %d > capacity, but opening freed only %d bytes", recBefore, int64(held(before))-int64(A)))
		}
	}
	// further operations on the store that was handed out
	h2 := c17History{Name: h.Name, Ops: append([]c17Put{}, h.Ops[:c.Prefix]...)}
	accepted := 0
	for j, n := range []int{100, 30_000} {
		op := c17Put{Id: fmt.Sprintf("fault-after-%d", j), Size: n}
		seq := len(h2.Ops)
		h2.Ops = append(h2.Ops, op)
		if err := cs.Put(nil, c17Id(op.Id), c17Val(op, seq)); err == nil {
			accepted++
			synctest.Wait()
			items, rec, has := c17Scan(db)
			if !has || rec < held(items) {
				viol("persisted-usage-not-below-present", "persisted-record:put-after-"+label, fmt.Sprintf("after a further put the persisted usage is %d (present=%v) but %d bytes are present", rec, has, held(items)))
			}
		}
	}
	// clean shutdown, clean restart: the clauses of the first part
	if !shutdown() {
		return
	}
	d := c17Recover(r, c, c.Small, &h2, c17Cut{started: len(h2.Ops), completed: len(h2.Ops)}, mem)
	out.digest = fmt.Sprintf("%s ops=%d fired=%d itemsBefore=%d recBefore=%d items=%d over95=%v radiusMax=%v accepted=%d | %s", out.outcome, len(inj.ops), inj.fired, len(before), recBefore, len(after), over95, radius.Eq(maxU256), accepted, d)
	return
}

// c17FaultStart builds the start tree of a case (inside a bubble).
func c17FaultStart(h *c17History, prefix int, small bool, capMB uint64, end string) (c17Tree, error) {
	t, err := c17FirstLife(h, prefix, small, capMB)
	if err == nil && end == "flush-close" {
		t, err = c17FlushClose(t, small)
	}
	return t, err
}

func c17FaultEnds(thorough bool) []string {
	if thorough {
		return []string{"close", "flush-close"}
	}
	return []string{"close"}
}

// c17FaultExplore enumerates all cases of the specs of one task.
func c17FaultExplore(r *mc.Report, e *Env, specs []c17FaultSpec) {
	for si := range specs {
		h, prefix := &specs[si].H, specs[si].Prefix
		for _, small := range []bool{false, true} {
			for _, capMB := range []uint64{1, 4} {
				for _, end := range c17FaultEnds(e.Thorough()) {
					if e.Expired() {
						return
					}
					base := c17FaultCase{Kind: c17FaultKind, History: h.Name, Prefix: prefix, Small: small, FirstCapMB: capMB, End: end, Op: -1}
					var start c17Tree
					var ref c17FaultOutcome
					run := func(c c17FaultCase) (o c17FaultOutcome) {
						// hang detector: a case takes some 30 ms; an open that spins on a fault (a retry loop that
						// cannot make progress) never leaves the bubble and would only end with the worker being
						// killed at its budget, without a verdict. Real time on purpose (the bubble's clock stands
						// still while a goroutine spins), with a margin of three orders of magnitude (60 s).
						wd := time.AfterFunc(time.Minute, func() {
							r.Violation("reopen-returns", "NewStorage:open-under-read-fault", fmt.Sprintf("the case (open, retry, two further puts, clean reopen) has not returned after a real minute (it takes some 30 ms): a call spins; read fault at operation %d, mode %q", c.Op, c.Mode), c)
							r.NotExhaustive("a case of the open-under-fault part hung; its worker stopped there")
							e.FinishNow(r)
						})
						defer wd.Stop()
						msg := inBubble(func() {
							if start == nil {
								t, err := c17FaultStart(h, prefix, small, capMB, end)
								if err != nil {
									r.EngineError("first life: " + err.Error())
									return
								}
								start = t
							}
							o = c17FaultRun(r, c, h, start)
						})
						if msg != "" {
							r.Violation("no-panic", "ContentStorage:open-under-read-fault", "panic: "+msg, c)
						}
						return
					}
					ref = run(base)
					if start == nil {
						continue
					}
					r.Count("open_fault_start_states", 1)
					r.Max("max_open_fault_read_ops_in_NewStorage", int64(len(ref.ops)))
					if len(ref.ops) == 0 {
						r.Count("open_fault_start_states_without_a_read", 1)
						r.Trivial()
					} else if ref.digest != "" {
						r.Exec("open-fault|" + ref.digest)
					}
					for _, o := range ref.ops {
						r.Count("open_fault_alphabet_"+o, 1)
					}
					if si == 0 && capMB == 1 {
						r.Sample(map[string]any{"open_fault_start": base, "read_ops_of_NewStorage": ref.ops})
					}
					for k := int64(0); k < int64(len(ref.ops)); k++ {
						for _, mode := range []string{"once", "from"} {
							c := base
							c.Op, c.Mode = k, mode
							o := run(c)
							r.Count("open_fault_cases", 1)
							r.Count("open_fault_"+strings.ReplaceAll(o.outcome, "-", "_"), 1)
							if o.outcome == "not-reached" {
								r.NotExhaustive("open under fault: a replay performed fewer read operations than the fault-free reference run")
							}
							if o.digest != "" {
								r.Exec("open-fault|" + o.digest)
							}
						}
					}
				}
			}
		}
	}
}

func replayC17Fault(r *mc.Report, c c17FaultCase) {
	runtime.GOMAXPROCS(1) // as in the worker processes of the exploration (Procs: 1)
	h := c17HistoryByName(c.History)
	if h == nil || c.Prefix > len(h.Ops) {
		fmt.Println("unknown history", c.History)
		return
	}
	msg := inBubble(func() {
		start, err := c17FaultStart(h, c.Prefix, c.Small, c.FirstCapMB, c.End)
		if err != nil {
			r.EngineError("first life: " + err.Error())
			return
		}
		o := c17FaultRun(r, c, h, start)
		fmt.Println("outcome:", o.outcome, "| read ops of NewStorage:", o.ops, "| faults delivered:", o.fired, "|", o.digest)
	})
	if msg != "" {
		r.Violation("no-panic", "ContentStorage:open-under-read-fault", "panic: "+msg, c)
	}
}
