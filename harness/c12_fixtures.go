package main

import (
	"crypto/sha256"
	"encoding/binary"
	"fmt"
	"strconv"
	"strings"
	"sync"
	"testing/synctest"

	"github.com/ethereum/go-ethereum/log"
	kbls "github.com/kilic/bls12-381"
	blsu "github.com/protolambda/bls12-381-util"
	"github.com/protolambda/zrnt/eth2/beacon/altair"
	"github.com/protolambda/zrnt/eth2/beacon/capella"
	"github.com/protolambda/zrnt/eth2/beacon/common"
	"github.com/protolambda/zrnt/eth2/beacon/deneb"
	"github.com/protolambda/zrnt/eth2/configs"
	"github.com/protolambda/ztyp/view"

	"github.com/zen-eth/shisui/beacon"
)

// Fixtures for C12: a synthetic chain whose sync committees are A (period P), B (P+1),
// C (P+2), A again (P+3). All slots lie in mainnet's Altair era, so the fork version
// the configuration yields for every signature slot is 0x01000000 (c12Version).
// All hashing below (header / committee / signing roots, state tree, branch folding)
// is written out with crypto/sha256 and shares nothing with the code under test.

const (
	c12N        = 512
	c12Period   = 8192 // slots per sync-committee period
	c12P        = 300  // period of the bootstrapped store
	c12Boundary = (c12P + 1) * c12Period
	// every synctest bubble starts at 2000-01-01T00:00:00Z and a single computing
	// goroutine never advances it: time.Now().Unix() inside a bubble is this constant.
	c12BubbleUnix = 946684800
)

var (
	c12Version     = [4]byte{1, 0, 0, 0}
	c12GenesisRoot = c12H("c12 genesis validators root")
	c12OtherRoot   = c12H("c12 some other chain")
	c12Logger      = log.NewLogger(log.DiscardHandler())
)

type c12Root = [32]byte

func c12H(parts ...any) c12Root { return sha256.Sum256([]byte(fmt.Sprint(parts...))) }

func c12H2(a, b c12Root) c12Root {
	var buf [64]byte
	copy(buf[:32], a[:])
	copy(buf[32:], b[:])
	return sha256.Sum256(buf[:])
}

func c12Merkleize(leaves []c12Root) c12Root { // len(leaves) is a power of two
	for len(leaves) > 1 {
		next := make([]c12Root, len(leaves)/2)
		for i := range next {
			next[i] = c12H2(leaves[2*i], leaves[2*i+1])
		}
		leaves = next
	}
	return leaves[0]
}

func c12U64Leaf(v uint64) (r c12Root) { binary.LittleEndian.PutUint64(r[:], v); return }

func c12HeaderRoot(h *common.BeaconBlockHeader) c12Root {
	return c12Merkleize([]c12Root{c12U64Leaf(uint64(h.Slot)), c12U64Leaf(uint64(h.ProposerIndex)), c12Root(h.ParentRoot), c12Root(h.StateRoot), c12Root(h.BodyRoot), {}, {}, {}})
}

func c12PubkeyLeaf(p *common.BLSPubkey) c12Root {
	var a, b c12Root
	copy(a[:], p[:32])
	copy(b[:], p[32:])
	return c12H2(a, b)
}

func c12CommitteeRoot(c *common.SyncCommittee) c12Root {
	leaves := make([]c12Root, c12N)
	for i := range leaves {
		leaves[i] = c12PubkeyLeaf(&c.Pubkeys[i])
	}
	return c12H2(c12Merkleize(leaves), c12PubkeyLeaf(&c.AggregatePubkey))
}

// c12SigningRoot: hash_tree_root(SigningData{header root, DOMAIN_SYNC_COMMITTEE ++ fork_data_root[:28]}).
func c12SigningRoot(hdr c12Root, version [4]byte, genesis c12Root) c12Root {
	var v, domain c12Root
	copy(v[:], version[:])
	fdr := c12H2(v, genesis)
	domain[0] = 7
	copy(domain[4:], fdr[:28])
	return c12H2(hdr, domain)
}

// c12FoldBranch walks a Merkle branch from a leaf at (depth, index) up to the root.
func c12FoldBranch(leaf c12Root, branch []common.Root, depth int, index uint64) c12Root {
	n := leaf
	for i := 0; i < depth; i++ {
		if index>>uint(i)&1 == 1 {
			n = c12H2(c12Root(branch[i]), n)
		} else {
			n = c12H2(n, c12Root(branch[i]))
		}
	}
	return n
}

// ---- committees ----

type c12Committee struct {
	id   string
	sks  []kbls.Fr // nil for a committee the harness has no keys of
	obj  *common.SyncCommittee
	pks  []*blsu.Pubkey // decompressed once, for the oracle only (nil entry: not a valid point)
	root c12Root
}

var (
	c12ComMu     sync.Mutex
	c12ComByRoot = map[c12Root]*c12Committee{}
	c12ComByPtr  sync.Map // *common.SyncCommittee -> *c12Committee
)

// c12Register decompresses the keys and makes the committee findable by content.
func c12Register(c *c12Committee) *c12Committee {
	c.root = c12CommitteeRoot(c.obj)
	c.pks = make([]*blsu.Pubkey, c12N)
	for i := range c.pks {
		c.pks[i], _ = c.obj.Pubkeys[i].Pubkey()
	}
	c12ComMu.Lock()
	defer c12ComMu.Unlock()
	if old, ok := c12ComByRoot[c.root]; ok {
		return old
	}
	c12ComByRoot[c.root] = c
	return c
}

// c12ComOf identifies a committee object held by a store or an update by its content.
func c12ComOf(o *common.SyncCommittee) *c12Committee {
	if o == nil {
		return nil
	}
	if c, ok := c12ComByPtr.Load(o); ok {
		return c.(*c12Committee)
	}
	rt := c12CommitteeRoot(o)
	c12ComMu.Lock()
	c := c12ComByRoot[rt]
	c12ComMu.Unlock()
	if c == nil {
		c = c12Register(&c12Committee{id: fmt.Sprintf("?%x", rt[:4]), obj: o})
	}
	c12ComByPtr.Store(o, c)
	return c
}

func newC12Committee(id string) *c12Committee {
	c := &c12Committee{id: id, sks: make([]kbls.Fr, c12N), obj: &common.SyncCommittee{Pubkeys: make(common.SyncCommitteePubkeys, c12N)}}
	sum := kbls.NewFr().Zero()
	for i := range c.sks {
		seed := c12H("c12 secret key", id, i)
		c.sks[i].FromBytes(seed[:])
		sum.Add(sum, &c.sks[i])
		pk, err := blsu.SkToPk((*blsu.SecretKey)(&c.sks[i]))
		if err != nil {
			panic(err)
		}
		c.obj.Pubkeys[i] = pk.Serialize()
	}
	agg, _ := blsu.SkToPk((*blsu.SecretKey)(sum))
	c.obj.AggregatePubkey = agg.Serialize()
	return c12Register(c)
}

var c12ComsOnce = sync.OnceValue(func() map[string]*c12Committee {
	m := map[string]*c12Committee{}
	for _, id := range []string{"A", "B", "C"} {
		m[id] = newC12Committee(id)
	}
	return m
})

func c12Coms() map[string]*c12Committee { return c12ComsOnce() }

// c12Com resolves "A", "B", "C" and "A~17" (A with member 17 replaced by a foreign valid key).
func c12Com(id string) *c12Committee {
	base, idx, repl := id, 0, false
	if i := strings.IndexByte(id, '~'); i > 0 {
		base, repl = id[:i], true
		idx, _ = strconv.Atoi(id[i+1:])
	}
	c := c12Coms()[base]
	if !repl {
		return c
	}
	c12ComMu.Lock()
	d := c12Replaced[id]
	c12ComMu.Unlock()
	if d == nil {
		d = &c12Committee{id: id, obj: &common.SyncCommittee{Pubkeys: append(common.SyncCommitteePubkeys{}, c.obj.Pubkeys...), AggregatePubkey: c.obj.AggregatePubkey}}
		d.obj.Pubkeys[idx] = c12Coms()["C"].obj.Pubkeys[(idx+7)%c12N]
		d = c12Register(d)
		c12ComMu.Lock()
		c12Replaced[id] = d
		c12ComMu.Unlock()
	}
	return d
}

var c12Replaced = map[string]*c12Committee{}

// c12ChainCommittee: the committee of the synthetic chain for a period (A at c12P, then B, C, A, ...).
func c12ChainCommittee(period uint64) string {
	return []string{"A", "B", "C"}[(period+300-c12P)%3]
}

func c12Bits(part int, suffix bool) altair.SyncCommitteeBits {
	b := make(altair.SyncCommitteeBits, c12N/8)
	for i := 0; i < part; i++ {
		j := i
		if suffix {
			j = c12N - 1 - i
		}
		b[j/8] |= 1 << uint(j%8)
	}
	return b
}

func c12BitAt(b []byte, i int) bool { return b[i/8]>>uint(i%8)&1 == 1 }

var (
	c12SigMu   sync.Mutex
	c12SigMemo = map[string]common.BLSSignature{}
)

// c12Sign: the aggregate of the participants' signatures, produced by signing once
// with the sum of their secret keys. Nobody participating: the point at infinity.
func c12Sign(c *c12Committee, bits []byte, msg c12Root) common.BLSSignature {
	key := fmt.Sprintf("%s|%x|%x", c.id, bits, msg)
	c12SigMu.Lock()
	s, ok := c12SigMemo[key]
	c12SigMu.Unlock()
	if ok {
		return s
	}
	sum := kbls.NewFr().Zero()
	for i := 0; i < c12N; i++ {
		if c12BitAt(bits, i) {
			sum.Add(sum, &c.sks[i])
		}
	}
	s = common.BLSSignature{0: 0xc0}
	if !sum.IsZero() {
		s = blsu.Sign((*blsu.SecretKey)(sum), msg[:]).Serialize()
	}
	c12SigMu.Lock()
	c12SigMemo[key] = s
	c12SigMu.Unlock()
	return s
}

// ---- sparse beacon state: finalized root at depth 6 / index 41, next committee at depth 5 / index 23 ----

type c12Tree struct {
	root      c12Root
	finBranch altair.FinalizedRootProofBranch
	comBranch altair.SyncCommitteeProofBranch
}

func c12BuildTree(finRoot, comRoot c12Root, salt uint64) c12Tree {
	n := make([]c12Root, 64) // generalized indices 1..63; 32..63 are the depth-5 nodes
	for g := 32; g < 64; g++ {
		n[g] = c12H("c12 state filler", salt, g)
	}
	leaf104 := c12H("c12 finalized epoch leaf", salt)
	n[52] = c12H2(leaf104, finRoot) // gindex 105 = 64+41 is the right child of 52
	n[55] = comRoot                 // gindex 55 = 32+23
	for g := 31; g >= 1; g-- {
		n[g] = c12H2(n[2*g], n[2*g+1])
	}
	t := c12Tree{root: n[1]}
	t.finBranch = altair.FinalizedRootProofBranch{common.Root(leaf104), common.Root(n[53]), common.Root(n[27]), common.Root(n[12]), common.Root(n[7]), common.Root(n[2])}
	t.comBranch = altair.SyncCommitteeProofBranch{common.Root(n[54]), common.Root(n[26]), common.Root(n[12]), common.Root(n[7]), common.Root(n[2])}
	return t
}

func c12Header(slot uint64, tag string) *common.BeaconBlockHeader {
	return &common.BeaconBlockHeader{Slot: common.Slot(slot), ProposerIndex: common.ValidatorIndex(slot % 1000), ParentRoot: common.Root(c12H("parent", tag, slot)), StateRoot: common.Root(c12H("state", tag, slot)), BodyRoot: common.Root(c12H("body", tag, slot))}
}

// ---- updates ----

// c12Upd describes one update completely (JSON-serialisable, enough to rebuild it).
type c12Upd struct {
	Kind    string `json:"kind"` // full | finality | optimistic
	Wire    string `json:"wire"` // altair | capella | deneb: which SpecObj type carries it
	Fin     uint64 `json:"fin,omitempty"`
	Att     uint64 `json:"att"`
	Sig     uint64 `json:"sig"`
	Part    int    `json:"part"`
	Suffix  bool   `json:"suffix,omitempty"` // participants are the last Part members instead of the first
	Signer  string `json:"signer"`           // committee whose members sign
	Next    string `json:"next,omitempty"`   // committee the attested state commits as next (full only)
	Corrupt string `json:"corrupt,omitempty"`
	// Ver != 0: the participants sign under this fork version (first byte; 0: the Altair version of
	// the base fixtures). Used by the cross-fork part, whose slots straddle mainnet's Bellatrix fork.
	Ver uint8 `json:"signed_fork_version,omitempty"`
}

// c12Built is the update as plain fields (what the oracle reads) plus the typed
// object handed to the implementation.
type c12Built struct {
	att, fin   *common.BeaconBlockHeader
	finBranch  *altair.FinalizedRootProofBranch
	next       *common.SyncCommittee
	nextBranch *altair.SyncCommitteeProofBranch
	agg        *altair.SyncAggregate
	sig        uint64
	obj        common.SpecObj
}

func c12FlipBit(r *common.Root, bit int) { r[bit/8] ^= 1 << uint(bit%8) }

func c12Build(u c12Upd) *c12Built {
	var class string
	arg := 0
	if u.Corrupt != "" {
		class = u.Corrupt
		if n, _ := fmt.Sscanf(u.Corrupt, "sig-bit:%d", &arg); n == 1 {
			class = "sig-bit"
		} else if n, _ := fmt.Sscanf(u.Corrupt, "fin-branch:%d", &arg); n == 1 {
			class = "fin-branch"
		} else if n, _ := fmt.Sscanf(u.Corrupt, "com-branch:%d", &arg); n == 1 {
			class = "com-branch"
		}
	}
	b := &c12Built{sig: u.Sig}
	finRoot, comRoot := c12H("no finalized root"), c12H("no committee")
	if u.Kind != "optimistic" {
		b.fin = c12Header(u.Fin, "fin")
		finRoot = c12HeaderRoot(b.fin)
	}
	if u.Kind == "full" {
		next := *c12Coms()[u.Next].obj
		next.Pubkeys = append(common.SyncCommitteePubkeys{}, next.Pubkeys...)
		b.next = &next
		comRoot = c12Coms()[u.Next].root
	}
	t := c12BuildTree(finRoot, comRoot, u.Att)
	b.att = c12Header(u.Att, "att")
	b.att.StateRoot = common.Root(t.root)
	if b.fin != nil {
		b.finBranch = &t.finBranch
	}
	if b.next != nil {
		b.nextBranch = &t.comBranch
	}
	version, genesis := c12Version, c12GenesisRoot
	if u.Ver != 0 {
		version = [4]byte{u.Ver, 0, 0, 0}
	}
	switch class {
	case "fork-version":
		version = [4]byte{2, 0, 0, 0}
	case "genesis-root":
		genesis = c12OtherRoot
	}
	bits := c12Bits(u.Part, u.Suffix)
	b.agg = &altair.SyncAggregate{SyncCommitteeBits: bits, SyncCommitteeSignature: c12Sign(c12Coms()[u.Signer], bits, c12SigningRoot(c12HeaderRoot(b.att), version, genesis))}

	// corruptions applied after signing
	hdrField := func(h *common.BeaconBlockHeader, f string) {
		switch f {
		case "slot":
			h.Slot--
		case "proposer":
			h.ProposerIndex++
		case "parent":
			c12FlipBit(&h.ParentRoot, 3)
		case "state":
			c12FlipBit(&h.StateRoot, 250)
		case "body":
			c12FlipBit(&h.BodyRoot, 100)
		}
	}
	switch class {
	case "sig-bit":
		b.agg.SyncCommitteeSignature[arg/8] ^= 0x80 >> uint(arg%8)
	case "sig-infinity":
		b.agg.SyncCommitteeSignature = common.BLSSignature{0: 0xc0}
	case "bit-add": // first non-participant is claimed as a participant
		for i := 0; i < c12N; i++ {
			if !c12BitAt(bits, i) {
				bits[i/8] |= 1 << uint(i%8)
				break
			}
		}
	case "bits-all": // every member is claimed as a participant, the signature stays that of the real ones
		for i := 0; i < c12N; i++ {
			bits[i/8] |= 1 << uint(i%8)
		}
	case "bit-remove": // first participant is dropped from the bitmap
		for i := 0; i < c12N; i++ {
			if c12BitAt(bits, i) {
				bits[i/8] &^= 1 << uint(i%8)
				break
			}
		}
	case "fin-branch":
		c12FlipBit(&b.finBranch[arg/2], []int{0, 255}[arg%2])
	case "com-branch":
		c12FlipBit(&b.nextBranch[arg/2], []int{0, 255}[arg%2])
	case "fin-branch-zeroed":
		*b.finBranch = altair.FinalizedRootProofBranch{}
	case "com-branch-zeroed":
		*b.nextBranch = altair.SyncCommitteeProofBranch{}
	case "att:slot", "att:proposer", "att:parent", "att:state", "att:body":
		hdrField(b.att, class[4:])
	case "fin:slot", "fin:proposer", "fin:parent", "fin:state", "fin:body":
		hdrField(b.fin, class[4:])
	case "next-key":
		b.next.Pubkeys[0] = c12Coms()["C"].obj.Pubkeys[9]
	case "no-finality-part", "no-next-committee-part":
		// a LightClientUpdate whose finality (next-committee) part is all zero, as a server
		// sends it when it has none: for the oracle that part is absent
		if class == "no-finality-part" {
			b.fin, b.finBranch = nil, nil
		} else {
			b.next, b.nextBranch = nil, nil
		}
	}

	// the typed object; the execution part of capella/deneb headers is left empty
	// (the code under test does not look at it and the statement does not mention it)
	var (
		fin  common.BeaconBlockHeader
		finB altair.FinalizedRootProofBranch
		next = common.SyncCommittee{Pubkeys: make(common.SyncCommitteePubkeys, c12N)}
		comB altair.SyncCommitteeProofBranch
		att  = *b.att
		agg  = *b.agg
		slot = common.Slot(u.Sig)
	)
	if b.fin != nil {
		fin, finB = *b.fin, *b.finBranch
	}
	if b.next != nil {
		next, comB = *b.next, *b.nextBranch
	}
	switch u.Wire + "/" + u.Kind {
	case "altair/full":
		b.obj = &altair.LightClientUpdate{AttestedHeader: altair.LightClientHeader{Beacon: att}, NextSyncCommittee: next, NextSyncCommitteeBranch: comB, FinalizedHeader: altair.LightClientHeader{Beacon: fin}, FinalityBranch: finB, SyncAggregate: agg, SignatureSlot: slot}
	case "capella/full":
		b.obj = &capella.LightClientUpdate{AttestedHeader: capella.LightClientHeader{Beacon: att}, NextSyncCommittee: next, NextSyncCommitteeBranch: comB, FinalizedHeader: capella.LightClientHeader{Beacon: fin}, FinalityBranch: finB, SyncAggregate: agg, SignatureSlot: slot}
	case "deneb/full":
		b.obj = &deneb.LightClientUpdate{AttestedHeader: deneb.LightClientHeader{Beacon: att}, NextSyncCommittee: next, NextSyncCommitteeBranch: comB, FinalizedHeader: deneb.LightClientHeader{Beacon: fin}, FinalityBranch: finB, SyncAggregate: agg, SignatureSlot: slot}
	case "altair/finality":
		b.obj = &altair.LightClientFinalityUpdate{AttestedHeader: altair.LightClientHeader{Beacon: att}, FinalizedHeader: fin, FinalityBranch: finB, SyncAggregate: agg, SignatureSlot: slot}
	case "capella/finality":
		b.obj = &capella.LightClientFinalityUpdate{AttestedHeader: capella.LightClientHeader{Beacon: att}, FinalizedHeader: capella.LightClientHeader{Beacon: fin}, FinalityBranch: finB, SyncAggregate: agg, SignatureSlot: slot}
	case "deneb/finality":
		b.obj = &deneb.LightClientFinalityUpdate{AttestedHeader: deneb.LightClientHeader{Beacon: att}, FinalizedHeader: deneb.LightClientHeader{Beacon: fin}, FinalityBranch: finB, SyncAggregate: agg, SignatureSlot: slot}
	case "altair/optimistic":
		b.obj = &altair.LightClientOptimisticUpdate{AttestedHeader: altair.LightClientHeader{Beacon: att}, SyncAggregate: agg, SignatureSlot: slot}
	case "capella/optimistic":
		b.obj = &capella.LightClientOptimisticUpdate{AttestedHeader: capella.LightClientHeader{Beacon: att}, SyncAggregate: agg, SignatureSlot: slot}
	case "deneb/optimistic":
		b.obj = &deneb.LightClientOptimisticUpdate{AttestedHeader: deneb.LightClientHeader{Beacon: att}, SyncAggregate: agg, SignatureSlot: slot}
	default:
		panic("c12: unknown wire/kind " + u.Wire + "/" + u.Kind)
	}
	return b
}

// ---- store and client ----

type c12StoreSpec struct {
	Fin     uint64 `json:"fin"`
	Opt     uint64 `json:"opt"`
	Cur     string `json:"cur"`            // "A", or "A~17" = A with member 17 replaced by a foreign key
	Next    string `json:"next,omitempty"` // "" = the store has no next committee
	PrevMax uint64 `json:"prev_max,omitempty"`
	CurMax  uint64 `json:"cur_max,omitempty"`
}

func (s c12StoreSpec) store() beacon.LightClientStore {
	com := func(id string) *common.SyncCommittee {
		if id == "" {
			return nil
		}
		return c12Com(id).obj
	}
	return beacon.LightClientStore{FinalizedHeader: c12Header(s.Fin, "store"), OptimisticHeader: c12Header(s.Opt, "store"),
		CurrentSyncCommittee: com(s.Cur), NextSyncCommittee: com(s.Next),
		PreviousMaxActiveParticipants: view.Uint64View(s.PrevMax), CurrentMaxActiveParticipants: view.Uint64View(s.CurMax)}
}

// c12Client: a light client whose clock, read inside a bubble, says "slot now".
func c12Client(st beacon.LightClientStore, now uint64) *beacon.ConsensusLightClient {
	cfg := &beacon.Config{Spec: configs.Mainnet, Chain: beacon.ChainConfig{ChainID: 1, GenesisTime: c12BubbleUnix - 12*now, GenesisRoot: common.Root(c12GenesisRoot)}}
	c, _ := beacon.NewConsensusLightClient(nil, cfg, common.Root{}, c12Logger)
	c.Store = st
	return c
}

// c12InBubble runs f under the fake clock; a panic in f is returned, not propagated.
func c12InBubble(f func()) (msg, site string) {
	synctest.Run(func() { msg, site = panicsTo(f) })
	return
}

func c12Verify(c *beacon.ConsensusLightClient, kind string, o common.SpecObj) error {
	switch kind {
	case "full":
		return c.VerifyUpdate(o)
	case "finality":
		return c.VerifyFinalityUpdate(o)
	}
	return c.VerifyOptimisticUpdate(o)
}

func c12Apply(c *beacon.ConsensusLightClient, kind string, o common.SpecObj) error {
	switch kind {
	case "full":
		return c.ApplyUpdate(o)
	case "finality":
		return c.ApplyFinalityUpdate(o)
	}
	return c.ApplyOptimisticUpdate(o)
}
