package main

import (
	"bytes"
	"encoding/binary"
	"encoding/hex"
	"encoding/json"
	"errors"
	"fmt"
	"net"
	"os"
	"slices"
	"sort"
	"strings"
	"sync"
	"testing/synctest"
	"time"

	"github.com/ethereum/go-ethereum/p2p/enode"
	"github.com/ethereum/go-ethereum/rlp"
	"github.com/zen-eth/shisui/portalwire"
	"verifharness/mc"
)

// C10, lookups of a started node (E4): one real node whose table holds scripted peers
// (real discv5 endpoints). ContentLookup / TraceContentLookup send FINDCONTENT, Lookup
// (the real lookupWorker) sends FINDNODES. Every request parks in the peer's talk handler;
// whenever the wire is empty and everything is blocked the explorer lets one parked peer
// answer (the oldest or the newest request), so the requests the node has outstanding are
// exactly the parked ones. One worker process per case (memnet bubbles cannot be left).

// answer menu; entry 0 is "content" for the content lookups and "no-nodes" for Lookup
// entry 6: the peer holds the key with a zero-length value and answers CONTENT with zero bytes
var c10ContentMenu = []string{"content", "enrs-other-peers", "enrs-asker+duplicates", "garbage", "empty", "silent", "content-zero-length"}

type c10ContentCase struct {
	Part    string `json:"part"`    // "content"
	API     string `json:"api"`     // ContentLookup | TraceContentLookup | Lookup
	Answers []int  `json:"answers"` // per scripted peer: index into c10ContentMenu
	Seeds   string `json:"seeds"`   // all: every peer is in the table | first: only peer 0
	Order   string `json:"order"`   // fifo | lifo: which outstanding request is answered next
	// Fill is the state of the asker's table when the lookup starts. "": only the seed peers are in
	// it (every bucket has room). "full": every scripted peer lives in the asker's farthest bucket
	// and that bucket holds 16 entries - the seed peers plus records of nodes that never answer -
	// so the table has no room for a node a peer supplies (it goes to the replacement list).
	Fill string `json:"fill,omitempty"`
	// Target of Lookup. "": the content id of the key. "last-peer": the id of the last scripted peer.
	Target string `json:"target,omitempty"`
}

func (c *c10ContentCase) kind(i int) string {
	if c.API == "Lookup" && (c.Answers[i] == 0 || c.Answers[i] == 6) {
		return "no-nodes"
	}
	return c10ContentMenu[c.Answers[i]]
}

func c10ContentCases(thorough bool) (cases []c10ContentCase) {
	add := func(n int, sub []int, orders []string, apis ...string) {
		total := 1
		for i := 0; i < n; i++ {
			total *= len(sub)
		}
		for a := 0; a < total; a++ {
			as := make([]int, n)
			for i, x := 0, a; i < n; i, x = i+1, x/len(sub) {
				as[i] = sub[x%len(sub)]
			}
			for _, seeds := range []string{"all", "first"} {
				for _, ord := range orders {
					for _, api := range apis {
						cases = append(cases, c10ContentCase{Part: "content", API: api, Answers: as, Seeds: seeds, Order: ord})
					}
				}
			}
		}
	}
	full := []int{0, 1, 2, 3, 4, 5}
	both := []string{"fifo", "lifo"}
	add(2, full, both, "ContentLookup", "TraceContentLookup", "Lookup")
	if thorough {
		add(3, full, both, "ContentLookup", "TraceContentLookup", "Lookup")
		add(4, []int{0, 1, 2, 5}, both, "ContentLookup", "Lookup")
	} else {
		add(3, full, []string{"fifo"}, "ContentLookup")
		add(3, []int{0, 1, 5}, []string{"lifo"}, "ContentLookup", "Lookup")
		add(4, []int{0, 1, 5}, []string{"fifo"}, "ContentLookup", "Lookup")
	}
	// a peer that supplies zero-length content: every assignment of the 7-answer menu in which at
	// least one peer does (the others are above)
	withZero := func(n int, sub []int, orders []string, apis ...string) {
		from := len(cases)
		add(n, sub, orders, apis...)
		kept := cases[:from]
		for _, c := range cases[from:] {
			for _, a := range c.Answers {
				if a == 6 {
					kept = append(kept, c)
					break
				}
			}
		}
		cases = kept
	}
	menu7 := []int{0, 1, 2, 3, 4, 5, 6}
	if thorough {
		withZero(2, menu7, both, "ContentLookup", "TraceContentLookup")
		withZero(3, menu7, both, "ContentLookup", "TraceContentLookup")
	} else {
		withZero(2, menu7, both, "ContentLookup")
		withZero(2, menu7, []string{"fifo"}, "TraceContentLookup")
		withZero(3, []int{0, 1, 5, 6}, []string{"fifo"}, "ContentLookup")
	}
	// Lookup (the real lookupWorker) while the asker's bucket for the peers is full: only peer 0 is
	// in the table, the other peers reach the lookup through answers and the table refuses them
	fullBucket := func(n int, sub []int, orders []string) {
		from := len(cases)
		add(n, sub, orders, "Lookup")
		kept := cases[:from]
		for _, c := range cases[from:] {
			if c.Seeds != "first" {
				continue
			}
			for _, tg := range []string{"", "last-peer"} {
				c.Fill, c.Target = "full", tg
				kept = append(kept, c)
			}
		}
		cases = kept
	}
	if thorough {
		fullBucket(2, full, both)
		fullBucket(3, full, both)
	} else {
		fullBucket(2, full, []string{"fifo"})
		fullBucket(3, []int{1, 2, 5}, []string{"lifo"})
	}
	return
}

type c10Parked struct {
	peer int
	at   time.Time
	ch   chan struct{}
}

func c10PeerContent(i int) []byte { return []byte(fmt.Sprintf("content-supplied-by-peer-%d", i)) }

// content is what peer i supplies when it answers with content.
func (c *c10ContentCase) content(i int) []byte {
	if c.kind(i) == "content-zero-length" {
		return []byte{}
	}
	return c10PeerContent(i)
}

func c10Records(ns []*enode.Node) (recs [][]byte) {
	for _, n := range ns {
		b, err := rlp.EncodeToBytes(n.Record())
		if err != nil {
			panic(err)
		}
		recs = append(recs, b)
	}
	return
}

// c10ContentRun executes one case inside a bubble and calls finish (which does not return
// in a worker process) with the observation digest.
func c10ContentRun(r *mc.Report, c c10ContentCase, finish func(digest string)) {
	n := len(c.Answers)
	desc := func() string {
		as := make([]string, n)
		for i := range as {
			as[i] = c.kind(i)
		}
		d := fmt.Sprintf("%s, peers answer [%s], table holds %s, answers released %s", c.API, strings.Join(as, ", "), c.Seeds, c.Order)
		if c.Fill != "" {
			d += ", the asker's bucket for the peers is " + c.Fill
		}
		if c.Target != "" {
			d += ", target " + c.Target
		}
		return d
	}
	viol := func(clause, detail string) { r.Violation(clause, c.API, detail+" | "+desc(), c) }
	msg := inBubble(func() {
		w := newWire()
		node := newMNode(w, mnodeOpts{keyIdx: 11, versions: []uint8{0, 1}, noUtp: true})
		key := []byte("c10-content-key")
		id := node.P.ToContentId(key)
		node.P.Put(key, id, []byte("bytes-in-the-local-store")) // an unqueried source: must never be the answer
		wantCode := byte(portalwire.FINDCONTENT)
		if c.API == "Lookup" {
			wantCode = portalwire.FINDNODES
		}

		var mu sync.Mutex
		var parked []*c10Parked
		requests := make([]int, n)
		var supplied []int               // peers whose content answer went out before the lookup returned
		offered := map[enode.ID]string{} // records in released answers
		// Lookup: records in released answers that sit at one of the distances (from the answering
		// peer) which that very request asked for, the asker's own record excepted: the nodes the
		// asker accepts from a peer - it has seen them
		accepted := map[enode.ID]bool{}
		asked := make([][]uint, n) // distances in the FINDNODES request each peer received
		silentOpen, maxOut, other, late := 0, 0, 0, 0
		returned := false
		peers := make([]*mnode, n)
		// reply builds peer i's answer and the nodes it names
		reply := func(i int) (b []byte, ns []*enode.Node) {
			switch c.kind(i) {
			case "content", "content-zero-length":
				b, _ = (&portalwire.Content{Content: c.content(i)}).MarshalSSZ()
				return append([]byte{portalwire.CONTENT, portalwire.ContentRawSelector}, b...), nil
			case "garbage":
				if c.API == "Lookup" {
					return []byte{portalwire.NODES, 0xff, 0xff}, nil
				}
				if i%2 == 0 {
					return []byte{portalwire.CONTENT, 0x09, 0xde, 0xad}, nil // unknown selector
				}
				return []byte{portalwire.CONTENT, portalwire.ContentEnrsSelector, 0xff, 0xff, 0xff}, nil // undecodable list
			case "empty":
				return []byte{}, nil
			case "enrs-other-peers":
				for j := range peers {
					if j != i {
						ns = append(ns, peers[j].Self())
					}
				}
			case "enrs-asker+duplicates":
				nx := peers[(i+1)%n].Self()
				ns = []*enode.Node{node.Self(), nx, nx, peers[i].Self(), node.Self()}
			}
			if c.API == "Lookup" {
				b, _ = (&portalwire.Nodes{Total: 1, Enrs: c10Records(ns)}).MarshalSSZ()
				return append([]byte{portalwire.NODES}, b...), ns
			}
			b, _ = (&portalwire.Enrs{Enrs: c10Records(ns)}).MarshalSSZ()
			return append([]byte{portalwire.CONTENT, portalwire.ContentEnrsSelector}, b...), ns
		}
		names := map[enode.ID]string{node.Self().ID(): "local"}
		peerKey := make([]int, n)
		for i, next := 0, 12; i < n; i++ {
			peerKey[i] = 12 + i
			if c.Fill == "full" { // asker placement: every scripted peer in the asker's farthest bucket
				_, peerKey[i] = keyWithLogDist(node.Self().ID(), 256, next)
				next = peerKey[i] + 1
			}
		}
		for i := range peers {
			i := i
			peers[i] = newMNode(w, mnodeOpts{keyIdx: peerKey[i], versions: []uint8{0, 1}, noUtp: true, puppet: func(from enode.ID, m []byte) []byte {
				fc := &portalwire.FindContent{}
				if len(m) == 0 || m[0] != wantCode || (wantCode == portalwire.FINDCONTENT && (fc.UnmarshalSSZ(m[1:]) != nil || !bytes.Equal(fc.ContentKey, key))) {
					mu.Lock()
					other++
					mu.Unlock()
					return nil
				}
				mu.Lock()
				requests[i]++
				if fn := (&portalwire.FindNodes{}); wantCode == portalwire.FINDNODES && fn.UnmarshalSSZ(m[1:]) == nil {
					asked[i] = nil
					for _, d := range fn.Distances {
						asked[i] = append(asked[i], uint(binary.LittleEndian.Uint16(d[:])))
					}
				}
				if out := len(parked) + silentOpen + 1; out > maxOut {
					maxOut = out
				}
				if c.kind(i) == "silent" {
					// certainly outstanding for 500 ms (the asker gives up after 700 ms); answers long after that
					silentOpen++
					mu.Unlock()
					time.Sleep(500 * time.Millisecond)
					mu.Lock()
					silentOpen--
					mu.Unlock()
					time.Sleep(30 * time.Second)
					return nil
				}
				g := &c10Parked{peer: i, at: time.Now(), ch: make(chan struct{})}
				parked = append(parked, g)
				mu.Unlock()
				<-g.ch
				b, _ := reply(i)
				return b
			}})
			names[peers[i].Self().ID()] = fmt.Sprint(i)
		}
		var seeds []enode.ID
		for i, p := range peers {
			if c.Seeds == "all" || i == 0 {
				if !node.P.VerifTable().AddFound(p.Self(), true) {
					panic("harness: scripted peer not added to the table")
				}
				seeds = append(seeds, p.Self().ID())
			}
		}
		target := enode.ID(id)
		if c.Target == "last-peer" {
			target = peers[n-1].Self().ID()
		}
		fillers := 0
		if c.Fill == "full" {
			// top up every bucket a scripted peer belongs to with records of nodes nobody runs (their
			// address is on no wire: requests to them time out), in key order
			vt := node.P.VerifTable()
			room := map[int]int{}
			for _, p := range peers {
				room[vt.BucketIndex(p.Self().ID())] = portalwire.VBucketSize
			}
			for _, s := range seeds {
				room[vt.BucketIndex(s)]--
			}
			for j := 5000; ; j++ {
				left := 0
				for _, k := range room {
					left += k
				}
				if left == 0 {
					break
				}
				k := detKey(j)
				b := vt.BucketIndex(enode.PubkeyToIDV4(&k.PublicKey))
				if room[b] <= 0 {
					continue
				}
				f := signedNode(k, 1, net.IP{10, 200, byte(j >> 8), byte(j)}, 30303)
				if !vt.AddFound(f, true) {
					panic("harness: filler record not added to the table")
				}
				room[b]--
				fillers++
				seeds = append(seeds, f.ID())
				names[f.ID()] = fmt.Sprintf("filler%d", fillers)
			}
			synctest.Wait()
			for _, b := range vt.Snapshot().Buckets {
				if _, ok := room[b.Index]; ok && len(b.Entries) != portalwire.VBucketSize {
					panic(fmt.Sprintf("harness: bucket %d holds %d entries, not %d", b.Index, len(b.Entries), portalwire.VBucketSize))
				}
			}
		}
		// the table hands the lookup its 16 entries closest to the target
		handed := append([]enode.ID{}, seeds...)
		sort.Slice(handed, func(i, j int) bool { return enode.DistCmp(target, handed[i], handed[j]) < 0 })
		if len(handed) > portalwire.VBucketSize {
			handed = handed[:portalwire.VBucketSize]
		}
		var content []byte
		var utp bool
		var err error
		var found []*enode.Node
		var panicked string
		go func() {
			defer func() {
				if rec := recover(); rec != nil {
					panicked = fmt.Sprintf("%v @ %s", rec, repoFrame())
				}
				mu.Lock()
				returned = true
				mu.Unlock()
			}()
			switch c.API {
			case "Lookup":
				found = node.P.Lookup(target)
			case "TraceContentLookup":
				var res *portalwire.TraceContentResult
				if res, err = node.P.TraceContentLookup(key, id); err == nil {
					if content, utp = c10Unhex(res.Content), res.UtpTransfer; res.Content == "" {
						err = portalwire.ErrContentNotFound // the trace variant reports "not found" as an empty result
					}
				}
			default:
				content, utp, err = node.P.ContentLookup(key, id)
			}
		}()
		selfAsked := 0
		nodeAddr := node.Conn.addr
		_, timedOut := w.pump(func() bool {
			// the wire is empty and everything is blocked: let one parked peer answer
			mu.Lock()
			defer mu.Unlock()
			if len(parked) == 0 {
				return returned
			}
			k := 0
			if c.Order == "lifo" {
				k = len(parked) - 1
			}
			g := parked[k]
			parked = append(parked[:k:k], parked[k+1:]...)
			if time.Since(g.at) > 500*time.Millisecond {
				late++
			}
			if !returned {
				if k := c.kind(g.peer); k == "content" || k == "content-zero-length" {
					supplied = append(supplied, g.peer)
				}
				_, ns := reply(g.peer)
				for _, x := range ns {
					offered[x.ID()] = names[x.ID()]
					d := enode.LogDist(peers[g.peer].Self().ID(), x.ID())
					if x.ID() != node.Self().ID() && slices.Contains(asked[g.peer], uint(d)) {
						accepted[x.ID()] = true
					}
				}
			}
			close(g.ch)
			return false
		}, 2*time.Minute, func(idx int, d mdgram) pumpAction {
			if d.from == nodeAddr && d.to == nodeAddr {
				selfAsked++
			}
			return deliver
		})

		if late > 0 {
			r.EngineError(fmt.Sprintf("%d answers were released later than 500 virtual ms after the request (case %s)", late, desc()))
		}
		if panicked != "" {
			r.Violation("no-panic", panicked[strings.LastIndex(panicked, "@ ")+2:], "the lookup panicked: "+panicked+" | "+desc(), c)
		} else if timedOut {
			viol("lookup-terminates", "no result after 2 virtual minutes")
		}
		for i, k := range requests {
			if k > 1 {
				viol("asks-no-peer-twice", fmt.Sprintf("peer %d received %d requests", i, k))
			}
		}
		if selfAsked > 0 {
			viol("never-asks-local-node", fmt.Sprintf("%d datagrams went from the node to itself", selfAsked))
		}
		if maxOut > portalwire.VAlpha {
			viol("at-most-3-in-flight", fmt.Sprintf("%d requests were outstanding at once", maxOut))
		}
		outcome := "pending"
		switch {
		case timedOut || panicked != "":
		case c.API == "Lookup":
			// the distance filter of the replies is C11's; here: result ⊆ table entries ∪ offered records, and
			// the 16 closest of (the table's 16 closest entries ∪ the offered records that sit at a distance
			// their request asked for) ⊆ result
			var got []string
			in := map[enode.ID]bool{}
			for i, x := range found {
				got = append(got, names[x.ID()])
				if in[x.ID()] {
					viol("result-distinct-nodes", "node "+names[x.ID()]+" is listed twice")
				}
				in[x.ID()] = true
				if i > 0 && enode.DistCmp(target, found[i-1].ID(), x.ID()) > 0 {
					viol("result-sorted-by-distance", "result not in XOR-distance order")
				}
				if _, ok := offered[x.ID()]; !ok && !containsID(seeds, x.ID()) {
					viol("result-only-seen-nodes", "node "+x.ID().TerminalString()+" is in the result but was neither in the table nor in a reply")
				}
			}
			if len(found) > portalwire.VBucketSize {
				viol("at-most-16-results", fmt.Sprintf("%d nodes returned", len(found)))
			}
			inBucket := map[enode.ID]bool{}
			for _, b := range node.P.VerifTable().Snapshot().Buckets {
				for _, e := range b.Entries {
					inBucket[e.ID] = true
				}
			}
			want := append([]enode.ID{}, handed...)
			refused := 0
			for x := range accepted {
				if !containsID(want, x) {
					want = append(want, x)
				}
				if !inBucket[x] {
					refused++
				}
			}
			sort.Slice(want, func(i, j int) bool { return enode.DistCmp(target, want[i], want[j]) < 0 })
			if len(want) > portalwire.VBucketSize {
				want = want[:portalwire.VBucketSize]
			}
			for _, s := range want {
				if in[s] {
					continue
				}
				switch {
				case containsID(handed, s):
					viol("no-closer-seen-node-omitted", "table entry "+names[s]+" is missing from a result of "+fmt.Sprint(len(found))+" nodes")
				default:
					site := c.API + ":node-supplied-by-a-peer"
					if !inBucket[s] {
						site += "-and-refused-by-the-table"
					}
					r.Violation("no-closer-seen-node-omitted", site, fmt.Sprintf("peer %s was supplied by a queried peer at a distance the request asked for and is among the %d closest nodes seen, but the result is [%s] | %s", names[s], len(want), strings.Join(got, ","), desc()), c)
				}
				break
			}
			r.Count("lookup_supplied_nodes_accepted", int64(len(accepted)))
			r.Count("lookup_supplied_nodes_the_table_refused", int64(refused))
			r.Count("lookup_table_fillers_unresponsive", int64(fillers))
			if refused > 0 {
				r.Count("lookup_cases_with_a_supplied_node_the_table_refused", 1)
			}
			outcome = "nodes:" + strings.Join(got, ",")
		default:
			var from []string
			ok, zero := false, false
			for _, i := range supplied {
				from = append(from, fmt.Sprint(i))
				ok = ok || bytes.Equal(content, c.content(i))
				zero = zero || len(c.content(i)) == 0
			}
			switch {
			case err == nil && ok && !utp:
				outcome = "content:" + string(content)
				if len(content) == 0 {
					r.Count("content_lookups_returning_zero_length_content", 1)
				}
			case err == nil:
				outcome = "other-content"
				viol("returns-bytes-a-queried-peer-supplied", fmt.Sprintf("returned %q (utp=%v); content was supplied by queried peers [%s]", content, utp, strings.Join(from, ",")))
			case errors.Is(err, portalwire.ErrContentNotFound) && len(supplied) == 0:
				outcome = "not-found"
			case errors.Is(err, portalwire.ErrContentNotFound):
				outcome = "not-found-despite-content"
				site := c.API
				if zero {
					site += ":zero-length-content"
				}
				r.Violation("returns-supplied-content", site, "not-found although queried peers ["+strings.Join(from, ",")+"] supplied content | "+desc(), c)
			default:
				outcome = "error"
				viol("not-found-otherwise", "neither content nor the not-found error: "+err.Error())
			}
		}
		r.Max("max_requests_outstanding_at_peers", int64(maxOut))
		r.Count("other_requests_seen_by_peers", int64(other))
		r.Count("started_node_datagrams", int64(w.sent))
		finish(fmt.Sprintf("%s|%v|%s|%s|%s|%s|asked=%v|out=%d|%s", c.API, c.Answers, c.Seeds, c.Order, c.Fill, c.Target, requests, maxOut, outcome))
		for _, p := range peers {
			p.close()
		}
		node.close()
	})
	if msg != "" {
		r.Violation("no-panic", c.API, "panic: "+msg+" | "+desc(), c)
	}
}

func containsID(ids []enode.ID, id enode.ID) bool {
	for _, x := range ids {
		if x == id {
			return true
		}
	}
	return false
}

func c10Unhex(s string) []byte {
	b, err := hex.DecodeString(strings.TrimPrefix(s, "0x"))
	if err != nil {
		return []byte("undecodable:" + s)
	}
	return b
}

func runC10Content(r *mc.Report, e *Env, i int) {
	cases := c10ContentCases(e.Thorough())
	if i == 0 {
		r.Assume("started-node lookups (ContentLookup, TraceContentLookup, Lookup through the real lookupWorker): one real started node (discv5 + table loop on the virtual clock) and 2..3 scripted discv5 peers over the full 6-answer menu (4 peers: a sub-menu; quick: fewer orders), all peers or only peer 0 in the table; an answer is released only when the wire is empty (oldest first, or newest first); no datagram loss or reordering; small (in-packet) content only, uTP transfers belong to C08")
		r.Assume("the in-flight count of a started node's lookup is taken at the scripted peers: requests received and not yet answered (a silent peer counts for 500 of the asker's 700 ms timeout) — a lower bound of what the node has outstanding")
		r.Assume("Lookup through lookupWorker: which offered records pass the distance filter is C11's subject; the result is checked to be sorted, distinct, at most 16 long, to contain nothing that was neither in the table nor offered, and to contain the 16 closest of (table entries handed over + seen records, see the oracle note)")
		r.Assume("zero-length content: answer 6 of the menu is a peer that holds the key with a zero-length value (CONTENT, raw selector, zero bytes); every assignment of the 7-answer menu to 2 peers (3 peers: a sub-menu in quick) in which at least one peer gives it; the lookup must return (found, empty) when such an answer was released before it returned")
		r.Assume("full bucket (Lookup through lookupWorker only): every scripted peer's id lies in the asker's farthest bucket (log distance 256), that bucket holds 16 entries when the lookup starts = peer 0 + 15 records of nodes that never answer (LAN addresses: no IP limit involved), so the table refuses every node a peer supplies; targets: the content id and the id of the last peer; NOT covered: a bucket refused for the bucket/table IP limit, a table that is closing while lookupWorker adds")
		r.Assume("Lookup oracle: a record counts as seen when a released answer carried it, it is not the asker's own and its log distance from the answering peer is one of the distances decoded from the FINDNODES request that peer received (all harness records are signed, LAN, port > 1024: they pass every other rule of verifyResponseNode); the table part of 'seen' is the 16 entries closest to the target of what the harness put into the table")
		zero, fullCases := 0, 0
		for _, c := range cases {
			if c.Fill == "full" {
				fullCases++
			}
			for _, a := range c.Answers {
				if a == 6 && c.API != "Lookup" {
					zero++
					break
				}
			}
		}
		r.Set("started_node_cases_zero_length_content", zero)
		r.Set("started_node_cases_full_bucket", fullCases)
		r.Set("started_node_cases", len(cases))
		r.Set("started_node_answer_menu", c10ContentMenu)
		r.Sample(cases[len(cases)/3])
	}
	r.Count("started_node_lookups_"+cases[i].API, 1)
	if !e.Mark(func() string { return c10JSON(cases[i]) }) {
		return
	}
	c10ContentRun(r, cases[i], func(d string) { r.Exec(d); e.FinishNow(r) })
}

func replayC10Content(r *mc.Report, raw json.RawMessage) {
	var c c10ContentCase
	if err := json.Unmarshal(raw, &c); err != nil {
		panic(err)
	}
	c10ContentRun(r, c, func(d string) {
		fmt.Println("outcome:", d)
		for _, v := range r.Violations {
			fmt.Printf("REPLAY: reproduced %s\n  %s\n", v.Fingerprint, v.Detail)
		}
		if len(r.Violations) > 0 {
			os.Exit(1)
		}
		fmt.Println("REPLAY: no violation reproduced")
		os.Exit(0)
	})
}
