package main

import (
	"bytes"
	"encoding/json"
	"fmt"
	"os"
	"path/filepath"
	"reflect"
	"strings"

	"github.com/ethereum/go-ethereum/common/hexutil"
	zcommon "github.com/protolambda/zrnt/eth2/beacon/common"
	"github.com/protolambda/zrnt/eth2/configs"
	"github.com/protolambda/ztyp/codec"
	"github.com/protolambda/ztyp/view"
	"github.com/zen-eth/shisui/history"
	"github.com/zen-eth/shisui/portalwire"
	pingext "github.com/zen-eth/shisui/portalwire/ping_ext"
	"github.com/zen-eth/shisui/state"
	tbeacon "github.com/zen-eth/shisui/types/beacon"
	thistory "github.com/zen-eth/shisui/types/history"
	"github.com/zen-eth/shisui/validation"
	"gopkg.in/yaml.v2"
)

func repoDir() string {
	if d := os.Getenv("VERIF_REPO"); d != "" {
		return d
	}
	return "/repo"
}

type zSer interface {
	Serialize(w *codec.EncodingWriter) error
}
type zDes interface {
	Deserialize(dr *codec.DecodingReader) error
}
type zSpecSer interface {
	Serialize(spec *zcommon.Spec, w *codec.EncodingWriter) error
}
type zSpecDes interface {
	Deserialize(spec *zcommon.Spec, dr *codec.DecodingReader) error
}

func zEnc(v any) ([]byte, error) {
	var buf bytes.Buffer
	var err error
	switch s := v.(type) {
	case zSer:
		err = s.Serialize(codec.NewEncodingWriter(&buf))
	case zSpecSer:
		err = s.Serialize(configs.Mainnet, codec.NewEncodingWriter(&buf))
	default:
		panic(fmt.Sprintf("zEnc: %T", v))
	}
	return buf.Bytes(), err
}

func zDec(v any, b []byte) error {
	dr := codec.NewDecodingReader(bytes.NewReader(b), uint64(len(b)))
	switch s := v.(type) {
	case zDes:
		return s.Deserialize(dr)
	case zSpecDes:
		return s.Deserialize(configs.Mainnet, dr)
	}
	panic(fmt.Sprintf("zDec: %T", v))
}

// ztypCodec describes a hand-listed ztyp container.
func ztypCodec(name string, newFn func() any, vals func() []codecVal, limits func(v any) string) *codecT {
	c := &codecT{Name: name, New: newFn, ShortLen: 2, Vals: vals, Canon: canonStruct}
	c.Enc = func(v any) ([]byte, error) {
		if m, ok := v.(sszMarshaler); ok { // the path the protocol code takes
			return m.MarshalSSZ()
		}
		return zEnc(v)
	}
	c.Dec = func(b []byte) (any, error) {
		v := newFn()
		if m, ok := v.(sszMarshaler); ok {
			return v, m.UnmarshalSSZ(b)
		}
		return v, zDec(v, b)
	}
	if limits == nil {
		limits = func(any) string { return "" }
	}
	c.Limits = limits
	return c
}

func root(seed byte) zcommon.Root {
	var r zcommon.Root
	copy(r[:], byteFill(32, seed))
	return r
}

func nibbles(n int) state.Nibbles {
	b := make([]byte, n)
	for i := range b {
		b[i] = byte((i*5 + 3) & 0xf)
	}
	return state.Nibbles{Nibbles: b}
}

func trieProof(cnt, l int) state.TrieProof {
	p := make(state.TrieProof, cnt)
	for i := range p {
		p[i] = state.EncodedTrieNode(byteFill(l, byte(i)))
	}
	return p
}

func proofLimits(p state.TrieProof, what string) string {
	if len(p) > state.MaxTrieProofLength {
		return fmt.Sprintf("%s: %d nodes > %d", what, len(p), state.MaxTrieProofLength)
	}
	for i, n := range p {
		if len(n) > state.MaxTrieNodeLength {
			return fmt.Sprintf("%s[%d]: %d bytes > %d", what, i, len(n), state.MaxTrieNodeLength)
		}
	}
	return ""
}

type proofShape struct {
	cnt, l int
	in     bool
}

var proofShapes = []proofShape{{0, 0, true}, {1, 0, true}, {1, 1, true}, {2, 532, true}, {1, 1024, true}, {1, 1025, false}, {65, 1, true}, {66, 1, false}, {65, 1024, true}}

func beaconSeeds(file, field string) func() [][]byte {
	return func() [][]byte {
		p := filepath.Join(repoDir(), "types/beacon/testdata/types", file)
		raw, err := os.ReadFile(p)
		if err != nil {
			panic(err)
		}
		var out [][]byte
		if strings.HasSuffix(file, ".yaml") {
			var m map[string]any
			if err := yaml.Unmarshal(raw, &m); err != nil {
				panic(err)
			}
			if s, ok := m[field].(string); ok {
				out = append(out, hexutil.MustDecode(s))
			}
			return out
		}
		var m map[string]map[string]any
		if err := json.Unmarshal(raw, &m); err != nil {
			panic(err)
		}
		keys := []string{}
		for k := range m {
			keys = append(keys, k)
		}
		sortStrings(keys)
		for _, k := range keys {
			if s, ok := m[k][field].(string); ok {
				out = append(out, hexutil.MustDecode(s))
			}
		}
		return out
	}
}

func init() {
	S := func(name string, proto any) { codecs = append(codecs, sszStructCodec(name, proto)) }
	// portal wire messages
	S("portalwire.Ping", &portalwire.Ping{})
	S("portalwire.Pong", &portalwire.Pong{})
	S("portalwire.FindNodes", &portalwire.FindNodes{})
	S("portalwire.Nodes", &portalwire.Nodes{})
	S("portalwire.FindContent", &portalwire.FindContent{})
	S("portalwire.Content", &portalwire.Content{})
	S("portalwire.ConnectionId", &portalwire.ConnectionId{})
	S("portalwire.Enrs", &portalwire.Enrs{})
	S("portalwire.Offer", &portalwire.Offer{})
	S("portalwire.Accept", &portalwire.Accept{})
	S("portalwire.AcceptV1", &portalwire.AcceptV1{})
	// history containers and keys
	S("types/history.BlockProofHistoricalHashesAccumulator", &thistory.BlockProofHistoricalHashesAccumulator{})
	S("types/history.BlockProofHistoricalRoots", &thistory.BlockProofHistoricalRoots{})
	S("types/history.BlockProofHistoricalSummariesCapella", &thistory.BlockProofHistoricalSummariesCapella{})
	S("types/history.BlockProofHistoricalSummariesDeneb", &thistory.BlockProofHistoricalSummariesDeneb{})
	S("types/history.BlockHeaderWithProof", &thistory.BlockHeaderWithProof{})
	S("types/history.FindContentEphemeralHeadersKey", &thistory.FindContentEphemeralHeadersKey{})
	S("types/history.OfferEphemeralHeaderKey", &thistory.OfferEphemeralHeaderKey{})
	S("types/history.OfferEphemeralHeader", &thistory.OfferEphemeralHeader{})
	S("types/history.EphemeralHeaderPayload", &thistory.EphemeralHeaderPayload{})
	S("history.HeaderRecord", &history.HeaderRecord{})
	S("history.EpochAccumulator", &history.EpochAccumulator{})
	S("history.BlockBodyLegacy", &history.BlockBodyLegacy{})
	S("history.PortalBlockBodyShanghai", &history.PortalBlockBodyShanghai{})
	S("history.BlockHeaderWithProof", &history.BlockHeaderWithProof{})
	S("history.SSZProof", &history.SSZProof{})
	S("history.MasterAccumulator", &history.MasterAccumulator{})
	S("history.PortalReceipts", &history.PortalReceipts{})
	S("validation.PreMergeAccumulator", &validation.PreMergeAccumulator{})
	// beacon content keys
	S("types/beacon.LightClientUpdateKey", &tbeacon.LightClientUpdateKey{})
	S("types/beacon.LightClientBootstrapKey", &tbeacon.LightClientBootstrapKey{})
	S("types/beacon.LightClientFinalityUpdateKey", &tbeacon.LightClientFinalityUpdateKey{})
	S("types/beacon.LightClientOptimisticUpdateKey", &tbeacon.LightClientOptimisticUpdateKey{})
	codecs = append(codecs, ztypCodec("types/beacon.HistoricalSummariesWithProofKey",
		func() any { return &tbeacon.HistoricalSummariesWithProofKey{} },
		func() []codecVal {
			var out []codecVal
			for _, e := range []uint64{0, 1, 1 << 32, ^uint64(0)} {
				out = append(out, codecVal{&tbeacon.HistoricalSummariesWithProofKey{Epoch: e}, true, fmt.Sprint("epoch=", e)})
			}
			return out
		}, nil))

	// ping extension payloads
	codecs = append(codecs, ztypCodec("pingext.ClientInfoAndCapabilitiesPayload",
		func() any { return &pingext.ClientInfoAndCapabilitiesPayload{} },
		func() []codecVal {
			var out []codecVal
			for _, ci := range []int{0, 1, 199, 200, 201} {
				for _, cp := range []int{0, 1, 399, 400, 401} {
					caps := make(pingext.CapabilitiesPayload, cp)
					for i := range caps {
						caps[i] = view.Uint16View(i * 163)
					}
					out = append(out, codecVal{&pingext.ClientInfoAndCapabilitiesPayload{ClientInfo: byteFill(ci, 0x41), DataRadius: root(3), Capabilities: caps},
						ci <= 200 && cp <= 400, fmt.Sprintf("clientinfo=%d caps=%d", ci, cp)})
				}
			}
			return out
		},
		func(v any) string {
			p := v.(*pingext.ClientInfoAndCapabilitiesPayload)
			if len(p.ClientInfo) > 200 {
				return fmt.Sprintf("client info %d > 200", len(p.ClientInfo))
			}
			if len(p.Capabilities) > 400 {
				return fmt.Sprintf("capabilities %d > 400", len(p.Capabilities))
			}
			return ""
		}))
	codecs = append(codecs, ztypCodec("pingext.BasicRadiusPayload",
		func() any { return &pingext.BasicRadiusPayload{} },
		func() []codecVal {
			return []codecVal{{&pingext.BasicRadiusPayload{DataRadius: root(0)}, true, "radius=seed0"}, {&pingext.BasicRadiusPayload{DataRadius: zcommon.Root{}}, true, "radius=0"},
				{&pingext.BasicRadiusPayload{DataRadius: zcommon.Root(bytes.Repeat([]byte{0xff}, 32))}, true, "radius=max"}}
		}, nil))
	codecs = append(codecs, ztypCodec("pingext.HistoryRadiusPayload",
		func() any { return &pingext.HistoryRadiusPayload{} },
		func() []codecVal {
			var out []codecVal
			for _, c := range []uint16{0, 1, 65535} {
				out = append(out, codecVal{&pingext.HistoryRadiusPayload{DataRadius: root(9), EphemeralHeaderCount: view.Uint16View(c)}, true, fmt.Sprint("count=", c)})
			}
			return out
		}, nil))
	codecs = append(codecs, ztypCodec("pingext.ErrorPayload",
		func() any { return &pingext.ErrorPayload{} },
		func() []codecVal {
			var out []codecVal
			for _, l := range []int{0, 1, 299, 300, 301} {
				for _, c := range []uint16{0, 3, 65535} {
					out = append(out, codecVal{&pingext.ErrorPayload{ErrorCode: view.Uint16View(c), Message: byteFill(l, 0x61)}, l <= 300, fmt.Sprintf("code=%d msg=%d", c, l)})
				}
			}
			return out
		},
		func(v any) string {
			if l := len(v.(*pingext.ErrorPayload).Message); l > 300 {
				return fmt.Sprintf("message %d > 300", l)
			}
			return ""
		}))

	// state network keys and containers
	nibLens := []int{0, 1, 2, 3, 63, 64, 65}
	codecs = append(codecs, ztypCodec("state.Nibbles",
		func() any { return &state.Nibbles{} },
		func() []codecVal {
			var out []codecVal
			for _, n := range nibLens {
				nb := nibbles(n)
				out = append(out, codecVal{&nb, n <= 64, fmt.Sprint("nibbles=", n)})
			}
			return out
		},
		func(v any) string {
			if l := len(v.(*state.Nibbles).Nibbles); l > 64 {
				return fmt.Sprintf("%d nibbles > 64", l)
			}
			return ""
		}))
	codecs = append(codecs, ztypCodec("state.AccountTrieNodeKey",
		func() any { return &state.AccountTrieNodeKey{} },
		func() []codecVal {
			var out []codecVal
			for _, n := range nibLens {
				out = append(out, codecVal{&state.AccountTrieNodeKey{Path: nibbles(n), NodeHash: root(7)}, n <= 64, fmt.Sprint("path=", n)})
			}
			return out
		}, nil))
	codecs = append(codecs, ztypCodec("state.ContractStorageTrieNodeKey",
		func() any { return &state.ContractStorageTrieNodeKey{} },
		func() []codecVal {
			var out []codecVal
			for _, n := range nibLens {
				out = append(out, codecVal{&state.ContractStorageTrieNodeKey{AddressHash: root(1), Path: nibbles(n), NodeHash: root(7)}, n <= 64, fmt.Sprint("path=", n)})
			}
			return out
		}, nil))
	codecs = append(codecs, ztypCodec("state.ContractBytecodeKey",
		func() any { return &state.ContractBytecodeKey{} },
		func() []codecVal {
			return []codecVal{{&state.ContractBytecodeKey{AddressHash: root(1), CodeHash: root(2)}, true, "key"}, {&state.ContractBytecodeKey{}, true, "zero"}}
		}, nil))
	codecs = append(codecs, ztypCodec("state.TrieNode",
		func() any { return &state.TrieNode{} },
		func() []codecVal {
			var out []codecVal
			for _, l := range []int{0, 1, 1023, 1024, 1025} {
				out = append(out, codecVal{&state.TrieNode{Node: byteFill(l, 5)}, l <= 1024, fmt.Sprint("node=", l)})
			}
			return out
		},
		func(v any) string {
			if l := len(v.(*state.TrieNode).Node); l > 1024 {
				return fmt.Sprintf("node %d > 1024", l)
			}
			return ""
		}))
	codecs = append(codecs, ztypCodec("state.ContractBytecodeContainer",
		func() any { return &state.ContractBytecodeContainer{} },
		func() []codecVal {
			var out []codecVal
			for _, l := range []int{0, 1, 32767, 32768, 32769} {
				out = append(out, codecVal{&state.ContractBytecodeContainer{Code: byteFill(l, 5)}, l <= 32768, fmt.Sprint("code=", l)})
			}
			return out
		},
		func(v any) string {
			if l := len(v.(*state.ContractBytecodeContainer).Code); l > 32768 {
				return fmt.Sprintf("code %d > 32768", l)
			}
			return ""
		}))
	codecs = append(codecs, ztypCodec("state.AccountTrieNodeWithProof",
		func() any { return &state.AccountTrieNodeWithProof{} },
		func() []codecVal {
			var out []codecVal
			for _, s := range proofShapes {
				out = append(out, codecVal{&state.AccountTrieNodeWithProof{Proof: trieProof(s.cnt, s.l), BlockHash: root(4)}, s.in, fmt.Sprintf("proof=%dx%d", s.cnt, s.l)})
			}
			return out
		},
		func(v any) string { return proofLimits(v.(*state.AccountTrieNodeWithProof).Proof, "proof") }))
	codecs = append(codecs, ztypCodec("state.ContractStorageTrieNodeWithProof",
		func() any { return &state.ContractStorageTrieNodeWithProof{} },
		func() []codecVal {
			var out []codecVal
			for _, s := range proofShapes {
				for _, a := range proofShapes {
					if s.cnt*s.l+a.cnt*a.l > 80000 {
						continue
					}
					out = append(out, codecVal{&state.ContractStorageTrieNodeWithProof{StorageProof: trieProof(s.cnt, s.l), AccountProof: trieProof(a.cnt, a.l), BlockHash: root(4)},
						s.in && a.in, fmt.Sprintf("storage=%dx%d account=%dx%d", s.cnt, s.l, a.cnt, a.l)})
				}
			}
			return out
		},
		func(v any) string {
			p := v.(*state.ContractStorageTrieNodeWithProof)
			if s := proofLimits(p.StorageProof, "storage proof"); s != "" {
				return s
			}
			return proofLimits(p.AccountProof, "account proof")
		}))
	codecs = append(codecs, ztypCodec("state.ContractBytecodeWithProof",
		func() any { return &state.ContractBytecodeWithProof{} },
		func() []codecVal {
			var out []codecVal
			for _, l := range []int{0, 1, 32768, 32769} {
				for _, a := range proofShapes {
					out = append(out, codecVal{&state.ContractBytecodeWithProof{Code: byteFill(l, 5), AccountProof: trieProof(a.cnt, a.l), BlockHash: root(4)},
						l <= 32768 && a.in, fmt.Sprintf("code=%d account=%dx%d", l, a.cnt, a.l)})
				}
			}
			return out
		},
		func(v any) string {
			p := v.(*state.ContractBytecodeWithProof)
			if len(p.Code) > 32768 {
				return fmt.Sprintf("code %d > 32768", len(p.Code))
			}
			return proofLimits(p.AccountProof, "account proof")
		}))

	// beacon containers: seeded from the repository's genuine vectors (value -> bytes -> value,
	// and every mutant that still decodes must re-encode identically)
	// and, the vectors being of one fork only, from synthetic values of every fork arm and of
	// ranges mixing forks (c14_beacon_forks.go). Values are compared field by field (digest, every
	// field of the fork's container), so that a value decoded with another fork's type differs.
	seeded := func(name string, newFn func() any, seeds func() [][]byte, vals func() []codecVal) {
		c := ztypCodec(name, newFn, vals, nil)
		c.Seeds = seeds
		c.ShortLen = 2
		c.SynthIdentityOnly, c.MutCap = true, 60000
		c.DescClass = true
		codecs = append(codecs, c)
	}
	rangeSeeds := beaconSeeds("light_client_updates_by_range.json", "content_value")
	seeded("types/beacon.ForkedLightClientBootstrap", func() any { return &tbeacon.ForkedLightClientBootstrap{} }, beaconSeeds("light_client_bootstrap.json", "content_value"),
		c14ForkedVals("types/beacon.ForkedLightClientBootstrap"))
	seeded("types/beacon.ForkedLightClientFinalityUpdate", func() any { return &tbeacon.ForkedLightClientFinalityUpdate{} }, beaconSeeds("light_client_finality_update.json", "content_value"),
		c14ForkedVals("types/beacon.ForkedLightClientFinalityUpdate"))
	seeded("types/beacon.ForkedLightClientOptimisticUpdate", func() any { return &tbeacon.ForkedLightClientOptimisticUpdate{} }, beaconSeeds("light_client_optimistic_update.json", "content_value"),
		c14ForkedVals("types/beacon.ForkedLightClientOptimisticUpdate"))
	// the element of the range on its own (the second entry point of the update decoder); its
	// genuine encodings are the elements of the genuine ranges
	seeded("types/beacon.ForkedLightClientUpdate", func() any { return &tbeacon.ForkedLightClientUpdate{} }, func() [][]byte {
		var out [][]byte
		for _, rg := range rangeSeeds() {
			out = append(out, c14RangeElems(rg)...)
		}
		return out
	}, c14ForkedVals("types/beacon.ForkedLightClientUpdate"))
	seeded("types/beacon.LightClientUpdateRange", func() any { r := tbeacon.LightClientUpdateRange{}; return &r }, rangeSeeds, c14RangeVals)
	seeded("types/beacon.ForkedHistoricalSummariesWithProof", func() any { return &tbeacon.ForkedHistoricalSummariesWithProof{} }, beaconSeeds("historical_summaries_with_proof.yaml", "content_value"),
		c14SummariesVals)
}

func sortStrings(s []string) {
	for i := 1; i < len(s); i++ {
		for j := i; j > 0 && s[j] < s[j-1]; j-- {
			s[j], s[j-1] = s[j-1], s[j]
		}
	}
}

var _ = reflect.TypeOf
