package main

import (
	"encoding/json"
	"fmt"
	"os"
	"strings"
	"testing/synctest"

	"verifharness/mc"
)

// C07 (concurrent part) — API goroutines (delete, add, lookup feedback) released
// against the running table loop. Scheduling points: every Lock/RLock of the table's
// mutexes (modelled by the scheduler), the random draw inside revalidationList.get
// (a gate between reading the list length and indexing it), the liveness ping, and
// "let the clock advance" (revalidation becomes due). All interleavings with a bounded
// number of preemptions; the structural invariants are evaluated at the end, and every
// API call must have returned.

type c07ConcScenario struct {
	Name    string
	Setup   []string   // events applied before the threads start (scheduler inactive)
	Threads [][]string // per thread: events (found / inbound / del / track)
	Ticks   int
}

var c07ConcScenarios = []c07ConcScenario{
	{"delete-vs-revalidation", []string{"foundlive:A.1.a"}, [][]string{{"del:A"}}, 1},
	{"delete-vs-revalidation-two-entries", []string{"foundlive:A.1.a", "foundlive:B.1.a"}, [][]string{{"del:A"}}, 1},
	{"update-vs-delete-vs-feedback", []string{"foundlive:A.1.a", "foundlive:F0", "foundlive:F1", "foundlive:F2"}, [][]string{{"del:A"}, {"found:A.2.b"}, {"track:A:fail"}}, 0},
	{"two-deletes-and-an-add", []string{"foundlive:A.1.a", "found:B.1.a"}, [][]string{{"del:A"}, {"del:A"}, {"inbound:A.2.b"}}, 0},
	{"adds-racing-for-the-ip-limit", []string{"foundlive:A.1.a"}, [][]string{{"found:B.1.a"}, {"found:X.1.b"}, {"inbound:A.2.b"}}, 0},
}

const c07ConcTasks = 5 // one worker process per scenario

type c07ConcCase struct {
	Scenario string   `json:"scenario"`
	Choices  []int    `json:"choices"`
	Trace    []string `json:"trace,omitempty"`
}

func c07ConcRun(r *mc.Report, sc *c07ConcScenario, c *mc.Ctx) (outcome string) {
	var trace []string
	viol := func(clause, site, detail string) {
		r.Violation(clause, site, detail+" | scenario "+sc.Name+" | schedule: "+strings.Join(trace, " "), c07ConcCase{sc.Name, c.Choices(), trace})
	}
	msg := inBubble(func() {
		t := newTabEnv()
		s := newSched()
		s.BgLast = false
		s.TickBudget, s.TickStep = sc.Ticks, 3*tabPingInterval
		// the clock advances only while the loop is idle in its select (a timer and a sender
		// ready together would again be a random select)
		s.TickCond = func() bool {
			lp := s.threadNamed("loop")
			return !s.othersInFlight(nil) && (lp == nil || !lp.parked)
		}
		defer s.stop()
		t.pingAuto = true
		t.intnGate = func(site string) { s.Gate("draw:" + site) }
		go func() {
			s.adoptCurrent("loop")
			defer close(t.loopEnd)
			defer func() {
				if rec := recover(); rec != nil {
					if _, poisoned := rec.(schedPoison); !poisoned {
						t.loopErr = fmt.Sprintf("%v @ %s", rec, repoFrame())
					}
				}
			}()
			t.vt.Loop()
		}()
		t.vt.WaitInit()
		synctest.Wait()
		for _, ev := range sc.Setup {
			t.apply(ev)
		}
		done := make([]bool, len(sc.Threads))
		for ti, evs := range sc.Threads {
			ti, evs := ti, evs
			s.spawn(fmt.Sprintf("T%d", ti+1), func() {
				self := s.current()
				for _, ev := range evs {
					// A call is issued only while no other API goroutine is blocked handing an
					// operation to the loop: with two senders ready the loop's select picks at
					// random, which the explorer could not replay. Every order of the calls is
					// still explored as a scheduling choice.
					s.GateIf("call:"+ev, func() bool { return !s.othersInFlight(self) })
					t.applyNoWait(ev)
				}
				done[ti] = true
			})
		}
		ok, why := s.run(c, 400)
		trace = s.Trace
		if t.loopErr != "" {
			site := t.loopErr[strings.LastIndex(t.loopErr, "@ ")+2:]
			viol("no-panic", "table loop: "+site, "the table loop panicked: "+t.loopErr)
		}
		if !ok {
			stuck := []string{}
			for ti, d := range done {
				if !d {
					stuck = append(stuck, fmt.Sprintf("T%d(%s)", ti+1, strings.Join(sc.Threads[ti], ",")))
				}
			}
			if t.loopErr == "" {
				viol("table-operations-return", "table API", fmt.Sprintf("%s: %v never returned", why, stuck))
			} else {
				r.Count("api_calls_stuck_after_loop_panic", int64(len(stuck)))
			}
			outcome = "stuck:" + strings.Join(stuck, ",") + " loop=" + t.loopErr
			// unwind the parked threads: the loop's tickers would keep virtual time running for ever
			s.poisonAll()
			t.vt.CloseDB()
			return
		}
		if t.loopErr != "" {
			outcome = "loop=" + t.loopErr
			t.stop()
			return
		}
		synctest.Wait()
		o := t.observe([]string{"A", "B"})
		c07Invariants(t, o, func(cl, site, d string) { viol(cl, site+" (concurrent)", d) }, func(w string) { r.Count("internal_drift: "+w, 1) })
		outcome = t.canon(o)
		t.stop()
	})
	if msg != "" {
		viol("no-panic", "table operation", "panic: "+msg)
	}
	return
}

func runC07Conc(r *mc.Report, e *Env, task int) {
	for si := range c07ConcScenarios {
		if e.Of > 1 && si != task {
			continue
		}
		sc := &c07ConcScenarios[si]
		bound := 2
		if e.Thorough() {
			bound = 3
		}
		outcomes := map[string]int{}
		d := &mc.DFS{Bound: bound, Deadline: e.Deadline, Retries: 8}
		var out string
		d.Body = func(c *mc.Ctx) { out = c07ConcRun(r, sc, c) }
		if freeRuns > 0 { // race-detector pass
			for i := 0; i < freeRuns; i++ {
				mc.Replay(nil, d.Body)
				r.Exec("free|" + sc.Name + "|" + out)
			}
			r.Count("free_running_executions", int64(freeRuns))
			continue
		}
		d.After = func(c *mc.Ctx) {
			if c.Diverged != "" {
				r.Count("schedule_replays_diverged", 1)
				if os.Getenv("VERIF_DEBUG") != "" {
					fmt.Fprintln(os.Stderr, "DIVERGED", sc.Name, c.Diverged, c.Labels())
				}
				return
			}
			r.Exec("conc|" + sc.Name + "|" + out)
			outcomes[out]++
		}
		d.Run()
		if d.TimedOut {
			r.NotExhaustive("internal deadline reached during schedule exploration of " + sc.Name)
		}
		r.Count("schedules_"+sc.Name, d.Executions)
		r.Count("schedules", d.Executions)
		r.Count("schedule_replays_retried", d.Retried)
		if d.Diverged > 0 {
			r.NotExhaustive("some schedule prefixes could not be replayed (a liveness response and an API call were ready at the loop's select together: Go picks at random)")
		}
		r.Max("max_schedule_points", int64(d.MaxPoints))
		r.Set("preemption_bound", bound)
		r.Sample(map[string]any{"scenario": sc.Name, "setup": sc.Setup, "threads": sc.Threads, "clock_advances": sc.Ticks, "distinct_outcomes": len(outcomes)})
	}
	r.SetMaxSamples(10)
}

func replayC07Conc(r *mc.Report, e *Env, raw json.RawMessage) {
	var c c07ConcCase
	if err := json.Unmarshal(raw, &c); err != nil {
		panic(err)
	}
	for si := range c07ConcScenarios {
		if c07ConcScenarios[si].Name == c.Scenario {
			ctx := mc.Replay(c.Choices, func(x *mc.Ctx) { fmt.Println("outcome:", c07ConcRun(r, &c07ConcScenarios[si], x)) })
			if ctx.Diverged != "" {
				fmt.Println("replay diverged:", ctx.Diverged)
			}
		}
	}
}
