package main

import (
	"bytes"
	"encoding/hex"
	"encoding/json"
	"fmt"
	"github.com/protolambda/zrnt/eth2/beacon/capella"
	"github.com/protolambda/zrnt/eth2/beacon/common"
	"runtime/debug"
	"sort"

	"github.com/ethereum/go-ethereum/core/types"

	"github.com/zen-eth/shisui/history"
	"verifharness/mc"
)

// C03 — header proofs: honest proofs verify and nothing else does, in all four eras.
//
// Seven synthetic sets of trusted accumulators (c03_world.go): pre-merge chains whose
// last epoch holds 1, 2, 8191, 8192 headers, a 3-epoch chain, a post-merge world of
// 3 historical roots + 3 Capella-style + 3 Deneb-style summaries (every one of the
// 9 x 8192 positions committed), and a world that commits the headers around the three
// era boundaries in accumulators of all four styles. For every enumerated position the
// real HeaderValidator is given the honest proof and every single-point departure from
// it listed under c03Case; a reference that knows what each world committed says what
// the verdict must be.

func init() {
	register(&Prop{ID: "C03", Level: "exploration", Run: runC03, Replay: replayC03,
		Workers: func(e *Env) int { return minInt(cpus(), 12) }})
}

// c03Case is one presentation to the validator. At is the position whose honest proof
// the case starts from: a block number in the pre-merge and dispatch worlds, a slot in
// the post-merge world.
//
//	honest       the committed header with its honest proof
//	padding      pre-merge: the header numbered At where the epoch holds a zero record, with that record's true siblings
//	flip         node Arg of the honest proof (encoding order) with bit Bit inverted
//	header-of    the header of position Arg with At's proof (pre-merge the position moves with the header's number)
//	twin         another header carrying At's number
//	moved        post-merge: At's header and nodes under slot Arg
//	nodes        Arg 0/1: one beacon (pre-merge: accumulator) node fewer/more, 2/3: one execution node fewer/more, 4: one surplus byte,
//	             5/6: a node moved from the beacon to the execution list / back (the same-sized container of another era)
//	as-era       dispatch world: the header numbered At with its honest proof of style Arg (0 pre-merge .. 3 Deneb)
//	repo-prover  the committed header with the proof made by history.BuildProof
//	repo-chain   history.Accumulator run over the world's chain must give the world's epoch roots
type c03Case struct {
	World string `json:"world"`
	Kind  string `json:"kind"`
	At    uint64 `json:"at"`
	Arg   uint64 `json:"arg,omitempty"`
	Bit   int    `json:"bit,omitempty"`
}

func (w *c03World) preOnly() bool { return len(w.hroots) == 0 }

// honest returns the header committed at a position and its honest proof.
func (w *c03World) honest(at uint64) (*types.Header, c03Proof) {
	p := int(at % c03EpochSize)
	if w.preOnly() {
		pr := c03Proof{pre: true, beacon: make([]h32, 15)} // beyond the accumulator there is nothing to prove with
		if e := at / c03EpochSize; e < uint64(len(w.epochs)) {
			pr = w.epochs[e].proof(p)
		}
		return c03Header(at, 0), pr
	}
	b := w.batchAt(at)
	return c03Header(b.num[p], 0), b.proof(p, at)
}

// asEra: the boundary header with the given number and its honest proof of one style.
func (w *c03World) asEra(number uint64, style int) (*types.Header, []byte) {
	p := sort.Search(len(c03Fork), func(i int) bool { return c03Fork[i] >= number })
	var pr c03Proof
	switch style {
	case eraPre:
		pr = w.epochs[number/c03EpochSize].proof(int(number % c03EpochSize))
	case eraBellatrix:
		pr = w.hroots[0].proof(p, uint64(p))
	case eraCapella:
		pr = w.sums[0].proof(p, c03CapellaSlot+uint64(p))
	case eraDeneb:
		pr = w.sums[1].proof(p, c03CapellaSlot+c03EpochSize+uint64(p))
	}
	return c03Header(number, 0), pr.bytes()
}

func (w *c03World) input(c c03Case) (*types.Header, []byte) {
	if c.Kind == "as-era" {
		return w.asEra(c.At, int(c.Arg))
	}
	h, pr := w.honest(c.At)
	surplus := 0
	switch c.Kind {
	case "flip":
		pr.node(int(c.Arg))[c.Bit/8] ^= 1 << (c.Bit % 8)
	case "header-of":
		h, _ = w.honest(c.Arg)
	case "twin":
		h = c03Header(h.Number.Uint64(), 1)
	case "moved":
		pr.slot = c.Arg
	case "nodes":
		switch c.Arg {
		case 0:
			pr.beacon = pr.beacon[:len(pr.beacon)-1]
		case 1:
			pr.beacon = append(pr.beacon, h32{})
		case 2:
			pr.exec = pr.exec[:len(pr.exec)-1]
		case 3:
			pr.exec = append(pr.exec, h32{})
		case 4:
			surplus = 1
		case 5:
			pr.beacon, pr.exec = pr.beacon[:len(pr.beacon)-1], append(pr.exec, h32{})
		case 6:
			pr.beacon, pr.exec = append(pr.beacon, h32{}), pr.exec[:len(pr.exec)-1]
		}
	}
	return h, append(pr.bytes(), make([]byte, surplus)...)
}

// c03Pos: the record/slot positions of one vector that are enumerated.
func c03Pos(thorough bool, marks ...int) []int {
	set := map[int]bool{}
	for i := 0; i < c03EpochSize; i++ {
		if thorough || i%16 == 0 {
			set[i] = true
		}
	}
	for _, m := range append(marks, 0, 1, 2, 3, 4095, 4096, 8189, 8190, 8191) {
		if m >= 0 && m < c03EpochSize {
			set[m] = true
		}
	}
	out := make([]int, 0, len(set))
	for i := range set {
		out = append(out, i)
	}
	sort.Ints(out)
	return out
}

func c03Edge(p int) bool { return p <= 1 || p == 4095 || p == 4096 || p >= 8190 }

// units lists the positions of a world that get the full case list.
func (w *c03World) units(thorough bool) (out []uint64) {
	if w.name == "dispatch" {
		return c03Fork
	}
	vector := func(first uint64, marks ...int) {
		for _, p := range c03Pos(thorough, marks...) {
			out = append(out, first+uint64(p))
		}
	}
	for e, ep := range w.epochs {
		vector(uint64(e)*c03EpochSize, ep.n-1, ep.n, ep.n+1)
	}
	for i := range w.hroots {
		vector(uint64(i) * c03EpochSize)
	}
	for i := range w.sums {
		vector(c03CapellaSlot + uint64(i)*c03EpochSize)
	}
	return out
}

// cases lists everything presented for one position.
func (w *c03World) cases(at uint64, thorough bool) (out []c03Case) {
	add := func(kind string, arg uint64, bit int) {
		out = append(out, c03Case{World: w.name, Kind: kind, At: at, Arg: arg, Bit: bit})
	}
	if w.name == "dispatch" {
		for style := eraPre; style <= eraDeneb; style++ {
			add("as-era", uint64(style), 0)
		}
		return out
	}
	p := int(at % c03EpochSize)
	if w.preOnly() && w.epochs[at/c03EpochSize].hash[p] == (h32{}) {
		add("padding", 0, 0)
		return out
	}

	// other positions: index +-1 and index xor 2^k in the same vector, the slot/number
	// +-1 and +-8192, then values at and beyond the ends of the accumulators
	var others []uint64
	seen := map[uint64]bool{at: true}
	other := func(t uint64) {
		if !seen[t] {
			seen[t] = true
			others = append(others, t)
		}
	}
	for k := 0; k < 13; k++ {
		other(at ^ 1<<uint(k))
	}
	other(at + 1)
	other(at + c03EpochSize)
	if at >= 1 {
		other(at - 1)
	}
	if at >= c03EpochSize {
		other(at - c03EpochSize)
	}
	q := uint64(p)
	if w.preOnly() {
		end := uint64(len(w.epochs)) * c03EpochSize
		for _, t := range []uint64{end, end + q, c03Merge - 1} {
			other(t)
		}
	} else {
		endRoots, endSums := uint64(len(w.hroots))*c03EpochSize, c03CapellaSlot+uint64(len(w.sums))*c03EpochSize
		for _, t := range []uint64{q, endRoots, endRoots + q, c03CapellaSlot - c03EpochSize + q, c03CapellaSlot - 1,
			endSums, endSums + q, 1<<40 + q, ^uint64(0) - c03EpochSize + 1 + q, ^uint64(0)} {
			other(t)
		}
	}

	_, pr := w.honest(at)
	add("honest", 0, 0)
	for k := 0; k < pr.nodes(); k++ {
		step := 256 // one bit per node; over the positions every bit index is used
		if thorough && c03Edge(p) {
			step = 1
		} else if thorough {
			step = 32
		}
		for j := 0; j < 256; j += step {
			add("flip", uint64(k), (p*37+k*11+j)%256)
		}
	}
	add("twin", 0, 0)
	if w.preOnly() {
		for _, t := range others {
			add("header-of", t, 0)
		}
		for _, v := range []uint64{0, 1, 4} {
			add("nodes", v, 0)
		}
		if c03Edge(p) || p == w.epochs[at/c03EpochSize].n-1 {
			add("repo-prover", 0, 0)
		}
		if at == 0 {
			add("repo-chain", 0, 0)
		}
		return out
	}
	for _, t := range others {
		if b := w.batchAt(t); b != nil && b.num[t%c03EpochSize] != 0 {
			add("header-of", t, 0)
		}
		add("moved", t, 0)
	}
	for v := uint64(0); v <= 6; v++ {
		add("nodes", v, 0)
	}
	return out
}

// c03Clause names the part of the statement that fails when a case that must be
// refused is accepted.
var c03Clause = map[string]string{
	"padding": "other-header-rejected", "flip": "altered-sibling-rejected", "header-of": "other-header-rejected",
	"twin": "other-header-rejected", "moved": "other-position-rejected", "nodes": "wrong-node-count-rejected",
	"as-era": "other-era-rejected",
}

func c03Exec(r *mc.Report, w *c03World, c c03Case, sample bool) {
	var h *types.Header
	var proof []byte
	switch c.Kind {
	case "repo-chain":
		c03RepoChain(r, w, c)
		return
	case "repo-prover":
		h, _ = w.honest(c.At)
		var got history.AccumulatorProof
		var err error
		msg, _ := panicsTo(func() {
			got, err = history.BuildProof(*h, history.EpochAccumulator{HeaderRecords: w.epochs[c.At/c03EpochSize].records()})
		})
		if msg != "" || err != nil {
			r.Violation("honest-proof-verifies", "history.BuildProof", fmt.Sprintf("no proof for block %d: %s %v", c.At, msg, err), c)
			return
		}
		proof = bytes.Join(got, nil)
	default:
		h, proof = w.input(c)
	}
	number := h.Number.Uint64()
	era := c03Era(number)
	want := w.ref(h, proof)

	// what the case was built to be must agree with what the reference reads off the world
	built := c.Kind == "honest" || c.Kind == "repo-prover" || (c.Kind == "as-era" && int(c.Arg) == era)
	if built != (want == refAccept) {
		if c.Kind == "repo-prover" {
			r.Violation("honest-proof-verifies", "history.BuildProof", fmt.Sprintf("block %d: the prover's nodes are not the committed branch", c.At), c)
		} else {
			r.EngineError(fmt.Sprintf("harness: case %+v built to be accepted=%v, reference verdict %d", c, built, want))
		}
		return
	}

	var err error
	msg, site := panicsTo(func() { err = w.v.ValidateHeaderAndProof(h, proof) })
	obs := "accepted"
	if msg != "" {
		obs = "panic: " + msg
	} else if err != nil {
		obs = err.Error()
	}
	fail := func(clause string) {
		r.Violation(clause, site, fmt.Sprintf("world %s, %s at %d (arg %d, bit %d): header number %d, %d proof bytes: %s", w.name, c.Kind, c.At, c.Arg, c.Bit, number, len(proof), obs), c)
	}
	if msg == "" { // a verdict, not a panic: the site is the branch that gave it (the dispatcher for cross-era cases)
		site = c03Site[era]
		if c.Kind == "as-era" {
			site = "validation.HeaderValidator.ValidateHeaderAndProof"
		}
	}
	switch {
	case msg != "" && want == refOutOfRange:
		fail("out-of-range-yields-error")
	case msg != "":
		fail("no-panic")
	case want == refAccept && err != nil:
		fail("honest-proof-verifies")
	case want == refOutOfRange && err == nil:
		fail("out-of-range-yields-error")
	case want != refAccept && err == nil:
		fail(c03Clause[c.Kind])
	}
	r.Count("cases_"+c.Kind, 1)
	if sample {
		r.Sample(map[string]any{"case": c, "header_number": number, "header_hash": hx(h.Hash().Bytes()), "proof": hex.EncodeToString(proof), "observed": obs})
	}
	if want == refMalformed { // not a container of the header's era: no branch is ever computed
		r.Trivial()
		return
	}
	arg := uint64(0)
	if c.Kind == "flip" || c.Kind == "nodes" || c.Kind == "as-era" {
		arg = c.Arg
	}
	r.Exec(fmt.Sprintf("%s|%s|%d|%d|%d|%s", w.name, c.Kind, arg, era, want, obs))
}

// c03RepoChain: the repository's own accumulator builder, run over the world's headers,
// must arrive at the epoch roots the harness tree gives.
func c03RepoChain(r *mc.Report, w *c03World, c c03Case) {
	var got [][]byte
	var err error
	msg, _ := panicsTo(func() {
		acc := history.NewAccumulator()
		for e, ep := range w.epochs {
			for i := 0; i < ep.n; i++ {
				if err = acc.Update(*c03Header(uint64(e*c03EpochSize+i), 0)); err != nil {
					return
				}
			}
		}
		var m *history.MasterAccumulator
		if m, err = acc.Finish(); err == nil {
			got = m.HistoricalEpochs
		}
	})
	same := msg == "" && err == nil && len(got) == len(w.epochs)
	for i := 0; same && i < len(got); i++ {
		same = bytes.Equal(got[i], w.epochs[i].root[:])
	}
	if !same {
		r.Violation("honest-proof-verifies", "history.Accumulator.Finish", fmt.Sprintf("world %s: %d epoch roots from the repository's accumulator differ from the harness tree (%s %v)", w.name, len(got), msg, err), c)
		return
	}
	r.Count("cases_"+c.Kind, 1)
	r.Exec(w.name + "|repo-chain|same-roots")
}

// c03Sampled: the cases of a world's first position that are written out in the evidence.
var c03Sampled = map[string]bool{"pre-chain/honest": true, "pre-chain/flip": true, "post/honest": true, "post/moved": true, "dispatch/as-era": true}

func runC03(r *mc.Report, e *Env) {
	r.Rule = "every case is one call of HeaderValidator.ValidateHeaderAndProof over synthetic trusted accumulators, compared with a reference that knows what was committed at each position; non-trivial = the proof bytes have the container size of the header's era (a Merkle branch is evaluated or an accumulator entry looked up); distinct = distinct (world, case kind, altered node, era, reference verdict, returned error) observations"
	r.Assume("'never verifies' is enumerated for single-point departures from an honest proof (one bit of one node, one other header, one other slot/number, one node more or fewer, one other era); hash collisions are not searched for")
	r.Assume("quick inverts one bit per node and position (the bit index runs over 0..255 with the position); thorough inverts 8 bits per node and position and all 256 at positions 0, 1, 4095, 4096, 8190, 8191 of every vector")
	r.Assume("main part: the summaries provider is used without a beacon oracle (slots beyond the supplied summaries are out of range); the oracle-backed provider is driven separately through length-3 sequences over a source whose list grows")
	r.Set("bound", map[string]any{
		"worlds":              len(c03Worlds),
		"positions":           map[bool]string{true: "every position 0..8191 of every vector", false: "every 16th position plus first/last/middle and end-of-chain positions of every vector"}[e.Thorough()],
		"pre_merge_epochs":    "1, 2, 8191, 8192 headers; chain 8192+8192+100",
		"post_merge_vectors":  "3 historical roots, 3 Capella-style and 3 Deneb-style summaries, all 8192 positions committed",
		"era_boundary_blocks": c03Fork,
	})
	defer debug.SetGCPercent(debug.SetGCPercent(400)) // many short-lived proofs over a small live heap
	runC03Conc(r, e)                                  // every worker explores its share of the schedules
	if freeRuns > 0 {                                 // race-detector pass: only the concurrent scenarios
		return
	}
	if e.Of <= 1 || e.Shard == e.Of-1 {
		c03Oracle(r, e)
		c03DefaultAccumulators(r)
	}
	unit := 0
	for _, wd := range c03Worlds {
		w := wd.build()
		for i, at := range w.units(e.Thorough()) {
			if unit++; !e.Mine(unit) {
				continue
			}
			if e.Expired() {
				return
			}
			r.Count("positions", 1)
			for _, c := range w.cases(at, e.Thorough()) {
				c03Exec(r, w, c, i == 0 && c03Sampled[w.name+"/"+c.Kind] && (c.Arg == 0 || c.Arg == ^uint64(0)))
			}
		}
	}
}

func replayC03(r *mc.Report, e *Env, raw json.RawMessage) {
	if replayC03Conc(r, raw) {
		return
	}
	var oc c03OracleCase
	if json.Unmarshal(raw, &oc) == nil && oc.Part == "growing-summaries" {
		w := c03PostWorld()
		var all capella.HistoricalSummaries
		for _, b := range w.sums {
			all = append(all, capella.HistoricalSummary{BlockSummaryRoot: common.Root(b.entry()), StateSummaryRoot: common.Root(b.state)})
		}
		fmt.Println("outcome:", c03OracleRun(r, w, all, oc.Steps, true))
		return
	}
	if oc.Part == "default-accumulators" {
		c03DefaultAccumulators(r)
		return
	}
	var c c03Case
	if err := json.Unmarshal(raw, &c); err != nil {
		panic(err)
	}
	for _, wd := range c03Worlds {
		if wd.name == c.World {
			c03Exec(r, wd.build(), c, false)
			return
		}
	}
	fmt.Println("replay: unknown world", c.World)
}
