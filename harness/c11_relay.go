package main

import (
	"encoding/binary"
	"encoding/json"
	"fmt"
	"net"
	"os"

	"github.com/ethereum/go-ethereum/p2p/enode"
	"github.com/ethereum/go-ethereum/p2p/enr"
	"github.com/ethereum/go-ethereum/rlp"
	"github.com/zen-eth/shisui/portalwire"
	"verifharness/mc"
)

// C11, hearsay (E4): "offers ... only liveness-checked table entries" across two steps. A real
// started node A looks a target up through a scripted peer B, which relays records of nodes
// A has never heard from (validly signed, at the requested distances, relayable, nobody
// listens there). A files them in its table. Then A is asked - by B or by a third party -
// for the distances of those records: none of them may be in the reply, because A itself
// never had an answer from them. One worker process per case.

type c11RelayCase struct {
	Part    string `json:"part"` // "relayed-then-asked"
	Records int    `json:"relayed_records"`
	Asker   string `json:"asker"` // "relayer" | "third-party"
	// Known: the relayed records are newer records (higher sequence number, another port) of nodes A
	// already holds as liveness-checked entries: the new endpoint is hearsay all the same
	Known bool `json:"known_nodes_new_port,omitempty"`
}

func c11RelayCases() (cs []c11RelayCase) {
	for _, n := range []int{1, 3} {
		for _, asker := range []string{"relayer", "third-party"} {
			cs = append(cs, c11RelayCase{"relayed-then-asked", n, asker, false}, c11RelayCase{"relayed-then-asked", n, asker, true})
		}
	}
	return
}

func c11RelayRun(r *mc.Report, c c11RelayCase, finish func(string)) {
	viol := func(clause, site, detail string) { r.Violation(clause, site, detail, c) }
	msg := inBubble(func() {
		w := newWire()
		w.immediate = true
		a := newMNode(w, mnodeOpts{keyIdx: 41, versions: []uint8{0, 1}})
		// hearsay records: found by key search so that they lie at log-distance 256/255 from B (any
		// distance A's lookup asks B for is fine: B answers with them whatever was asked)
		var relayed []*enode.Node
		var known []*enode.Node
		for i := 0; len(relayed) < c.Records; i++ {
			if c.Known {
				known = append(known, signedNode(detKey(4100+i), 1, net.IP{10, 0, 0, byte(50 + i)}, 9500+i))
				relayed = append(relayed, signedNode(detKey(4100+i), 2, net.IP{10, 0, 0, byte(50 + i)}, 9600+i))
				continue
			}
			relayed = append(relayed, signedNode(detKey(4100+i), 1, net.IP{10, 0, 0, byte(50 + i)}, 9500+i))
		}
		var b *mnode
		b = newMNode(w, mnodeOpts{keyIdx: 42, versions: []uint8{0, 1}, puppet: func(from enode.ID, msg []byte) []byte {
			if len(msg) == 0 || msg[0] != portalwire.FINDNODES {
				return nil
			}
			req := &portalwire.FindNodes{}
			if req.UnmarshalSSZ(msg[1:]) != nil {
				return nil
			}
			var enrs [][]byte
			for _, x := range relayed {
				// only records at a requested distance from the responder are used by the asker
				d := uint16(enode.LogDist(b.Self().ID(), x.ID()))
				for _, want := range req.Distances {
					if binary.LittleEndian.Uint16(want[:]) == d {
						enc, _ := rlp.EncodeToBytes(x.Record())
						enrs = append(enrs, enc)
					}
				}
			}
			out, _ := (&portalwire.Nodes{Total: 1, Enrs: enrs}).MarshalSSZ()
			return append([]byte{portalwire.NODES}, out...)
		}})
		third := newMNode(w, mnodeOpts{keyIdx: 43, versions: []uint8{0, 1}, puppet: func(enode.ID, []byte) []byte { return nil }})
		a.P.AddEnr(b.Self())
		for _, k := range known {
			if !a.P.VerifTable().InsertDirect(k, true) {
				r.EngineError("hearsay: the table refused a known node")
			}
		}
		// A asks B for each relayed record's distance (what a lookup for a target next to it does)
		learned := 0
		for _, x := range relayed {
			a.P.Lookup(x.ID())
		}
		tab := a.P.VerifTable().Snapshot()
		inTable := map[enode.ID]bool{}
		for _, bk := range tab.Buckets {
			for _, n := range bk.Entries {
				inTable[n.ID] = true
			}
		}
		for _, x := range relayed {
			if inTable[x.ID()] {
				learned++
			}
		}
		asker := b
		if c.Asker == "third-party" {
			asker = third
		}
		offered := 0
		for _, x := range relayed {
			d := uint16(enode.LogDist(a.Self().ID(), x.ID()))
			var d2 [2]byte
			binary.LittleEndian.PutUint16(d2[:], d)
			req, _ := (&portalwire.FindNodes{Distances: [][2]byte{d2}}).MarshalSSZ()
			resp, err := asker.D5.TalkRequest(a.Self(), string(portalwire.History), append([]byte{portalwire.FINDNODES}, req...))
			if err != nil || len(resp) < 1 || resp[0] != portalwire.NODES {
				viol("findnodes-is-answered", "handleFindNodes", fmt.Sprintf("err=%v resp=%x", err, resp))
				continue
			}
			nodes := &portalwire.Nodes{}
			if err := nodes.UnmarshalSSZ(resp[1:]); err != nil {
				viol("findnodes-is-answered", "handleFindNodes", err.Error())
				continue
			}
			for _, enc := range nodes.Enrs {
				n, err := enrNode(enc)
				if err == nil && n.ID() == x.ID() && (!c.Known || n.UDP() == x.UDP()) {
					offered++
					viol("only-liveness-checked-entries", "handleFindNodes:relayed-record", fmt.Sprintf("A learned %s only from B's NODES reply (nobody answers at its address) and offers it to the %s at distance %d", x.ID().TerminalString(), c.Asker, d))
				}
			}
		}
		if learned == 0 {
			r.Count("model_drift_relayed_records_not_filed", 1) // then the case shows nothing
		}
		d := fmt.Sprintf("relay|%d|%s|learned=%d|offered=%d", c.Records, c.Asker, learned, offered)
		if finish != nil {
			finish(d)
		}
		third.close()
		b.close()
		a.close()
	})
	if msg != "" {
		viol("no-panic", "lookup / handleFindNodes", "panic: "+msg)
	}
}

// enrNode decodes an RLP-encoded record.
func enrNode(enc []byte) (*enode.Node, error) {
	var rec enr.Record
	if err := rlp.DecodeBytes(enc, &rec); err != nil {
		return nil, err
	}
	return enode.New(enode.ValidSchemes, &rec)
}

func init() {
	p := registry["C11"]
	oldW, oldRun, oldReplay := p.Workers, p.Run, p.Replay
	p.Workers = func(e *Env) int { return oldW(e) + len(c11RelayCases()) }
	p.Run = func(r *mc.Report, e *Env) {
		nb := oldW(e)
		if e.Of <= 1 || e.Shard < nb {
			he := *e
			if e.Of > 1 {
				he.Of = nb
			}
			oldRun(r, &he)
			if e.Shard == 0 {
				r.Assume("hearsay part: a real started node on the in-memory wire learns records through a real lookup from a scripted peer and is then asked for their distances")
				r.Sample(c11RelayCases()[1])
			}
			return
		}
		c := c11RelayCases()[e.Shard-nb]
		r.Count("relay_cases", 1)
		c11RelayRun(r, c, func(d string) { r.Exec(d); e.FinishNow(r) })
	}
	p.Replay = func(r *mc.Report, e *Env, raw json.RawMessage) {
		var c c11RelayCase
		if json.Unmarshal(raw, &c) == nil && c.Part == "relayed-then-asked" {
			c11RelayRun(r, c, func(d string) {
				fmt.Println("outcome:", d)
				for _, v := range r.Violations {
					fmt.Printf("REPLAY: reproduced %s\n  %s\n", v.Fingerprint, v.Detail)
				}
				if len(r.Violations) > 0 {
					os.Exit(1)
				}
				fmt.Println("REPLAY: no violation reproduced")
				os.Exit(0)
			})
			return
		}
		oldReplay(r, e, raw)
	}
}
