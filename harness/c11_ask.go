package main

import (
	"crypto/ecdsa"
	"encoding/binary"
	"fmt"
	"net"
	"slices"
	"sort"
	"strings"

	"github.com/ethereum/go-ethereum/p2p/enode"
	"github.com/ethereum/go-ethereum/p2p/enr"
	"github.com/ethereum/go-ethereum/p2p/netutil"
	"github.com/ethereum/go-ethereum/rlp"
	"github.com/zen-eth/shisui/portalwire"
	"verifharness/mc"
)

// Asking side of C11: which records of a NODES reply the real processNodes hands on.

// The record menu. Unless the name says otherwise a record is validly signed, at log
// distance 256 from the responder, on a public address with UDP port 30303.
var c11Menu = []string{
	"at256", "at254", // at requested distances (request "256,254")
	"at255",     // valid, at a distance that was not requested
	"badsig",    // one signature byte flipped
	"newer256",  // the node of "at256" with a higher sequence number: a repeat by identity
	"port1024",  // the highest port that must be refused
	"port1025",  // the lowest port that may be used
	"loopback",  // 127.0.0.1: relayable only by a loopback responder
	"lan",       // 10.0.0.5: relayable only by a LAN or loopback responder
	"junk",      // not an RLP record
	"size301",   // validly signed, one byte over the record size limit
	"responder", // the responder's own record (distance 0)
}

var c11ReqNames = []string{"256,254", "0", "empty", "nil"}

func c11Req(name string) []uint {
	switch name {
	case "256,254":
		return []uint{256, 254}
	case "0":
		return []uint{0}
	case "empty":
		return []uint{}
	}
	return nil
}

func c11AskDepth(thorough bool) int {
	if thorough {
		return 4
	}
	return 3
}

type c11Asking struct {
	bn               *bareNode
	stop             func()
	senders          map[string]*enode.Node // responder by address class (same identity)
	items            map[string][]byte
	names            map[string]string // record bytes -> menu name
	honest, accepted int
}

func newC11Asking() *c11Asking {
	a := &c11Asking{bn: newBareNode(bareOpts{keyIdx: 12, ip: net.IP{44, 0, 12, 1}}), senders: map[string]*enode.Node{}, items: map[string][]byte{}, names: map[string]string{}}
	a.stop = a.bn.initTable().ServeAdds() // processNodes registers the responder in the table
	tkey := detKey(2000)
	tid := enode.PubkeyToIDV4(&tkey.PublicKey)
	for i, class := range c11Classes[:3] {
		a.senders[class] = signedNode(tkey, 1, c11IP(class, 400+i), 30400)
		a.items["responder/"+class], _ = rlp.EncodeToBytes(a.senders[class].Record())
	}
	next := 3000
	key := func(d int) (k *ecdsa.PrivateKey) {
		k, next = keyWithLogDist(tid, d, next)
		next++
		return k
	}
	rec := func(k *ecdsa.PrivateKey, seq uint64, ip net.IP, port, size int) []byte {
		return c11Rec(k, enode.ID{}, seq, ip, port, size)
	}
	k256 := key(256)
	a.items["at256"] = rec(k256, 1, net.IP{44, 2, 0, 1}, 30303, 0)
	a.items["newer256"] = rec(k256, 2, net.IP{44, 2, 0, 1}, 30303, 0)
	a.items["at254"] = rec(key(254), 1, net.IP{44, 2, 1, 1}, 30303, 0)
	a.items["at255"] = rec(key(255), 1, net.IP{44, 2, 2, 1}, 30303, 0)
	a.items["badsig"] = rec(key(256), 1, net.IP{44, 2, 3, 1}, 30303, 0)
	a.items["badsig"][20] ^= 0xff // bytes 4..67 are the signature
	a.items["port1024"] = rec(key(256), 1, net.IP{44, 2, 4, 1}, 1024, 0)
	a.items["port1025"] = rec(key(256), 1, net.IP{44, 2, 5, 1}, 1025, 0)
	a.items["loopback"] = rec(key(256), 1, net.IP{127, 0, 0, 1}, 30303, 0)
	a.items["lan"] = rec(key(256), 1, net.IP{10, 0, 0, 5}, 30303, 0)
	a.items["junk"] = []byte{0xf8, 0xff, 0x01}
	big := key(256)
	c11Node(rec(big, 1, net.IP{44, 2, 6, 1}, 30303, enr.SizeLimit)) // the hand-made encoding is genuine: at the limit it verifies
	a.items["size301"] = rec(big, 1, net.IP{44, 2, 6, 1}, 30303, enr.SizeLimit+1)
	for i := 0; i < 33; i++ {
		a.items[fmt.Sprint("bulk", i)] = rec(key(256), 1, net.IP{44, 3, byte(i), 1}, 30303, 0)
	}
	for name, raw := range a.items {
		a.names[string(raw)] = c11ItemClass(name)
	}
	return a
}

// c11ItemClass maps "bulk17" to "bulk" and "responder/lan" to "responder".
func c11ItemClass(name string) string {
	for _, p := range []string{"bulk", "responder"} {
		if strings.HasPrefix(name, p) {
			return p
		}
	}
	return name
}

func (a *c11Asking) close() { a.stop(); a.bn.Close() }

func c11NodesMsg(enrs [][]byte) []byte {
	msg := []byte{portalwire.NODES, 1, 5, 0, 0, 0}
	off := 4 * len(enrs)
	for _, e := range enrs {
		msg = binary.LittleEndian.AppendUint32(msg, uint32(off))
		off += len(e)
	}
	for _, e := range enrs {
		msg = append(msg, e...)
	}
	return msg
}

func c11CheckAsk(r *mc.Report, a *c11Asking, c c11Case) {
	sender, req := a.senders[c.Sender], c11Req(c.Req)
	enrs, inReply := make([][]byte, len(c.Items)), map[string]bool{}
	for i, name := range c.Items {
		if name == "responder" {
			name += "/" + c.Sender
		}
		enrs[i] = a.items[name]
		inReply[string(enrs[i])] = true
	}
	var got []*enode.Node
	var perr error
	if msg, site := panicsTo(func() { got, perr = a.bn.P.VerifProcessNodes(sender, c11NodesMsg(enrs), req) }); msg != "" {
		r.Violation("no-panic", site, "processNodes panicked: "+msg, c)
		return
	}
	bad := func(clause, site, detail string) {
		r.Violation(clause, site, fmt.Sprintf("%s responder, requested %s, reply %v: %s", c.Sender, c.Req, c.Items, detail), c)
	}
	// soundness: every node handed on passes the five stated rules
	used, usedNames := map[enode.ID]bool{}, []string{}
	for _, n := range got {
		raw, _ := rlp.EncodeToBytes(n.Record())
		name := a.names[string(raw)]
		if !inReply[string(raw)] {
			name = "not-in-reply"
			bad("used-record-comes-from-the-reply", name, "returned record "+hx(raw))
		}
		usedNames = append(usedNames, name)
		if v, err := enode.New(enode.ValidSchemes, n.Record()); err != nil || v.ID() != n.ID() {
			bad("used-only-if-validly-signed", name, fmt.Sprintf("record %q used (%v)", name, err))
		}
		if d := enode.LogDist(sender.ID(), n.ID()); !slices.Contains(req, uint(d)) {
			bad("used-only-if-at-a-requested-distance", "request-"+c.Req, fmt.Sprintf("record %q at distance %d from the responder used", name, d))
		}
		if used[n.ID()] {
			bad("used-only-if-not-a-repeat", name, fmt.Sprintf("node of record %q used twice", name))
		}
		used[n.ID()] = true
		if n.UDP() <= 1024 {
			bad("used-only-if-udp-port-above-1024", name, fmt.Sprintf("record %q with UDP port %d used", name, n.UDP()))
		}
		if err := netutil.CheckRelayIP(sender.IP(), n.IP()); err != nil {
			bad("used-only-if-relayable", name+"<-"+c.Sender, fmt.Sprintf("record %q (%s) from responder %s used: %v", name, n.IP(), sender.IP(), err))
		}
	}
	// completeness is not claimed; it is counted, and guards against a vacuous pass
	want, refused := map[enode.ID]bool{}, map[string]bool{}
	for i, raw := range enrs {
		var rec enr.Record
		ok := len(enrs) <= portalwire.VerifFindnodesResultLimit && rlp.DecodeBytes(raw, &rec) == nil
		var n *enode.Node
		if ok {
			var err error
			n, err = enode.New(enode.ValidSchemes, &rec)
			ok = err == nil && !want[n.ID()] && n.UDP() > 1024 && slices.Contains(req, uint(enode.LogDist(sender.ID(), n.ID()))) && netutil.CheckRelayIP(sender.IP(), n.IP()) == nil
		}
		if ok {
			want[n.ID()] = true
			if !used[n.ID()] {
				r.Count("ask_incomplete", 1)
			}
		} else {
			refused[c11ItemClass(c.Items[i])] = true
		}
	}
	if len(want) > 0 {
		a.honest++
		r.Count("ask_honest_cases", 1)
		if len(got) == 0 {
			r.Count("ask_honest_case_answered_empty", 1)
		}
	}
	a.accepted += len(got)
	r.Count("ask_records_used", int64(len(got)))
	if perr != nil {
		r.Count("ask_reply_refused", 1)
	}
	rn := []string{}
	for n := range refused {
		rn = append(rn, n)
	}
	sort.Strings(rn)
	r.Exec(fmt.Sprintf("ask:%s:%s:used=%v:notwanted=%v:err=%v", c.Sender, c.Req, usedNames, rn, perr != nil))
	if len(got) == 2 && len(rn) > 0 {
		r.Sample(map[string]any{"case": c, "used": usedNames, "not_expected_to_be_used": rn})
	}
}

func c11RunAsk(r *mc.Report, e *Env, unit *int) {
	a := newC11Asking()
	defer a.close()
	lists := [][]string{}
	var rec func(prefix []string)
	rec = func(prefix []string) {
		lists = append(lists, prefix)
		if len(prefix) < c11AskDepth(e.Thorough()) {
			for _, m := range c11Menu {
				rec(append(slices.Clone(prefix), m))
			}
		}
	}
	rec([]string{})
	bulk := make([]string, 33)
	for i := range bulk {
		bulk[i] = fmt.Sprint("bulk", i)
	}
	lists = append(lists, bulk[:32], bulk, slices.Repeat([]string{"at256"}, 32), append(slices.Clone(bulk[:31]), "at254"))
	for _, items := range lists {
		for _, sender := range c11Classes[:3] {
			for _, req := range c11ReqNames {
				*unit++
				if !e.Mine(*unit) {
					continue
				}
				if e.Expired() {
					return
				}
				c11CheckAsk(r, a, c11Case{Side: "ask", Sender: sender, Req: req, Items: items})
			}
		}
	}
	if a.honest > 0 && a.accepted == 0 {
		r.EngineError("asking side: no record was ever accepted although records passing all five rules were offered; the soundness oracle passed vacuously")
	}
}
