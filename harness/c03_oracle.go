package main

import (
	"errors"
	"fmt"

	"github.com/ethereum/go-ethereum/core/types"
	"github.com/protolambda/zrnt/eth2/beacon/capella"
	"github.com/protolambda/zrnt/eth2/beacon/common"
	"github.com/zen-eth/shisui/validation"
	"verifharness/mc"
)

// C03, the summaries provider behind a header source whose list grows. Everything else in C03
// hands the validator a fixed list of summaries; in production the list comes from the beacon
// network, is cached in the validator and re-fetched when a slot lies beyond the cached
// part - on one long-lived validator. Here a stub source serves the first k of the post
// world's six summaries, k growing over a sequence of validations on ONE validator. Every step
// is judged against "the trusted set is the first k summaries": an honest proof at summary i
// verifies exactly when i < k; the same proof re-labelled with a slot in another summary
// never does.

type c03GrowingSource struct{ list capella.HistoricalSummaries }

func (o *c03GrowingSource) GetHistoricalSummaries(uint64) (capella.HistoricalSummaries, error) {
	return append(capella.HistoricalSummaries{}, o.list...), nil
}
func (o *c03GrowingSource) GetBlockHeaderByHash([]byte) (*types.Header, error) {
	return nil, errors.New("not served")
}
func (o *c03GrowingSource) GetFinalizedStateRoot() ([]byte, error) {
	return nil, errors.New("not served")
}

type c03OracleStep struct {
	K     int `json:"summaries_served"`
	Idx   int `json:"summary"`
	Shift int `json:"slot_shifted_by_summaries"` // 0: honest
}

type c03OracleCase struct {
	Part  string          `json:"part"` // "growing-summaries"
	Steps []c03OracleStep `json:"steps"`
}

func c03OracleRun(r *mc.Report, w *c03World, all capella.HistoricalSummaries, steps []c03OracleStep, report bool) string {
	src := &c03GrowingSource{}
	v := validation.NewHeaderValidatorWithOracle(src)
	cs := c03OracleCase{"growing-summaries", steps}
	out := ""
	for si, st := range steps {
		src.list = all[:st.K]
		pos := 17 + 400*st.Idx
		slot := uint64(c03CapellaSlot + st.Idx*c03EpochSize + pos)
		h, pr := w.honest(slot)
		pr.slot = slot + uint64(st.Shift*c03EpochSize)
		var err error
		msg, site := panicsTo(func() { err = v.ValidateHeaderAndProof(h, pr.bytes()) })
		want := st.Shift == 0 && st.Idx < st.K
		switch {
		case msg != "":
			if report {
				r.Violation("out-of-range-yields-error", site, fmt.Sprintf("step %d of %v: panic: %s", si+1, steps, msg), cs)
			}
			return out + "panic"
		case err == nil && !want:
			if report {
				clause := "other-slot-rejected"
				if st.Shift == 0 {
					clause = "out-of-range-yields-error"
				}
				r.Violation(clause, "HeaderValidator.ValidateHeaderAndProof:summaries-from-a-growing-source", fmt.Sprintf("step %d of %v: the source serves %d summaries; a proof for summary %d with its slot moved by %d summaries verified", si+1, steps, st.K, st.Idx, st.Shift), cs)
			}
		case err != nil && want:
			if report {
				r.Violation("honest-proof-verifies", "HeaderValidator.ValidateHeaderAndProof:summaries-from-a-growing-source", fmt.Sprintf("step %d of %v: the source serves %d summaries; the honest proof for summary %d is rejected: %v", si+1, steps, st.K, st.Idx, err), cs)
			}
		}
		out += fmt.Sprintf("%v,", err == nil)
	}
	return out
}

func c03Oracle(r *mc.Report, e *Env) {
	w := c03PostWorld()
	var all capella.HistoricalSummaries
	for _, b := range w.sums {
		all = append(all, capella.HistoricalSummary{BlockSummaryRoot: common.Root(b.entry()), StateSummaryRoot: common.Root(b.state)})
	}
	var menu []c03OracleStep
	ks, maxIdx := []int{2, 4}, 4
	if e.Thorough() {
		ks, maxIdx = []int{2, 4, 6}, 6
	}
	for _, k := range ks {
		for idx := 0; idx < maxIdx; idx++ {
			for _, sh := range []int{0, 2, -2, 4} {
				if idx+sh < 0 || idx+sh > 7 {
					continue
				}
				menu = append(menu, c03OracleStep{k, idx, sh})
			}
		}
	}
	length := 3 // a stale cache shows on the third validation at the earliest (fetch, re-fetch, hit)
	n := 0
	var rec func(seq []c03OracleStep)
	rec = func(seq []c03OracleStep) {
		if len(seq) > 0 {
			n++
			r.Exec("growing|" + c03OracleRun(r, w, all, seq, true))
		}
		if len(seq) == length || e.Expired() {
			return
		}
		for _, st := range menu {
			if len(seq) > 0 && st.K < seq[len(seq)-1].K {
				continue // the trusted list only grows
			}
			rec(append(append([]c03OracleStep{}, seq...), st))
		}
	}
	rec(nil)
	r.Count("growing_source_sequences", int64(n))
	r.Sample(c03OracleCase{"growing-summaries", []c03OracleStep{{2, 1, 0}, {4, 3, 0}, {4, 1, 2}}})
}

// c03DefaultAccumulators: every validator built in a process (one per sub-protocol, several
// nodes in one process) must get the same built-in trusted accumulators as the first one: a
// list that grew between two constructions has entries no trusted source ever committed, and
// slots beyond the real list would stop being out of range.
func c03DefaultAccumulators(r *mc.Report) {
	first := validation.DefaultHistoricalRootsAccumulator()
	pre := validation.DefaultPreMergeAccumulator()
	for i := 2; i <= 3; i++ {
		hr := validation.DefaultHistoricalRootsAccumulator()
		if len(hr.HistoricalRoots) != len(first.HistoricalRoots) {
			r.Violation("out-of-range-yields-error", "DefaultHistoricalRootsAccumulator:instance-"+fmt.Sprint(i), fmt.Sprintf("the first built-in historical-roots accumulator of the process has %d roots, number %d has %d", len(first.HistoricalRoots), i, len(hr.HistoricalRoots)), c03OracleCase{Part: "default-accumulators"})
			break
		}
		for k := range hr.HistoricalRoots {
			if hr.HistoricalRoots[k] != first.HistoricalRoots[k] {
				r.Violation("other-slot-rejected", "DefaultHistoricalRootsAccumulator:instance-"+fmt.Sprint(i), fmt.Sprintf("root %d differs between two built-in accumulators of one process", k), c03OracleCase{Part: "default-accumulators"})
				break
			}
		}
		pm := validation.DefaultPreMergeAccumulator()
		if len(pm.HistoricalEpochs) != len(pre.HistoricalEpochs) {
			r.Violation("out-of-range-yields-error", "DefaultPreMergeAccumulator:instance-"+fmt.Sprint(i), fmt.Sprintf("the first built-in pre-merge accumulator has %d epoch roots, number %d has %d", len(pre.HistoricalEpochs), i, len(pm.HistoricalEpochs)), c03OracleCase{Part: "default-accumulators"})
		}
	}
	r.Set("default_accumulators", map[string]int{"historical_roots": len(first.HistoricalRoots), "pre_merge_epochs": len(pre.HistoricalEpochs), "instances_compared": 3})
}
