package main

import (
	"bytes"
	"fmt"
	"net"
	"slices"
	"testing/synctest"

	"github.com/VictoriaMetrics/fastcache"
	"github.com/ethereum/go-ethereum/p2p/enode"
	"github.com/zen-eth/shisui/portalwire"
	pingext "github.com/zen-eth/shisui/portalwire/ping_ext"
	"verifharness/mc"
)

// C20 (long-lived part) — "the radius used for a node is the one it most recently
// reported", on a node that has been up for a long time. The steady state of a running
// node is not a handful of reports but the same peers being revalidated every few seconds
// and answering with the radius they reported before. A report that repeats the recorded
// radius is a no-op in the reference (a map node -> last radius): whatever was known
// before it is known after it. The radius cache of the implementation is a set of
// fixed-size rings in which every write appends, so the no-op must really not write.
//
// Driver: quiet peer A reports a covering radius once; peer B, whose cache key lives in
// A's ring (found with the cache's own API on a scratch cache of the configured size),
// then repeats one and the same report k times, k = 1..N; the state after every k is
// judged (a chain of N states per variant, each reached by replaying nothing: the
// instance lives on, which is the point). Variants: network x how B reports (ping, pong,
// alternately ping and pong, alternately through two payload types).
//
// Bound, stated: histories with up to N repeated reports; histories in which peers of one
// ring *change* their radius several hundred times are outside it (every change is a
// write, and the cache is lossy by construction).

type c20LongCase struct {
	Kind    string `json:"kind"` // "long"
	Proto   string `json:"proto"`
	Mode    string `json:"mode"`
	Reports int    `json:"reports"`
}

var c20LongModes = []string{"ping", "pong", "ping-pong", "two-types"}

// c20SameRing: a's record disappears when enough records for b are written after it.
func c20SameRing(scratch *fastcache.Cache, a, b enode.ID, value []byte) bool {
	scratch.Reset()
	scratch.Set([]byte(a.String()), value)
	for i := 0; i < 1000; i++ {
		scratch.Set([]byte(b.String()), value)
	}
	return !scratch.Has([]byte(a.String()))
}

var c20RingMates = map[enode.ID]*enode.Node{}

func c20RingMate(self, a enode.ID, size int, value []byte) *enode.Node {
	if n, ok := c20RingMates[a]; ok {
		return n
	}
	scratch := fastcache.New(size)
	defer scratch.Reset()
	for i := 0; i < 200_000; i++ {
		k := detKey(700_000 + i)
		id := enode.PubkeyToIDV4(&k.PublicKey)
		if enode.LogDist(self, id) < 250 || !c20SameRing(scratch, a, id, value) {
			continue
		}
		n := signedNode(k, 1, net.IP{127, 0, 0, 1}, 29000+i%1000)
		c20RingMates[a] = n
		return n
	}
	return nil
}

func c20LongRun(r *mc.Report, c c20LongCase) {
	msg := inBubble(func() {
		conf := portalwire.DefaultPortalProtocolConfig()
		f := newC20FixConf(c.Proto, 3, 50, conf)
		defer f.close()
		a := f.nodes[1]
		r1 := c20SSZ(c20Rs["r1"])
		b := c20RingMate(f.bn.P.Self().ID(), a.ID(), conf.RadiusCacheSize, r1)
		if b == nil {
			r.EngineError("C20 long-lived: no peer found whose cache key shares a ring with the quiet peer")
			return
		}
		if !f.vt.InsertDirect(b, true) {
			r.EngineError("C20 long-lived: the table refused the reporting peer")
			return
		}
		cid, d := a.ID().Bytes(), c20D.Bytes32()
		for i := range cid {
			cid[i] ^= d[i]
		}
		keys, contents := c20Batch(cid, 0)
		var types []uint16
		for _, t := range []uint16{pingext.ClientInfo, pingext.BasicRadius, pingext.HistoryRadius} {
			if c20Carries[c.Proto][t] {
				types = append(types, t)
			}
		}
		f.talkPing(a, a.Seq(), types[0], r1)
		synctest.Wait()
		if !bytes.Equal(f.bn.P.VerifCachedRadius(a.ID()), r1) {
			r.EngineError("C20 long-lived: the quiet peer's report was not recorded")
			return
		}
		for k := 1; k <= c.Reports; k++ {
			typ, viaPong := types[0], c.Mode == "pong"
			switch c.Mode {
			case "ping-pong":
				viaPong = k%2 == 0
			case "two-types":
				typ = types[k%len(types)]
			}
			if viaPong {
				f.pong(b, typ, r1)
			} else {
				f.talkPing(b, b.Seq(), typ, r1)
			}
			synctest.Wait()
			cached := f.bn.P.VerifCachedRadius(a.ID())
			ok := bytes.Equal(cached, r1) && bytes.Equal(f.bn.P.VerifCachedRadius(b.ID()), r1)
			if ok && (k&(k-1) == 0 || k == c.Reports || k%97 == 0) { // gossip itself at a thinned-out set of points
				got, _, _ := f.gossip(nil, nil, keys, contents)
				ok = slices.Contains(got, a.ID())
			}
			if !ok {
				c.Reports = k
				r.Violation("cache-holds-last-reported-radius", "long-lived:repeated-identical-reports:"+c.Mode,
					fmt.Sprintf("%s network: peer A reported the covering radius %x once; peer B then reported one and the same radius %d times (%s): the radius held for A is now %x and gossip no longer treats A as covered", c.Proto, r1, k, c.Mode, cached), c)
				return
			}
			r.Count("long_lived_states", 1)
		}
		r.Exec(fmt.Sprintf("long|%s|%s|%d", c.Proto, c.Mode, c.Reports))
	})
	if msg != "" {
		r.EngineError("C20 long-lived: " + msg)
	}
}

func c20Long(r *mc.Report, e *Env, unit *int) {
	n := 1500
	if e.Thorough() {
		n = 6000
	}
	for _, proto := range []string{"history", "state", "beacon"} {
		for _, mode := range c20LongModes {
			*unit++
			if !e.Mine(*unit) || c20Expired.Load() {
				continue
			}
			c20LongRun(r, c20LongCase{"long", proto, mode, n})
		}
	}
	r.Set("long_lived", map[string]any{"repeated_reports_per_variant": n, "variants": 3 * len(c20LongModes), "judged": "after every report"})
}
