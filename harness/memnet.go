package main

import (
	"context"
	"crypto/ecdsa"
	"fmt"
	"net"
	"net/netip"
	"sync"
	"testing/synctest"
	"time"

	"github.com/ethereum/go-ethereum/p2p/discover"
	"github.com/ethereum/go-ethereum/p2p/enode"
	cache "github.com/go-pkgz/expirable-cache/v3"
	"github.com/zen-eth/shisui/portalwire"
	"github.com/zen-eth/shisui/storage"
)

// E4 — memnet: real nodes (full PortalProtocol + discv5 + uTP) and puppets (a real
// discv5 endpoint whose portal talk handler is scripted) on an in-memory wire whose
// datagram delivery is owned by the explorer: WriteTo only queues; pump() delivers
// one datagram at a time with synctest.Wait() in between (FIFO by default; drop,
// duplicate and swap are deviations decided by a callback).

type mdgram struct {
	b        []byte
	from, to netip.AddrPort
}

type mwire struct {
	mu     sync.Mutex
	conns  map[netip.AddrPort]*mconn
	q      []mdgram
	sent   int   // datagrams handed to the wire
	maxLen int   // largest datagram seen
	sizes  []int // length of every datagram, in send order
	// immediate: deliver in WriteTo instead of queueing (no pump needed; order not owned)
	immediate bool
	mute      bool // immediate mode: every datagram is lost
}

type mconn struct {
	w      *mwire
	addr   netip.AddrPort
	in     chan mdgram
	closed chan struct{}
	once   sync.Once
}

func newWire() *mwire { return &mwire{conns: map[netip.AddrPort]*mconn{}} }

func (w *mwire) listen(ip string, port uint16) *mconn {
	ap := netip.AddrPortFrom(netip.MustParseAddr(ip), port)
	c := &mconn{w: w, addr: ap, in: make(chan mdgram, 8192), closed: make(chan struct{})}
	w.mu.Lock()
	w.conns[ap] = c
	w.mu.Unlock()
	return c
}

func (c *mconn) ReadFromUDPAddrPort(b []byte) (int, netip.AddrPort, error) {
	select {
	case d := <-c.in:
		return copy(b, d.b), d.from, nil
	case <-c.closed:
		return 0, netip.AddrPort{}, net.ErrClosed
	}
}

func (c *mconn) WriteToUDPAddrPort(b []byte, to netip.AddrPort) (int, error) {
	d := mdgram{append([]byte{}, b...), c.addr, to}
	c.w.mu.Lock()
	c.w.sent++
	c.w.sizes = append(c.w.sizes, len(b))
	if len(b) > c.w.maxLen {
		c.w.maxLen = len(b)
	}
	if c.w.immediate {
		dst := c.w.conns[to]
		if c.w.mute {
			dst = nil
		}
		c.w.mu.Unlock()
		if dst != nil {
			select {
			case dst.in <- d:
			default:
			}
		}
		return len(b), nil
	}
	c.w.q = append(c.w.q, d)
	c.w.mu.Unlock()
	return len(b), nil
}

func (c *mconn) Close() error        { c.once.Do(func() { close(c.closed) }); return nil }
func (c *mconn) LocalAddr() net.Addr { return net.UDPAddrFromAddrPort(c.addr) }

// pumpAction decides what happens to the idx-th delivered datagram.
type pumpAction int

const (
	deliver pumpAction = iota
	drop
	duplicate
	swapNext // deliver the next queued datagram first, then this one
)

// pump delivers queued datagrams one at a time until done() holds at a quiescent
// point with an empty queue, or maxVirtual has elapsed. decide may be nil (FIFO).
func (w *mwire) pump(done func() bool, maxVirtual time.Duration, decide func(idx int, d mdgram) pumpAction) (delivered int, timedOut bool) {
	t0 := time.Now()
	idx := 0
	step := 50 * time.Millisecond
	for {
		synctest.Wait()
		w.mu.Lock()
		if len(w.q) == 0 {
			w.mu.Unlock()
			if done() {
				return delivered, false
			}
			if time.Since(t0) > maxVirtual {
				return delivered, true
			}
			time.Sleep(step) // advance virtual time towards the next timer
			if step < 5*time.Second {
				step *= 2 // nothing happened: look further ahead
			}
			continue
		}
		step = 50 * time.Millisecond
		d := w.q[0]
		w.q = w.q[1:]
		dst := w.conns[d.to]
		w.mu.Unlock()
		act := deliver
		if decide != nil {
			act = decide(idx, d)
		}
		idx++
		if act == swapNext {
			w.mu.Lock()
			if len(w.q) > 0 { // put it back behind the next one
				next := w.q[0]
				w.q = append([]mdgram{next, d}, w.q[1:]...)
				w.mu.Unlock()
				continue
			}
			w.mu.Unlock()
		}
		if dst == nil || act == drop {
			continue
		}
		n := 1
		if act == duplicate {
			n = 2
		}
		for i := 0; i < n; i++ {
			select {
			case dst.in <- d:
				delivered++
			default:
			}
		}
	}
}

// ---- endpoints ----

type mnode struct {
	P       *portalwire.PortalProtocol
	D5      *discover.UDPv5
	Utp     *portalwire.UtpTransportService
	LN      *enode.LocalNode
	DB      *enode.DB
	Conn    *mconn
	Key     *ecdsa.PrivateKey
	Q       chan *portalwire.ContentElement
	Stor    storage.ContentStorage
	ctx     context.Context
	stop    context.CancelFunc
	stopped bool
}

// Stop stops the portal protocol once (Stop itself must not be called twice).
func (n *mnode) Stop() {
	if n.P != nil && !n.stopped {
		n.stopped = true
		n.P.Stop()
	}
}

type mnodeOpts struct {
	keyIdx   int
	versions []uint8
	proto    portalwire.ProtocolId
	store    storage.ContentStorage
	utpLimit int
	queueCap int
	boot     []*enode.Node
	puppet   func(from enode.ID, msg []byte) []byte // non-nil: no PortalProtocol, scripted talk handler
	noUtp    bool
	gnet     bool // datagrams reach discv5 through the receive path of portalwire/gnet.go
}

func quietD5Config(key *ecdsa.PrivateKey, boot []*enode.Node) discover.Config {
	// Clock: discv5 measures handshake and session ages with its clock's Now(); the default
	// (mclock.System) reads real time even inside a bubble, which made transfers fail with
	// "RPC timeout" on a loaded machine
	return discover.Config{PrivateKey: key, Bootnodes: boot, PingInterval: 10000 * time.Hour, RefreshInterval: 10000 * time.Hour, Clock: portalwire.VClock{}}
}

// newMNode starts a real node or a puppet on the wire. Must be called inside a bubble.
func newMNode(w *mwire, o mnodeOpts) *mnode {
	key := detKey(o.keyIdx)
	ip := fmt.Sprintf("10.0.%d.%d", o.keyIdx/200, 1+o.keyIdx%200)
	port := uint16(9000 + o.keyIdx%1000)
	conn := w.listen(ip, port)
	db, err := enode.OpenDB("")
	if err != nil {
		panic(err)
	}
	ln := enode.NewLocalNode(db, key)
	ln.SetStaticIP(net.ParseIP(ip))
	ln.SetFallbackUDP(int(port))
	ln.Set(portalwire.Tag)
	if o.versions != nil {
		ln.Set(versEntry(o.versions))
	}
	ln.Node() // sign before any goroutine can race on the record
	var uc discover.UDPConn = conn
	if o.gnet {
		uc = newGnetOver(conn)
	}
	d5, err := discover.ListenV5(uc, ln, quietD5Config(key, o.boot))
	if err != nil {
		panic(err)
	}
	ctx, cancel := context.WithCancel(context.Background())
	n := &mnode{D5: d5, LN: ln, DB: db, Conn: conn, Key: key, ctx: ctx, stop: cancel}
	if len(o.proto) == 0 {
		o.proto = portalwire.History
	}
	conf := portalwire.DefaultPortalProtocolConfig()
	conf.RadiusCacheSize, conf.CapabilitiesCacheSize, conf.EphemeralHeaderCountCacheSize, conf.ContentKeyCacheSize = 1<<20, 1<<20, 1<<20, 1<<20
	conf.BootstrapNodes = o.boot
	if o.utpLimit >= 0 {
		conf.MaxUtpConnSize = o.utpLimit
	}
	if !o.noUtp {
		n.Utp = portalwire.NewZenEthUtp(ctx, conf, d5, uc)
	}
	if o.puppet != nil {
		d5.RegisterTalkHandler(string(o.proto), func(n *enode.Node, addr *net.UDPAddr, msg []byte) []byte { return o.puppet(n.ID(), msg) })
		if n.Utp != nil {
			n.Utp.Start()
		}
		return n
	}
	if o.store == nil {
		o.store = storage.NewMockStorage()
	}
	n.Stor = o.store
	qc := o.queueCap
	if qc == 0 {
		qc = 50
	}
	n.Q = make(chan *portalwire.ContentElement, qc)
	vc := cache.NewCache[*enode.Node, uint8]().WithMaxKeys(1000).WithTTL(time.Hour)
	p, err := portalwire.NewPortalProtocol(conf, o.proto, key, uc, ln, d5, n.Utp, o.store, n.Q, vc, portalwire.WithDisableTableInitCheckOption(true))
	if err != nil {
		panic(err)
	}
	if err := p.VerifStart(portalwire.VClock{}, 10000*time.Hour, 10000*time.Hour); err != nil {
		panic(err)
	}
	n.P = p
	return n
}

func (n *mnode) Self() *enode.Node { return n.LN.Node() }

// close stops the endpoint. Leaked utp-go goroutines are absorbed by inBubble.
func (n *mnode) close() {
	n.Stop()
	n.stop()
	n.D5.Close()
	if n.Utp != nil {
		func() {
			defer func() { recover() }()
			n.Utp.Stop()
		}()
	}
	n.Conn.Close()
	n.DB.Close()
}
