package main

import (
	"context"
	"errors"
	"io"
	"net"
	"strings"
	"sync/atomic"
	"time"

	"github.com/ethereum/go-ethereum/p2p/enode"
	"github.com/holiman/uint256"
	utp "github.com/zen-eth/utp-go"

	"github.com/zen-eth/shisui/portalwire"
	"github.com/zen-eth/shisui/storage"
)

// ---- an in-memory packet pipe carrying real uTP between the node under test and the harness ----

type c09Peer string

func (p c09Peer) Hash() string { return string(p) }

type c09Dgram struct {
	b    []byte
	from utp.ConnectionPeer
}

// c09Conn is one end of the pipe (a utp.Conn). No loss, no reordering.
type c09Conn struct {
	in     chan c09Dgram
	other  *c09Conn
	as     utp.ConnectionPeer // how the other end sees this one
	sent   atomic.Int64
	closed chan struct{}
}

func (c *c09Conn) ReadFrom(b []byte) (int, utp.ConnectionPeer, error) {
	select {
	case d := <-c.in:
		return copy(b, d.b), d.from, nil
	case <-c.closed:
		return 0, nil, io.EOF
	}
}

func (c *c09Conn) WriteTo(b []byte, _ utp.ConnectionPeer) (int, error) {
	c.sent.Add(1)
	c.other.in <- c09Dgram{append([]byte{}, b...), c.as}
	return len(b), nil
}

func (c *c09Conn) Close() error { return nil }

var (
	c09PeerKey  = detKey(900)
	c09PeerID   = enode.PubkeyToIDV4(&c09PeerKey.PublicKey)
	c09PeerAddr = &net.UDPAddr{IP: net.IP{127, 0, 0, 1}, Port: 9900}
	c09NodeSeen = c09Peer("node-under-test")
)

// c09PeerRec is the remote party's signed record advertising the given versions. All
// records share one key, i.e. one node id, which is the identity uTP packets carry.
func c09PeerRec(vers []int) *enode.Node {
	pv := versEntry{}
	for _, v := range vers {
		pv = append(pv, uint8(v))
	}
	return signedNode(c09PeerKey, 1, c09PeerAddr.IP, c09PeerAddr.Port, pv)
}

// c09Net lives in one synctest bubble: the node side's uTP transport and the remote
// party, a second real uTP socket driven by the harness. (A uTP socket costs 16 MB of
// channel buffers and its write loop never exits, so a worker builds one pair and gives
// every case a fresh node with a fresh slot controller on the shared socket.)
type c09Net struct {
	cancel  context.CancelFunc
	nodeEnd *c09Conn // its sent counter = uTP packets emitted by the node
	svc     *portalwire.UtpTransportService
	peer    *utp.UtpSocket
	cfg     *utp.ConnectionConfig
	seq     uint16 // connection ids the harness announces are numbered
}

func newC09Net() *c09Net {
	ctx, cancel := context.WithCancel(context.Background())
	a := &c09Conn{in: make(chan c09Dgram, 1<<14), as: c09NodeSeen, closed: make(chan struct{})}
	b := &c09Conn{in: make(chan c09Dgram, 1<<14), as: c09Peer(c09PeerID.String()), closed: a.closed}
	a.other, b.other = b, a
	return &c09Net{cancel: cancel, nodeEnd: a, cfg: utp.NewConnectionConfig(),
		svc: portalwire.VerifNewUtpOverConn(ctx, a, 1), peer: utp.WithSocket(ctx, b, nil)}
}

func (n *c09Net) close() {
	n.svc.Stop()
	n.peer.Close()
	n.cancel()
	close(n.nodeEnd.closed)
}

// dial opens a uTP stream to the node the way an offerer does after ACCEPT(connId).
func (n *c09Net) dial(connId uint16) (*utp.UtpStream, error) {
	return n.peer.ConnectWithCid(context.Background(), utp.NewConnectionId(c09NodeSeen, connId, connId+1), n.cfg)
}

// accept takes the stream the node dials after it was sent ACCEPT(connId) and reads it to the end.
func (n *c09Net) accept(connId uint16) ([]byte, error) {
	ctx, cancel := context.WithTimeout(context.Background(), 30*time.Second)
	defer cancel()
	s, err := n.peer.AcceptWithCid(ctx, utp.NewConnectionId(c09NodeSeen, connId+1, connId), n.cfg)
	if err != nil {
		return nil, err
	}
	var data []byte
	_, err = s.ReadToEOF(ctx, &data)
	s.Close()
	return data, err
}

// ---- store, keys, contents ----

type c09Store struct {
	radius  *uint256.Int
	items   map[string][]byte
	failing map[string]bool // keys whose lookup fails with an error other than "not found" (as the real adapters' do)
}

func (s *c09Store) Get(k, _ []byte) ([]byte, error) {
	if s.failing[string(k)] {
		return nil, errors.New("store: lookup failed (not a not-found)")
	}
	if v, ok := s.items[string(k)]; ok {
		return v, nil
	}
	return nil, storage.ErrContentNotFound
}
func (s *c09Store) Put(k, _, c []byte) error { s.items[string(k)] = c; return nil }
func (s *c09Store) Radius() *uint256.Int     { return s.radius }
func (s *c09Store) Close() error             { return nil }

const c09QueueCap = 2

// c09Node: an unstarted node advertising versions {0,1} whose content id is the key itself,
// with `limit` transfer slots on the shared socket.
func c09Node(nw *c09Net, limit int) (*bareNode, *c09Store) {
	st := &c09Store{radius: uint256.NewInt(1 << 32), items: map[string][]byte{}}
	bn := newBareNode(bareOpts{keyIdx: 9, versions: []uint8{0, 1}, store: st, queueCap: c09QueueCap})
	bn.P.VerifSetContentIdFunc(func(k []byte) []byte { return k })
	bn.P.Utp = nw.svc.VerifWithLimit(limit)
	return bn, st
}

// key class bits
const (
	c09Out         = 1 // outside the radius
	c09Stored      = 2
	c09InFlight    = 4
	c09LookupFails = 8 // the store's Get fails for this key with an error that is not "not found"
)

func c09ClassName(c int) string {
	var parts []string
	for i, n := range []string{"out", "stored", "inflight", "lookup-fails"} {
		if c>>uint(i)&1 == 1 {
			parts = append(parts, n)
		}
	}
	if parts == nil {
		return "fresh"
	}
	return strings.Join(parts, "+")
}

// c09Key: the i-th offered key = a content id at distance i+1 from the node (inside the
// radius 2^32) or, for class "out", at distance 2^255 + i + 1.
func c09Key(self enode.ID, i int, class int) []byte {
	k := append([]byte{}, self[:]...)
	k[31] ^= byte(i + 1)
	if class&c09Out != 0 {
		k[0] ^= 0x80
	}
	return k
}

var c09Sizes = []int{0, 1, 5000}

// c09Content: what the offerer holds for the i-th offered key (empty, 1 byte, 5 kB in turn).
func c09Content(i int) []byte { return fillBytes(c09Sizes[i%3], byte(i+1)) }

func c09FillQueue(bn *bareNode) {
	for len(bn.Q) < cap(bn.Q) {
		bn.Q <- &portalwire.ContentElement{}
	}
}

// c09Drain returns the elements on the validation queue that are not filler.
func c09Drain(bn *bareNode) (out []*portalwire.ContentElement) {
	for {
		select {
		case el := <-bn.Q:
			if el.ContentKeys != nil || el.Contents != nil {
				out = append(out, el)
			}
		default:
			return
		}
	}
}

// c09Pairs: does el pair exactly these keys with exactly these contents, in order?
func c09Pairs(el *portalwire.ContentElement, from enode.ID, keys, contents [][]byte) bool {
	return el.Node == from && eqLists(el.ContentKeys, keys) && eqLists(el.Contents, contents)
}

type c09Permit struct{ n atomic.Int32 }

func (p *c09Permit) Release() { p.n.Add(1) }

func c09Mask(n int, mask uint) (idx []int) {
	for i := 0; i < n; i++ {
		if mask>>uint(i)&1 == 1 {
			idx = append(idx, i)
		}
	}
	return
}
