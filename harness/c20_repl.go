package main

import (
	"bytes"
	"encoding/json"
	"fmt"
	"net"
	"strings"
	"testing/synctest"
	"time"

	"github.com/ethereum/go-ethereum/p2p/enode"
	"github.com/ethereum/go-ethereum/p2p/enr"
	"github.com/holiman/uint256"
	"github.com/zen-eth/shisui/portalwire"
	"verifharness/mc"
)

// C20 (replacement-list part) — "the radius used for a node is the one it most recently
// reported in a ping or pong", for the third place a reporting node can be in. The
// bookkeeping sequences of c20RunRadius run on a table with room: the reporting node X is
// a bucket entry or outside the table when it speaks. Here the bucket for X's distance is
// full (16 other entries), so X's first contact - the TALKREQ of its ping, or our processing
// of its pong - parks it in the bucket's REPLACEMENT list: X is not a table node (gossip
// never sees it) but it is a node the table knows, and it keeps pinging / answering. When a
// bucket entry is removed (portal_*DeleteEnr, or repeated FINDNODES failures; failed
// revalidation ends in the same deleteInBucket) X is promoted, and from then on gossip must
// treat it according to what it most recently reported - also if it reported while parked.
//
// Start state of every sequence: X outside the table, its bucket full, two more nodes in
// another bucket, nobody has reported anything. Alphabet: that of the bookkeeping part
// ({ping,pong} x {client-info, basic-radius, history-radius, error} x {r1,r2}, the same
// messages announcing a newer record, del X, AddEnr X) plus "evict an entry of X's bucket"
// through either removal mechanism; sequences of 3, thorough also of 4 (without the newer-
// record messages). After every event the real table says where X is and
// which nodes are bucket entries (that is the table's business, C11's, not judged here);
// judged: gossip (never a node that is not a bucket entry; X, once an entry, according to its
// last report in a supported type; nobody else, none of them ever reported), the cache once
// X is an entry, and the pong we send. While X is parked the cache is only counted, not
// judged: the statement speaks about the radius that is used, and a parked node is not
// gossiped to.

const c20ReplMaxLen = 4

var c20ReplDebug = false // set by replay: print what was observed step by step

// c20ReplNodes: the first 16 deterministic keys at log distance 256 from self (the full
// bucket), the 17th (X), and two nodes at distance 255 (a bucket with room).
var c20ReplTables = map[enode.ID][]*enode.Node{}

func c20ReplNodes(self enode.ID) (others []*enode.Node, x *enode.Node) {
	if t, ok := c20ReplTables[self]; ok {
		return t[1:], t[0]
	}
	var far, near []*enode.Node // far: the 16 entries of X's bucket (they come first in others: the evict events take them in order)
	for i := 0; x == nil || len(near) < 2; i++ {
		k := detKey(2000 + i)
		nd := func() *enode.Node { return signedNode(k, 1, net.IP{127, 0, 0, 1}, 20000+i) }
		switch d := enode.LogDist(self, enode.PubkeyToIDV4(&k.PublicKey)); {
		case d == 256 && len(far) < portalwire.VBucketSize:
			far = append(far, nd())
		case d == 256 && x == nil:
			x = nd()
		case d == 255 && len(near) < 2:
			near = append(near, nd())
		}
	}
	others = append(far, near...)
	c20ReplTables[self] = append([]*enode.Node{x}, others...)
	return others, x
}

// newC20ReplFix must run inside a bubble; the table is filled by replReset.
func newC20ReplFix(proto string) *c20Fix {
	f := newC20Fix(proto, 0, 50)
	f.nodes, f.x = c20ReplNodes(f.bn.P.Self().ID())
	f.n = len(f.nodes)
	return f
}

// where reads the real table at quiescence: X's place ("entry", "replacement", "out") and the
// ids of all bucket entries, i.e. the table nodes gossip chooses among.
func (f *c20Fix) where(x enode.ID) (pos string, table []enode.ID) {
	pos = "out"
	for _, b := range f.vt.Snapshot().Buckets {
		for _, e := range b.Entries {
			table = append(table, e.ID)
			if e.ID == x {
				pos = "entry"
			}
		}
		for _, e := range b.Replacements {
			if e.ID == x {
				pos = "replacement"
			}
		}
	}
	return pos, table
}

// replReset brings the table back to the start state with the table's own operations;
// false: it is not in that state (the fixture must be rebuilt).
func (f *c20Fix) replReset() bool {
	if pos, _ := f.where(f.x.ID()); pos == "replacement" {
		f.vt.Delete(f.nodes[0]) // X is the only replacement of its bucket: it takes the free place
	}
	f.vt.Delete(f.x)
	for i, nd := range f.nodes {
		if i < c20ReplMaxLen {
			f.vt.Track(nd, true, nil) // its count of consecutive FINDNODES failures back to 0
		}
	}
	synctest.Wait()
	for _, nd := range f.nodes {
		f.vt.InsertDirect(nd, true)
	}
	synctest.Wait()
	entries := 0
	xb := f.vt.BucketIndex(f.x.ID())
	for _, b := range f.vt.Snapshot().Buckets {
		entries += len(b.Entries)
		if len(b.Replacements) != 0 || (b.Index == xb && len(b.Entries) != portalwire.VBucketSize) {
			return false
		}
	}
	pos, _ := f.where(f.x.ID())
	return pos == "out" && entries == len(f.nodes)
}

func c20ReplEvents(full bool) []string {
	var evs []string
	for _, ev := range c20Events() {
		if full || !strings.HasSuffix(ev, ":newer") {
			evs = append(evs, ev)
		}
	}
	// an entry of X's bucket leaves the table: portal_*DeleteEnr / enough consecutive FINDNODES failures
	return append(evs, "evict:del", "evict:findfail")
}

var c20PosName = map[string]string{"entry": "bucket-entry", "replacement": "in-replacement-list", "out": "outside-table"}

// c20RunRepl plays one sequence on a fixture that replReset has just prepared.
// false: the fixture must be rebuilt.
func c20RunRepl(r *mc.Report, f *c20Fix, c c20Case) bool {
	x := f.x
	cid, d := x.ID().Bytes(), c20D.Bytes32()
	for i := range cid {
		cid[i] ^= d[i]
	}
	keys, contents := c20Batch(cid, 0)
	// last: the radius X most recently reported in a supported type; origin: where that report came
	// from (the site of a violation about the radius in use), originStep: at which step;
	// assumed: the maximum installed by AddEnr when it made X a table node (as in c20RunRadius)
	last, origin, originStep, assumed := "", "", -1, false
	pos, evicts, prevOK := "out", 0, true
	trace := []string{}
	f.bn.P.VerifResetPeerCaches()
	for k, ev := range c.Seq {
		p := strings.Split(ev, ":")
		dir := p[0]
		site := f.proto + ":" + ev
		var typ uint16
		var rn string
		var radius []byte
		carries := false
		if dir == "ping" || dir == "pong" {
			rn = p[2]
			fmt.Sscan(p[1], &typ)
			site = fmt.Sprintf("%s:%s:type-%d", f.proto, dir, typ)
			radius = c20SSZ(c20Rs[rn])
			carries = c20Carries[f.proto][typ]
		}
		f.st.radius = new(uint256.Int).AddUint64(new(uint256.Int).Lsh(uint256.NewInt(1), uint(250-k)), uint64(k+1))
		var reply, cached []byte
		var got, table []enode.ID
		var offers []*portalwire.OfferRequestWithNode
		before := pos
		if msg, psite := panicsTo(func() {
			if k > 0 { // our record changes between messages: the pong must carry the current sequence number
				f.bn.LN.Set(enr.WithEntry("c20", uint64(f.bn.LN.Seq())))
				f.bn.LN.Node()
			}
			seq := x.Seq()
			if len(p) > 3 && p[3] == "newer" {
				seq += uint64(k) + 1 // the node says its record has changed: we try to fetch it, nobody answers
			}
			switch dir {
			case "ping": // through the TALKREQ entry point: the sender is first added as an inbound contact
				reply = f.talkPing(x, seq, typ, radius)
			case "pong":
				f.pongSeq(x, seq, typ, radius)
			case "del":
				f.vt.Delete(x)
			case "addenr":
				f.bn.P.AddEnr(x)
			case "evict":
				victim := f.nodes[evicts]
				evicts++
				if p[1] == "findfail" {
					for i := 0; i < portalwire.VMaxFindFails; i++ {
						f.vt.Track(victim, false, nil)
						synctest.Wait()
					}
				} else {
					f.vt.Delete(victim)
				}
			}
			synctest.Wait()
			if seq != x.Seq() {
				time.Sleep(20 * time.Second) // virtual: past the timeout of the record refresh
				synctest.Wait()
			}
			cached = f.bn.P.VerifCachedRadius(x.ID())
			pos, table = f.where(x.ID())
			got, offers, _ = f.gossip(nil, nil, keys, contents)
		}); msg != "" {
			r.Violation("no-panic", psite, msg, c)
			return false
		}
		if dir == "ping" && !c20JudgePong(r, f, c, k, site, typ, carries, reply) {
			return true
		}
		switch dir {
		case "ping", "pong":
			if pos == "out" { // the table turned the sender away: what a stranger says is not this part's subject
				r.Count("repl_contact_left_sender_outside_table", 1)
				r.Exec("repl:" + f.proto + ":" + strings.Join(append(trace, ev+">turned-away"), ","))
				return true
			}
			if carries {
				last, assumed = rn, false
				origin, originStep = fmt.Sprintf("%s:sender-%s", site, c20PosName[pos]), k
				r.Count("repl_reports_sender_"+c20PosName[pos], 1)
			}
		case "addenr":
			if before != "entry" && pos == "entry" {
				assumed, origin, originStep = true, f.proto+":addenr", k
			}
		case "evict":
			if before == "replacement" && pos == "entry" {
				r.Count("repl_promotions", 1)
				if last != "" {
					r.Count("repl_promotions_after_a_report_from_the_replacement_list", 1)
				}
			}
		}
		var want []byte
		xs := byte('u')
		switch {
		case assumed:
			want, xs = c20SSZ(new(uint256.Int).SetAllOne()), 'c'
		case last != "":
			want, xs = c20SSZ(c20Rs[last]), map[string]byte{"r1": 'c', "r2": 'x'}[last]
		}
		// the site of a violation about the radius in use: where the radius in force came from, and
		// what happened since if it is not seen at once
		vsite := site
		if origin != "" {
			vsite = origin
			if originStep < k {
				vsite += ":seen-after-" + dir
			}
		}
		st := []byte(strings.Repeat("u", len(table))) // X, while it is not a bucket entry, is not in table: never a target
		cacheOK := bytes.Equal(cached, want)
		if pos == "entry" {
			for i, id := range table {
				if id == x.ID() {
					st[i] = xs
				}
			}
			if !cacheOK {
				clause := "cache-holds-last-reported-radius"
				switch {
				case dir == "addenr":
					clause = "addenr-leaves-a-reported-radius-alone"
				case dir == "evict" && prevOK:
					clause = "promotion-leaves-radius-unchanged"
				case (dir == "ping" || dir == "pong") && !carries:
					clause = "unsupported-type-leaves-radius-unchanged"
				}
				r.Violation(clause, vsite, fmt.Sprintf("seq %v step %d: X is a bucket entry (before this step: %s); cached %x, last reported in a supported type %x", c.Seq, k, c20PosName[before], cached, want), c)
				return true
			}
		} else if !cacheOK {
			r.Count("model_drift_cache_differs_while_sender_"+c20PosName[pos], 1)
		}
		prevOK = cacheOK
		if clause, detail := c20Judge(table, st, nil, cid, got); clause != "" {
			r.Violation("gossip-uses-last-reported-radius", vsite, fmt.Sprintf("seq %v step %d (X %s, before this step %s; last reported %q): %s: %s", c.Seq, k, c20PosName[pos], c20PosName[before], last, clause, detail), c)
			return true
		}
		if dd := c20JudgeOffers(got, offers, f.limit, keys, contents); dd != "" {
			r.Violation("one-offer-with-whole-batch-per-peer", "GossipAndReturnPeers:"+c20SizeClass(len(table)), fmt.Sprintf("seq %v step %d: %s", c.Seq, k, dd), c)
			return true
		}
		trace = append(trace, fmt.Sprintf("%s>%s/%s/%d", ev, last, pos, len(got)))
		r.Count("repl_steps", 1)
		r.Count("repl_steps_sender_"+c20PosName[pos], 1)
	}
	if c20ReplDebug {
		fmt.Println("outcome (event>last report/place of X/peers chosen):", trace)
	}
	r.Exec("repl:" + f.proto + ":" + strings.Join(trace, ","))
	return true
}

func c20Repl(r *mc.Report, e *Env, unit *int) {
	// every sequence of 3 events; thorough: also every sequence of 4 events of the alphabet
	// without the newer-record messages
	type pass struct {
		full   bool
		length int
	}
	passes := []pass{{true, 3}}
	if e.Thorough() {
		passes = append(passes, pass{false, c20ReplMaxLen})
	}
	var bound []map[string]int
	for _, ps := range passes {
		evs := c20ReplEvents(ps.full)
		for _, proto := range []string{"history", "state", "beacon"} {
			msg := inBubble(func() {
				var f *c20Fix
				var rec func(seq []string)
				rec = func(seq []string) {
					if len(seq) < ps.length { // every shorter sequence is a prefix of a full one and is judged step by step
						for _, ev := range evs {
							rec(append(append([]string{}, seq...), ev))
						}
						return
					}
					*unit++
					cs := c20Case{Kind: "repl", N: portalwire.VBucketSize + 2, Limit: 50, Proto: proto, Seq: seq}
					if !e.Mine(*unit) || c20Expired.Load() || !e.Mark(func() string { b, _ := json.Marshal(cs); return string(b) }) {
						return
					}
					if f != nil && !f.replReset() {
						r.Count("repl_fixture_rebuilt", 1)
						f.close()
						f = nil
					}
					if f == nil {
						if f = newC20ReplFix(proto); !f.replReset() {
							r.EngineError("C20 replacement-list part: the start state (full bucket, X outside) could not be set up")
							f.close()
							f = nil
							return
						}
					}
					if !c20RunRepl(r, f, cs) {
						f.close()
						f = nil
					}
					if proto == "history" && ps.full && strings.Join(seq[:3], ",") == "ping:0:r1,evict:del,pong:2:r2" && (len(seq) == 3 || seq[3] == evs[0]) {
						r.Sample(cs)
					}
				}
				rec(nil)
				if f != nil {
					f.close()
				}
			})
			if msg != "" {
				r.EngineError("replacement-list part " + proto + ": " + msg)
			}
		}
		total := 0
		for l, p := 1, len(evs); l <= ps.length; l, p = l+1, p*len(evs) {
			total += p
		}
		bound = append(bound, map[string]int{"alphabet": len(evs), "max_length": ps.length, "sequences": total})
	}
	r.Set("replacement_list_sequences_per_network", bound)
	r.Set("replacement_list_start_state", map[string]any{"entries_in_reporting_nodes_bucket": portalwire.VBucketSize, "nodes_in_other_buckets": 2, "reporting_node": "outside the table; its first contact parks it in the replacement list"})
}
