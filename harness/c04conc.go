package main

import (
	"bytes"
	"crypto/sha256"
	"encoding/json"
	"fmt"
	"strings"

	"github.com/zen-eth/shisui/state"
	"github.com/zen-eth/shisui/storage"
	"verifharness/mc"
)

// C04 (concurrent part) — puts and gets issued from several goroutines, as the validation
// workers and the request handlers do. Every interleaving (up to a preemption bound) at the
// yield points injected into storage/pebble/storage.go and state/storage.go. Oracle: a get
// returns not-found or exactly the bytes of one of the puts issued for that id (never bytes
// put under another id, never a mixture); once every call has returned, each id holds what a
// put of that id on its own store leaves there (differential reference: the same put alone
// on a fresh store).

type c04Op struct {
	Op  string // "put" | "get"
	Id  string // pebble scenarios: pool name; state scenarios: index of the state item
	Val string // pebble scenarios: value name (c04Vals)
}

type c04ConcScenario struct {
	Name    string
	Layer   string // "pebble": the store itself; "state": through state.Storage on top of it
	Threads [][]c04Op
}

var c04ConcScenarios = []c04ConcScenario{
	{"state-two-puts", "state", [][]c04Op{{{"put", "0", ""}}, {{"put", "1", ""}}}},
	{"state-two-puts-and-a-reader", "state", [][]c04Op{{{"put", "0", ""}}, {{"put", "2", ""}}, {{"get", "0", ""}, {"get", "2", ""}}}},
	{"state-three-puts", "state", [][]c04Op{{{"put", "0", ""}}, {{"put", "1", ""}}, {{"put", "2", ""}}}},
	{"pebble-put-put-get-same-id", "pebble", [][]c04Op{{{"put", "A", "k3"}}, {{"put", "A", "b100"}}, {{"get", "A", ""}, {"get", "A", ""}}}},
	{"pebble-neighbour-ids", "pebble", [][]c04Op{{{"put", "A", "k3"}, {"get", "A1", ""}}, {{"put", "A1", "b8"}, {"get", "A", ""}}}},
}

type c04ConcCase struct {
	Scenario string   `json:"scenario"`
	Choices  []int    `json:"choices"`
	Trace    []string `json:"trace,omitempty"`
}

// c04StateItems: genuine (key, content) pairs of the three state content kinds.
var c04StateItems = func() func() [][2][]byte {
	var items [][2][]byte
	return func() [][2][]byte {
		if items != nil {
			return items
		}
		seen := map[byte]int{}
		for _, b := range c13Bases(false) {
			if !b.genuine || seen[b.c.Kind] >= 2 {
				continue
			}
			k, v := b.c.wire()
			if state.NewStateStorage(storage.NewMockStorage(), nil).Put(k, c04StateId(k), v) != nil {
				continue
			}
			seen[b.c.Kind]++
			items = append(items, [2][]byte{k, v})
		}
		return items
	}
}()

func c04StateId(key []byte) []byte {
	h := sha256.Sum256(key)
	return h[:]
}

// c04ConcRun executes one schedule of one scenario.
func c04ConcRun(r *mc.Report, sc *c04ConcScenario, c *mc.Ctx) (outcome string) {
	var trace []string
	viol := func(clause, site, detail string) {
		r.Violation(clause, site+" (concurrent:"+sc.Name+")", detail+" | schedule: "+strings.Join(trace, " "), c04ConcCase{sc.Name, c.Choices(), trace})
	}
	msg := inBubble(func() {
		node := c04Nodes["mixed"]
		env, err := newStoreEnv(node, 1, true)
		if err != nil {
			r.EngineError("open: " + err.Error())
			return
		}
		defer env.close()
		var st storage.ContentStorage = env.cs
		if sc.Layer == "state" {
			st = state.NewStateStorage(env.cs, env.db)
		}
		pool := c04Ids(node)
		// resolve an op to (key, id, value put)
		resolve := func(o c04Op) (key, id, val []byte) {
			if sc.Layer == "state" {
				var i int
				fmt.Sscan(o.Id, &i)
				it := c04StateItems()[i]
				return it[0], c04StateId(it[0]), it[1]
			}
			id = pool[o.Id]
			if o.Op == "put" {
				val = c04Val(o.Val, byte(len(o.Val)+int(o.Id[0]))) // distinct fill per (id, value name)
			}
			return nil, id, val
		}
		// reference: what each put leaves under its id when it runs alone on a fresh store
		want := map[string][][]byte{}
		for _, ops := range sc.Threads {
			for _, o := range ops {
				if o.Op != "put" {
					continue
				}
				key, id, val := resolve(o)
				stored := val
				if sc.Layer == "state" {
					ref, err := newStoreEnv(node, 1, true)
					if err != nil {
						r.EngineError("open: " + err.Error())
						return
					}
					if err := state.NewStateStorage(ref.cs, ref.db).Put(key, id, val); err != nil {
						ref.close()
						r.EngineError("reference put failed: " + err.Error())
						return
					}
					stored, _ = ref.cs.Get(nil, id)
					stored = append([]byte{}, stored...)
					ref.close()
				}
				want[string(id)] = append(want[string(id)], stored)
			}
		}
		oneOf := func(id, got []byte) bool {
			for _, w := range want[string(id)] {
				if bytes.Equal(w, got) {
					return true
				}
			}
			return false
		}
		s := newSched()
		defer s.stop()
		type res struct {
			op  c04Op
			got []byte
			err error
		}
		results := make([][]res, len(sc.Threads))
		for ti, ops := range sc.Threads {
			ti, ops := ti, ops
			results[ti] = make([]res, len(ops))
			s.spawn(fmt.Sprintf("T%d", ti+1), func() {
				for oi, o := range ops {
					key, id, val := resolve(o)
					if o.Op == "put" {
						results[ti][oi] = res{o, nil, st.Put(key, id, val)}
					} else {
						got, err := st.Get(key, id)
						results[ti][oi] = res{o, append([]byte{}, got...), err}
					}
				}
			})
		}
		ok, why := s.run(c, 3000)
		trace = s.Trace
		if !ok {
			viol("calls-return", "ContentStorage", why)
			return
		}
		quiesce()
		var ds []string
		for ti := range results {
			for _, x := range results[ti] {
				_, id, _ := resolve(x.op)
				switch {
				case x.op.Op == "put" && x.err != nil:
					viol("put-no-internal-error", sc.Layer+".Put", fmt.Sprintf("a concurrent put of %s returned %v", x.op.Id, x.err))
				case x.op.Op == "get" && x.err != nil && !isNotFound(x.err):
					viol("get-no-internal-error", sc.Layer+".Get", fmt.Sprintf("a concurrent get of %s returned %v", x.op.Id, x.err))
				case x.op.Op == "get" && x.err == nil && !oneOf(id, x.got):
					viol("get-never-returns-foreign-bytes", sc.Layer+".Get", fmt.Sprintf("a get of %s running beside the puts returned %s, which no put of that id stores", x.op.Id, hx(x.got)))
				}
				ds = append(ds, fmt.Sprintf("%s:%s:%v:%d", x.op.Op, x.op.Id, x.err == nil, len(x.got)))
			}
		}
		for id := range want {
			got, err := env.cs.Get(nil, []byte(id))
			switch {
			case err != nil:
				viol("get-returns-what-was-put", sc.Layer+".Put", fmt.Sprintf("after every put has returned, the id %s is not readable: %v", hx([]byte(id)[:8]), err))
			case !oneOf([]byte(id), got):
				viol("get-returns-what-was-put", sc.Layer+".Put", fmt.Sprintf("after every put has returned, the id %s holds %s, which no put of that id stores (alone it leaves %s)", hx([]byte(id)[:8]), hx(got), hx(want[id][0])))
			}
		}
		outcome = strings.Join(ds, ",")
	})
	if msg != "" {
		viol("no-panic", "ContentStorage", "panic: "+msg)
	}
	return
}

func c04ConcTasks() int { return len(c04ConcScenarios) }

func runC04Conc(r *mc.Report, e *Env, task int) {
	sc := &c04ConcScenarios[task]
	bound := 2
	if e.Thorough() {
		bound = 3
	}
	outcomes := map[string]int{}
	d := &mc.DFS{Bound: bound, Deadline: e.Deadline}
	var out string
	d.Body = func(c *mc.Ctx) { out = c04ConcRun(r, sc, c) }
	if freeRuns > 0 { // race-detector pass: no exploration, the bodies run freely
		for i := 0; i < freeRuns; i++ {
			mc.Replay(nil, d.Body)
			r.Exec("free|" + sc.Name + "|" + out)
		}
		r.Count("free_running_executions", int64(freeRuns))
		return
	}
	d.After = func(c *mc.Ctx) {
		if c.Diverged != "" {
			r.EngineError("schedule replay diverged in " + sc.Name + ": " + c.Diverged)
			return
		}
		r.Exec("conc|" + sc.Name + "|" + out)
		outcomes[out]++
	}
	d.Run()
	if d.TimedOut {
		r.NotExhaustive("internal deadline reached during schedule exploration of " + sc.Name)
	}
	r.Count("schedules_"+sc.Name, d.Executions)
	r.Count("schedules", d.Executions)
	r.Max("max_schedule_points", int64(d.MaxPoints))
	r.Set("preemption_bound", bound)
	r.Sample(map[string]any{"scenario": sc.Name, "layer": sc.Layer, "threads": sc.Threads, "distinct_outcomes": len(outcomes)})
	r.Assume("concurrent part: interleavings at statement granularity of storage/pebble/storage.go and state/storage.go (yields before every statement that touches the shared store or its fields); pebble itself is not interleaved")
}

func replayC04Conc(r *mc.Report, raw json.RawMessage) bool {
	var c c04ConcCase
	if err := json.Unmarshal(raw, &c); err != nil || c.Scenario == "" {
		return false
	}
	for si := range c04ConcScenarios {
		if c04ConcScenarios[si].Name == c.Scenario {
			ctx := mc.Replay(c.Choices, func(x *mc.Ctx) { fmt.Println("outcome:", c04ConcRun(r, &c04ConcScenarios[si], x)) })
			if ctx.Diverged != "" {
				fmt.Println("replay diverged:", ctx.Diverged)
			}
			return true
		}
	}
	return false
}
