package main

import (
	"context"
	"encoding/json"
	"errors"
	"fmt"
	"net"
	"os"
	"sort"
	"strings"
	"sync"
	"testing/synctest"
	"time"

	"github.com/ethereum/go-ethereum/p2p/enode"
	"github.com/zen-eth/shisui/portalwire"
	"verifharness/mc"
)

// C10 — lookups terminate, ask each peer once, keep <= 3 queries in flight and return
// the closest nodes seen.
//
// Node lookup (E3, this file): the real newLookup(...).run() over the real Table with its
// running loop and a harness query function that logs every call and parks at a gate.
// The explorer releases one parked query at a time (synctest.Wait in between), so a
// completion order is a choice sequence; cancelling the lookup's context is a cost-1
// deviation offered at every step. Content lookup (E4): c10_content.go.

const c10NodeTasks = 256 // worker tasks of the node-lookup part; the content cases follow, one process each

func init() {
	register(&Prop{ID: "C10", Level: "exploration", Procs: 1, Run: runC10, Replay: replayC10, CrashIsViolation: true,
		Workers: func(e *Env) int { return c10NodeTasks + len(c10ContentCases(e.Thorough())) + len(c10CloseCases()) },
		Budget: func(t string) time.Duration {
			if t == "thorough" {
				return 40 * time.Minute
			}
			return 8 * time.Minute
		}})
}

var c10Menu = []string{"nothing", "error", "next-peer", "all-others", "itself+asker+duplicates", "two-cycle-partner"}

// c10NodeCase is one peer graph + table filling + target (+ for replay: the schedule).
type c10NodeCase struct {
	Part    string `json:"part"` // "node"
	Peers   int    `json:"peers"`
	Answers []int  `json:"answers,omitempty"` // per peer: index into c10Menu (small graphs)
	Shape   string `json:"shape,omitempty"`   // large graphs: chain | star | clique | mesh
	Seeds   []int  `json:"seeds"`             // peers in the table when the lookup starts
	Target  string `json:"target"`            // asc | desc | self | peer
	// schedule
	Order     string `json:"order,omitempty"`      // large graphs: fifo | lifo | rotate
	PreCancel bool   `json:"pre_cancel,omitempty"` // context cancelled before run() is called
	Choices   []int  `json:"choices,omitempty"`    // small graphs: DFS choice sequence
}

func c10PeerID(i int) enode.ID {
	var id enode.ID
	id[0], id[30], id[31] = 0x80, byte((i+1)>>8), byte(i+1)
	return id
}

func (c *c10NodeCase) large() bool { return c.Shape != "" }

func (c *c10NodeCase) peerID(i int) enode.ID {
	id := c10PeerID(i)
	if c.large() {
		id[0] = 0x80 >> (i % 5) // spread over five buckets
	}
	return id
}

func (c *c10NodeCase) target() enode.ID {
	var id enode.ID
	switch c.Target {
	case "asc": // peers 0,1,2.. are at increasing distance
		id[0], id[31] = 0x80, 0x40
	case "desc": // peers 0..6 are at decreasing distance
		id[0], id[31] = 0x80, 0x47
	case "self":
		return tabSelfID
	case "peer":
		return c.peerID(c.Peers / 2)
	default:
		panic("target " + c.Target)
	}
	return id
}

// answer is what peer i replies with: indices of peers, -1 = the local node (the asker).
func (c *c10NodeCase) answer(i int) (out []int, err error) {
	n := c.Peers
	switch c.Shape {
	case "":
		switch c10Menu[c.Answers[i]] {
		case "error":
			return nil, errors.New("RPC timeout")
		case "next-peer":
			return []int{(i + 1) % n}, nil
		case "all-others":
			for j := 0; j < n; j++ {
				if j != i {
					out = append(out, j)
				}
			}
		case "itself+asker+duplicates":
			return []int{i, -1, (i + 1) % n, (i + 1) % n, -1, i}, nil
		case "two-cycle-partner":
			p := i ^ 1
			if p >= n {
				p = (i + n - 1) % n
			}
			return []int{p}, nil
		}
	case "chain":
		if i+1 < n {
			return []int{i + 1}, nil
		}
	case "star":
		if i != 0 {
			return []int{0}, nil
		}
		for j := 1; j < n; j++ {
			out = append(out, j)
		}
	case "clique":
		for j := 0; j < n; j++ {
			if j != i {
				out = append(out, j)
			}
		}
	case "mesh": // eight neighbours, forward, backward and far: full of cycles
		for _, d := range []int{1, 2, 3, 7, n - 1, n / 2, n/3 + 1, 2*i + 1} {
			out = append(out, (i+d)%n)
		}
		if i%9 == 0 {
			out = append(out, -1, i)
		}
	default:
		panic("shape " + c.Shape)
	}
	return out, nil
}

// reachable peers (from the seeds through the answers): the others are never asked, so
// their answers cannot influence the execution.
func (c *c10NodeCase) reachable() []bool {
	reach := make([]bool, c.Peers)
	todo := append([]int{}, c.Seeds...)
	for len(todo) > 0 {
		i := todo[0]
		todo = todo[1:]
		if reach[i] {
			continue
		}
		reach[i] = true
		out, _ := c.answer(i)
		for _, j := range out {
			if j >= 0 {
				todo = append(todo, j)
			}
		}
	}
	return reach
}

type c10Gate struct {
	peer  enode.ID
	idx   int // peer index, -1: the local node, -2: not a node of the graph
	batch int // number of completions before the query was started
	ch    chan struct{}
}

type c10Obs struct {
	asked      []int // peer index per query in start order, queries started together by peer id (-1: the local node, -2: unknown id)
	maxFlight  int
	result     []*enode.Node
	seen       map[enode.ID]bool // model: seeds + consumed replies
	returned   bool
	leftParked int
	cancelAt   int // number of releases before the cancel (-1: none)
	steps      int
	why        string // non-empty: the lookup did not end; what it was doing
	loopErr    string
	panicMsg   string
	seedsRead  bool
}

// c10NodeRun executes one lookup under the schedule given by ctx (small graphs) or by
// c.Order (large graphs) and returns what was observed.
func c10NodeRun(c *c10NodeCase, ctx *mc.Ctx) (o c10Obs) {
	o.cancelAt = -1
	o.seen = map[enode.ID]bool{}
	target := c.target()
	msg := inBubble(func() {
		t := newTabEnv()
		t.pingAuto = true
		t.startLoop()
		self := portalwire.VNode(tabSelfID, net.IP{127, 0, 0, 1}, 9000, 1) // the asker, as a peer would report it
		peers := make([]*enode.Node, c.Peers)
		index := map[enode.ID]int{self.ID(): -1}
		for i := range peers {
			peers[i] = portalwire.VNode(c.peerID(i), net.IP{31, byte(i >> 8), byte(i), 1}, 30303, 1)
			index[peers[i].ID()] = i
		}
		node := func(i int) *enode.Node {
			if i < 0 {
				return self
			}
			return peers[i]
		}
		var seeds []*enode.Node
		for _, s := range c.Seeds {
			if !t.vt.AddFound(peers[s], true) {
				panic(fmt.Sprintf("harness: seed %d was not added to the table", s))
			}
			seeds = append(seeds, peers[s])
		}
		synctest.Wait()
		// the table hands the lookup its 16 closest entries
		sort.Slice(seeds, func(i, j int) bool { return enode.DistCmp(target, seeds[i].ID(), seeds[j].ID()) < 0 })
		if len(seeds) > portalwire.VBucketSize {
			seeds = seeds[:portalwire.VBucketSize]
		}

		var mu sync.Mutex
		var parked []*c10Gate
		flight := 0
		q := func(n *enode.Node) ([]*enode.Node, error) {
			idx, ok := index[n.ID()]
			if !ok {
				idx = -2
			}
			g := &c10Gate{peer: n.ID(), idx: idx, batch: -1, ch: make(chan struct{})}
			mu.Lock()
			flight++
			if flight > o.maxFlight {
				o.maxFlight = flight
			}
			parked = append(parked, g)
			mu.Unlock()
			<-g.ch
			mu.Lock()
			flight--
			mu.Unlock()
			if idx < 0 {
				return nil, nil
			}
			out, err := c.answer(idx)
			var ns []*enode.Node
			for _, j := range out {
				ns = append(ns, node(j))
			}
			return ns, err
		}
		// scan returns the parked queries sorted by peer id (goroutine start order is not
		// canonical) and logs the ones that appeared since the last quiescent point.
		scan := func() []*c10Gate {
			mu.Lock()
			p := append([]*c10Gate{}, parked...)
			mu.Unlock()
			sort.Slice(p, func(i, j int) bool { return string(p[i].peer[:]) < string(p[j].peer[:]) })
			for _, g := range p {
				if g.batch < 0 {
					g.batch = o.steps
					o.asked = append(o.asked, g.idx)
				}
			}
			return p
		}
		lctx, cancel := context.WithCancel(context.Background())
		defer cancel()
		cancelled := c.PreCancel
		if c.PreCancel {
			cancel()
			o.cancelAt = 0
		}
		go func() {
			defer func() {
				if r := recover(); r != nil {
					o.panicMsg = fmt.Sprintf("%v @ %s", r, repoFrame())
				}
			}()
			o.result = t.vt.RunLookup(lctx, target, q)
			o.returned = true
		}()

		limit := 3*c.Peers + 8 // every peer once would be c.Peers releases
		idle, idleAsked, releases := time.Duration(0), false, 0
		for {
			synctest.Wait()
			if o.returned || o.panicMsg != "" || t.loopErr != "" {
				break
			}
			p := scan()
			if len(p) == 0 {
				// nothing outstanding and not finished: the empty-table slow-down (1 s), or a hang
				if !cancelled && !idleAsked && !c.large() {
					idleAsked = true
					if ctx.ChooseCost(2, "cancel-while-idle", 1) == 1 {
						cancel()
						cancelled, o.cancelAt = true, releases
						continue
					}
				}
				if idle >= 3*time.Second {
					o.why = "blocked with no query outstanding for 3 virtual seconds"
					break
				}
				time.Sleep(100 * time.Millisecond)
				idle += 100 * time.Millisecond
				continue
			}
			if o.steps >= limit {
				o.why = fmt.Sprintf("still running after %d query completions (%d peers)", o.steps, c.Peers)
				break
			}
			if !cancelled && !c.large() && ctx.ChooseCost(2, "cancel", 1) == 1 {
				cancel()
				cancelled, o.cancelAt = true, releases
				continue
			}
			var k int
			switch {
			case !c.large():
				k = ctx.ChooseCost(len(p), "release", 0)
			case c.Order == "fifo": // oldest first (queries started together: by peer id)
				sort.SliceStable(p, func(i, j int) bool { return p[i].batch < p[j].batch })
			case c.Order == "lifo":
				sort.SliceStable(p, func(i, j int) bool { return p[i].batch > p[j].batch })
			default: // rotate
				k = o.steps % len(p)
			}
			g := p[k]
			mu.Lock()
			for i, x := range parked {
				if x == g {
					parked = append(parked[:i:i], parked[i+1:]...)
				}
			}
			mu.Unlock()
			if !cancelled && g.idx >= 0 { // this reply will be consumed before the next quiescent point
				out, _ := c.answer(g.idx)
				for _, j := range out {
					o.seen[node(j).ID()] = true
				}
			}
			g.ch <- struct{}{}
			o.steps++
			releases++
		}
		// the table reply is consumed unless the context was cancelled first and Go's select took the cancel branch
		o.seedsRead = !c.PreCancel || len(o.asked) > 0 || len(seeds) == 0
		if o.seedsRead {
			for _, s := range seeds {
				o.seen[s.ID()] = true
			}
		}
		o.leftParked = len(scan())
		o.loopErr = t.loopErr
		// unwind whatever is left so that the bubble can end: cancel, close the table, open every gate
		cancel()
		t.stop()
		for i := 0; i < 50; i++ {
			synctest.Wait()
			mu.Lock()
			p := parked
			parked = nil
			mu.Unlock()
			if len(p) == 0 {
				break
			}
			for _, g := range p {
				g.ch <- struct{}{}
			}
		}
	})
	if msg != "" && o.panicMsg == "" {
		o.panicMsg = msg
	}
	return
}

func c10Names(ns []enode.ID, index func(enode.ID) string) string {
	s := make([]string, len(ns))
	for i, id := range ns {
		s[i] = index(id)
	}
	return strings.Join(s, ",")
}

// c10NodeJudge applies the oracle to one execution and returns the observation digest.
func c10NodeJudge(r *mc.Report, c *c10NodeCase, o *c10Obs, choices []int) (digest string, bad bool) {
	cs := *c
	cs.Choices = choices
	target := c.target()
	name := func(id enode.ID) string {
		if id == tabSelfID {
			return "local"
		}
		for i := 0; i < c.Peers; i++ {
			if c.peerID(i) == id {
				return fmt.Sprint(i)
			}
		}
		return id.TerminalString()
	}
	desc := fmt.Sprintf("peers=%d answers=%v shape=%s seeds=%v target=%s order=%s precancel=%v cancel-after=%d | asked (in start order) %v, max in flight %d", c.Peers, c.Answers, c.Shape, c.Seeds, c.Target, c.Order, c.PreCancel, o.cancelAt, o.asked, o.maxFlight)
	viol := func(clause, site, detail string) { bad = true; r.Violation(clause, site, detail+" | "+desc, cs) }
	if o.panicMsg != "" {
		viol("no-panic", "lookup: "+o.panicMsg[strings.LastIndex(o.panicMsg, "@ ")+2:], "the lookup panicked: "+o.panicMsg)
	}
	if o.loopErr != "" {
		viol("no-panic", "table loop: "+o.loopErr[strings.LastIndex(o.loopErr, "@ ")+2:], "the table loop panicked while the lookup ran: "+o.loopErr)
	}
	count := map[int]int{}
	for _, a := range o.asked {
		count[a]++
		switch {
		case a == -1:
			viol("never-asks-local-node", "lookup.startQueries", "the local node was queried")
		case a == -2:
			viol("asks-only-seen-peers", "lookup.startQueries", "a node that no reply contained was queried")
		case count[a] == 2:
			viol("asks-no-peer-twice", "lookup.startQueries", fmt.Sprintf("peer %d was queried twice", a))
		}
	}
	if o.maxFlight > portalwire.VAlpha {
		viol("at-most-3-in-flight", "lookup.startQueries", fmt.Sprintf("%d queries were in flight at once", o.maxFlight))
	}
	if o.panicMsg == "" && o.loopErr == "" {
		if !o.returned {
			viol("lookup-terminates", "lookup.run", "run() did not return: "+o.why)
		} else if o.leftParked > 0 {
			viol("no-query-left-behind", "lookup.run", fmt.Sprintf("run() returned while %d queries were still outstanding", o.leftParked))
		}
	}
	var got []enode.ID
	for _, n := range o.result {
		if n == nil {
			viol("result-distinct-nodes", "lookup.result", "the result contains a nil entry")
			continue
		}
		got = append(got, n.ID())
	}
	if o.returned {
		var want []enode.ID
		for id := range o.seen {
			want = append(want, id)
		}
		sort.Slice(want, func(i, j int) bool { return enode.DistCmp(target, want[i], want[j]) < 0 })
		if len(want) > portalwire.VBucketSize {
			want = want[:portalwire.VBucketSize]
		}
		inGot := map[enode.ID]bool{}
		for i, id := range got {
			if inGot[id] {
				viol("result-distinct-nodes", "lookup.result", "node "+name(id)+" is listed twice: "+c10Names(got, name))
			}
			inGot[id] = true
			if i > 0 && enode.DistCmp(target, got[i-1], id) > 0 {
				viol("result-sorted-by-distance", "lookup.result", "result not in XOR-distance order: "+c10Names(got, name))
			}
			if !o.seen[id] {
				viol("result-only-seen-nodes", "lookup.result", "node "+name(id)+" is in the result but in no consumed reply: "+c10Names(got, name))
			}
		}
		if len(got) > portalwire.VBucketSize {
			viol("at-most-16-results", "lookup.result", fmt.Sprintf("%d nodes returned", len(got)))
		}
		for _, id := range want {
			if !inGot[id] {
				viol("no-closer-seen-node-omitted", "lookup.result", fmt.Sprintf("node %s was seen and is among the %d closest, but the result is %s (closest seen: %s)", name(id), len(want), c10Names(got, name), c10Names(want, name)))
				break
			}
		}
	}
	return fmt.Sprintf("n=%d asked=%v flight=%d res=%s cancel=%d seeds=%v ret=%v", c.Peers, o.asked, o.maxFlight, c10Names(got, name), o.cancelAt, o.seedsRead, o.returned), bad
}

// ---- enumeration ----

func c10JSON(v any) string {
	b, _ := json.Marshal(v)
	return string(b)
}

func c10Subsets(n int) [][]int {
	var out [][]int
	for m := 0; m < 1<<n; m++ {
		s := []int{}
		for i := 0; i < n; i++ {
			if m&(1<<i) != 0 {
				s = append(s, i)
			}
		}
		out = append(out, s)
	}
	return out
}

// c10SmallCases: every assignment of menu answers to n peers x every subset of them in the
// table x targets; cases that differ only in the answer of a peer nothing leads to are
// executed once (counted in skippedEquivalent).
func c10SmallCases(thorough bool) (cases []c10NodeCase, skippedEquivalent int) {
	menu5 := [][]int{ // selected 5-peer graphs
		{2, 2, 2, 2, 2}, {3, 3, 3, 3, 3}, {4, 4, 4, 4, 4}, {5, 5, 5, 5, 5}, {3, 0, 1, 4, 5}, {2, 3, 5, 5, 1}, {3, 4, 2, 0, 3}, {5, 5, 3, 1, 2},
	}
	for n := 0; n <= 5; n++ {
		var assigns [][]int
		sub := []int{0, 1, 2, 3, 4, 5}
		if n == 4 && !thorough {
			sub = []int{1, 2, 3, 4, 5} // quick: 4-peer graphs without "nothing" (the lookup treats it like "error")
		}
		if n == 5 {
			assigns = menu5
			if !thorough {
				assigns = menu5[:4]
			}
		} else {
			total := 1
			for i := 0; i < n; i++ {
				total *= len(sub)
			}
			for a := 0; a < total; a++ {
				as := make([]int, n)
				for i, x := 0, a; i < n; i, x = i+1, x/len(sub) {
					as[i] = sub[x%len(sub)]
				}
				assigns = append(assigns, as)
			}
		}
		targets := []string{"asc", "desc"}
		if n == 0 || (n >= 4 && !thorough) {
			targets = targets[:1]
		}
		for _, as := range assigns {
			for _, seeds := range c10Subsets(n) {
				if n == 5 && !thorough && len(seeds) != 1 && len(seeds) != 5 {
					continue
				}
				c := c10NodeCase{Part: "node", Peers: n, Answers: as, Seeds: seeds}
				canonical := true
				for i, ok := range c.reachable() {
					canonical = canonical && (ok || as[i] == sub[0] || n == 5) // n == 5: the assignments are hand-picked
				}
				if !canonical {
					skippedEquivalent += len(targets)
					continue
				}
				for _, tg := range targets {
					c.Target = tg
					cases = append(cases, c)
				}
			}
		}
	}
	return
}

func c10LargeCases(thorough bool) (cases []c10NodeCase) {
	type g struct {
		shape string
		n     int
	}
	graphs := []g{{"chain", 20}, {"star", 20}, {"clique", 20}, {"mesh", 200}}
	if thorough {
		graphs = append(graphs, g{"chain", 200}, g{"star", 200}, g{"clique", 40}, g{"mesh", 60})
	}
	for _, gr := range graphs {
		seedSets := [][]int{{0}, {gr.n - 1}, {0, 1, 2, 3, 4}}
		all := []int{}
		for i := 0; i < 20; i++ { // 20 table entries over five buckets: the table itself truncates to 16
			all = append(all, i)
		}
		seedSets = append(seedSets, all)
		for _, seeds := range seedSets {
			for _, tg := range []string{"asc", "desc", "self", "peer"} {
				for _, ord := range []string{"fifo", "lifo", "rotate"} {
					cases = append(cases, c10NodeCase{Part: "node", Peers: gr.n, Shape: gr.shape, Seeds: seeds, Target: tg, Order: ord})
				}
			}
		}
	}
	return
}

func runC10(r *mc.Report, e *Env) {
	r.Rule = "one evaluation = one run of the real lookup (node lookup: newLookup(...).run() over the real Table + loop and a gated query function, one completion order / cancel placement; started node: ContentLookup / TraceContentLookup / Lookup of a real started node against scripted discv5 peers); distinct = distinct (queries in start order, max in flight, result, cancel point) observations"
	if nc := c10NodeTasks + len(c10ContentCases(e.Thorough())); e.Of > 1 && e.Shard >= nc {
		r.Count("close_during_lookup_cases", 1)
		c10CloseRun(r, c10CloseCases()[e.Shard-nc], func() { e.FinishNow(r) })
		return
	}
	if e.Of > 1 && e.Shard >= c10NodeTasks {
		runC10Content(r, e, e.Shard-c10NodeTasks)
		return
	}
	shard, of := e.Shard, c10NodeTasks
	if e.Of <= 1 {
		shard, of = 0, 1
	}
	small, skipped := c10SmallCases(e.Thorough())
	large := c10LargeCases(e.Thorough())
	if shard == 0 {
		r.Assume("node lookup: peer graphs of 0..4 peers over the full 6-answer menu (quick: 4 peers over a 5-answer sub-menu, one target), selected 5-peer graphs; every subset of the peers as the table content; two targets (peers at increasing / decreasing distance); ALL completion orders; cancel at no step or at exactly one step (incl. during the empty-table slow-down) followed by all drain orders; additionally a context cancelled before run()")
		r.Assume("graphs of 20..200 peers (chain, star, clique, 8-neighbour mesh) are run under FIFO, LIFO and rotating completion orders only: NOT exhaustive over orders for those")
		r.Assume("a query that never returns is outside the model (the production query functions end with the RPC timeout); a silent peer is a query that returns an error, at any position of the completion order")
		r.Assume("query functions hand the lookup no nil entries (lookupWorker/contentLookupWorker build their lists in filterNodes, which cannot produce one)")
		r.Set("node_cases_small", len(small))
		r.Set("node_cases_large", len(large))
		r.Set("node_cases_skipped_as_equivalent", skipped)
		r.Set("cancel_bound", 1)
		r.Sample(map[string]any{"part": "node", "menu": c10Menu, "example": small[len(small)/2]})
		r.Sample(map[string]any{"part": "node", "large_example": large[0]})
	}
	for i := range small {
		if i%of != shard {
			continue
		}
		if e.Expired() {
			return
		}
		c := &small[i]
		if !e.Mark(func() string { return c10JSON(c) }) {
			continue
		}
		var o c10Obs
		cut := false
		d := &mc.DFS{Bound: 1, Deadline: e.Deadline}
		d.Body = func(x *mc.Ctx) { o = c10NodeRun(c, x) }
		d.After = func(x *mc.Ctx) {
			if x.Diverged != "" {
				r.EngineError(fmt.Sprintf("a completion order could not be replayed (%s) in case %+v", x.Diverged, *c))
				return
			}
			digest, bad := c10NodeJudge(r, c, &o, x.Choices())
			r.Exec(digest)
			if bad && !cut { // a violating case is not explored further (a broken lookup can have an unbounded schedule tree)
				cut = true
				d.Deadline = time.Now()
				r.NotExhaustive("the completion orders of a case are not explored further once one of them violated the property")
			}
			if o.cancelAt < 0 {
				r.Count("completion_orders", 1)
			} else {
				r.Count("executions_with_cancel", 1)
			}
			r.Max("max_queries_in_one_lookup", int64(len(o.asked)))
			r.Max("max_in_flight_seen", int64(o.maxFlight))
		}
		d.Run()
		if d.TimedOut && !cut {
			r.NotExhaustive("internal deadline reached during the completion-order exploration")
			return
		}
		r.Max("max_choice_points", int64(d.MaxPoints))
		if len(c.Seeds) > 0 {
			c10PreCancel(r, c)
		}
	}
	for i := range large {
		if i%of != shard {
			continue
		}
		if e.Expired() {
			return
		}
		c := &large[i]
		if !e.Mark(func() string { return c10JSON(c) }) {
			continue
		}
		o := c10NodeRun(c, nil)
		digest, _ := c10NodeJudge(r, c, &o, nil)
		r.Exec(digest)
		r.Count("large_graph_executions", 1)
		r.Max("max_queries_in_one_lookup", int64(len(o.asked)))
		r.Max("max_result_len", int64(len(o.result)))
	}
}

// c10PreCancel runs the lookup with an already cancelled context. The table's reply and the
// cancellation are then both ready at the lookup's first select and Go picks at random;
// the run is repeated until both branches were seen (at most 12 times), every run is judged.
func c10PreCancel(r *mc.Report, c *c10NodeCase) {
	pc := *c
	pc.PreCancel = true
	read, skippedSeeds := 0, 0
	for try := 0; try < 12 && (read == 0 || skippedSeeds == 0); try++ {
		o := c10NodeRun(&pc, &mc.Ctx{})
		digest, _ := c10NodeJudge(r, &pc, &o, nil)
		r.Exec(digest)
		if o.seedsRead {
			read++
		} else {
			skippedSeeds++
		}
	}
	r.Count("precancel_runs_table_reply_consumed", int64(read))
	r.Count("precancel_runs_cancel_taken_first", int64(skippedSeeds))
	if read == 0 || skippedSeeds == 0 {
		r.Count("precancel_cases_one_branch_only", 1)
	}
}

func replayC10(r *mc.Report, e *Env, raw json.RawMessage) {
	var part struct {
		Part string `json:"part"`
	}
	if err := json.Unmarshal(raw, &part); err != nil {
		panic(err)
	}
	if part.Part == "content" {
		replayC10Content(r, raw)
		return
	}
	if part.Part == "close-during-refresh-lookup" {
		var c c10CloseCase
		json.Unmarshal(raw, &c)
		c10CloseRun(r, c, func() {
			for _, v := range r.Violations {
				fmt.Printf("REPLAY: reproduced %s\n  %s\n", v.Fingerprint, v.Detail)
			}
			if len(r.Violations) > 0 {
				os.Exit(1)
			}
			fmt.Println("REPLAY: no violation reproduced")
			os.Exit(0)
		})
		return
	}
	var c c10NodeCase
	if err := json.Unmarshal(raw, &c); err != nil {
		panic(err)
	}
	tries := 1
	if c.PreCancel {
		tries = 12 // Go's select decides which branch a pre-cancelled lookup takes
	}
	for i := 0; i < tries && len(r.Violations) == 0; i++ {
		var o c10Obs
		x := mc.Replay(c.Choices, func(x *mc.Ctx) { o = c10NodeRun(&c, x) })
		digest, _ := c10NodeJudge(r, &c, &o, c.Choices)
		fmt.Println("outcome:", digest)
		if x.Diverged != "" {
			fmt.Println("replay diverged:", x.Diverged)
		}
	}
}
