package main

import (
	"fmt"
	"os"
	"runtime"
	"sort"
	"strconv"
	"strings"
	"sync"
	"testing/synctest"
	"time"

	"github.com/zen-eth/shisui/verifhook"
	"verifharness/mc"
)

// E3 — controlled concurrency. Threads of interest stop at gates (injected
// verifhook.Yield calls and harness-placed gates); the explorer waits for
// quiescence (synctest.Wait), reads the set of parked threads in canonical order,
// asks the choice context which one to release, and repeats. One thread runs
// between two quiescent points, so a schedule is a choice sequence.

func goid() int {
	var buf [64]byte
	n := runtime.Stack(buf[:], false)
	f := strings.Fields(string(buf[:n]))
	id, _ := strconv.Atoi(f[1])
	return id
}

type gthread struct {
	name   string
	resume chan struct{}
	label  string
	parked bool
	done   bool
	bg     bool // adopted goroutine (spawned by the code under test)
	want   any  // modelled mutex this thread is waiting to acquire (nil: none)
	wantW  bool
	cond   func() bool // extra enabling condition of the gate it is parked at (nil: none); called with s.mu held
	atomic bool        // inside Atomically: injected yields are not scheduling points
}

// lockModel mirrors the mutexes of instrumented files so that a thread is never
// released into a real Lock() that another parked thread holds (a goroutine blocked
// on a sync.Mutex is not durably blocked and synctest.Wait would never return).
type lockModel struct {
	writer  *gthread
	readers map[*gthread]int
}

func (l *lockModel) free(write bool) bool {
	if l.writer != nil {
		return false
	}
	return !write || len(l.readers) == 0
}

type gsched struct {
	mu      sync.Mutex
	byG     map[int]*gthread
	threads []*gthread
	active  bool
	nbg     int
	Trace   []string
	last    *gthread
	// BgLast: adopted goroutines only run when no harness thread is enabled.
	BgLast bool
	locks  map[any]*lockModel
	// TickBudget > 0 adds the option "advance the virtual clock by TickStep" to every
	// scheduling decision (so that a timer can fire while threads are still enabled).
	TickBudget int
	TickStep   time.Duration
	TickCond   func() bool // extra condition for the clock option; called with s.mu held
	poison     bool
	free       []func() // free-running mode: the thread bodies
}

// GateIf is a gate that is enabled only while cond holds.
func (s *gsched) GateIf(label string, cond func() bool) {
	s.mu.Lock()
	if th := s.byG[goid()]; th != nil {
		th.cond = cond
	}
	s.mu.Unlock()
	s.yield(label)
}

// othersInFlight reports whether a harness thread other than the caller's has been
// released and has neither reached its next gate nor finished (at quiescence: it is
// blocked in a channel operation). Call with s.mu held.
func (s *gsched) othersInFlight(self *gthread) bool {
	for _, th := range s.threads {
		if th != self && !th.bg && !th.parked && !th.done {
			return true
		}
	}
	return false
}

func (s *gsched) current() *gthread {
	s.mu.Lock()
	defer s.mu.Unlock()
	return s.byG[goid()]
}

func (s *gsched) threadNamed(name string) *gthread {
	for _, th := range s.threads {
		if th.name == name {
			return th
		}
	}
	return nil
}

// schedPoison unwinds a thread that is abandoned at a gate (see poisonAll).
type schedPoison struct{}

// poisonAll ends an execution that cannot finish (deadlock among the threads): every
// parked thread is resumed into a panic that unwinds it, so that deferred clean-up
// (tickers!) runs and the bubble can end. Results must be recorded before calling it.
func (s *gsched) poisonAll() {
	s.mu.Lock()
	s.poison = true
	var parked []*gthread
	for _, th := range s.threads {
		if th.parked {
			th.parked = false
			parked = append(parked, th)
		}
	}
	s.mu.Unlock()
	for _, th := range parked {
		th.resume <- struct{}{}
	}
	synctest.Wait()
}

func (s *gsched) checkPoison() {
	s.mu.Lock()
	p := s.poison
	s.mu.Unlock()
	if p {
		panic(schedPoison{})
	}
}

// adoptCurrent registers the calling goroutine as a named thread without parking it.
func (s *gsched) adoptCurrent(name string) {
	if freeRuns > 0 {
		return
	}
	th := &gthread{name: name, resume: make(chan struct{}), bg: true}
	s.mu.Lock()
	s.byG[goid()] = th
	s.threads = append(s.threads, th)
	s.mu.Unlock()
}

// freeRuns > 0 (VERIF_FREERUN=n): the scenario bodies run n times with plain goroutines and no
// scheduler at all - for the separate race-detector pass (racepass.sh). Under the cooperative
// scheduler every hand-off is a happens-before edge, which blinds the detector; free-running,
// it sees the accesses the schedule exploration assumes to be synchronised.
var freeRuns = func() int { n, _ := strconv.Atoi(os.Getenv("VERIF_FREERUN")); return n }()

func newSched() *gsched {
	s := &gsched{byG: map[int]*gthread{}, BgLast: true, locks: map[any]*lockModel{}}
	if freeRuns > 0 {
		return s // no hooks: yields and lock hooks stay no-ops
	}
	verifhook.Set(s.yield)
	verifhook.SetLock(s.lockHook)
	return s
}

func (s *gsched) stop() { verifhook.Set(nil); verifhook.SetLock(nil); s.active = false }

func (s *gsched) lockHook(m any, write, acquire bool) {
	s.mu.Lock()
	if !s.active || s.poison {
		s.mu.Unlock()
		return
	}
	th := s.byG[goid()]
	if th == nil {
		if !acquire {
			s.mu.Unlock()
			return
		}
		s.nbg++
		th = &gthread{name: fmt.Sprintf("bg%d", s.nbg), resume: make(chan struct{}), bg: true}
		s.byG[goid()] = th
		s.threads = append(s.threads, th)
	}
	l := s.locks[m]
	if l == nil {
		l = &lockModel{readers: map[*gthread]int{}}
		s.locks[m] = l
	}
	if !acquire {
		if write {
			l.writer = nil
		} else if l.readers[th] > 1 {
			l.readers[th]--
		} else {
			delete(l.readers, th)
		}
		s.mu.Unlock()
		return
	}
	th.want, th.wantW = m, write
	th.label, th.parked = "lock", true
	s.mu.Unlock()
	<-th.resume // the explorer grants the lock in its model before resuming us
	s.checkPoison()
}

// Atomically runs f on the calling (known) thread without stopping at the injected yields
// inside it: an observation made of several reads is one step of the schedule.
func (s *gsched) Atomically(f func()) {
	th := s.current()
	if th == nil {
		f()
		return
	}
	th.atomic = true
	defer func() { th.atomic = false }()
	f()
}

func (s *gsched) yield(label string) {
	s.mu.Lock()
	if !s.active || s.poison {
		s.mu.Unlock()
		return
	}
	g := goid()
	th := s.byG[g]
	if th != nil && th.atomic {
		s.mu.Unlock()
		return
	}
	if th == nil {
		s.nbg++
		th = &gthread{name: fmt.Sprintf("bg%d", s.nbg), resume: make(chan struct{}), bg: true}
		s.byG[g] = th
		s.threads = append(s.threads, th)
	}
	th.label, th.parked = label, true
	s.mu.Unlock()
	<-th.resume
	s.checkPoison()
}

// Gate is a harness-placed scheduling point for the calling (known) thread.
func (s *gsched) Gate(label string) { s.yield(label) }

func (s *gsched) spawn(name string, f func()) {
	if freeRuns > 0 {
		s.free = append(s.free, f)
		return
	}
	th := &gthread{name: name, resume: make(chan struct{})}
	s.mu.Lock()
	s.threads = append(s.threads, th)
	s.mu.Unlock()
	go func() {
		s.mu.Lock()
		s.byG[goid()] = th
		th.label, th.parked = "start", true
		s.mu.Unlock()
		<-th.resume
		defer func() {
			if r := recover(); r != nil {
				if _, ok := r.(schedPoison); !ok {
					panic(r)
				}
			}
		}()
		s.checkPoison()
		f()
		s.mu.Lock()
		th.done = true
		s.mu.Unlock()
	}()
}

// run drives the threads to completion along ctx's choices. It returns false if
// the harness threads cannot finish (deadlock) within maxSteps.
func (s *gsched) run(c *mc.Ctx, maxSteps int) (ok bool, why string) {
	if freeRuns > 0 {
		done := make(chan struct{}, len(s.free))
		for _, f := range s.free {
			f := f
			go func() { defer func() { done <- struct{}{} }(); f() }()
		}
		for range s.free {
			select {
			case <-done:
			case <-time.After(10 * time.Minute): // virtual inside a bubble
				return false, "free-running threads did not finish"
			}
		}
		return true, ""
	}
	s.mu.Lock()
	s.active = true
	s.mu.Unlock()
	idle := 0
	for step := 0; step < maxSteps; step++ {
		synctest.Wait()
		s.mu.Lock()
		var en, bgs []*gthread
		alldone := true
		lockWaiters := 0
		for _, th := range s.threads {
			if th.parked && th.want != nil && !s.locks[th.want].free(th.wantW) {
				lockWaiters++
				if !th.bg {
					alldone = false
				}
				continue
			}
			if th.parked && th.cond != nil && !th.cond() {
				if !th.bg {
					alldone = false
				}
				continue
			}
			if th.parked {
				if th.bg && s.BgLast {
					bgs = append(bgs, th)
				} else {
					en = append(en, th)
				}
			}
			if !th.done && !th.bg {
				alldone = false
			}
		}
		if len(en) == 0 {
			en = bgs
		}
		tickOK := s.TickBudget > 0 && (s.TickCond == nil || s.TickCond())
		s.mu.Unlock()
		if len(en) == 0 && tickOK && !alldone && lockWaiters == 0 {
			s.TickBudget--
			s.Trace = append(s.Trace, "tick")
			time.Sleep(s.TickStep)
			continue
		}
		if len(en) == 0 {
			if alldone {
				s.mu.Lock()
				s.active = false
				s.mu.Unlock()
				return true, ""
			}
			idle++
			if idle > 50 || lockWaiters > 0 {
				return false, fmt.Sprintf("no thread enabled and harness threads unfinished (deadlock; %d waiting for a lock)", lockWaiters)
			}
			time.Sleep(time.Second) // virtual: lets timers fire
			continue
		}
		idle = 0
		sort.Slice(en, func(i, j int) bool { return en[i].name < en[j].name })
		cost := 0
		// canonical order: the thread that ran last first, if it is still enabled
		for i, th := range en {
			if th == s.last {
				en[0], en[i] = en[i], en[0]
				sort.Slice(en[1:], func(a, b int) bool { return en[1+a].name < en[1+b].name })
				cost = 1 // switching away from a runnable thread is a preemption
				break
			}
		}
		ch := 0
		nopt := len(en)
		if tickOK {
			nopt++ // last option: let the clock advance instead
		}
		if nopt > 1 {
			names := make([]string, len(en))
			for i, th := range en {
				names[i] = th.name
			}
			if cost == 0 && tickOK {
				cost = 1
			}
			ch = c.ChooseCost(nopt, "sched:"+strings.Join(names, ","), cost)
		}
		if ch == len(en) {
			s.TickBudget--
			s.Trace = append(s.Trace, "tick")
			s.last = nil
			time.Sleep(s.TickStep)
			continue
		}
		th := en[ch]
		s.Trace = append(s.Trace, th.name+"@"+th.label)
		s.last = th
		s.mu.Lock()
		th.parked = false
		th.cond = nil
		if th.want != nil {
			l := s.locks[th.want]
			if th.wantW {
				l.writer = th
			} else {
				l.readers[th]++
			}
			th.want = nil
		}
		s.mu.Unlock()
		th.resume <- struct{}{}
	}
	return false, "step limit reached"
}
