package main

import (
	"context"
	"fmt"
	"strings"
	"testing/synctest"
	"time"

	"github.com/zen-eth/shisui/portalwire"
	"verifharness/mc"
)

// C09 — overlapping offers. Every sequence of length c09SeqLen over the events
// {offer [k1 k2], offer [k2 k3], offer [k2], wait 4 s, wait 12 s} on one version-1 node
// with ample slots, transfers never dialled (each accepted offer is "being received" for
// the 15 s the node waits for the stream). At every offer: a key may be marked accepted
// only if no earlier accepted offer that still waits for its stream holds it.
// A third alphabet (c09SeqEventsMixed) makes the offerer's negotiated version a dimension: peers
// negotiating version 0 and version 1 offer the same keys in every order to the one node that
// speaks {0,1}, with completed and failed transfers in between.

var c09SeqEvents = []string{"offer:12", "offer:23", "offer:2", "wait:4", "wait:12"}

// second alphabet: "xfer" completes the transfer of the oldest offer that still waits for its stream
// (dial the announced id, send one item per accepted key). Afterwards its keys are no longer
// being received by that offer - whatever the receive goroutine still does for the next 15 s must
// not touch the marks of offers accepted later.
var c09SeqEventsXfer = []string{"offer:2", "offer:12", "xfer", "wait:4", "wait:12"}

type c09SeqCase struct {
	Part string   `json:"part"` // "sequence"
	Seq  []string `json:"sequence"`
}

// third alphabet: the offerer's negotiated version is a dimension. The node speaks {0,1};
// "offer:K" comes from a peer that negotiates version 1 (per-key codes), "offer:K:v0" from a
// peer that negotiates version 0 (bit list). A version-0 reply has no way to say "being
// received" and the statement does not ask it to: a version-0 offer may be accepted for a key in
// flight (and is then one more transfer in progress that holds the key). A version-1 reply must
// not mark a key accepted while ANY earlier accepted offer - whichever version it was negotiated
// with - still waits for its stream.
//
// "xbad" is a failed transfer: the newest offer that still waits for its stream is dialled and
// sent one item too many; the stream is discarded and that offer is over at once (its keys are no
// longer being received by it), while the older ones go on waiting.
var c09SeqEventsMixed = []string{"offer:2", "offer:12", "offer:2:v0", "offer:23:v0", "xfer", "xbad", "wait:4", "wait:12"}

// Sites of the in-flight clause in the sequences.
const (
	c09SiteOverlap = "v1:overlapping-offers" // a transfer negotiated with version 1 holds the key
	// every transfer in progress that holds the key was negotiated with version 0
	c09SiteOverlapV0 = "v1:overlapping-offers:transfer-in-progress-negotiated-v0"
	// The key was accepted more than once (only a version-0 reply can accept a key that is
	// being received), so several transfers shared the one mark, and a transfer that has ended
	// since the key was last accepted may have taken the mark with it (its deferred un-mark)
	// although another one still waits for its stream.
	c09SiteSharedMark = "v1:overlapping-offers:mark-shared-after-v0-acceptance-removed-by-end-of-other-transfer"
)

// c09Acc: one accepted offer of the sequence, as the reference sees it.
type c09Acc struct {
	keys   string
	ver    int
	at     time.Time
	connId uint16
	// set by "xfer" / "xbad": the stream was dialled at dialAt and had been handed over (failed:
	// discarded) by doneAt
	completed, failed bool
	dialAt, doneAt    time.Time
}

// inProgress: accepted, its stream neither handed over nor given up waiting for.
func (o *c09Acc) inProgress(now time.Time, wait time.Duration) bool {
	return !o.completed && now.Sub(o.at) < wait
}

// unmark: the interval in which the offer's receive goroutine ends and un-marks its keys: at+wait
// when nobody dialled; after a completed transfer the goroutine waits once more for a stream,
// from some moment between the dial and the end of the transfer; after a discarded stream it
// ends there and then.
func (o *c09Acc) unmark(wait time.Duration) (lo, hi time.Time) {
	if o.failed {
		return o.dialAt, o.doneAt
	}
	if o.completed {
		return o.dialAt.Add(wait), o.doneAt.Add(wait)
	}
	return o.at.Add(wait), o.at.Add(wait)
}

func c09Holds(keys string, k byte) bool { return strings.IndexByte(keys, k) >= 0 }

// c09SeqSite names the class of an in-flight violation for key k at time now.
func c09SeqSite(hist []*c09Acc, k byte, now time.Time, wait time.Duration) string {
	var lastAccepted time.Time
	holderV1 := false
	for _, o := range hist {
		if !c09Holds(o.keys, k) {
			continue
		}
		if o.at.After(lastAccepted) {
			lastAccepted = o.at
		}
		if o.inProgress(now, wait) && o.ver == 1 {
			holderV1 = true
		}
	}
	for _, o := range hist {
		if !c09Holds(o.keys, k) || o.inProgress(now, wait) {
			continue
		}
		if lo, hi := o.unmark(wait); !lo.After(now) && hi.After(lastAccepted) {
			return c09SiteSharedMark
		}
	}
	if holderV1 {
		return c09SiteOverlap
	}
	return c09SiteOverlapV0
}

func c09SeqRun(r *mc.Report, nw *c09Net, seq []string) {
	c := c09SeqCase{"sequence", seq}
	bn, _ := c09Node(nw, 6)
	defer bn.Close()
	self := bn.P.Self().ID()
	key := map[byte][]byte{'1': c09Key(self, 1, 0), '2': c09Key(self, 2, 0), '3': c09Key(self, 3, 0)}
	var hist []*c09Acc // every accepted offer, oldest first
	wait := time.Duration(portalwire.VerifDefaultUTPConnTimeout)
	var trace []string
	for _, ev := range seq {
		p := strings.Split(ev, ":")
		if p[0] == "xfer" || p[0] == "xbad" {
			now := time.Now()
			bad := p[0] == "xbad"
			for i := range hist {
				o := hist[i]
				if bad {
					o = hist[len(hist)-1-i]
				}
				if !o.inProgress(now, wait) {
					continue
				}
				if st, err := nw.dial(o.connId); err == nil {
					var items [][]byte
					for range o.keys {
						items = append(items, []byte{0x5a})
					}
					if bad {
						items = append(items, []byte{0x77})
					}
					st.Write(context.Background(), portalwire.VerifEncodeContents(items))
					st.Close()
					time.Sleep(time.Second)
					synctest.Wait()
					if got := c09Drain(bn); bad && len(got) != 0 {
						r.Violation("different-item-count-discarded", fmt.Sprintf("v%d:more:overlapping-offers", o.ver), fmt.Sprintf("after %v: %d keys accepted, %d items streamed, yet %d element(s) reached the validation queue", trace, len(o.keys), len(items), len(got)), c)
					}
					o.completed, o.failed, o.dialAt, o.doneAt = true, bad, now, time.Now()
				}
				break
			}
			trace = append(trace, ev)
			continue
		}
		if p[0] == "wait" {
			var s int
			fmt.Sscanf(p[1], "%d", &s)
			time.Sleep(time.Duration(s) * time.Second)
			synctest.Wait()
			trace = append(trace, ev)
			continue
		}
		ver := 1
		if len(p) > 2 && p[2] == "v0" {
			ver = 0
		}
		vtag := fmt.Sprintf("v%d", ver)
		now := time.Now()
		inFlight := map[byte]bool{}
		for _, o := range hist {
			if o.inProgress(now, wait) {
				for i := range o.keys {
					inFlight[o.keys[i]] = true
				}
			}
		}
		var keys [][]byte
		for i := range p[1] {
			keys = append(keys, key[p[1][i]])
		}
		var reply []byte
		var err error
		if msg, site := panicsTo(func() {
			reply, err = bn.P.VerifHandleOffer(c09PeerRec([]int{ver}), c09PeerAddr, &portalwire.Offer{ContentKeys: keys})
		}); msg != "" {
			r.Violation("no-panic", site, "handleOffer panicked: "+msg, c)
			break
		}
		synctest.Wait()
		if err != nil {
			r.Violation("one-verdict-per-key", vtag+":handler-error:overlapping-offers", err.Error(), c)
			break
		}
		acc, shown, connId, derr := c09Verdicts(ver, reply)
		if derr != nil || len(acc) != len(keys) {
			r.Violation("one-verdict-per-key", vtag+":verdict-count:overlapping-offers", fmt.Sprintf("%d keys, verdicts %s (%v)", len(keys), shown, derr), c)
			break
		}
		accepted := ""
		for i, a := range acc {
			if !a {
				continue
			}
			if ver == 1 && inFlight[p[1][i]] { // (the bit list of version 0 cannot decline a key for being received, and need not)
				site := c09SeqSite(hist, p[1][i], now, wait)
				var holders []string
				for _, o := range hist {
					if c09Holds(o.keys, p[1][i]) && o.inProgress(now, wait) {
						holders = append(holders, fmt.Sprintf("[%s] accepted %v ago by a version-%d reply, id %04x", o.keys, now.Sub(o.at), o.ver, o.connId))
					}
				}
				r.Violation("accepted-only-if-not-already-being-received", site, fmt.Sprintf("after %v the version-1 offer [%s] got verdicts %s (connection id %04x): key k%c is marked accepted while an earlier accepted offer still waits for its stream: %s", trace, p[1], shown, connId, p[1][i], strings.Join(holders, "; ")), c)
			}
			accepted += string(p[1][i])
		}
		if accepted != "" {
			hist = append(hist, &c09Acc{keys: accepted, ver: ver, at: now, connId: connId})
		}
		trace = append(trace, fmt.Sprintf("%s->%s", ev, shown))
	}
	r.Exec("seq|" + strings.Join(trace, " "))
	time.Sleep(c09Settle) // everything the sequence started runs out before the next case
}

func c09SeqLen(thorough bool) int {
	if thorough {
		return 8
	}
	return 7
}

func c09SeqLenMixed(thorough bool) int {
	if thorough {
		return 6
	}
	return 5
}

// c09Sequences enumerates every sequence of the given length; worker i takes every Of-th.
func c09Sequences(r *mc.Report, e *Env, nw *c09Net, over func() bool) {
	anyOffer := func(ev string) bool { return strings.HasPrefix(ev, "offer") }
	c09SequencesOver(r, e, nw, over, c09SeqEvents, c09SeqLen(e.Thorough()), anyOffer, "offer_sequences")
	c09SequencesOver(r, e, nw, over, c09SeqEventsXfer, c09SeqLen(e.Thorough())-1, anyOffer, "offer_sequences")
	// offerers of both versions: only a version-1 offer is judged for keys being received, so the
	// last event is one (a sequence ending otherwise adds nothing over its prefix)
	v1Offer := func(ev string) bool { return strings.HasPrefix(ev, "offer") && !strings.HasSuffix(ev, ":v0") }
	c09SequencesOver(r, e, nw, over, c09SeqEventsMixed, c09SeqLenMixed(e.Thorough()), v1Offer, "offer_sequences_mixed_versions")
	if e.Shard == 0 {
		r.Set("mixed_version_sequence_alphabet", c09SeqEventsMixed)
		r.Set("mixed_version_sequence_length", c09SeqLenMixed(e.Thorough()))
		r.Sample(c09SeqCase{"sequence", []string{"offer:2:v0", "wait:4", "offer:2", "xfer", "offer:2"}})
	}
}

func c09SequencesOver(r *mc.Report, e *Env, nw *c09Net, over func() bool, c09SeqEvents []string, n int, lastOK func(string) bool, counter string) {
	idx := make([]int, n)
	count := 0
	for {
		// sequences without an offer in the last two events add nothing over their prefix
		last := c09SeqEvents[idx[n-1]]
		if lastOK(last) && e.Mine(count) {
			if over() {
				r.NotExhaustive("internal deadline reached in the overlapping-offer sequences")
				return
			}
			seq := make([]string, n)
			for i, k := range idx {
				seq[i] = c09SeqEvents[k]
			}
			c09SeqRun(r, nw, seq)
			r.Count(counter, 1)
		}
		count++
		k := n - 1
		for k >= 0 {
			idx[k]++
			if idx[k] < len(c09SeqEvents) {
				break
			}
			idx[k] = 0
			k--
		}
		if k < 0 {
			break
		}
	}
	if e.Shard == 0 && len(c09SeqEvents) > 0 && c09SeqEvents[0] == "offer:12" {
		r.Sample(c09SeqCase{"sequence", []string{"offer:12", "wait:4", "offer:23", "wait:12", "offer:2", "wait:4", "offer:2"}})
	}
}

// ---- two offers of the same key handled concurrently (E3 + E6) ----
//
// Two goroutines each handle one version-1 offer of the same fresh key; the receive
// goroutines the handler spawns are adopted by the scheduler at their injected entry
// yield. Every interleaving (bounded preemptions) at the yields before each use of the
// in-flight cache, the store and the slot controller. Oracle: the key is marked accepted
// by at most one of the two replies (the other must see it as being received).

type c09RaceCase struct {
	Part    string   `json:"part"` // "race"
	Choices []int    `json:"choices"`
	Trace   []string `json:"trace,omitempty"`
}

func c09RaceRun(r *mc.Report, nw *c09Net, c *mc.Ctx) string {
	bn, _ := c09Node(nw, 6)
	defer bn.Close()
	self := bn.P.Self().ID()
	k2 := c09Key(self, 2, 0)
	s := newSched()
	s.BgLast = false
	defer s.stop()
	acc := make([]bool, 2)
	for t := 0; t < 2; t++ {
		t := t
		s.spawn(fmt.Sprintf("T%d", t+1), func() {
			reply, err := bn.P.VerifHandleOffer(c09PeerRec([]int{1}), c09PeerAddr, &portalwire.Offer{ContentKeys: [][]byte{k2}})
			if err == nil {
				if a, _, _, derr := c09Verdicts(1, reply); derr == nil && len(a) == 1 {
					acc[t] = a[0]
				}
			}
		})
	}
	ok, why := s.run(c, 300)
	if !ok {
		r.EngineError("c09 race: " + why)
	}
	s.stop()
	if acc[0] && acc[1] {
		r.Violation("accepted-only-if-not-already-being-received", "v1:two-concurrent-offers-of-one-key", "both replies mark the key accepted | schedule: "+strings.Join(s.Trace, " "), c09RaceCase{"race", c.Choices(), s.Trace})
	}
	time.Sleep(c09Settle)
	return fmt.Sprintf("accepted=%v", acc)
}

func c09Race(r *mc.Report, e *Env, nw *c09Net) {
	bound := 2
	if e.Thorough() {
		bound = 4
	}
	d := &mc.DFS{Bound: bound} // (the bubble's clock is virtual: no deadline here; the space is small)
	var out string
	d.Body = func(c *mc.Ctx) { out = c09RaceRun(r, nw, c) }
	if freeRuns > 0 {
		for i := 0; i < freeRuns; i++ {
			mc.Replay(nil, d.Body)
			r.Exec("free|race|" + out)
		}
		r.Count("free_running_executions", int64(freeRuns))
		return
	}
	d.After = func(c *mc.Ctx) {
		if c.Diverged != "" {
			r.Count("race_schedules_diverged", 1)
			return
		}
		r.Exec("race|" + out)
	}
	d.Run()
	if d.TimedOut {
		r.NotExhaustive("deadline during the concurrent-offer schedules")
	}
	r.Count("race_schedules", d.Executions)
	r.Count("race_schedule_points_max", int64(d.MaxPoints))
	r.Set("race_preemption_bound", bound)
}
