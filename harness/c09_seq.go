package main

import (
	"context"
	"fmt"
	"strings"
	"testing/synctest"
	"time"

	"github.com/zen-eth/shisui/portalwire"
	"verifharness/mc"
)

// C09 — overlapping offers. Every sequence of length c09SeqLen over the events
// {offer [k1 k2], offer [k2 k3], offer [k2], wait 4 s, wait 12 s} on one version-1 node
// with ample slots, transfers never dialled (each accepted offer is "being received" for
// the 15 s the node waits for the stream). At every offer: a key may be marked accepted
// only if no earlier accepted offer that still waits for its stream holds it.

var c09SeqEvents = []string{"offer:12", "offer:23", "offer:2", "wait:4", "wait:12"}

// second alphabet: "xfer" completes the transfer of the oldest offer that still waits for its stream
// (dial the announced id, send one item per accepted key). Afterwards its keys are no longer
// being received by that offer - whatever the receive goroutine still does for the next 15 s must
// not touch the marks of offers accepted later.
var c09SeqEventsXfer = []string{"offer:2", "offer:12", "xfer", "wait:4", "wait:12"}

type c09SeqCase struct {
	Part string   `json:"part"` // "sequence"
	Seq  []string `json:"sequence"`
}

func c09SeqRun(r *mc.Report, nw *c09Net, seq []string) {
	c := c09SeqCase{"sequence", seq}
	bn, _ := c09Node(nw, 6)
	defer bn.Close()
	self := bn.P.Self().ID()
	key := map[byte][]byte{'1': c09Key(self, 1, 0), '2': c09Key(self, 2, 0), '3': c09Key(self, 3, 0)}
	type pending struct {
		keys   string
		at     time.Time
		connId uint16
	}
	var open []pending
	wait := time.Duration(portalwire.VerifDefaultUTPConnTimeout)
	var trace []string
	for _, ev := range seq {
		p := strings.Split(ev, ":")
		if p[0] == "xfer" {
			now := time.Now()
			for i, o := range open {
				if now.Sub(o.at) >= wait {
					continue
				}
				if st, err := nw.dial(o.connId); err == nil {
					var items [][]byte
					for range o.keys {
						items = append(items, []byte{0x5a})
					}
					st.Write(context.Background(), portalwire.VerifEncodeContents(items))
					st.Close()
					time.Sleep(time.Second)
					synctest.Wait()
					c09Drain(bn)
					open = append(open[:i:i], open[i+1:]...)
				}
				break
			}
			trace = append(trace, ev)
			continue
		}
		if p[0] == "wait" {
			var s int
			fmt.Sscanf(p[1], "%d", &s)
			time.Sleep(time.Duration(s) * time.Second)
			synctest.Wait()
			trace = append(trace, ev)
			continue
		}
		now := time.Now()
		inFlight := map[byte]bool{}
		for _, o := range open {
			if now.Sub(o.at) < wait {
				for i := range o.keys {
					inFlight[o.keys[i]] = true
				}
			}
		}
		var keys [][]byte
		for i := range p[1] {
			keys = append(keys, key[p[1][i]])
		}
		var reply []byte
		var err error
		if msg, site := panicsTo(func() {
			reply, err = bn.P.VerifHandleOffer(c09PeerRec([]int{1}), c09PeerAddr, &portalwire.Offer{ContentKeys: keys})
		}); msg != "" {
			r.Violation("no-panic", site, "handleOffer panicked: "+msg, c)
			break
		}
		synctest.Wait()
		if err != nil {
			r.Violation("one-verdict-per-key", "v1:handler-error:overlapping-offers", err.Error(), c)
			break
		}
		acc, shown, connId, derr := c09Verdicts(1, reply)
		if derr != nil || len(acc) != len(keys) {
			r.Violation("one-verdict-per-key", "v1:verdict-count:overlapping-offers", fmt.Sprintf("%d keys, verdicts %s (%v)", len(keys), shown, derr), c)
			break
		}
		accepted := ""
		for i, a := range acc {
			if !a {
				continue
			}
			if inFlight[p[1][i]] {
				r.Violation("accepted-only-if-not-already-being-received", "v1:overlapping-offers", fmt.Sprintf("after %v the offer [%s] got verdicts %s: key k%c is marked accepted while an earlier accepted offer still waits for its stream", trace, p[1], shown, p[1][i]), c)
			}
			accepted += string(p[1][i])
		}
		if accepted != "" {
			open = append(open, pending{accepted, now, connId})
		}
		trace = append(trace, fmt.Sprintf("%s->%s", ev, shown))
	}
	r.Exec("seq|" + strings.Join(trace, " "))
	time.Sleep(c09Settle) // everything the sequence started runs out before the next case
}

func c09SeqLen(thorough bool) int {
	if thorough {
		return 8
	}
	return 7
}

// c09Sequences enumerates every sequence of the given length; worker i takes every Of-th.
func c09Sequences(r *mc.Report, e *Env, nw *c09Net, over func() bool) {
	c09SequencesOver(r, e, nw, over, c09SeqEvents, c09SeqLen(e.Thorough()))
	c09SequencesOver(r, e, nw, over, c09SeqEventsXfer, c09SeqLen(e.Thorough())-1)
}

func c09SequencesOver(r *mc.Report, e *Env, nw *c09Net, over func() bool, c09SeqEvents []string, n int) {
	idx := make([]int, n)
	count := 0
	for {
		// sequences without an offer in the last two events add nothing over their prefix
		last := c09SeqEvents[idx[n-1]]
		if strings.HasPrefix(last, "offer") && e.Mine(count) {
			if over() {
				r.NotExhaustive("internal deadline reached in the overlapping-offer sequences")
				return
			}
			seq := make([]string, n)
			for i, k := range idx {
				seq[i] = c09SeqEvents[k]
			}
			c09SeqRun(r, nw, seq)
			r.Count("offer_sequences", 1)
		}
		count++
		k := n - 1
		for k >= 0 {
			idx[k]++
			if idx[k] < len(c09SeqEvents) {
				break
			}
			idx[k] = 0
			k--
		}
		if k < 0 {
			break
		}
	}
	if e.Shard == 0 && len(c09SeqEvents) > 0 && c09SeqEvents[0] == "offer:12" {
		r.Sample(c09SeqCase{"sequence", []string{"offer:12", "wait:4", "offer:23", "wait:12", "offer:2", "wait:4", "offer:2"}})
	}
}

// ---- two offers of the same key handled concurrently (E3 + E6) ----
//
// Two goroutines each handle one version-1 offer of the same fresh key; the receive
// goroutines the handler spawns are adopted by the scheduler at their injected entry
// yield. Every interleaving (bounded preemptions) at the yields before each use of the
// in-flight cache, the store and the slot controller. Oracle: the key is marked accepted
// by at most one of the two replies (the other must see it as being received).

type c09RaceCase struct {
	Part    string   `json:"part"` // "race"
	Choices []int    `json:"choices"`
	Trace   []string `json:"trace,omitempty"`
}

func c09RaceRun(r *mc.Report, nw *c09Net, c *mc.Ctx) string {
	bn, _ := c09Node(nw, 6)
	defer bn.Close()
	self := bn.P.Self().ID()
	k2 := c09Key(self, 2, 0)
	s := newSched()
	s.BgLast = false
	defer s.stop()
	acc := make([]bool, 2)
	for t := 0; t < 2; t++ {
		t := t
		s.spawn(fmt.Sprintf("T%d", t+1), func() {
			reply, err := bn.P.VerifHandleOffer(c09PeerRec([]int{1}), c09PeerAddr, &portalwire.Offer{ContentKeys: [][]byte{k2}})
			if err == nil {
				if a, _, _, derr := c09Verdicts(1, reply); derr == nil && len(a) == 1 {
					acc[t] = a[0]
				}
			}
		})
	}
	ok, why := s.run(c, 300)
	if !ok {
		r.EngineError("c09 race: " + why)
	}
	s.stop()
	if acc[0] && acc[1] {
		r.Violation("accepted-only-if-not-already-being-received", "v1:two-concurrent-offers-of-one-key", "both replies mark the key accepted | schedule: "+strings.Join(s.Trace, " "), c09RaceCase{"race", c.Choices(), s.Trace})
	}
	time.Sleep(c09Settle)
	return fmt.Sprintf("accepted=%v", acc)
}

func c09Race(r *mc.Report, e *Env, nw *c09Net) {
	bound := 2
	if e.Thorough() {
		bound = 4
	}
	d := &mc.DFS{Bound: bound} // (the bubble's clock is virtual: no deadline here; the space is small)
	var out string
	d.Body = func(c *mc.Ctx) { out = c09RaceRun(r, nw, c) }
	if freeRuns > 0 {
		for i := 0; i < freeRuns; i++ {
			mc.Replay(nil, d.Body)
			r.Exec("free|race|" + out)
		}
		r.Count("free_running_executions", int64(freeRuns))
		return
	}
	d.After = func(c *mc.Ctx) {
		if c.Diverged != "" {
			r.Count("race_schedules_diverged", 1)
			return
		}
		r.Exec("race|" + out)
	}
	d.Run()
	if d.TimedOut {
		r.NotExhaustive("deadline during the concurrent-offer schedules")
	}
	r.Count("race_schedules", d.Executions)
	r.Count("race_schedule_points_max", int64(d.MaxPoints))
	r.Set("race_preemption_bound", bound)
}
