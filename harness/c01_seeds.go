package main

import (
	"bytes"
	"encoding/binary"
	"fmt"
	"math"
	"math/big"
	"strings"

	bitfield "github.com/OffchainLabs/go-bitfield"
	"github.com/ethereum/go-ethereum/core/types"
	"github.com/ethereum/go-ethereum/rlp"
	"github.com/protolambda/zrnt/eth2/beacon/altair"
	"github.com/protolambda/zrnt/eth2/beacon/capella"
	zc "github.com/protolambda/zrnt/eth2/beacon/common"
	"github.com/protolambda/zrnt/eth2/beacon/deneb"
	"github.com/protolambda/zrnt/eth2/beacon/electra"
	"github.com/protolambda/zrnt/eth2/configs"
	"github.com/protolambda/ztyp/codec"
	"github.com/protolambda/ztyp/tree"
	"github.com/zen-eth/shisui/portalwire"
	pingext "github.com/zen-eth/shisui/portalwire/ping_ext"
	tbeacon "github.com/zen-eth/shisui/types/beacon"
	thistory "github.com/zen-eth/shisui/types/history"
)

var c01Nets = []string{"history", "beacon", "state"}

// c01Item is one (content key, content) pair of a network, genuine unless its name says synthetic.
type c01Item struct {
	Name    string
	Key     []byte
	Content []byte
	Stored  bool          // put into the populated store
	Header  *types.Header // what an honest header source serves for it (history, state)
	Root    []byte        // the finalized beacon state root that proves it (historical summaries)
	Ints    []int         // offsets of the 8-byte integer fields of Key
}

type c01Corpus struct {
	items     map[string][]*c01Item
	ephemeral [][2][]byte // the ephemeral header index of the populated history node
	fixed     *types.Header
	summaries capella.HistoricalSummaries
}

func (c *c01Corpus) item(net, name string) *c01Item {
	for _, it := range c.items[net] {
		if it.Name == name {
			return it
		}
	}
	return nil
}

func zser(v interface {
	Serialize(spec *zc.Spec, w *codec.EncodingWriter) error
}) []byte {
	var buf bytes.Buffer
	if err := v.Serialize(configs.Mainnet, codec.NewEncodingWriter(&buf)); err != nil {
		panic(err)
	}
	return buf.Bytes()
}

func u64key(sel byte, vals ...uint64) []byte {
	k := []byte{sel}
	for _, v := range vals {
		k = binary.LittleEndian.AppendUint64(k, v)
	}
	return k
}

func c01LoadCorpus() *c01Corpus {
	c := &c01Corpus{items: map[string][]*c01Item{}}
	add := func(net string, it *c01Item) { c.items[net] = append(c.items[net], it) }

	// history: the smallest C02 seed of every kind among the mainnet vectors, the Shanghai
	// synthetic body, and the ephemeral offer type
	h := c02LoadCorpus()
	c.summaries, c.fixed = h.Summaries, h.Blocks[0].Header
	for _, kind := range []string{"header-by-hash", "header-by-number", "body", "receipts"} {
		var best *c02Seed
		for _, s := range h.Seeds {
			if strings.HasPrefix(s.Name, "mainnet-") && strings.HasSuffix(s.Name, "/"+kind) && len(s.Content) > 0 && (best == nil || len(s.Content) < len(best.Content)) {
				best = s
			}
		}
		it := &c01Item{Name: best.Name, Key: best.Key, Content: best.Content, Stored: true, Header: best.Block.Header}
		if kind == "header-by-number" {
			it.Ints = []int{1}
		}
		add("history", it)
	}
	// one header item per proof era (the smallest above is pre-merge): historical roots,
	// historical summaries with the Capella and with the Deneb proof shape
	for _, era := range [][2]uint64{{15_537_394, 17_034_870}, {17_034_870, 19_426_587}, {19_426_587, 1 << 62}} {
		var best *c02Seed
		for _, s := range h.Seeds {
			if n := s.Block.Header.Number.Uint64(); strings.HasPrefix(s.Name, "mainnet-") && strings.HasSuffix(s.Name, "/header-by-hash") && n >= era[0] && n < era[1] && len(s.Content) > 0 && (best == nil || len(s.Content) < len(best.Content)) {
				best = s
			}
		}
		if best != nil {
			add("history", &c01Item{Name: best.Name, Key: best.Key, Content: best.Content, Stored: true, Header: best.Block.Header})
		}
	}
	for _, s := range h.Seeds {
		if s.Name == "synth-shanghai-3tx-1unc/body" || s.Name == "synth-legacy-3tx-0unc/receipts" {
			add("history", &c01Item{Name: s.Name, Key: s.Key, Content: s.Content, Stored: true, Header: s.Block.Header})
		}
	}
	var chain []*types.Header
	for i := 0; i < 3; i++ {
		hd := &types.Header{Number: big.NewInt(int64(22_000_000 + i)), Difficulty: big.NewInt(0), Extra: []byte("c01 ephemeral")}
		if i > 0 {
			hd.ParentHash = chain[i-1].Hash()
		}
		chain = append(chain, hd)
		enc, _ := rlp.EncodeToBytes(hd)
		c.ephemeral = append(c.ephemeral, [2][]byte{hd.Hash().Bytes(), binary.BigEndian.AppendUint64(nil, hd.Number.Uint64())},
			[2][]byte{binary.BigEndian.AppendUint64(nil, hd.Number.Uint64()), enc})
	}
	tip, _ := rlp.EncodeToBytes(chain[2])
	offered, _ := (&thistory.OfferEphemeralHeader{Header: tip}).MarshalSSZ()
	add("history", &c01Item{Name: "synthetic ephemeral header offer", Key: append([]byte{byte(thistory.OfferEphemeralType)}, chain[2].Hash().Bytes()...), Content: offered, Stored: true})
	// what the ephemeral store reads its keys as: block hash + ancestor count
	add("history", &c01Item{Name: "synthetic ephemeral headers request", Key: append(append([]byte{byte(thistory.OfferEphemeralType)}, chain[2].Hash().Bytes()...), 2), Content: offered})
	add("history", &c01Item{Name: "synthetic ephemeral headers find key", Key: append(append([]byte{byte(thistory.FindContentEphemeralType)}, chain[2].Hash().Bytes()...), 2), Content: offered})

	// beacon: the repository's genuine vectors (Capella light client objects, Electra
	// historical summaries) and zero-valued Electra objects that the validator accepts
	for _, f := range []struct {
		file string
		ints []int
	}{{"light_client_bootstrap.json", nil}, {"light_client_updates_by_range.json", []int{1, 9}}, {"light_client_finality_update.json", []int{1}},
		{"light_client_optimistic_update.json", []int{1}}, {"historical_summaries_with_proof.yaml", []int{1}}} {
		key, val := beaconSeeds(f.file, "content_key")()[0], beaconSeeds(f.file, "content_value")()[0]
		it := &c01Item{Name: "genuine " + strings.TrimSuffix(strings.TrimSuffix(f.file, ".json"), ".yaml"), Key: key, Content: val, Stored: true, Ints: f.ints}
		if key[0] == 0x14 {
			var p tbeacon.ForkedHistoricalSummariesWithProof
			if err := p.Deserialize(configs.Mainnet, codec.NewDecodingReader(bytes.NewReader(val), uint64(len(val)))); err != nil {
				panic(err)
			}
			leaf := p.HistoricalSummariesWithProof.HistoricalSummaries.HashTreeRoot(configs.Mainnet, tree.GetHashFn())
			var branch []byte
			for _, r := range p.HistoricalSummariesWithProof.Proof.Proof[:5] { // the validator walks 5 levels from generalized index 59
				branch = append(branch, r[:]...)
			}
			it.Root = foldBranch(leaf[:], branch, 59)
		}
		add("beacon", it)
	}
	electraDigest := tbeacon.Electra
	boot := &electra.LightClientBootstrap{}
	boot.CurrentSyncCommittee.Pubkeys = make([]zc.BLSPubkey, configs.Mainnet.SYNC_COMMITTEE_SIZE)
	boot.Header.Beacon.Slot = math.MaxUint64 // the validator's "not older than four months" test wraps around at the bubble's clock (year 2000)
	add("beacon", &c01Item{Name: "synthetic electra bootstrap", Key: append([]byte{0x10}, bytes.Repeat([]byte{0xb0}, 32)...),
		Content: zser(&tbeacon.ForkedLightClientBootstrap{ForkDigest: electraDigest, Bootstrap: boot})})
	fin := &electra.LightClientFinalityUpdate{SyncAggregate: altair.SyncAggregate{SyncCommitteeBits: make([]byte, configs.Mainnet.SYNC_COMMITTEE_SIZE/8)}}
	fin.FinalizedHeader.Beacon.Slot, fin.AttestedHeader.Beacon.Slot, fin.SignatureSlot = 9_000_000, 9_000_064, 9_000_065
	add("beacon", &c01Item{Name: "synthetic electra finality update", Key: u64key(0x12, 9_000_000), Ints: []int{1},
		Content: zser(&tbeacon.ForkedLightClientFinalityUpdate{ForkDigest: electraDigest, LightClientFinalityUpdate: fin})})
	opt := &deneb.LightClientOptimisticUpdate{SyncAggregate: fin.SyncAggregate}
	opt.AttestedHeader.Beacon.Slot, opt.SignatureSlot = 9_000_064, 9_000_065
	add("beacon", &c01Item{Name: "synthetic electra optimistic update", Key: u64key(0x13, 9_000_065), Ints: []int{1},
		Content: zser(&tbeacon.ForkedLightClientOptimisticUpdate{ForkDigest: electraDigest, LightClientOptimisticUpdate: opt})})

	// state: the deepest account trie node, the deepest storage trie node and a bytecode of the 4-account C13 world
	best := map[byte]*c13Base{}
	for _, b := range c13World(4, true) {
		b := b
		if o := best[b.c.Kind]; b.genuine && (o == nil || len(b.c.Proof)+len(b.c.Code) > len(o.c.Proof)+len(o.c.Code)) {
			best[b.c.Kind] = &b
		}
	}
	for _, kind := range []byte{0x20, 0x21, 0x22} {
		cs := best[kind].c
		key, val := cs.wire()
		add("state", &c01Item{Name: c13KindName[kind] + " of " + cs.Base, Key: key, Content: val, Stored: true, Header: &types.Header{Root: [32]byte(cs.Roots[cs.Block.String()])}})
	}
	return c
}

// ---- byte-string seeds: requests and responses ----

type c01Seed struct {
	Name string
	B    []byte
	Ints []int // offsets of 8-byte integer fields
	Sels []int // offsets of content-key selector bytes
}

func c01SSZ(code byte, m interface{ MarshalSSZ() ([]byte, error) }) []byte {
	b, err := m.MarshalSSZ()
	if err != nil {
		panic(err)
	}
	return append([]byte{code}, b...)
}

var c01Radius = bytes.Repeat([]byte{0xff}, 32)

// c01PingLike: PING (code 0) and PONG (code 1) have the same layout.
func c01PingLike(code byte, kind string) (out []c01Seed) {
	mk := func(name string, seq uint64, typ uint16, payload []byte) {
		out = append(out, c01Seed{Name: kind + "/" + name, Ints: []int{1}, B: c01SSZ(code, &portalwire.Ping{EnrSeq: seq, PayloadType: typ, Payload: payload})})
	}
	for _, t := range []uint16{pingext.ClientInfo, pingext.BasicRadius, pingext.HistoryRadius, pingext.Error} {
		mk(fmt.Sprintf("type-%d", t), 1, t, c20Payload(t, c01Radius))
	}
	mk("type-4660-unknown", 1, 0x1234, nil)
	mk("type-0-undecodable-payload", 1, pingext.ClientInfo, []byte{1, 2, 3})
	mk("type-0-newer-record", 2, pingext.ClientInfo, c20Payload(pingext.ClientInfo, c01Radius))
	return
}

func c01OfferSeed(name string, keys [][]byte) c01Seed {
	s := c01Seed{Name: name, B: c01SSZ(portalwire.OFFER, &portalwire.Offer{ContentKeys: keys})}
	for i := range keys {
		s.Sels = append(s.Sels, 1+4+int(binary.LittleEndian.Uint32(s.B[5+4*i:])))
	}
	return s
}

func c01ManyKeys(k []byte, n int) (keys [][]byte) {
	for i := 0; i < n; i++ {
		m := append([]byte{}, k...)
		m[len(m)-1] ^= byte(i + 1)
		keys = append(keys, m)
	}
	return
}

func (c *c01Corpus) requestSeeds(net string) []c01Seed {
	out := c01PingLike(portalwire.PING, "ping")
	dist := func(name string, ds ...uint16) {
		req := &portalwire.FindNodes{}
		for _, d := range ds {
			req.Distances = append(req.Distances, [2]byte{byte(d), byte(d >> 8)})
		}
		out = append(out, c01Seed{Name: "findnodes/" + name, B: c01SSZ(portalwire.FINDNODES, req)})
	}
	all := make([]uint16, 256)
	for i := range all {
		all[i] = uint16(i)
	}
	dist("0-distances")
	dist("distance-0", 0)
	dist("distance-256", 256)
	dist("distances-0-1-255-256-257", 0, 1, 255, 256, 257)
	dist("256-distances", all...)
	var keys [][]byte
	for _, it := range c.items[net] {
		s := c01Seed{Name: "findcontent/" + it.Name, B: c01SSZ(portalwire.FINDCONTENT, &portalwire.FindContent{ContentKey: it.Key}), Sels: []int{5}}
		for _, o := range it.Ints {
			s.Ints = append(s.Ints, 5+o)
		}
		out = append(out, s, c01OfferSeed("offer/"+it.Name, [][]byte{it.Key}))
		keys = append(keys, it.Key)
	}
	first := c.items[net][0].Key
	out = append(out, c01Seed{Name: "findcontent/absent key", B: c01SSZ(portalwire.FINDCONTENT, &portalwire.FindContent{ContentKey: c01ManyKeys(first, 1)[0]}), Sels: []int{5}},
		c01OfferSeed("offer/every item", keys), c01OfferSeed("offer/64 keys", c01ManyKeys(first, 64)), c01OfferSeed("offer/0 keys", nil))
	return out
}

// responseSeeds: well-formed TALKRESP payloads per processor ("pong", "nodes", "content", "accept").
func (c *c01Corpus) responseSeeds(h *c01Host, net string) map[string][]c01Seed {
	recs := func(n int) (out [][]byte) {
		for _, p := range h.peers[:n] {
			b, _ := rlp.EncodeToBytes(p.Record())
			out = append(out, b)
		}
		return
	}
	m := map[string][]c01Seed{"pong": c01PingLike(portalwire.PONG, "pong")}
	for _, n := range []int{0, 1, 32} {
		m["nodes"] = append(m["nodes"], c01Seed{Name: fmt.Sprintf("nodes/%d-records", n), B: c01SSZ(portalwire.NODES, &portalwire.Nodes{Total: 1, Enrs: recs(n)})})
		b, _ := (&portalwire.Enrs{Enrs: recs(n)}).MarshalSSZ()
		m["content"] = append(m["content"], c01Seed{Name: fmt.Sprintf("content/enrs-%d-records", n), B: append([]byte{portalwire.CONTENT, portalwire.ContentEnrsSelector}, b...)})
	}
	m["content"] = append(m["content"], c01Seed{Name: "content/connection-id", B: []byte{portalwire.CONTENT, portalwire.ContentConnIdSelector, 0x12, 0x34}})
	for _, n := range []int{0, 1, 1100} {
		m["content"] = append(m["content"], c01Seed{Name: fmt.Sprintf("content/raw-%d-bytes", n), B: append([]byte{portalwire.CONTENT, portalwire.ContentRawSelector}, fillBytes(n, 0xc5)...)})
	}
	nk := len(c.items[net])
	for _, shape := range []struct {
		name string
		n    int
		acc  func(i int) bool
	}{{"none", nk, func(int) bool { return false }}, {"all", nk, func(int) bool { return true }}, {"first", nk, func(i int) bool { return i == 0 }},
		{"one-short", nk - 1, func(int) bool { return true }}, {"one-long", nk + 1, func(int) bool { return true }}} {
		bits, codes := bitfield.NewBitlist(uint64(shape.n)), make([]uint8, shape.n)
		for i := range codes {
			bits.SetBitAt(uint64(i), shape.acc(i))
			if !shape.acc(i) {
				codes[i] = uint8(1 + i%6) // every decline code in turn
			}
		}
		m["accept"] = append(m["accept"], c01Seed{Name: "accept/v0-" + shape.name, B: c01SSZ(portalwire.ACCEPT, &portalwire.Accept{ConnectionId: []byte{0x12, 0x34}, ContentKeys: bits})},
			c01Seed{Name: "accept/v1-" + shape.name, B: c01SSZ(portalwire.ACCEPT, &portalwire.AcceptV1{ConnectionId: []byte{0x12, 0x34}, ContentKeys: codes})})
	}
	return m
}

// c01OfferRequest: what our own OFFER carried, for processOffer.
func (c *c01Corpus) offerRequest(net, kind string) *portalwire.OfferRequest {
	var keys [][]byte
	var entries []*portalwire.ContentEntry
	for _, it := range c.items[net] {
		keys = append(keys, it.Key)
		entries = append(entries, &portalwire.ContentEntry{ContentKey: it.Key, Content: it.Content})
	}
	switch kind {
	case "transient":
		return &portalwire.OfferRequest{Kind: portalwire.TransientOfferRequestKind, Request: &portalwire.TransientOfferRequest{Contents: entries}}
	case "transient-with-result": // the result channel has room: nobody is reading it here
		return &portalwire.OfferRequest{Kind: portalwire.TransientOfferRequestWithResultKind, Request: &portalwire.TransientOfferRequestWithResult{Content: entries[0], Result: make(chan *portalwire.OfferTrace, 4)}}
	}
	return &portalwire.OfferRequest{Kind: portalwire.PersistOfferRequestKind, Request: &portalwire.PersistOfferRequest{ContentKeys: keys}}
}

// ---- mutation operators ----

// c01Shorts: every byte string of length 0..maxLen.
func c01Shorts(maxLen int, emit func([]byte)) {
	emit([]byte{})
	for l := 1; l <= maxLen; l++ {
		for v := 0; v < 1<<(8*l); v++ {
			b := make([]byte, l)
			for i := range b {
				b[i] = byte(v >> (8 * (l - 1 - i)))
			}
			emit(b)
		}
	}
}

// c01Mutants: every 1-point mutant of s: the C14 operators (truncation, extension, offset
// windows and, if bytesToo, single bytes), the message code (byte 0, if code) and every
// content-key selector replaced by all 256 values, every 8-byte integer field replaced by
// the boundary values.
func c01Mutants(s c01Seed, code, bytesToo bool, emit func([]byte)) {
	c14MutantsOf(s.B, len(s.B) <= 4096, bytesToo, emit)
	set := func(off int, v byte) {
		if off < len(s.B) && s.B[off] != v {
			m := append([]byte{}, s.B...)
			m[off] = v
			emit(m)
		}
	}
	for v := 0; v < 256; v++ {
		if code {
			set(0, byte(v))
		}
		for _, off := range s.Sels {
			set(off, byte(v))
		}
	}
	for _, off := range s.Ints {
		if off+8 > len(s.B) {
			continue
		}
		old := binary.LittleEndian.Uint64(s.B[off:])
		for _, v := range []uint64{0, 1, 2, old - 1, old + 1, 1<<63 - 1, 1 << 63, 1<<63 + 1, -old - 1, -old, -old + 1, math.MaxUint64 - 1, math.MaxUint64} {
			if v != old {
				m := append([]byte{}, s.B...)
				binary.LittleEndian.PutUint64(m[off:], v)
				emit(m)
			}
		}
	}
}
