package main

import (
	"bytes"
	"encoding/binary"
	"encoding/hex"
	"encoding/json"
	"fmt"
	"reflect"
	"sort"
	"strconv"
	"strings"

	"github.com/OffchainLabs/go-bitfield"
	"verifharness/mc"
)

// C14 — wire messages round-trip and decode canonically within their limits.
//
// For every codec: (1) a product of per-field boundary values (lengths/counts in and
// just over the declared limits) is encoded and decoded back; (2) every byte string
// up to a small length, and every truncation / extension / offset-window / byte
// mutant of the canonical encodings from (1), is decoded: whatever decodes must
// re-encode to the identical bytes and respect every declared limit.

func init() {
	register(&Prop{ID: "C14", Level: "exploration", Run: runC14, Replay: replayC14,
		Workers: func(e *Env) int { return minInt(cpus(), 12) }})
}

type codecVal struct {
	V       any // pointer to struct (or whatever enc accepts)
	InLimit bool
	Desc    string
}

// class: the input class of a value (e.g. which arm of a tagged container it takes) - the first
// word of its description, for the codecs that say so; part of the value-pass fingerprint site.
func (c *codecT) class(cv codecVal) string {
	if !c.DescClass {
		return ""
	}
	return strings.SplitN(cv.Desc, " ", 2)[0]
}

type codecT struct {
	Name     string
	New      func() any
	Enc      func(v any) ([]byte, error)
	Dec      func(b []byte) (any, error)
	Vals     func() []codecVal
	Limits   func(v any) string // "" if the decoded value respects the declared limits
	ShortLen int                // all byte strings up to this length are tried
	Canon    func(v any) string // canonical value rendering for equality
	Seeds    func() [][]byte    // genuine encodings (bytes -> value -> bytes must be the identity)
	// SynthIdentityOnly: the encoding of every synthetic value is itself decoded and re-encoded
	// (bytes -> value -> bytes), whatever its length, and encodings
	// up to MutCap bytes also get the mutant pass in the quick tier (all of them in the thorough
	// tier); see c14BeaconMutants in c14_beacon_forks.go.
	SynthIdentityOnly bool
	MutCap            int
	// DescClass: the first word of every value description names the value's input class
	DescClass bool
}

var codecs []*codecT

type c14Case struct {
	Codec string `json:"codec"`
	Kind  string `json:"kind"` // "value" | "bytes"
	Desc  string `json:"desc,omitempty"`
	Bytes string `json:"bytes,omitempty"`
}

// ---------- reflection-driven support for fastssz structs ----------

type sszMarshaler interface {
	MarshalSSZ() ([]byte, error)
	UnmarshalSSZ([]byte) error
}

type dims struct {
	max  []string // ssz-max parts
	size []string // ssz-size parts
	bits bool
}

func parseTag(f reflect.StructField) dims {
	var d dims
	if v := f.Tag.Get("ssz-max"); v != "" {
		d.max = strings.Split(v, ",")
	}
	if v := f.Tag.Get("ssz-size"); v != "" {
		d.size = strings.Split(v, ",")
	}
	d.bits = f.Tag.Get("ssz") == "bitlist"
	return d
}

func atoi(s string) int { n, _ := strconv.Atoi(s); return n }

// fieldChoice is one boundary value for a field.
type fieldChoice struct {
	set   func(f reflect.Value)
	in    bool
	desc  string
	bytes int
}

const c14BigLimit = 1 << 16 // limits above this are not reached (stated in evidence)

func byteFill(n int, seed byte) []byte {
	b := make([]byte, n)
	for i := range b {
		b[i] = seed + byte(i*7)
	}
	return b
}

// c14Siblings: the other numeric limits of the struct whose fields are being enumerated. A limit
// too large to reach is still probed at its siblings' values (a decoder that checks a field
// against its neighbour's limit is exactly wrong there).
var c14Siblings []int

func lenMenu(max int) []int {
	if max > c14BigLimit {
		out := []int{0, 1, 33, 1000}
		for _, l := range c14Siblings {
			if l > 1000 && l < max && l <= 1<<20 {
				out = append(out, l, l+1)
			}
		}
		return out
	}
	m := map[int]bool{0: true, 1: true, max - 1: true, max: true, max + 1: true}
	var out []int
	for k := range m {
		if k >= 0 {
			out = append(out, k)
		}
	}
	sort.Ints(out)
	return out
}

func cntMenu(max int) []int {
	if max > c14BigLimit {
		return []int{0, 1, 2, 5}
	}
	m := map[int]bool{0: true, 1: true, 2: true, max: true, max + 1: true}
	var out []int
	for k := range m {
		if k >= 0 {
			out = append(out, k)
		}
	}
	sort.Ints(out)
	return out
}

func fieldChoices(f reflect.StructField) []fieldChoice {
	d := parseTag(f)
	t := f.Type
	var out []fieldChoice
	switch {
	case t.Kind() == reflect.Uint64 || t.Kind() == reflect.Uint16 || t.Kind() == reflect.Uint8 || t.Kind() == reflect.Uint32:
		maxv := uint64(1)<<(8*uint(t.Size())) - 1
		if t.Size() == 8 {
			maxv = ^uint64(0)
		}
		for _, v := range []uint64{0, 1, maxv} {
			v := v
			out = append(out, fieldChoice{func(fv reflect.Value) { fv.SetUint(v) }, true, fmt.Sprintf("%s=%d", f.Name, v), 8})
		}
	case t.Kind() == reflect.Slice && t.Elem().Kind() == reflect.Uint8 && d.bits:
		max := atoi(d.max[0])
		for _, n := range []int{0, 1, 7, 8, 9, max - 1, max, max + 1} {
			n := n
			for _, pat := range []int{0, 1} {
				pat := pat
				out = append(out, fieldChoice{func(fv reflect.Value) {
					bl := bitfield.NewBitlist(uint64(n))
					for i := 0; i < n; i++ {
						if pat == 1 || i%3 == 0 {
							bl.SetBitAt(uint64(i), true)
						}
					}
					fv.SetBytes(bl)
				}, n <= max, fmt.Sprintf("%s=bitlist(%d,p%d)", f.Name, n, pat), n/8 + 1})
			}
		}
	case t.Kind() == reflect.Slice && t.Elem().Kind() == reflect.Uint8:
		if len(d.size) == 1 {
			n := atoi(d.size[0])
			for _, l := range []int{n, n - 1, n + 1, 0} {
				l := l
				out = append(out, fieldChoice{func(fv reflect.Value) { fv.SetBytes(byteFill(l, 0x11)) }, l == n, fmt.Sprintf("%s=bytes(%d)", f.Name, l), l})
			}
		} else {
			max := atoi(d.max[0])
			for _, l := range lenMenu(max) {
				l := l
				out = append(out, fieldChoice{func(fv reflect.Value) { fv.SetBytes(byteFill(l, 0x21)) }, l <= max, fmt.Sprintf("%s=bytes(%d)", f.Name, l), l})
			}
		}
	case t.Kind() == reflect.Slice && t.Elem().Kind() == reflect.Slice && t.Elem().Elem().Kind() == reflect.Uint8:
		// [][]byte
		type pair struct {
			cnt, el int
			in      bool
		}
		var ps []pair
		switch {
		case len(d.size) == 2 && d.size[0] != "?": // fixed vector of fixed
			c, n := atoi(d.size[0]), atoi(d.size[1])
			ps = []pair{{c, n, true}, {c - 1, n, false}, {c + 1, n, false}, {c, n - 1, false}, {c, n + 1, false}}
		case len(d.size) == 2: // list (max) of fixed
			c, n := atoi(d.max[0]), atoi(d.size[1])
			for _, k := range cntMenu(c) {
				ps = append(ps, pair{k, n, k <= c})
			}
			ps = append(ps, pair{1, n - 1, false}, pair{1, n + 1, false}, pair{2, n + 1, false})
		default: // list of lists
			c, m := atoi(d.max[0]), atoi(d.max[1])
			for _, k := range cntMenu(c) {
				for _, l := range lenMenu(m) {
					if k == 0 && l != 0 {
						continue
					}
					if k*l > 4<<20 {
						continue
					}
					ps = append(ps, pair{k, l, k <= c && (k == 0 || l <= m)})
				}
			}
		}
		for _, p := range ps {
			p := p
			if p.cnt < 0 || p.el < 0 {
				continue
			}
			out = append(out, fieldChoice{func(fv reflect.Value) {
				s := make([][]byte, p.cnt)
				for i := range s {
					s[i] = byteFill(p.el, byte(0x31+i))
				}
				fv.Set(reflect.ValueOf(s))
			}, p.in, fmt.Sprintf("%s=%dx bytes(%d)", f.Name, p.cnt, p.el), p.cnt * (p.el + 4)})
		}
		// mixed element lengths (first empty, last long) for list-of-lists
		if len(d.size) == 0 && len(d.max) == 2 {
			m := atoi(d.max[1])
			if m > c14BigLimit {
				m = 1000
			}
			out = append(out, fieldChoice{func(fv reflect.Value) {
				fv.Set(reflect.ValueOf([][]byte{{}, byteFill(1, 1), {}, byteFill(m, 2)}))
			}, true, f.Name + "=mixed[0,1,0,max]", m + 20})
		}
	case t.Kind() == reflect.Slice && t.Elem().Kind() == reflect.Array: // [][2]byte
		c := atoi(d.max[0])
		for _, k := range cntMenu(c) {
			k := k
			out = append(out, fieldChoice{func(fv reflect.Value) {
				s := reflect.MakeSlice(t, k, k)
				for i := 0; i < k; i++ {
					for j := 0; j < t.Elem().Len(); j++ {
						s.Index(i).Index(j).SetUint(uint64((i + j) & 0xff))
					}
				}
				fv.Set(s)
			}, k <= c, fmt.Sprintf("%s=%dx[%d]byte", f.Name, k, t.Elem().Len()), k * 2})
		}
	default:
		panic("c14: unsupported field type " + t.String() + " in " + f.Name)
	}
	return out
}

func sszStructCodec(name string, proto any) *codecT {
	rt := reflect.TypeOf(proto).Elem()
	c := &codecT{Name: name, ShortLen: 2}
	c.New = func() any { return reflect.New(rt).Interface() }
	c.Enc = func(v any) ([]byte, error) { return v.(sszMarshaler).MarshalSSZ() }
	c.Dec = func(b []byte) (any, error) {
		v := c.New()
		err := v.(sszMarshaler).UnmarshalSSZ(b)
		return v, err
	}
	c.Canon = canonStruct
	c.Limits = func(v any) string { return structLimits(reflect.ValueOf(v).Elem()) }
	c.Vals = func() []codecVal {
		var per [][]fieldChoice
		c14Siblings = nil
		for i := 0; i < rt.NumField(); i++ {
			d := parseTag(rt.Field(i))
			for _, m := range append(append([]string{}, d.max...), d.size...) {
				if n, err := strconv.Atoi(m); err == nil {
					c14Siblings = append(c14Siblings, n)
				}
			}
		}
		for i := 0; i < rt.NumField(); i++ {
			per = append(per, fieldChoices(rt.Field(i)))
		}
		c14Siblings = nil
		var out []codecVal
		idx := make([]int, len(per))
		for {
			v := reflect.New(rt)
			in := true
			var desc []string
			size := 0
			for i, ch := range per {
				fc := ch[idx[i]]
				fc.set(v.Elem().Field(i))
				in = in && fc.in
				desc = append(desc, fc.desc)
				size += fc.bytes
			}
			if size <= 8<<20 {
				out = append(out, codecVal{V: v.Interface(), InLimit: in, Desc: strings.Join(desc, " ")})
			}
			k := 0
			for k < len(idx) {
				idx[k]++
				if idx[k] < len(per[k]) {
					break
				}
				idx[k] = 0
				k++
			}
			if k == len(idx) {
				break
			}
		}
		return out
	}
	return c
}

func canonValue(v reflect.Value) string {
	switch v.Kind() {
	case reflect.Ptr, reflect.Interface:
		if v.IsNil() {
			return "nil"
		}
		return canonValue(v.Elem())
	case reflect.Struct:
		var sb strings.Builder
		sb.WriteString("{")
		for i := 0; i < v.NumField(); i++ {
			if !v.Type().Field(i).IsExported() {
				continue
			}
			sb.WriteString(v.Type().Field(i).Name + ":" + canonValue(v.Field(i)) + ";")
		}
		sb.WriteString("}")
		return sb.String()
	case reflect.Slice, reflect.Array:
		if v.Type().Elem().Kind() == reflect.Uint8 {
			b := make([]byte, v.Len())
			for i := range b {
				b[i] = byte(v.Index(i).Uint())
			}
			return hex.EncodeToString(b)
		}
		var sb strings.Builder
		sb.WriteString("[")
		for i := 0; i < v.Len(); i++ {
			sb.WriteString(canonValue(v.Index(i)) + ",")
		}
		sb.WriteString("]")
		return sb.String()
	case reflect.Uint8, reflect.Uint16, reflect.Uint32, reflect.Uint64, reflect.Uint:
		return strconv.FormatUint(v.Uint(), 10)
	case reflect.Int, reflect.Int64, reflect.Int32:
		return strconv.FormatInt(v.Int(), 10)
	case reflect.Bool:
		return strconv.FormatBool(v.Bool())
	case reflect.String:
		return strconv.Quote(v.String())
	}
	return fmt.Sprintf("?%s", v.Kind())
}

func canonStruct(v any) string { return canonValue(reflect.ValueOf(v)) }

func structLimits(v reflect.Value) string {
	t := v.Type()
	for i := 0; i < t.NumField(); i++ {
		f := t.Field(i)
		d := parseTag(f)
		fv := v.Field(i)
		switch {
		case fv.Kind() == reflect.Slice && f.Type.Elem().Kind() == reflect.Uint8 && d.bits:
			if fv.Len() == 0 {
				continue
			}
			if n := int(bitfield.Bitlist(fv.Bytes()).Len()); n > atoi(d.max[0]) {
				return fmt.Sprintf("%s: bitlist of %d bits > %s", f.Name, n, d.max[0])
			}
		case fv.Kind() == reflect.Slice && f.Type.Elem().Kind() == reflect.Uint8:
			if len(d.size) == 1 {
				if fv.Len() != atoi(d.size[0]) {
					return fmt.Sprintf("%s: %d bytes, fixed size %s", f.Name, fv.Len(), d.size[0])
				}
			} else if len(d.max) == 1 && fv.Len() > atoi(d.max[0]) {
				return fmt.Sprintf("%s: %d bytes > %s", f.Name, fv.Len(), d.max[0])
			}
		case fv.Kind() == reflect.Slice && f.Type.Elem().Kind() == reflect.Slice:
			cntMax, elMax, elFix := -1, -1, -1
			if len(d.size) == 2 && d.size[0] != "?" {
				if fv.Len() != atoi(d.size[0]) {
					return fmt.Sprintf("%s: %d elements, fixed %s", f.Name, fv.Len(), d.size[0])
				}
				elFix = atoi(d.size[1])
			} else if len(d.size) == 2 {
				cntMax, elFix = atoi(d.max[0]), atoi(d.size[1])
			} else {
				cntMax, elMax = atoi(d.max[0]), atoi(d.max[1])
			}
			if cntMax >= 0 && fv.Len() > cntMax {
				return fmt.Sprintf("%s: %d elements > %d", f.Name, fv.Len(), cntMax)
			}
			for j := 0; j < fv.Len(); j++ {
				l := fv.Index(j).Len()
				if elFix >= 0 && l != elFix {
					return fmt.Sprintf("%s[%d]: %d bytes, fixed %d", f.Name, j, l, elFix)
				}
				if elMax >= 0 && l > elMax {
					return fmt.Sprintf("%s[%d]: %d bytes > %d", f.Name, j, l, elMax)
				}
			}
		case fv.Kind() == reflect.Slice && f.Type.Elem().Kind() == reflect.Array:
			if fv.Len() > atoi(d.max[0]) {
				return fmt.Sprintf("%s: %d elements > %s", f.Name, fv.Len(), d.max[0])
			}
		}
	}
	return ""
}

// ---------- the generic checks ----------

// c14Held: the encoding handed out for the previous value of each codec, and a private copy of
// it. An encoding belongs to its caller: encoding another value afterwards must not change it
// (an encoder that returns a slice of a reused buffer passes every immediate round trip).
var c14Held = map[string][2][]byte{}

func c14Value(r *mc.Report, c *codecT, cv codecVal) (enc []byte) {
	cs := c14Case{Codec: c.Name, Kind: "value", Desc: cv.Desc}
	var err error
	vsite := c.Name
	if cl := c.class(cv); cl != "" {
		vsite += ":" + cl
	}
	if msg, site := panicsTo(func() { enc, err = c.Enc(cv.V) }); msg != "" {
		r.Violation("encode-no-panic", c.Name+":"+site, msg+" on "+cv.Desc, cs)
		return nil
	}
	if h, ok := c14Held[c.Name]; ok && !bytes.Equal(h[0], h[1]) {
		r.Violation("value-roundtrip", c.Name+":encoding-changed-by-a-later-encode", fmt.Sprintf("the %d bytes returned for the previous value changed when %s was encoded", len(h[1]), cv.Desc), cs)
		delete(c14Held, c.Name)
	}
	if err == nil {
		c14Held[c.Name] = [2][]byte{enc, append([]byte{}, enc...)}
	}
	if err != nil {
		if cv.InLimit {
			r.Violation("in-limit-value-encodes", vsite, fmt.Sprintf("%s: encode failed: %v", cv.Desc, err), cs)
		} else {
			r.Exec(c.Name + ":overlimit-refused")
		}
		return nil
	}
	var dec any
	var derr error
	if msg, site := panicsTo(func() { dec, derr = c.Dec(enc) }); msg != "" {
		r.Violation("decode-no-panic", c.Name+":"+site, msg+" on the encoding of "+cv.Desc, cs)
		return nil
	}
	if !cv.InLimit {
		if derr == nil {
			r.Violation("over-limit-rejected", vsite, fmt.Sprintf("%s: over-limit value encodes (%d bytes) and the decoder accepts it", cv.Desc, len(enc)), cs)
		} else {
			r.Exec(c.Name + ":overlimit-decoder-rejects")
		}
		return nil
	}
	if derr != nil {
		r.Violation("value-roundtrip", vsite, fmt.Sprintf("%s: own encoding (%d bytes) rejected: %v", cv.Desc, len(enc), derr), cs)
		return nil
	}
	if a, b := c.Canon(cv.V), c.Canon(dec); a != b {
		r.Violation("value-roundtrip", vsite, fmt.Sprintf("%s: decode(encode(v)) != v", cv.Desc), cs)
		return nil
	}
	r.Exec(c.Name + ":rt:" + cv.Desc)
	return enc
}

func c14Bytes(r *mc.Report, c *codecT, in []byte) {
	var dec any
	var derr error
	cs := func() c14Case { return c14Case{Codec: c.Name, Kind: "bytes", Bytes: hex.EncodeToString(in)} }
	if msg, site := panicsTo(func() { dec, derr = c.Dec(in) }); msg != "" {
		r.Violation("decode-no-panic", c.Name+":"+site, fmt.Sprintf("%s on %s", msg, hx(in)), cs())
		return
	}
	if derr != nil {
		r.Trivial()
		return
	}
	if l := c.Limits(dec); l != "" {
		r.Violation("limits-enforced-on-decode", c.Name, fmt.Sprintf("input %s decodes to a value beyond the declared limits: %s", hx(in), l), cs())
		return
	}
	var re []byte
	var eerr error
	if msg, site := panicsTo(func() { re, eerr = c.Enc(dec) }); msg != "" {
		r.Violation("encode-no-panic", c.Name+":"+site, fmt.Sprintf("%s re-encoding the value decoded from %s", msg, hx(in)), cs())
		return
	}
	if eerr != nil {
		r.Violation("decoded-reencodes-identically", c.Name, fmt.Sprintf("input %s decodes but the value does not encode: %v", hx(in), eerr), cs())
		return
	}
	if !bytes.Equal(re, in) {
		r.Violation("decoded-reencodes-identically", c.Name+":"+diffClass(in, re), fmt.Sprintf("input %s decodes, re-encodes to %s", hx(in), hx(re)), cs())
		return
	}
	r.Exec(c.Name + ":canon:" + strconv.Itoa(len(in)))
}

// diffClass names how an accepted input differs from its re-encoding (part of the
// fingerprint, so that a new kind of non-canonical acceptance is a new violation).
func diffClass(in, re []byte) string {
	if len(re) < len(in) && bytes.Equal(in[:len(re)], re) {
		if n := len(in) - len(re); n <= 8 {
			return fmt.Sprintf("accepted-with-%d-surplus-trailing-bytes", n)
		}
		return "accepted-with-more-than-8-surplus-trailing-bytes" // one class: the count would mint a fingerprint per length
	}
	i := 0
	for i < len(in) && i < len(re) && in[i] == re[i] {
		i++
	}
	if len(in) == len(re) {
		return fmt.Sprintf("same-length-differs-at-byte-%d", i)
	}
	return fmt.Sprintf("length-%+d-differs-at-byte-%d", len(re)-len(in), i)
}

// mutants of a canonical encoding
func c14Mutants(enc []byte, full bool, emit func([]byte)) { c14MutantsOf(enc, full, true, emit) }

// c14MutantsOf: truncations, extensions and offset windows; single-byte mutants only if bytesToo.
func c14MutantsOf(enc []byte, full, bytesToo bool, emit func([]byte)) {
	n := len(enc)
	clone := func() []byte { return append([]byte{}, enc...) }
	// truncations and extensions
	if n <= 400 || full {
		for l := 0; l < n; l++ {
			emit(enc[:l])
		}
	} else {
		for _, l := range []int{0, 1, 3, 4, 5, 7, 8, 9, n / 2, n - 33, n - 5, n - 4, n - 3, n - 2, n - 1} {
			if l >= 0 && l < n {
				emit(enc[:l])
			}
		}
	}
	emit(append(clone(), 0))
	emit(append(clone(), 0xff))
	emit(append(clone(), 0, 0))
	emit(append(clone(), 0, 0, 0, 0))
	// offset-like 4-byte windows
	lim := n
	if lim > 600 && !full {
		lim = 600
	}
	prev := uint32(0)
	for i := 0; i+4 <= lim; i++ {
		v := binary.LittleEndian.Uint32(enc[i:])
		if int(v) > n+8 {
			continue
		}
		for _, nv := range []uint32{v + 1, v - 1, v + 4, v - 4, 0, 4, uint32(i), uint32(i + 4), uint32(n), uint32(n + 1), prev - 1, 0xffffffff} {
			if nv == v {
				continue
			}
			m := clone()
			binary.LittleEndian.PutUint32(m[i:], nv)
			emit(m)
		}
		prev = v
	}
	// single bytes
	for i := 0; bytesToo && i < lim; i++ {
		for _, nv := range []byte{0, 1, 0x7f, 0x80, 0xff, enc[i] + 1, enc[i] ^ 0x01} {
			if nv == enc[i] {
				continue
			}
			m := clone()
			m[i] = nv
			emit(m)
		}
	}
}

func runC14(r *mc.Report, e *Env) {
	r.Rule = "value cases: product of per-field boundary lengths/counts, encode->decode->compare; byte cases: all strings up to a short length plus truncation/extension/offset-window/byte mutants of every canonical encoding; non-trivial = the decoder accepted the input (or a value round-tripped); distinct = distinct (codec, outcome, shape) observations"
	r.Assume("limits above 65536 (transaction, receipt, uncle and witness sizes) are not reached; those fields are exercised at 0/1/33/1000 bytes")
	r.Assume("byte strings longer than the short-length bound are covered only as single-point mutants of canonical encodings")
	r.Assume("fork-tagged beacon containers: one synthetic value per (container, fork arm, fill zero/pattern/ones, extra-data lengths 0/1/32 per header) with mainnet-preset sizes; update ranges: every fork sequence up to length 3 (4 in the thorough tier) plus 128/129 updates with the forks cycling; the Electra optimistic update is the Deneb container (the header did not change)")
	full := e.Thorough()
	c14Full = full
	caseNo := 0
	for _, c := range codecs {
		vals := c.Vals()
		nvals, nmut, nshort := 0, 0, 0
		for _, cv := range vals {
			caseNo++
			if !e.Mine(caseNo) {
				continue
			}
			enc := c14Value(r, c, cv)
			nvals++
			if cl := c.class(cv); cl != "" {
				r.Count("class_values:"+c.Name+":"+cl, 1)
			}
			if enc == nil {
				continue
			}
			mutCap := 20000
			if c.SynthIdentityOnly {
				if !c14BeaconMutants || (len(enc) > c.MutCap && !full) {
					c14Bytes(r, c, enc)
					r.Count("synthetic_encodings_identity_only", 1)
					continue
				}
				mutCap = c.MutCap
			}
			if len(enc) > mutCap && !full {
				continue
			}
			c14Bytes(r, c, enc)
			c14Mutants(enc, full && len(enc) < 5000, func(m []byte) {
				c14Bytes(r, c, m)
				nmut++
			})
		}
		if c.Seeds != nil {
			for i, seed := range c.Seeds() {
				caseNo++
				if !e.Mine(caseNo) {
					continue
				}
				nvals++
				before := r.Evaluations
				c14Bytes(r, c, seed)
				_ = before
				if dec, err := c.Dec(seed); err != nil {
					r.Violation("genuine-vector-decodes", c.Name, fmt.Sprintf("genuine vector %d (%d bytes) rejected: %v", i, len(seed), err), c14Case{Codec: c.Name, Kind: "bytes", Bytes: hex.EncodeToString(seed)})
					continue
				} else if d2, err := c.Dec(mustEnc(c, dec)); err != nil || c.Canon(d2) != c.Canon(dec) {
					r.Violation("value-roundtrip", c.Name, fmt.Sprintf("genuine vector %d: value -> bytes -> value differs", i), c14Case{Codec: c.Name, Kind: "bytes", Bytes: hex.EncodeToString(seed)})
				}
				c14Mutants(seed, false, func(m []byte) {
					c14Bytes(r, c, m)
					nmut++
				})
			}
		}
		// all short strings
		sl := c.ShortLen
		if full && sl < 3 {
			sl++
		}
		var rec func(prefix []byte)
		rec = func(prefix []byte) {
			caseNo++
			if e.Mine(caseNo) {
				c14Bytes(r, c, prefix)
				nshort++
			}
			if len(prefix) == sl {
				return
			}
			for b := 0; b < 256; b++ {
				rec(append(append([]byte{}, prefix...), byte(b)))
			}
		}
		rec(nil)
		r.Count("values", int64(nvals))
		r.Count("mutants", int64(nmut))
		r.Count("short_strings", int64(nshort))
		if e.Shard == 0 && len(vals) > 0 {
			r.Sample(map[string]any{"codec": c.Name, "value": vals[len(vals)/2].Desc, "in_limit": vals[len(vals)/2].InLimit})
		}
	}
	r.SetMaxSamples(8)
	r.Set("codecs", len(codecs))
	names := []string{}
	for _, c := range codecs {
		names = append(names, c.Name)
	}
	r.Set("codec_names", names)
}

func mustEnc(c *codecT, v any) []byte {
	b, err := c.Enc(v)
	if err != nil {
		return nil
	}
	return b
}

func replayC14(r *mc.Report, e *Env, raw json.RawMessage) {
	var cs c14Case
	if err := json.Unmarshal(raw, &cs); err != nil {
		panic(err)
	}
	c14Full = e.Thorough()
	for _, c := range codecs {
		if c.Name != cs.Codec {
			continue
		}
		if cs.Kind == "bytes" {
			b, _ := hex.DecodeString(cs.Bytes)
			c14Bytes(r, c, b)
			return
		}
		for _, cv := range c.Vals() {
			if cv.Desc == cs.Desc {
				c14Value(r, c, cv)
				return
			}
		}
	}
	fmt.Println("replay: case not found")
}
