// Command harness runs one property check of /verif against /repo.
//
//	harness -prop C15 -tier quick            run the check (parent; may fork workers)
//	harness -prop C15 -replay replays/x.json re-run one recorded case without the explorer
package main

import (
	"bytes"
	"encoding/json"
	"flag"
	"fmt"
	"github.com/ethereum/go-ethereum/metrics"
	"os"
	"os/exec"
	"path/filepath"
	"runtime"
	"sort"
	"strconv"
	"strings"
	"sync"
	"sync/atomic"
	"time"

	"verifharness/mc"
)

// Env is what a property body gets besides its report.
type Env struct {
	Tier      string
	Shard, Of int
	Seed      int64
	VerifDir  string
	Deadline  time.Time // internal deadline: stop, report exhaustive:false, exit 0
	curFile   string
	outFile   string         // partial report path (worker processes)
	skipUpTo  int64          // cases with Mark index <= skipUpTo are skipped after a crash restart
	killers   map[int64]bool // marked cases behind skipUpTo that killed an earlier attempt of this worker
	markIdx   int64
	report    *mc.Report  // worker processes: checkpointed on request
	wantPart  atomic.Bool // raised every few seconds of real time: checkpoint at the next Mark
	cur       *os.File    // curFile, kept open
	curLen    int         // length of the last description written to it
}

func (e *Env) Thorough() bool { return e.Tier == "thorough" }

// FinishNow writes the worker's partial report and exits the process at once. It is for
// one-case worker processes whose bubble cannot be left (library goroutines with
// tickers keep virtual time running for ever): the case is complete, the process is not
// worth saving. Outside a worker process it returns.
func (e *Env) FinishNow(r *mc.Report) {
	if e.outFile == "" {
		return
	}
	if err := r.WritePartial(e.outFile); err != nil {
		fmt.Fprintln(os.Stderr, err)
		os.Exit(3)
	}
	os.Exit(0)
}

// Mine deals flat enumerations out to workers: case i belongs to shard i%Of.
func (e *Env) Mine(i int) bool { return e.Of <= 1 || i%e.Of == e.Shard }

func (e *Env) Expired() bool { return !e.Deadline.IsZero() && time.Now().After(e.Deadline) }

// Mark records the case about to be executed so that the parent can name it if
// the worker process dies (a panic in a goroutine the harness cannot recover).
// It returns false if the case must be skipped (it killed a previous worker).
func (e *Env) Mark(desc func() string) bool {
	e.markIdx++
	if e.markIdx <= e.skipUpTo || e.killers[e.markIdx] {
		return false
	}
	if e.curFile != "" {
		if e.wantPart.CompareAndSwap(true, false) {
			// checkpoint: every case before this one is in the report. If the process dies the
			// parent merges the checkpoint and restarts the worker right behind it, so that a
			// death loses no result
			e.report.Set(checkpointKey, e.markIdx-1)
			if e.report.WritePartial(e.outFile+".part.tmp") == nil {
				os.Rename(e.outFile+".part.tmp", e.outFile+".part")
			}
		}
		// one pwrite per case on a file kept open (checks mark millions of cases); a shorter
		// description is padded with spaces to cover what the previous one left behind
		if e.cur == nil {
			e.cur, _ = os.Create(e.curFile)
		}
		b := []byte(strconv.FormatInt(e.markIdx, 10) + "\n" + desc())
		n := len(b)
		for len(b) < e.curLen {
			b = append(b, ' ')
		}
		e.cur.WriteAt(b, 0)
		e.curLen = n
	}
	return true
}

const checkpointKey = "checkpoint_mark"

type Prop struct {
	ID      string
	Level   string
	Workers func(e *Env) int // 0: run in the parent process
	Run     func(r *mc.Report, e *Env)
	Replay  func(r *mc.Report, e *Env, c json.RawMessage)
	// CrashSite: when non-nil a worker that dies is a violation of this property
	// (clause "no-panic"); it maps the stderr of the dead worker to a site.
	CrashIsViolation bool
	// Parallel bounds how many worker processes run at once (default: number of CPUs).
	Parallel int
	// Procs, when non-zero, is GOMAXPROCS for each worker process (bubble-based
	// checks run fastest with 1).
	Procs int
	// Budget is the internal deadline per tier.
	Budget func(tier string) time.Duration
}

var registry = map[string]*Prop{}

func register(p *Prop) { registry[p.ID] = p }

func verifDir() string {
	if d := os.Getenv("VERIF_DIR"); d != "" {
		return d
	}
	exe, _ := os.Executable()
	return filepath.Dir(filepath.Dir(exe)) // /verif/.build/harness -> /verif
}

func main() {
	// shisui --metrics: every "if metrics.Enabled()" branch of the code under test runs as well (the
	// branches only add counting; VERIF_METRICS=off runs without them)
	if os.Getenv("VERIF_METRICS") != "off" {
		metrics.Enable()
	}
	prop := flag.String("prop", "", "property id")
	tier := flag.String("tier", "quick", "quick|thorough")
	worker := flag.String("worker", "", "i/n (internal)")
	out := flag.String("out", "", "partial report path (internal)")
	skip := flag.Int64("skip-upto", 0, "skip marked cases up to this index (internal)")
	skipCases := flag.String("skip-cases", "", "marked cases to skip, comma-separated (internal)")
	replay := flag.String("replay", "", "replay file")
	list := flag.Bool("list", false, "list registered properties")
	flag.Parse()
	if *list {
		ids := []string{}
		for id := range registry {
			ids = append(ids, id)
		}
		sort.Strings(ids)
		fmt.Println(strings.Join(ids, " "))
		return
	}
	p := registry[*prop]
	if p == nil {
		fmt.Fprintln(os.Stderr, "unknown property", *prop)
		os.Exit(2)
	}
	seed, _ := strconv.ParseInt(os.Getenv("VERIF_SEED"), 10, 64)
	if t := os.Getenv("VERIF_TIER"); t != "" && !isFlagSet("tier") {
		*tier = t
	}
	env := &Env{Tier: *tier, Seed: seed, VerifDir: verifDir(), Of: 1}
	budget := 15 * time.Minute
	if *tier == "thorough" {
		budget = 60 * time.Minute
	}
	if p.Budget != nil {
		budget = p.Budget(*tier)
	}
	if b := os.Getenv("VERIF_BUDGET_S"); b != "" {
		if s, err := strconv.Atoi(b); err == nil {
			budget = time.Duration(s) * time.Second
		}
	}
	env.Deadline = time.Now().Add(budget)
	r := mc.NewReport(p.ID, *tier, p.Level, seed)

	if *replay != "" {
		b, err := os.ReadFile(*replay)
		if err != nil {
			fmt.Fprintln(os.Stderr, err)
			os.Exit(2)
		}
		var v mc.Violation
		if err := json.Unmarshal(b, &v); err != nil {
			fmt.Fprintln(os.Stderr, err)
			os.Exit(2)
		}
		if p.Replay == nil {
			fmt.Fprintln(os.Stderr, "property has no replay function")
			os.Exit(2)
		}
		p.Replay(r, env, v.Case)
		if len(r.Violations) == 0 {
			fmt.Println("REPLAY: no violation reproduced")
			os.Exit(0)
		}
		for _, v := range r.Violations {
			fmt.Printf("REPLAY: reproduced %s\n  %s\n", v.Fingerprint, v.Detail)
		}
		os.Exit(1)
	}

	if *worker != "" {
		fmt.Sscanf(*worker, "%d/%d", &env.Shard, &env.Of)
		env.curFile = *out + ".cur"
		env.outFile = *out
		env.skipUpTo, env.killers, env.report = *skip, map[int64]bool{}, r
		for _, k := range strings.Split(*skipCases, ",") {
			if i, err := strconv.ParseInt(k, 10, 64); err == nil {
				env.killers[i] = true
			}
		}
		go func() { // real time, also for checks whose cases run on a virtual clock
			for {
				time.Sleep(3 * time.Second)
				env.wantPart.Store(true)
			}
		}()
		p.Run(r, env)
		if env.Expired() {
			r.NotExhaustive("internal deadline reached")
		}
		if err := r.WritePartial(*out); err != nil {
			fmt.Fprintln(os.Stderr, err)
			os.Exit(3)
		}
		return
	}

	n := 0
	if p.Workers != nil && freeRuns == 0 { // the race-detector pass runs in this one process
		n = p.Workers(env)
	}
	if n == 0 {
		p.Run(r, env)
		if env.Expired() {
			r.NotExhaustive("internal deadline reached")
		}
		os.Exit(r.Finish(env.VerifDir))
	}
	os.Exit(runWorkers(p, r, env, n, budget))
}

func isFlagSet(name string) bool {
	set := false
	flag.Visit(func(f *flag.Flag) { set = set || f.Name == name })
	return set
}

func runWorkers(p *Prop, r *mc.Report, env *Env, n int, budget time.Duration) int {
	exe, _ := os.Executable()
	tmp, err := os.MkdirTemp(filepath.Join(env.VerifDir, ".build"), "run-"+p.ID+"-")
	if err != nil {
		fmt.Fprintln(os.Stderr, err)
		return 2
	}
	defer os.RemoveAll(tmp)
	var wg sync.WaitGroup
	var mu sync.Mutex
	infra := false
	par := cpus()
	if p.Parallel > 0 {
		par = p.Parallel
	}
	sem := make(chan struct{}, par) // n may exceed the cores: workers are short-lived tasks
	for i := 0; i < n; i++ {
		wg.Add(1)
		go func(i int) {
			defer wg.Done()
			sem <- struct{}{}
			defer func() { <-sem }()
			if time.Now().After(env.Deadline) {
				mu.Lock()
				r.NotExhaustive("internal deadline reached before every task was started")
				mu.Unlock()
				return
			}
			skip, killers := int64(0), []string{}
			for attempt := 0; attempt < 200; attempt++ {
				outp := filepath.Join(tmp, fmt.Sprintf("w%d.json", i))
				os.Remove(outp)
				os.Remove(outp + ".cur")
				os.Remove(outp + ".part")
				args := []string{"-prop", p.ID, "-tier", env.Tier, "-worker", fmt.Sprintf("%d/%d", i, n), "-out", outp, "-skip-upto", strconv.FormatInt(skip, 10), "-skip-cases", strings.Join(killers, ",")}
				cmd := exec.Command(exe, args...)
				cmd.Env = append(os.Environ(), "VERIF_DIR="+env.VerifDir, fmt.Sprintf("VERIF_BUDGET_S=%d", int(time.Until(env.Deadline).Seconds())+1))
				if p.Procs > 0 {
					cmd.Env = append(cmd.Env, fmt.Sprintf("GOMAXPROCS=%d", p.Procs))
				}
				var stderr bytes.Buffer
				cmd.Stderr = &tailWriter{buf: &stderr, max: 1 << 20}
				cmd.Stdout = os.Stdout
				done := make(chan error, 1)
				if err := cmd.Start(); err != nil {
					mu.Lock()
					infra = true
					fmt.Fprintln(os.Stderr, "worker start:", err)
					mu.Unlock()
					return
				}
				go func() { done <- cmd.Wait() }()
				var werr error
				select {
				case werr = <-done:
				case <-time.After(time.Until(env.Deadline) + 2*time.Minute):
					cmd.Process.Kill()
					<-done
					mu.Lock()
					r.EngineError(fmt.Sprintf("worker %d killed after the internal deadline", i))
					mu.Unlock()
					return
				}
				if werr == nil {
					mu.Lock()
					if err := r.MergeFile(outp); err != nil {
						infra = true
						fmt.Fprintln(os.Stderr, "merge:", err)
					}
					mu.Unlock()
					return
				}
				// the worker died
				cur, _ := os.ReadFile(outp + ".cur")
				if !p.CrashIsViolation || len(cur) == 0 {
					mu.Lock()
					infra = true
					fmt.Fprintf(os.Stderr, "worker %d died (%v); stderr tail:\n%s\n", i, werr, tailString(stderr.String(), 4000))
					mu.Unlock()
					return
				}
				parts := strings.SplitN(string(cur), "\n", 2)
				idx, _ := strconv.ParseInt(parts[0], 10, 64)
				desc := ""
				if len(parts) > 1 {
					desc = strings.TrimRight(parts[1], " ")
				}
				site, msg := panicSite(stderr.String())
				mu.Lock()
				r.Violation("no-panic", site, "process died while handling the case: "+msg, json.RawMessage(desc))
				r.Count("worker_deaths", 1)
				mu.Unlock()
				// what the dead worker had checkpointed counts; the next attempt resumes behind the
				// checkpoint and leaves out the cases that killed earlier attempts
				var part mc.Report
				if b, err := os.ReadFile(outp + ".part"); err == nil && json.Unmarshal(b, &part) == nil {
					if cp, ok := part.Extra[checkpointKey].(float64); ok {
						delete(part.Extra, checkpointKey)
						r.Merge(&part)
						skip = int64(cp)
					}
				}
				killers = append(killers, strconv.FormatInt(idx, 10))
			}
		}(i)
	}
	wg.Wait()
	if infra {
		fmt.Fprintln(os.Stderr, "INFRASTRUCTURE ERROR: a worker failed; no verdict")
		return 2
	}
	if r.Evaluations == 0 && len(r.Violations) == 0 && freeRuns == 0 {
		// every worker ran into the deadline (or was killed after it) without evaluating anything:
		// that is not "held on everything explored" but nothing explored
		fmt.Fprintln(os.Stderr, "INFRASTRUCTURE ERROR: no worker evaluated a single case before the internal deadline; no verdict")
		return 2
	}
	delete(r.Extra, checkpointKey)
	r.Set("workers", n)
	return r.Finish(env.VerifDir)
}

type tailWriter struct {
	buf *bytes.Buffer
	max int
}

func (t *tailWriter) Write(p []byte) (int, error) {
	t.buf.Write(p)
	if t.buf.Len() > 2*t.max {
		b := t.buf.Bytes()
		keep := append([]byte{}, b[len(b)-t.max:]...)
		t.buf.Reset()
		t.buf.Write(keep)
	}
	return len(p), nil
}

func tailString(s string, n int) string {
	if len(s) > n {
		return s[len(s)-n:]
	}
	return s
}

// panicSite extracts the panic message and the first frame inside the repository
// from a Go crash dump.
func panicSite(stderr string) (site, msg string) {
	site, msg = "unknown", "worker exited abnormally"
	i := strings.LastIndex(stderr, "panic: ")
	if j := strings.LastIndex(stderr, "fatal error: "); j > i {
		i = j
	}
	if i < 0 {
		return
	}
	rest := stderr[i:]
	if nl := strings.IndexByte(rest, '\n'); nl > 0 {
		msg = rest[:nl]
	}
	for _, line := range strings.Split(rest, "\n") {
		if strings.HasPrefix(line, "github.com/zen-eth/shisui/") {
			f := strings.TrimPrefix(line, "github.com/zen-eth/shisui/")
			if k := strings.LastIndex(f, "("); k > 0 {
				f = f[:k]
			}
			site = f
			return
		}
	}
	return
}

func cpus() int { return runtime.NumCPU() }
