package main

import (
	"bytes"
	"context"
	"errors"
	"fmt"
	"net"
	"time"

	"github.com/cockroachdb/pebble"
	"github.com/cockroachdb/pebble/vfs"
	"github.com/ethereum/go-ethereum/core/types"
	"github.com/ethereum/go-ethereum/p2p/discover"
	"github.com/ethereum/go-ethereum/p2p/enode"
	cache "github.com/go-pkgz/expirable-cache/v3"
	"github.com/protolambda/zrnt/eth2/beacon/capella"
	"github.com/protolambda/zrnt/eth2/configs"
	"github.com/zen-eth/shisui/beacon"
	"github.com/zen-eth/shisui/history"
	"github.com/zen-eth/shisui/portalwire"
	"github.com/zen-eth/shisui/state"
	"github.com/zen-eth/shisui/storage"
	sp "github.com/zen-eth/shisui/storage/pebble"
	"github.com/zen-eth/shisui/validation"
)

// ---- the stub header source: every answer comes from a three-entry menu ----

type c01Oracle struct {
	mode      string        // "error" | "fixed" (a genuine header unrelated to the item) | "seed" (what an honest source serves for the item)
	fixed     *types.Header // mainnet block 1
	seed      *types.Header
	root      []byte // finalized beacon state root in mode "seed"
	summaries capella.HistoricalSummaries
	calls     int
}

func (o *c01Oracle) GetHistoricalSummaries(uint64) (capella.HistoricalSummaries, error) {
	return o.summaries, nil
}
func (o *c01Oracle) GetBlockHeaderByHash([]byte) (*types.Header, error) {
	o.calls++
	switch {
	case o.mode == "fixed":
		return types.CopyHeader(o.fixed), nil
	case o.mode == "seed" && o.seed != nil:
		return types.CopyHeader(o.seed), nil
	}
	return nil, errors.New("header source: not found")
}
func (o *c01Oracle) GetFinalizedStateRoot() ([]byte, error) {
	o.calls++
	switch {
	case o.mode == "fixed":
		return o.fixed.Root.Bytes(), nil
	case o.mode == "seed" && o.root != nil:
		return o.root, nil
	}
	return nil, errors.New("header source: no finalized root")
}

// ---- what the sub-protocols of one shisui process share: discv5 endpoint, local record, uTP ----

type c01Host struct {
	d5      *discover.UDPv5
	ln      *enode.LocalNode
	conn    *mconn
	utp     *portalwire.UtpTransportService
	utpIn   func(*enode.Node, *net.UDPAddr, []byte) []byte // the "utp" TALKREQ handler
	senders [4]*enode.Node                                 // 0: in every table, versions {0,1} (-> 1); 1: in no table, no version entry (-> 0); 2: in no table, versions {2} (-> 2, which the node advertises but only partly implements); 3: in no table, a record WITHOUT ip/udp entries (a peer behind NAT that does not know its address yet), datagrams from a normal source address
	addrs   [4]*net.UDPAddr
	peers   []*enode.Node // further table entries (and the records of NODES / ENRS replies)
	// sender 0 is also a live discv5 endpoint with a uTP service of its own. It is mute (wire.mute)
	// except during a uTP exchange of part (5).
	wire    *mwire
	peerUtp *portalwire.UtpTransportService
	tamper  func(pkt []byte) []byte // what happens to a uTP packet on its way from sender 0 into the node
	// answer: what sender 0's endpoint replies to a portal TALKREQ of ours (nil: nothing) - the
	// "ask" entries send real requests over the wire and process whatever comes back
	answer func(req []byte) []byte
}

const (
	c01HostKey = 100
	c01Settle  = 125 * time.Second // virtual: past every timeout of the code under test (uTP connect 15 s, read / write 60 s, discv5 call)
)

func c01Endpoint(w *mwire, keyIdx int, ip net.IP, port int) (*mconn, *enode.LocalNode, *discover.UDPv5) {
	key := detKey(keyIdx)
	conn := w.listen(ip.String(), uint16(port))
	db, err := enode.OpenDB("")
	if err != nil {
		panic(err)
	}
	ln := enode.NewLocalNode(db, key)
	ln.SetStaticIP(ip)
	ln.SetFallbackUDP(port)
	ln.Set(portalwire.Tag)
	ln.Set(versEntry(c01Versions(keyIdx)))
	ln.Node() // sign before any goroutine exists (LocalNode.Node sleeps under its mutex when re-signing)
	d5, err := discover.ListenV5(conn, ln, quietD5Config(key, nil))
	if err != nil {
		panic(err)
	}
	return conn, ln, d5
}

// c01Versions: the node under test advertises {0,1,2} - a non-default list an operator may configure
// (a version listed but not implemented by every code path); its peer endpoint the default {0,1}.
func c01Versions(keyIdx int) []uint8 {
	if keyIdx == c01HostKey {
		return []uint8{0, 1, 2}
	}
	return []uint8{0, 1}
}

// newC01Host must run inside the bubble.
func newC01Host() *c01Host {
	h := &c01Host{wire: newWire(), tamper: func(b []byte) []byte { return b }}
	h.wire.immediate = true
	h.conn, h.ln, h.d5 = c01Endpoint(h.wire, c01HostKey, net.IP{10, 0, 1, 1}, 9100)
	conf := portalwire.DefaultPortalProtocolConfig()
	h.utp = portalwire.NewZenEthUtp(context.Background(), conf, h.d5, h.conn)
	h.utpIn = h.utp.VerifStartWithHandler()
	h.d5.RegisterTalkHandler(string(portalwire.Utp), func(n *enode.Node, a *net.UDPAddr, b []byte) []byte { return h.utpIn(n, a, h.tamper(b)) })
	pconn, pln, pd5 := c01Endpoint(h.wire, c01HostKey+1, net.IP{10, 0, 3, 1}, 9200)
	h.peerUtp = portalwire.NewZenEthUtp(context.Background(), conf, pd5, pconn)
	h.peerUtp.Start()
	for _, proto := range []portalwire.ProtocolId{portalwire.History, portalwire.State, portalwire.Beacon} {
		pd5.RegisterTalkHandler(string(proto), func(_ *enode.Node, _ *net.UDPAddr, req []byte) []byte {
			if h.answer != nil {
				return h.answer(req)
			}
			return nil
		})
	}
	// uTP packets travel in TALKREQs that start no handshake of their own: like the portal
	// request that precedes every transfer, one answered request sets up the session
	if _, err := pd5.TalkRequest(h.ln.Node(), "c01", nil); err != nil {
		panic(err)
	}
	h.wire.mute = true
	h.senders = [4]*enode.Node{pln.Node(), signedNode(detKey(c01HostKey+2), 1, net.IP{10, 0, 3, 2}, 9201), signedNode(detKey(c01HostKey+3), 1, net.IP{10, 0, 3, 3}, 9202, versEntry{2}), signedNode(detKey(c01HostKey+4), 1, nil, 0)}
	h.addrs = [4]*net.UDPAddr{{IP: net.IP{10, 0, 3, 1}, Port: 9200}, {IP: net.IP{10, 0, 3, 2}, Port: 9201}, {IP: net.IP{10, 0, 3, 3}, Port: 9202}, {IP: net.IP{10, 0, 3, 4}, Port: 9203}}
	for i := 0; i < 32; i++ {
		h.peers = append(h.peers, signedNode(detKey(c01HostKey+10+i), 1, net.IP{10, 0, byte(4 + i), 1}, 9300+i))
	}
	return h
}

// ---- one sub-protocol: unstarted PortalProtocol, real adapter over pebble in memory, real validator ----

type c01Node struct {
	net       string
	populated bool
	p         *portalwire.PortalProtocol
	vt        *portalwire.VTable
	q         chan *portalwire.ContentElement
	or        *c01Oracle
	st        storage.ContentStorage // the network's adapter
	val       validation.Validator
	validate  func(keys, contents [][]byte) error // the network's validateContents
	dbs       []*pebble.DB
	base      []map[string][]byte // contents of dbs after population
	forget    func()              // adapter state outside pebble back to what population left
}

func c01DB() *pebble.DB {
	db, err := pebble.Open("db", &pebble.Options{FS: vfs.NewMem(), Logger: quietLogger{}, MemTableSize: 1 << 20, MaxConcurrentCompactions: func() int { return 1 }})
	if err != nil {
		panic(err)
	}
	return db
}

func newC01Node(h *c01Host, netName string, corpus *c01Corpus, populated bool) *c01Node {
	n := &c01Node{net: netName, populated: populated, q: make(chan *portalwire.ContentElement, 50),
		or: &c01Oracle{fixed: corpus.fixed, summaries: corpus.summaries}, forget: func() {}}
	cfg := storage.PortalStorageConfig{StorageCapacityMB: 1 << 30, NodeId: h.ln.ID(), NetworkName: netName, Spec: configs.Mainnet}
	must := func(s storage.ContentStorage, err error) storage.ContentStorage {
		if err != nil {
			panic(err)
		}
		return s
	}
	var st storage.ContentStorage
	var proto portalwire.ProtocolId
	a := c01DB()
	n.dbs = []*pebble.DB{a}
	switch netName {
	case "history":
		b := c01DB()
		n.dbs = append(n.dbs, b)
		st = must(history.NewHistoryStorage(must(sp.NewStorage(cfg, a)), history.NewEphemeralStorage(cfg, b)))
		proto, n.val = portalwire.History, history.NewHistoryValidator(n.or)
	case "beacon":
		st = must(beacon.NewBeaconStorage(cfg, a))
		proto, n.val = portalwire.Beacon, beacon.NewBeaconValidator(n.or, configs.Mainnet)
	case "state":
		st = state.NewStateStorage(must(sp.NewStorage(cfg, a)), a)
		proto, n.val = portalwire.State, state.NewStateValidator(n.or)
	}
	conf := portalwire.DefaultPortalProtocolConfig()
	conf.RadiusCacheSize, conf.CapabilitiesCacheSize, conf.EphemeralHeaderCountCacheSize, conf.ContentKeyCacheSize = 1<<20, 1<<20, 1<<20, 1<<20
	vc := cache.NewCache[*enode.Node, uint8]().WithMaxKeys(1000).WithTTL(10000 * time.Hour)
	var err error
	if n.p, err = portalwire.NewPortalProtocol(conf, proto, detKey(c01HostKey), h.conn, h.ln, h.d5, h.utp, st, n.q, vc); err != nil {
		panic(err)
	}
	switch netName {
	case "history":
		n.validate = history.NewHistoryNetwork(n.p, n.val).VerifValidateContents
	case "beacon":
		n.validate = beacon.NewBeaconNetwork(n.p, nil, n.val).VerifValidateContents
	case "state":
		n.validate = state.NewStateNetwork(n.p, n.val).VerifValidateContents
	}
	if n.vt, err = n.p.VerifInitTable(portalwire.Config{DisableInitCheck: true, PingInterval: 10000 * time.Hour, RefreshInterval: 10000 * time.Hour}); err != nil {
		panic(err)
	}
	n.vt.MarkInitDone()
	n.vt.ServeAdds()
	for _, peer := range append([]*enode.Node{h.senders[0]}, h.peers...) {
		n.vt.InsertDirect(peer, true)
	}
	n.st = st
	if populated {
		for _, it := range corpus.items[netName] {
			if it.Stored {
				if err := st.Put(it.Key, n.p.ToContentId(it.Key), it.Content); err != nil {
					panic(fmt.Sprintf("c01: populating %s with %s: %v", netName, it.Name, err))
				}
			}
		}
		if netName == "history" { // the index the ephemeral store reads: block hash -> number key -> header
			for _, e := range corpus.ephemeral {
				if err := n.dbs[1].Set(e[0], e[1], pebble.NoSync); err != nil {
					panic(err)
				}
			}
		}
		if netName == "beacon" {
			n.forget = func() {
				for _, it := range corpus.items[netName] {
					if it.Stored && (it.Key[0] == byte(beacon.LightClientFinalityUpdate) || it.Key[0] == byte(beacon.LightClientOptimisticUpdate)) {
						st.Put(it.Key, nil, it.Content)
					}
				}
			}
		}
	} else if netName == "beacon" {
		n.forget = func() { beacon.VerifForgetUpdates(st) }
	}
	for _, db := range n.dbs {
		m := map[string][]byte{}
		it, _ := db.NewIter(nil)
		for it.First(); it.Valid(); it.Next() {
			m[string(it.Key())] = append([]byte{}, it.Value()...)
		}
		it.Close()
		n.base = append(n.base, m)
	}
	return n
}

// undo returns the stores to their contents after population (the in-memory usage counter
// of the pebble adapter is not wound back; the capacity is out of reach).
func (n *c01Node) undo() {
	for i, db := range n.dbs {
		same, dirty := 0, false
		b := db.NewBatch()
		it, _ := db.NewIter(nil)
		for it.First(); it.Valid(); it.Next() {
			if v, ok := n.base[i][string(it.Key())]; ok && bytes.Equal(v, it.Value()) {
				same++
				continue
			}
			dirty = true
			b.Delete(it.Key(), nil)
		}
		it.Close()
		if dirty || same != len(n.base[i]) {
			for k, v := range n.base[i] {
				b.Set([]byte(k), v, nil)
			}
			if err := b.Commit(pebble.NoSync); err != nil {
				panic(err)
			}
		}
		b.Close()
	}
	n.forget()
}
