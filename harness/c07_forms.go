package main

import (
	"fmt"
	"net"
	"net/netip"
	"strings"

	"github.com/ethereum/go-ethereum/p2p/enode"
	"github.com/ethereum/go-ethereum/p2p/enr"
	"github.com/zen-eth/shisui/portalwire"
)

// C07 / C18 — two further dimensions of the routing-table exploration.
//
// (1) Record FORM. A node record can carry one and the same IPv4 address in two forms: in the
// "ip" entry (plain, what VNode writes) or in the "ip6" entry as an IPv4-mapped IPv6 address
// (::ffff:a.b.c.d). enode keeps the form in IPAddr(), the table keys its /24 counters by the
// address as kept (a mapped address counts for ::/24), so a newer record of a node that only
// switches form IS an address change for the per-/24 accounting. Records are written
// "<id>.<seq>.<endpoint>[.<form>]" with form "m" = IPv4-mapped in "ip6"; endpoints "v"/"w" are
// real IPv6 addresses. The answer kind "newform" is a revalidation answer with a newer record
// of the same address in the other form.
//
// (2) Entry point forceSetLive=true for KNOWN nodes: "foundlive:<rec>" is what
// PortalProtocol.AddEnr (portal_*AddEnr) and processPong / processNodes / processContent /
// processOffer do with the record the caller supplied, also for a node that already sits in
// its bucket; c07LiveRecs names the records for which it is part of the event alphabet.

func init() {
	tabEndpoints["v"] = tabEndpoint{net.ParseIP("2001:db8:1::10"), 30303} // real IPv6, not LAN
	tabEndpoints["w"] = tabEndpoint{net.ParseIP("2001:db8:1::11"), 30303} // same /24 of the IPv6 space, other address
}

// tabFormAddr gives ip in the requested form: "" / "4" as it is, "m" IPv4-mapped.
func tabFormAddr(ip net.IP, form string) netip.Addr {
	a, ok := netip.AddrFromSlice(ip)
	if !ok {
		panic("address " + ip.String())
	}
	if ip.To4() != nil {
		a = a.Unmap()
	}
	switch form {
	case "", "4":
		return a
	case "m":
		if !a.Is4() {
			panic("mapped form of a non-IPv4 address " + a.String())
		}
		return netip.AddrFrom16(a.As16())
	}
	panic("record form " + form)
}

// tabNodeAddr builds an unsigned record whose address is kept exactly in the form given:
// an IPv4 address in "ip", an IPv4-mapped or real IPv6 address in "ip6"; the port in "udp".
func tabNodeAddr(id enode.ID, a netip.Addr, port int, seq uint64) *enode.Node {
	var r enr.Record
	if a.Is4() {
		r.Set(enr.IPv4Addr(a))
	} else {
		r.Set(enr.IPv6Addr(a))
	}
	r.Set(enr.UDP(port))
	r.SetSeq(seq)
	n := enode.SignNull(&r, id)
	if n.IPAddr() != a {
		panic(fmt.Sprintf("record form lost: wrote %v, node has %v", a, n.IPAddr()))
	}
	return n
}

// tabAltAddr is the address a revalidation answer of the given kind announces, for current
// addresses that are not plain IPv4 (and for "newform" in general). The form is kept for
// newip/newsubnet and switched for newform (a real IPv6 address has one form only).
func tabAltAddr(a netip.Addr, kind string) netip.Addr {
	switch kind {
	case "newform":
		switch {
		case a.Is4():
			return netip.AddrFrom16(a.As16())
		case a.Is4In6():
			return a.Unmap()
		}
		return a
	case "newip":
		b := a.As16()
		b[15] ^= 1
		if a.Is4() {
			return netip.AddrFrom16(b).Unmap()
		}
		return netip.AddrFrom16(b)
	case "newsubnet":
		b := a.As16()
		if a.Is4() || a.Is4In6() {
			b[14] ^= 1
		} else {
			b[2] ^= 1
		}
		if a.Is4() {
			return netip.AddrFrom16(b).Unmap()
		}
		return netip.AddrFrom16(b)
	}
	panic("address kind " + kind)
}

// tabFormAnswer: the answers "newform" (any current record) and "newip"/"newsubnet" for a
// current record with a real IPv6 address. ok=false: not one of these, the plain-IPv4 code applies.
func tabFormAnswer(cur *enode.Node, kind string) (pingAnswer, bool) {
	if kind == "newform" || ((kind == "newip" || kind == "newsubnet") && cur.IP().To4() == nil) {
		return pingAnswer{seq: cur.Seq() + 1, newRec: tabNodeAddr(cur.ID(), tabAltAddr(cur.IPAddr(), kind), cur.UDP(), cur.Seq()+1)}, true
	}
	return pingAnswer{}, false
}

// recHasForm: the record name carries a non-plain address form (mapped, or a real IPv6 endpoint).
func recHasForm(rec string) bool {
	p := strings.Split(rec, ".")
	return len(p) > 3 && p[3] != "" && p[3] != "4" || len(p) > 2 && (p[2] == "v" || p[2] == "w")
}

// histHasForms: some event of the start state or the history brings in a record whose
// address is not a plain IPv4 address in "ip".
func histHasForms(start string, hist []string) bool {
	for _, ev := range append(append([]string{}, c07Starts[start]...), hist...) {
		p := strings.Split(ev, ":")
		switch p[0] {
		case "found", "foundlive", "inbound":
			if recHasForm(p[1]) {
				return true
			}
		case "ans":
			if p[2] == "newform" {
				return true
			}
		case "track":
			if len(p) > 3 {
				for _, r := range strings.Split(p[3], ",") {
					if recHasForm(r) {
						return true
					}
				}
			}
		}
	}
	return false
}

// ---- C18: the verified status after an endpoint change ----

// c18Cleared remembers, per table entry, the endpoint an endpoint change has stored and that no
// liveness check has confirmed since. stale: a liveness check addressed to the endpoint
// before the change was under way when the change happened.
type c18Cleared map[enode.ID]c18ClearedAt

type c18ClearedAt struct {
	ep    string
	stale bool
}

// snapEndpoint: where the node is reached - the address without its record form, and the port.
func snapEndpoint(n portalwire.VNodeSnap) string {
	return fmt.Sprintf("%s:%d", netip.MustParseAddr(n.IP).Unmap(), n.Port)
}

// step follows one transition of the real table (snapshots before / after the event).
func (u c18Cleared) step(prev, next portalwire.VSnap, ev string) {
	p, n := indexSnap(prev), indexSnap(next)
	parts := strings.Split(ev, ":")
	if parts[0] == "ans" && parts[2] != "dead" {
		delete(u, tabID(parts[1])) // a passed check (a new record it brings is looked at below)
	}
	for id := range u {
		ne, still := n.entry[id]
		if pe, was := p.entry[id]; !still || !was || !pe.Added.Equal(ne.Added) {
			delete(u, id) // the entry left (a node that comes back is a new entry)
		}
	}
	for id, ne := range n.entry {
		pe, was := p.entry[id]
		if was && snapEndpoint(pe) != snapEndpoint(ne) {
			under := false
			for _, a := range next.ActiveReq {
				under = under || a == id
			}
			u[id] = c18ClearedAt{snapEndpoint(ne), under}
		}
	}
}
