package main

import (
	"bytes"
	"context"
	"encoding/binary"
	"encoding/json"
	"fmt"
	"os"
	"sync/atomic"
	"time"

	"github.com/OffchainLabs/go-bitfield"
	"github.com/ethereum/go-ethereum/p2p/enode"
	"github.com/zen-eth/shisui/portalwire"
	"verifharness/mc"
)

// C16 — transfer slots are bounded and always given back (E4).
//
// Outbound: a real started node (discv5 + uTP on the in-memory wire, slot limit L) makes
// one offer to a scripted peer whose behaviour is drawn from an outcome menu; the offer is
// issued directly with a slot taken from the real controller, through the offer queue, or
// through Gossip with a full queue. Inbound: a real node is offered content by a scripted
// peer that then never dials / sends garbage / sends the wrong item count / succeeds /
// stalls. A stop of the node may be injected at every datagram index. After the last event
// the virtual clock is advanced past every timeout; then every slot must be free again and
// the slot handed to the offer must have been given back.

func init() {
	register(&Prop{ID: "C16", Level: "exploration", Procs: 1, Run: runC16, Replay: replayC16,
		Workers: func(e *Env) int { return len(c16AllCases(e.Thorough())) },
		Budget: func(t string) time.Duration {
			if t == "thorough" {
				return 30 * time.Minute
			}
			return 5 * time.Minute
		}})
}

type c16Case struct {
	Dir     string `json:"dir"`     // "out" | "in"
	Outcome string `json:"outcome"` // peer behaviour
	Kind    string `json:"kind,omitempty"`
	Ver     int    `json:"ver"`
	Route   string `json:"route,omitempty"` // "direct" | "queue" | "gossip-full-queue"
	Limit   int    `json:"limit"`
	StopAt  int    `json:"stop_at"` // datagram index at which the node is stopped (-1: never)
	// Dir "in-multi": behaviour of each of three peers offering at the same moment (c16multi.go)
	Peers []string `json:"peers,omitempty"`
}

var c16OutOutcomes = []string{"silent", "empty", "wrong-code", "undecodable", "wrong-count", "declined", "accept-never-waits", "accept-then-reset", "accept-then-stall", "success", "too-many-keys"}
var c16InOutcomes = []string{"never-dials", "garbage", "wrong-item-count", "success", "dial-then-stall", "dial-then-close"}

type countingPermit struct {
	inner    portalwire.Permit
	releases atomic.Int32
}

func (c *countingPermit) Release() { c.releases.Add(1); c.inner.Release() }

func c16Keys(n int) ([][]byte, [][]byte) {
	var keys, vals [][]byte
	for i := 0; i < n; i++ {
		keys = append(keys, []byte(fmt.Sprintf("c16-key-%d", i)))
		vals = append(vals, bytes.Repeat([]byte{byte(i + 1)}, 2000))
	}
	return keys, vals
}

func c16Accept(ver int, n int, accepted []int, connId uint16) []byte {
	id := make([]byte, 2)
	binary.BigEndian.PutUint16(id, connId)
	var b []byte
	if ver == 0 {
		bl := bitfield.NewBitlist(uint64(n))
		for _, i := range accepted {
			bl.SetBitAt(uint64(i), true)
		}
		b, _ = (&portalwire.Accept{ConnectionId: id, ContentKeys: bl}).MarshalSSZ()
	} else {
		codes := make([]uint8, n)
		for i := range codes {
			codes[i] = uint8(portalwire.GenericDeclined)
		}
		for _, i := range accepted {
			codes[i] = uint8(portalwire.Accepted)
		}
		b, _ = (&portalwire.AcceptV1{ConnectionId: id, ContentKeys: codes}).MarshalSSZ()
	}
	return append([]byte{portalwire.ACCEPT}, b...)
}

// c16Run executes one case and returns an observation digest.
func c16Run(r *mc.Report, c c16Case, finish func(digest string)) (digest string, datagrams int) {
	viol := func(clause, site, detail string) { r.Violation(clause, site, detail, c) }
	msg := inBubble(func() {
		w := newWire()
		var node, peer *mnode
		var stopped bool
		decide := func(idx int, d mdgram) pumpAction {
			if idx == c.StopAt && !stopped {
				stopped = true
				node.Stop()
			}
			return deliver
		}
		peerVersions := []uint8{uint8(c.Ver)}
		var more []*mnode
		switch c.Dir {
		case "out":
			digest = c16Outbound(r, c, w, &node, &peer, peerVersions, decide, viol)
		case "in-multi":
			digest = c16InboundMulti(r, c, w, &node, &more, decide, viol)
		case "out-multi":
			digest = c16OutboundMulti(r, c, w, &node, &more, decide, viol)
		case "out-drain":
			digest = c16OutboundDrain(r, c, w, &node, decide, viol)
		default:
			digest = c16Inbound(r, c, w, &node, &peer, peerVersions, decide, viol)
		}
		datagrams = w.sent
		if finish != nil {
			finish(digest) // one-case worker process: leaves from inside the bubble
		}
		for _, p := range more {
			p.close()
		}
		if peer != nil {
			peer.close()
		}
		if node != nil {
			node.close()
		}
	})
	if msg != "" {
		viol("no-panic", "transfer", "panic: "+msg)
	}
	return
}

func c16Outbound(r *mc.Report, c c16Case, w *mwire, nodeP, peerP **mnode, peerVersions []uint8, decide func(int, mdgram) pumpAction, viol func(string, string, string)) string {
	nkeys := 2
	if c.Kind == "with-result" {
		nkeys = 1
	}
	if c.Outcome == "too-many-keys" {
		nkeys = 65
	}
	keys, vals := c16Keys(nkeys)
	big := c.Outcome == "accept-then-stall"
	if big {
		for i := range vals {
			vals[i] = bytes.Repeat([]byte{9}, 600_000) // larger than the send window: the write blocks on a stalled reader
		}
	}
	node := newMNode(w, mnodeOpts{keyIdx: 11, versions: []uint8{0, 1}, utpLimit: c.Limit})
	*nodeP = node
	var peer *mnode
	connId := uint16(0x1234)
	var acceptedAt time.Time
	if c.Outcome != "silent" {
		peer = newMNode(w, mnodeOpts{keyIdx: 12, versions: peerVersions, puppet: func(from enode.ID, msg []byte) []byte {
			if len(msg) == 0 || msg[0] != portalwire.OFFER {
				return nil
			}
			switch c.Outcome {
			case "empty":
				return []byte{}
			case "wrong-code":
				return []byte{portalwire.PONG, 1, 2, 3}
			case "undecodable":
				return []byte{portalwire.ACCEPT, 0xff}
			case "wrong-count":
				return c16Accept(c.Ver, nkeys+1, []int{0}, connId)
			case "declined":
				return c16Accept(c.Ver, nkeys, nil, 0)
			default:
				acceptedAt = time.Now()
				return c16Accept(c.Ver, nkeys, []int{0}, connId)
			}
		}})
		*peerP = peer
	}
	var target *enode.Node
	if peer != nil {
		target = peer.Self()
		// the scripted peer's side of the transfer
		switch c.Outcome {
		case "accept-then-reset", "accept-then-stall", "success":
			go func() {
				cid := peer.Utp.RecvId(node.Self(), connId)
				ctx, cancel := context.WithTimeout(peer.ctx, 30*time.Second)
				defer cancel()
				stream, err := peer.Utp.AcceptWithCid(ctx, cid)
				if err != nil {
					return
				}
				switch c.Outcome {
				case "accept-then-reset":
					stream.Close()
				case "accept-then-stall":
					<-peer.ctx.Done() // never reads
				default:
					var data []byte
					rctx, rcancel := context.WithTimeout(peer.ctx, 60*time.Second)
					defer rcancel()
					stream.ReadToEOF(rctx, &data)
					stream.Close()
				}
			}()
		}
	} else {
		target = signedNode(detKey(13), 1, []byte{10, 0, 0, 99}, 9099, versEntry(peerVersions)) // nobody listens there
	}
	for i, k := range keys {
		node.P.Put(k, node.P.ToContentId(k), vals[i])
	}
	var req *portalwire.OfferRequest
	var result chan *portalwire.OfferTrace
	switch c.Kind {
	case "transient":
		var entries []*portalwire.ContentEntry
		for i := range keys {
			entries = append(entries, &portalwire.ContentEntry{ContentKey: keys[i], Content: vals[i]})
		}
		req = &portalwire.OfferRequest{Kind: portalwire.TransientOfferRequestKind, Request: &portalwire.TransientOfferRequest{Contents: entries}}
	case "with-result":
		result = make(chan *portalwire.OfferTrace, 1)
		req = &portalwire.OfferRequest{Kind: portalwire.TransientOfferRequestWithResultKind, Request: &portalwire.TransientOfferRequestWithResult{Content: &portalwire.ContentEntry{ContentKey: keys[0], Content: vals[0]}, Result: result}}
	default:
		req = &portalwire.OfferRequest{Kind: portalwire.PersistOfferRequestKind, Request: &portalwire.PersistOfferRequest{ContentKeys: keys}}
	}
	_, freeBefore := node.P.VerifPermits()
	if freeBefore != c.Limit {
		viol("all-slots-free-initially", "utpController", fmt.Sprintf("limit %d but %d outbound slots free", c.Limit, freeBefore))
	}
	var cp *countingPermit
	returned := false
	var offerErr error
	switch c.Route {
	case "gossip-full-queue":
		// the real Gossip path with the queue full: the node needs the target in its table with a known radius
		node.P.AddEnr(target)
		node.P.VerifFillOfferQueue(target)
		queued := node.P.VerifOfferQueueLen()
		_, err := node.P.Gossip(nil, keys[:1], vals[:1])
		returned = true
		offerErr = err
		if node.P.VerifOfferQueueLen() != queued {
			r.Count("gossip_full_queue_changed_queue", 1)
		}
		node.P.VerifDrainOfferQueue() // the filler entries hold no slot
	default:
		inner, ok := node.P.Utp.GetOutboundPermit()
		if !ok {
			viol("slot-obtainable-when-free", "GetOutboundPermit", "no slot although none is in use")
			return "no-permit"
		}
		cp = &countingPermit{inner: inner}
		if c.Route == "direct" {
			go func() {
				_, offerErr = node.P.VerifOffer(target, req, cp)
				returned = true
			}()
		} else {
			if !node.P.VerifEnqueueOffer(target, req, cp) {
				viol("queue-accepts", "offerQueue", "empty queue refused the offer")
			}
			returned = true
		}
	}
	// run to quiescence, then past every timeout (RPC 0.7 s x retries, dial 15 s, write 60 s)
	w.pump(func() bool { return returned }, 30*time.Second, decide)
	// While an accepted transfer is certainly still in progress (the peer never waits for the
	// dial, or never reads), its slot must still be taken: a free slot would let a further
	// transfer start, i.e. more than the limit in progress.
	if (c.Outcome == "accept-never-waits" || c.Outcome == "accept-then-stall") && c.StopAt < 0 && c.Route != "gossip-full-queue" && !acceptedAt.IsZero() {
		w.pump(func() bool { return time.Since(acceptedAt) > 2*time.Second }, 10*time.Second, decide)
		if _, freeNow := node.P.VerifPermits(); freeNow > c.Limit-1 {
			viol("never-more-than-the-limit-in-progress", fmt.Sprintf("outbound:%s:%s", c.Route, c.Outcome), fmt.Sprintf("2 virtual seconds after the peer accepted, with the transfer still in progress, %d of %d outbound slots are free", freeNow, c.Limit))
		}
	}
	w.pump(func() bool { return false }, 5*time.Minute, decide)
	_, free := node.P.VerifPermits()
	rel := -1
	if cp != nil {
		rel = int(cp.releases.Load())
	}
	site := fmt.Sprintf("outbound:%s:%s", c.Route, c.Outcome)
	if c.StopAt >= 0 {
		site += ":with-stop"
	}
	if free != c.Limit {
		viol("all-slots-available-after-activity-ceased", site, fmt.Sprintf("limit %d, %d outbound slots free 5 virtual minutes after the last event (offer error: %v, releases of the offer's slot: %d)", c.Limit, free, offerErr, rel))
	} else if cp != nil && rel < 1 {
		viol("slot-of-an-offer-is-returned", site, "the slot handed to the offer was never released")
	}
	res := "-"
	if result != nil {
		select {
		case tr := <-result:
			res = fmt.Sprint(tr.Type)
		default:
			res = "none"
		}
	}
	return fmt.Sprintf("free=%d/%d releases=%d err=%v result=%s", free, c.Limit, rel, offerErr != nil, res)
}

func c16Inbound(r *mc.Report, c c16Case, w *mwire, nodeP, peerP **mnode, peerVersions []uint8, decide func(int, mdgram) pumpAction, viol func(string, string, string)) string {
	node := newMNode(w, mnodeOpts{keyIdx: 21, versions: []uint8{0, 1}, utpLimit: c.Limit})
	*nodeP = node
	peer := newMNode(w, mnodeOpts{keyIdx: 22, versions: peerVersions, puppet: func(enode.ID, []byte) []byte { return nil }})
	*peerP = peer
	keys, vals := c16Keys(2)
	inFree, _ := node.P.VerifPermits()
	if inFree != c.Limit {
		viol("all-slots-free-initially", "utpController", fmt.Sprintf("limit %d but %d inbound slots free", c.Limit, inFree))
	}
	done := false
	minFree := c.Limit
	go func() {
		defer func() { done = true }()
		offer, _ := (&portalwire.Offer{ContentKeys: keys}).MarshalSSZ()
		resp, err := peer.D5.TalkRequest(node.Self(), string(portalwire.History), append([]byte{portalwire.OFFER}, offer...))
		if err != nil || len(resp) < 3 || resp[0] != portalwire.ACCEPT {
			return
		}
		connId := binary.BigEndian.Uint16(resp[1:3])
		if f, _ := node.P.VerifPermits(); f < minFree {
			minFree = f
		}
		if c.Outcome == "never-dials" || connId == 0 && c.Limit > 0 {
			return
		}
		ctx, cancel := context.WithTimeout(peer.ctx, 20*time.Second)
		defer cancel()
		stream, err := peer.Utp.DialWithCid(ctx, node.Self(), connId)
		if err != nil {
			return
		}
		var payload []byte
		switch c.Outcome {
		case "garbage":
			payload = bytes.Repeat([]byte{0xff}, 300)
		case "wrong-item-count":
			payload = portalwire.VerifEncodeContents(vals[:1])
		case "success":
			payload = portalwire.VerifEncodeContents(vals)
		case "dial-then-stall":
			<-peer.ctx.Done()
			return
		case "dial-then-close":
			stream.Close()
			return
		}
		wctx, wcancel := context.WithTimeout(peer.ctx, 60*time.Second)
		defer wcancel()
		stream.Write(wctx, payload)
		stream.Close()
	}()
	w.pump(func() bool { return done }, 100*time.Second, decide)
	w.pump(func() bool { return false }, 5*time.Minute, decide)
	free, _ := node.P.VerifPermits()
	site := "inbound:" + c.Outcome
	if c.StopAt >= 0 {
		site += ":with-stop"
	}
	if free != c.Limit {
		viol("all-slots-available-after-activity-ceased", site, fmt.Sprintf("limit %d, %d inbound slots free 5 virtual minutes after the last event", c.Limit, free))
	}
	if minFree < 0 {
		viol("never-more-than-the-limit-in-progress", site, "more transfers in progress than the limit")
	}
	got := 0
	select {
	case <-node.Q:
		got = 1
	default:
	}
	return fmt.Sprintf("free=%d/%d minFree=%d delivered=%d", free, c.Limit, minFree, got)
}

func c16Cases(thorough bool) []c16Case {
	var cs []c16Case
	for _, o := range c16OutOutcomes {
		for _, k := range []string{"transient", "with-result", "persist"} {
			for ver := 0; ver <= 1; ver++ {
				for _, route := range []string{"direct", "queue"} {
					for _, lim := range []int{1, 2} {
						if !thorough && lim == 2 && (k != "transient" || route != "queue") {
							continue
						}
						if o == "too-many-keys" && k == "with-result" {
							continue
						}
						cs = append(cs, c16Case{Dir: "out", Outcome: o, Kind: k, Ver: ver, Route: route, Limit: lim, StopAt: -1})
					}
				}
			}
		}
	}
	for _, lim := range []int{1, 2} {
		cs = append(cs, c16Case{Dir: "out", Outcome: "success", Kind: "transient", Ver: 1, Route: "gossip-full-queue", Limit: lim, StopAt: -1})
	}
	for _, o := range c16InOutcomes {
		for ver := 0; ver <= 1; ver++ {
			for _, lim := range []int{0, 1, 2} {
				cs = append(cs, c16Case{Dir: "in", Outcome: o, Ver: ver, Limit: lim, StopAt: -1})
			}
		}
	}
	return cs
}

func runC16(r *mc.Report, e *Env) {
	r.Rule = "one case = one offer (sent or received) by a real started node against a scripted peer on the in-memory wire (explorer-owned FIFO delivery, virtual clock), optionally with the node stopped at datagram index k; after 5 virtual minutes every slot must be free and the offer's slot released; distinct = distinct (free slots, releases, error, result) observations"
	r.Assume("datagram delivery is FIFO (no loss or reordering in this check); one offer per case, or (in-multi) three simultaneous offers, a fourth during the transfers and a second round; the scripted peers speak real discv5 and real uTP")
	r.Assume("stop is injected at every datagram index of the fault-free trace of the queue-routed transient v1 cases (outbound) and of every inbound case; other cases run without stop")
	// One worker process per case: utp-go and discv5 leave goroutines with tickers behind,
	// so a bubble can never be left; the process exits from inside it once the case is judged.
	cases := c16AllCases(e.Thorough())
	for i, c := range cases {
		if e.Of > 1 && i != e.Shard {
			continue
		}
		c := c
		label := func(d string) string {
			return fmt.Sprintf("%s|%s%v|%s|%s|v%d|L%d|stop=%v|%s", c.Dir, c.Outcome, c.Peers, c.Kind, c.Route, c.Ver, c.Limit, c.StopAt >= 0, d)
		}
		if c.StopAt >= 0 {
			r.Count("stop_points", 1)
		}
		if e.Of > 1 {
			if i == 0 {
				c16Samples(r)
				c16Config(r)
			}
			c16Run(r, c, func(d string) { r.Exec(label(d)); e.FinishNow(r) })
			return
		}
		d, _ := c16Run(r, c, nil)
		r.Exec(label(d))
	}
	c16Samples(r)
	c16Config(r)
}

func c16Samples(r *mc.Report) {
	r.Sample(c16Case{Dir: "out", Outcome: "silent", Kind: "transient", Ver: 1, Route: "queue", Limit: 1, StopAt: -1})
	r.Sample(c16Case{Dir: "out", Outcome: "accept-then-stall", Kind: "persist", Ver: 0, Route: "direct", Limit: 2, StopAt: -1})
	r.Sample(c16Case{Dir: "in", Outcome: "wrong-item-count", Ver: 1, Limit: 1, StopAt: 17})
	r.Sample(c16Case{Dir: "in-multi", Peers: []string{"dial-then-stall", "success", "never-dials"}, Ver: 1, Limit: 2, StopAt: -1})
}

// c16AllCases: the base cases plus, for the queue-routed transient v1 outbound cases and the
// v1 inbound cases at limit 1, a stop of the node at every (quick: every 2nd) datagram index
// up to a bound that exceeds every fault-free trace (later indices repeat the no-stop case).
func c16AllCases(thorough bool) []c16Case {
	cases := append(append(append(c16Cases(thorough), c16MultiCases(thorough)...), c16OutMultiCases(thorough)...), c16OutDrainCases()...)
	maxK, step := 60, 2
	if thorough {
		maxK, step = 90, 1
	}
	for _, c := range c16Cases(thorough) {
		if c.Limit != 1 || c.Route == "gossip-full-queue" {
			continue
		}
		if (c.Dir == "out" && c.Kind == "transient" && c.Ver == 1 && c.Route == "queue") || (c.Dir == "in" && c.Ver == 1) {
			for k := 0; k < maxK; k += step {
				s := c
				s.StopAt = k
				cases = append(cases, s)
			}
		}
	}
	return cases
}

func replayC16(r *mc.Report, e *Env, raw json.RawMessage) {
	var cc c16ConfigCase
	if err := json.Unmarshal(raw, &cc); err == nil && cc.Part == "command-line-limit" {
		c16ConfigRun(r, cc)
		return
	}
	var c c16Case
	if err := json.Unmarshal(raw, &c); err != nil {
		panic(err)
	}
	c16Run(r, c, func(d string) {
		fmt.Println("outcome:", d)
		for _, v := range r.Violations {
			fmt.Printf("REPLAY: reproduced %s\n  %s\n", v.Fingerprint, v.Detail)
		}
		if len(r.Violations) > 0 {
			os.Exit(1)
		}
		fmt.Println("REPLAY: no violation reproduced")
		os.Exit(0)
	})
}
