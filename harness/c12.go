package main

import (
	"crypto/sha256"
	"encoding/json"
	"fmt"
	"strings"
	"sync"
	"time"

	blsu "github.com/protolambda/bls12-381-util"

	"github.com/zen-eth/shisui/beacon"
	"verifharness/mc"
)

// C12 — the light client only advances on verified, sufficiently signed updates.
//
// Part 1 (verification, product enumeration): update kind x wire type x participation x
// slot/period relation x store with/without next committee x one corruption. Every case is
// one call of the real VerifyUpdate / VerifyFinalityUpdate / VerifyOptimisticUpdate (hence
// the repository's own FromLightClient...Update conversion and VerifyGenericUpdate) under a
// fake clock. Oracle: the seven clauses of the statement, transcribed below.
// Part 2 (application, explicit-state BFS): all sequences of verify -> apply over a menu of
// updates around a period boundary, dedup on the canonical store; the four invariants of the
// statement's second sentence are checked on every transition.

func init() {
	register(&Prop{ID: "C12", Level: "model_checking", Run: runC12, Replay: replayC12,
		Workers: func(e *Env) int { return minInt(cpus(), 12) }})
}

type c12Case struct {
	Part  string       `json:"part"` // "verify" | "apply"
	Rel   string       `json:"relation,omitempty"`
	Store c12StoreSpec `json:"store"`
	Now   uint64       `json:"now_slot"`
	// LateMs: the wall clock stands this many milliseconds after the start of slot Now
	LateMs int      `json:"ms_into_the_slot,omitempty"`
	U      *c12Upd  `json:"update,omitempty"` // verify
	Seq    []c12Upd `json:"sequence,omitempty"`
}

// ---------- the oracle: the statement's seven clauses, nothing else ----------

var (
	c12BlsMu   sync.Mutex
	c12BlsMemo = map[[32]byte]bool{}
)

func c12Popcount(bits []byte) (n int) {
	for i := 0; i < c12N; i++ {
		if c12BitAt(bits, i) {
			n++
		}
	}
	return
}

// c12SigValid: the aggregate signature verifies for exactly the keys selected by the bitmap.
func c12SigValid(com *c12Committee, b *c12Built) bool {
	if com == nil {
		return false
	}
	msg := c12SigningRoot(c12HeaderRoot(b.att), c12Version, c12GenesisRoot)
	key := sha256.Sum256([]byte(fmt.Sprintf("%x|%x|%x|%x", com.root, []byte(b.agg.SyncCommitteeBits), msg, b.agg.SyncCommitteeSignature[:])))
	c12BlsMu.Lock()
	v, ok := c12BlsMemo[key]
	c12BlsMu.Unlock()
	if ok {
		return v
	}
	var pks []*blsu.Pubkey
	valid := true
	for i := 0; i < c12N; i++ {
		if c12BitAt(b.agg.SyncCommitteeBits, i) {
			valid = valid && com.pks[i] != nil
			pks = append(pks, com.pks[i])
		}
	}
	sig, err := b.agg.SyncCommitteeSignature.Signature()
	v = valid && err == nil && blsu.FastAggregateVerify(pks, msg[:], sig)
	c12BlsMu.Lock()
	c12BlsMemo[key] = v
	c12BlsMu.Unlock()
	return v
}

// c12Oracle returns the clauses of the statement's first sentence that do NOT hold for
// update b against store st at slot now. The BLS clause is evaluated only when asked for.
func c12Oracle(st *beacon.LightClientStore, now uint64, b *c12Built, withSig bool) (failed []string) {
	att, storeFin := uint64(b.att.Slot), uint64(st.FinalizedHeader.Slot)
	if c12Popcount(b.agg.SyncCommitteeBits) < 1 {
		failed = append(failed, "at-least-one-signer")
	}
	if !(b.sig <= now && b.sig > att && (b.fin == nil || att >= uint64(b.fin.Slot))) {
		failed = append(failed, "slots-ordered-not-future")
	}
	sigPeriod, storePeriod := b.sig/c12Period, storeFin/c12Period
	if !(sigPeriod == storePeriod || (st.NextSyncCommittee != nil && sigPeriod == storePeriod+1)) {
		failed = append(failed, "signature-period-fits-store")
	}
	if !(att > storeFin || (st.NextSyncCommittee == nil && b.next != nil)) {
		failed = append(failed, "relevant")
	}
	if b.fin != nil && c12FoldBranch(c12HeaderRoot(b.fin), b.finBranch[:], 6, 41) != c12Root(b.att.StateRoot) {
		failed = append(failed, "finality-branch-holds")
	}
	if b.next != nil && c12FoldBranch(c12CommitteeRoot(b.next), b.nextBranch[:], 5, 23) != c12Root(b.att.StateRoot) {
		failed = append(failed, "next-committee-branch-holds")
	}
	if withSig {
		held := st.CurrentSyncCommittee
		if sigPeriod != storePeriod {
			held = st.NextSyncCommittee
		}
		if !c12SigValid(c12ComOf(held), b) {
			failed = append(failed, "signature-valid-for-participants")
		}
	}
	return
}

// c12StricterWhy: conditions of the implementation that the statement does not contain. An
// update for which all seven clauses hold and which is rejected for one of them is counted,
// not reported.
var c12StricterWhy = map[string]string{
	"attested-period-differs-from-store-period": "a next committee counts as missing-and-supplied only when the attested period equals the store period (consensus-spec rule)",
	"zero-finality-part":                        "a LightClientUpdate whose finality part is all zero is refused: the zero branch is checked like a real one",
	"zero-next-committee-part":                  "a LightClientUpdate whose next-committee part is all zero is refused: the zero branch is checked like a real one",
}

func c12Stricter(st *beacon.LightClientStore, b *c12Built, cor string, err error) string {
	att, storeFin := uint64(b.att.Slot), uint64(st.FinalizedHeader.Slot)
	switch {
	case cor == "no-finality-part" && err == beacon.ErrInvalidFinalityProof:
		return "zero-finality-part"
	case cor == "no-next-committee-part" && err == beacon.ErrInvalidNextSyncCommitteeProof:
		return "zero-next-committee-part"
	case err == beacon.ErrNotRelevant && att <= storeFin && att/c12Period != storeFin/c12Period:
		return "attested-period-differs-from-store-period"
	}
	return ""
}

func c12CorruptClass(c string) string {
	if i := strings.IndexByte(c, ':'); i > 0 && (strings.HasPrefix(c, "sig-bit") || strings.HasPrefix(c, "fin-branch") || strings.HasPrefix(c, "com-branch") || strings.HasPrefix(c, "store-key")) {
		return c[:i]
	}
	if c == "" {
		return "none"
	}
	return c
}

// c12Site names the input class that makes a clause fail: the slot relation for the three
// slot/period clauses, the participation for the first, the corruption for the rest.
func c12Site(clause string, cs c12Case) string {
	class := c12CorruptClass(cs.U.Corrupt)
	switch {
	case clause == "slots-ordered-not-future" || clause == "signature-period-fits-store" || clause == "relevant":
		class = cs.Rel
	case clause == "at-least-one-signer":
		class = "nobody-participates"
	case strings.HasPrefix(class, "att:") || strings.HasPrefix(class, "fin:"):
		class = map[string]string{"att": "attested", "fin": "finalized"}[class[:3]] + "-header-field-changed"
	}
	return "VerifyGenericUpdate:" + class
}

// c12CheckVerify runs one verification case. It returns the implementation's verdict.
func c12CheckVerify(r *mc.Report, cs c12Case, st beacon.LightClientStore, b *c12Built) (accepted bool) {
	c := c12Client(st, cs.Now)
	var err error
	if msg, site := c12InBubble(func() {
		if cs.LateMs > 0 {
			time.Sleep(time.Duration(cs.LateMs) * time.Millisecond) // virtual: the bubble's clock moves on within slot Now
		}
		err = c12Verify(c, cs.U.Kind, b.obj)
	}); msg != "" {
		r.EngineError(fmt.Sprintf("verification panicked in %s: %s (relation %s, corruption %q)", site, msg, cs.Rel, cs.U.Corrupt))
		r.Trivial()
		return false
	}
	failed := c12Oracle(&st, cs.Now, b, false)
	if err == nil || len(failed) == 0 {
		failed = c12Oracle(&st, cs.Now, b, true)
	}
	switch {
	case err == nil && len(failed) > 0:
		for _, cl := range failed {
			r.Violation(cl, c12Site(cl, cs), fmt.Sprintf("%s update accepted although clause %q does not hold (all failing clauses: %v); relation %s, store next=%q, participation %d, corruption %q", cs.U.Kind, cl, failed, cs.Rel, cs.Store.Next, c12Popcount(b.agg.SyncCommitteeBits), cs.U.Corrupt), cs)
		}
	case err != nil && len(failed) == 0:
		if why := c12Stricter(&st, b, cs.U.Corrupt, err); why != "" {
			r.Count("honest_rejected_outside_statement", 1)
			r.Count("honest_rejected_outside_statement/"+why, 1)
		} else {
			r.Violation("honest-update-accepted", "VerifyGenericUpdate:rejects-with-"+strings.ReplaceAll(err.Error(), " ", "-"), fmt.Sprintf("all seven clauses hold for this %s update but the implementation rejects it: %v", cs.U.Kind, err), cs)
		}
	case err == nil:
		r.Count("accepted", 1)
	}
	r.Exec(fmt.Sprintf("%s|%s|%s|%v|%d|%v|%s|%v", cs.U.Kind, cs.U.Wire, cs.Rel, cs.Store.Next != "", cs.U.Part, cs.U.Suffix, c12CorruptClass(cs.U.Corrupt), err))
	return err == nil
}

// ---------- part 1: the verification grid ----------

type c12Rel struct {
	name               string
	fin, att, sig, now uint64
	lateMs             int // the wall clock is this many milliseconds into slot "now" (0: at its start)
}

const c12F0 = c12P*c12Period + 4096 // finalized slot of the store in part 1

var c12Rels = []c12Rel{
	{"base", c12F0 + 64, c12F0 + 160, c12F0 + 161, c12F0 + 300, 0},
	{"sig-eq-attested", c12F0 + 64, c12F0 + 160, c12F0 + 160, c12F0 + 300, 0},
	{"sig-before-attested", c12F0 + 64, c12F0 + 160, c12F0 + 159, c12F0 + 300, 0},
	{"sig-eq-now", c12F0 + 64, c12F0 + 160, c12F0 + 161, c12F0 + 161, 0},
	{"sig-one-slot-in-future", c12F0 + 64, c12F0 + 160, c12F0 + 161, c12F0 + 160, 0},
	// ... with the clock late in the current slot: 400 ms, 1 ms before the signature slot begins
	{"sig-one-slot-in-future-400ms-before-it-starts", c12F0 + 64, c12F0 + 160, c12F0 + 161, c12F0 + 160, 11_600},
	{"sig-one-slot-in-future-1ms-before-it-starts", c12F0 + 64, c12F0 + 160, c12F0 + 161, c12F0 + 160, 11_999},
	{"sig-eq-now-500ms-into-the-slot", c12F0 + 64, c12F0 + 160, c12F0 + 161, c12F0 + 161, 500},
	{"sig-first-slot-of-next-period", c12Boundary - 65, c12Boundary - 1, c12Boundary, c12Boundary + 300, 0},
	{"all-in-next-period", c12Boundary + 10, c12Boundary + 50, c12Boundary + 51, c12Boundary + 300, 0},
	{"sig-two-periods-ahead", c12Boundary + c12Period - 65, c12Boundary + c12Period - 1, c12Boundary + c12Period, c12Boundary + 2*c12Period, 0},
	{"sig-period-before-store", c12P*c12Period - 100, c12P*c12Period - 10, c12P*c12Period - 9, c12F0 + 300, 0},
	{"finalized-after-attested", c12F0 + 161, c12F0 + 160, c12F0 + 162, c12F0 + 300, 0},
	{"finalized-eq-attested", c12F0 + 160, c12F0 + 160, c12F0 + 161, c12F0 + 300, 0},
	{"finalized-older-than-store-attested-newer", c12F0 - 64, c12F0 + 160, c12F0 + 161, c12F0 + 300, 0},
	{"attested-eq-store-finalized", c12F0 - 64, c12F0, c12F0 + 1, c12F0 + 300, 0},
	{"attested-older-same-period", c12F0 - 164, c12F0 - 100, c12F0 - 99, c12F0 + 300, 0},
	{"attested-prev-period-sig-in-store-period", c12P*c12Period - 65, c12P*c12Period - 1, c12P * c12Period, c12F0 + 300, 0},
}

func c12Corruptions(thorough bool) []string {
	out := []string{"", "sig-bit:2", "sig-bit:767", "sig-infinity", "bit-add", "bit-remove", "other-committee", "fork-version", "genesis-root",
		"store-key:participant", "store-key:non-participant", "next-key", "no-finality-part", "no-next-committee-part",
		// the branch all zero while the header / committee it should prove is there (the shape by which
		// the consensus spec recognises "no finality", with a part that is not empty)
		"fin-branch-zeroed", "com-branch-zeroed"}
	for _, f := range []string{"slot", "proposer", "parent", "state", "body"} {
		out = append(out, "att:"+f, "fin:"+f)
	}
	for node := 0; node < 6; node++ { // arg = 2*node + {0: first bit, 1: last bit}
		out = append(out, fmt.Sprintf("fin-branch:%d", 2*node))
		if node < 5 {
			out = append(out, fmt.Sprintf("com-branch:%d", 2*node+1))
		}
		if thorough {
			out = append(out, fmt.Sprintf("fin-branch:%d", 2*node+1))
			if node < 5 {
				out = append(out, fmt.Sprintf("com-branch:%d", 2*node))
			}
		}
	}
	return out
}

// c12VerifyCases lists part 1 deterministically.
func c12VerifyCases(thorough bool) []c12Case {
	parts := []int{1, 342, 512}
	corr := c12Corruptions(thorough)
	if thorough {
		parts = []int{0, 1, 341, 342, 511, 512}
	}
	var out []c12Case
	add := func(rel c12Rel, kind, wire, next string, part int, suffix bool, cor string) {
		u := c12Upd{Kind: kind, Wire: wire, Att: rel.att, Sig: rel.sig, Part: part, Suffix: suffix, Signer: c12ChainCommittee(rel.sig / c12Period), Corrupt: cor}
		st := c12StoreSpec{Fin: c12F0, Opt: c12F0, Cur: "A", Next: next}
		if kind != "optimistic" {
			u.Fin = rel.fin
		} else if strings.HasPrefix(rel.name, "finalized-") {
			return
		}
		if kind == "full" {
			u.Next = c12ChainCommittee(rel.att/c12Period + 1)
		}
		first, last := 0, c12N-1 // first participant, a non-participant (when there is one)
		if suffix {
			first, last = last, first
		}
		switch cl := c12CorruptClass(cor); {
		case (cl == "fin-branch" || cl == "fin-branch-zeroed" || strings.HasPrefix(cl, "fin:")) && kind == "optimistic",
			(cl == "com-branch" || cl == "com-branch-zeroed" || cl == "next-key" || strings.HasPrefix(cl, "no-")) && kind != "full",
			(cl == "bit-add" || cor == "store-key:non-participant") && part == c12N,
			(cl == "bit-remove" || cor == "store-key:participant") && part == 0:
			return
		case cl == "other-committee":
			u.Signer = map[string]string{"A": "B", "B": "A", "C": "A"}[u.Signer]
		case cor == "store-key:participant":
			st.Cur, st.Next = fmt.Sprintf("A~%d", first), strings.Replace(next, "B", fmt.Sprintf("B~%d", first), 1)
		case cor == "store-key:non-participant":
			st.Cur, st.Next = fmt.Sprintf("A~%d", last), strings.Replace(next, "B", fmt.Sprintf("B~%d", last), 1)
		}
		out = append(out, c12Case{Part: "verify", Rel: rel.name, Store: st, Now: rel.now, LateMs: rel.lateMs, U: &u})
	}
	wires, ends := []string{"deneb"}, []bool{false}
	if thorough {
		wires, ends = []string{"deneb", "capella", "altair"}, []bool{false, true}
	}
	for _, rel := range c12Rels {
		for _, next := range []string{"B", ""} {
			for _, kind := range []string{"full", "finality", "optimistic"} {
				for _, wire := range wires {
					for _, suffix := range ends {
						for _, part := range parts {
							for _, cor := range corr {
								add(rel, kind, wire, next, part, suffix, cor)
							}
						}
					}
				}
				if !thorough { // the other two conversion arms on a reduced menu
					for _, cor := range []string{"", "sig-bit:2", "bit-add", "bit-remove", "att:slot", "fin:slot", "fin-branch:0", "fin-branch-zeroed", "com-branch:1", "com-branch-zeroed", "next-key", "other-committee", "store-key:participant"} {
						add(rel, kind, "altair", next, 342, false, cor)
						add(rel, kind, "capella", next, 342, false, cor)
					}
				}
			}
		}
	}
	if thorough { // every single bit of the signature, on the cheapest accepted case
		for bit := 0; bit < 768; bit++ {
			add(c12Rels[0], "finality", "deneb", "B", 1, false, fmt.Sprintf("sig-bit:%d", bit))
		}
	}
	return out
}

// ---------- part 2: sequences of verify -> apply ----------

const c12ApplyNow = (c12P + 4) * c12Period

var c12Start = c12StoreSpec{Fin: c12Boundary - 200, Opt: c12Boundary - 200, Cur: "A"}

// c12Menu: quick = 16 hand-picked updates around the boundary between periods P and P+1;
// thorough = the product of 6 slot positions x 3 kinds x 4 participation levels.
func c12Menu(thorough bool) (menu []c12Upd) {
	const E = c12Boundary
	mk := func(kind string, fin, att, sig uint64, part int) {
		u := c12Upd{Kind: kind, Wire: "deneb", Att: att, Sig: sig, Part: part, Signer: c12ChainCommittee(sig / c12Period)}
		if kind != "optimistic" {
			u.Fin = fin
		}
		if kind == "full" {
			u.Next = c12ChainCommittee(att/c12Period + 1)
		}
		menu = append(menu, u)
	}
	if thorough {
		for _, pos := range [][3]uint64{{E - 128, E - 50, E - 49}, {E - 64, E - 20, E - 19}, {E - 40, E - 1, E}, {E + 32, E + 100, E + 101}, {E + 64, E + 130, E + 131}, {E + c12Period + 32, E + c12Period + 96, E + c12Period + 97}} {
			for _, kind := range []string{"full", "finality", "optimistic"} {
				for _, part := range []int{1, 341, 342, 512} /* 341 = one below two thirds of 512 */ {
					mk(kind, pos[0], pos[1], pos[2], part)
				}
			}
		}
		c12Forged(&menu)
		return
	}
	mk("optimistic", 0, E-40, E-39, 1)
	mk("optimistic", 0, E-30, E-29, 341)
	mk("finality", E-96, E-32, E-31, 342)
	mk("finality", E-64, E-20, E-19, 341)
	mk("full", E-128, E-50, E-49, 342)
	mk("full", E-128, E-50, E-49, 341)
	mk("full", E-64, E-1, E, 512)
	mk("finality", E+32, E+96, E+97, 342)
	mk("full", E+32, E+100, E+101, 512)
	mk("full", E+64, E+130, E+131, 341)
	mk("optimistic", 0, E+140, E+141, 1)
	mk("optimistic", 0, E+200, E+201, 342)
	mk("finality", E+c12Period+32, E+c12Period+96, E+c12Period+97, 342)
	mk("full", E+c12Period+64, E+c12Period+130, E+c12Period+131, 512)
	mk("finality", E-32, E-8, E-7, 512)
	mk("optimistic", 0, E-1, E, 342)
	c12Forged(&menu)
	return
}

// c12Forged: for the finality update of the menu with 341 participants, the same update with the
// bitmap inflated to all 512 members and the 341-member signature kept. Applied after the genuine
// one (whose attested header is then the store's optimistic header) it must still fail
// verification: its signature is not valid for the participants it names.
func c12Forged(menu *[]c12Upd) {
	for _, u := range *menu {
		if u.Kind == "finality" && u.Part == 341 {
			f := u
			f.Corrupt = "bits-all"
			*menu = append(*menu, f)
			return
		}
	}
}

func c12StoreKey(s *beacon.LightClientStore) string {
	id := func(c *c12Committee) string {
		if c == nil {
			return "-"
		}
		return c.id
	}
	f, o := c12HeaderRoot(s.FinalizedHeader), c12HeaderRoot(s.OptimisticHeader)
	return fmt.Sprintf("fin=%d/%x opt=%d/%x cur=%s next=%s prevmax=%d curmax=%d", s.FinalizedHeader.Slot, f[:4], s.OptimisticHeader.Slot, o[:4],
		id(c12ComOf(s.CurrentSyncCommittee)), id(c12ComOf(s.NextSyncCommittee)), s.PreviousMaxActiveParticipants, s.CurrentMaxActiveParticipants)
}

type c12Step struct {
	accepted bool
	after    beacon.LightClientStore
	bad      [][3]string // (clause, site, detail)
	panicMsg string      // a panic, or an error from Apply*Update after Verify*Update succeeded
}

// c12DoStep: verify u against a copy of the store and, if accepted, apply it. The store is
// copied by value: the implementation only ever swaps the pointers it holds and never
// writes through them (checked at the end of the run by re-hashing every shared object).
func c12DoStep(before beacon.LightClientStore, u *c12Upd, b *c12Built) (s c12Step) {
	c := c12Client(before, c12ApplyNow)
	var verr, aerr error
	msg, site := c12InBubble(func() {
		if verr = c12Verify(c, u.Kind, b.obj); verr == nil {
			aerr = c12Apply(c, u.Kind, b.obj)
		}
	})
	if msg != "" || aerr != nil {
		s.panicMsg = fmt.Sprint(site, ": ", msg, aerr)
		return
	}
	if verr != nil {
		return
	}
	s.accepted, s.after = true, c.Store
	site = "ApplyGenericUpdate:" + u.Kind
	bad := func(clause, format string, a ...any) {
		s.bad = append(s.bad, [3]string{clause, site, fmt.Sprintf(format, a...)})
	}
	for _, cl := range c12Oracle(&before, c12ApplyNow, b, true) {
		s.bad = append(s.bad, [3]string{cl, "VerifyGenericUpdate:store-reached-by-applied-updates", "update accepted although the clause does not hold"})
	}
	a := &s.after
	part := c12Popcount(b.agg.SyncCommitteeBits)
	if a.FinalizedHeader.Slot < before.FinalizedHeader.Slot {
		bad("finalized-never-moves-backwards", "finalized slot %d -> %d", before.FinalizedHeader.Slot, a.FinalizedHeader.Slot)
	}
	if a.OptimisticHeader.Slot < before.OptimisticHeader.Slot {
		bad("optimistic-never-moves-backwards", "optimistic slot %d -> %d", before.OptimisticHeader.Slot, a.OptimisticHeader.Slot)
	}
	if a.OptimisticHeader.Slot < a.FinalizedHeader.Slot {
		bad("optimistic-at-or-ahead-of-finalized", "optimistic slot %d behind finalized slot %d", a.OptimisticHeader.Slot, a.FinalizedHeader.Slot)
	}
	curB, curA, nextB, nextA := c12ComOf(before.CurrentSyncCommittee), c12ComOf(a.CurrentSyncCommittee), c12ComOf(before.NextSyncCommittee), c12ComOf(a.NextSyncCommittee)
	finChanged := c12HeaderRoot(a.FinalizedHeader) != c12HeaderRoot(before.FinalizedHeader)
	if (finChanged || curA != curB || nextA != nextB) && part*3 < c12N*2 {
		bad("two-thirds-to-change-finalized-or-committees", "participation %d/512 changed finalized=%v current=%v next=%v", part, finChanged, curA != curB, nextA != nextB)
	}
	if curA != curB && curA != nextB {
		bad("current-rotates-only-to-previous-next", "current committee changed although it is not the previously stored next committee")
	}
	return
}

func c12RunApply(r *mc.Report, e *Env, depth int) {
	menu := c12Menu(e.Thorough())
	built := make([]*c12Built, len(menu))
	digest := func() string {
		h := sha256.New()
		for _, b := range built {
			fmt.Fprintf(h, "%+v", b.obj)
		}
		for _, id := range []string{"A", "B", "C"} {
			fmt.Fprintf(h, "%x", c12CommitteeRoot(c12Coms()[id].obj))
		}
		return fmt.Sprintf("%x", h.Sum(nil))
	}
	for i, u := range menu {
		built[i] = c12Build(u)
	}
	before := digest()
	type node struct {
		st   beacon.LightClientStore
		hist []int
	}
	seq := func(hist []int) (out []c12Upd) {
		for _, i := range hist {
			out = append(out, menu[i])
		}
		return
	}
	start := node{st: c12Start.store()}
	seen := map[string]bool{c12StoreKey(&start.st): true}
	r.State()
	frontier := []node{start}
	sampled := 0
	for d := 1; d <= depth && len(frontier) > 0 && !e.Expired(); d++ {
		steps := make([]c12Step, len(frontier)*len(menu))
		var wg sync.WaitGroup
		sem := make(chan struct{}, cpus())
		for i := range steps {
			wg.Add(1)
			sem <- struct{}{}
			go func(i int) {
				defer func() { <-sem; wg.Done() }()
				steps[i] = c12DoStep(frontier[i/len(menu)].st, &menu[i%len(menu)], built[i%len(menu)])
			}(i)
		}
		wg.Wait()
		var next []node
		for i, s := range steps {
			n, m := frontier[i/len(menu)], i%len(menu)
			hist := append(append([]int{}, n.hist...), m)
			cs := c12Case{Part: "apply", Store: c12Start, Now: c12ApplyNow, Seq: seq(hist)}
			switch {
			case s.panicMsg != "":
				r.EngineError("verify/apply panicked or failed in " + s.panicMsg)
				continue
			case !s.accepted:
				r.Count("apply_part_rejected_by_verification", 1)
				continue
			}
			r.Transition()
			r.Depth(d)
			for _, b := range s.bad {
				r.Violation(b[0], b[1], fmt.Sprintf("%s; store before: %s; after: %s; last update: %+v", b[2], c12StoreKey(&n.st), c12StoreKey(&s.after), menu[m]), cs)
			}
			key := c12StoreKey(&s.after)
			if key != c12StoreKey(&n.st) {
				r.Count("apply_part_store_changing_transitions", 1)
			}
			if !seen[key] {
				seen[key] = true
				r.State()
				next = append(next, node{s.after, hist})
				if want := "cur=" + string("BC"[sampled%2]); sampled < 2 && strings.Contains(key, want) { // one history per rotation
					sampled++
					r.Sample(map[string]any{"part": "apply", "start": c12StoreKey(&start.st), "sequence": seq(hist), "reached": key})
				}
			}
		}
		frontier = next
	}
	if digest() != before {
		r.EngineError("a shared update or committee object was written to during exploration: copying the store by value is not a sound clone")
	}
	r.Set("apply_part", map[string]any{"depth_bound": depth, "menu": len(menu), "start": c12StoreKey(&start.st), "now_slot": c12ApplyNow,
		"closed_under_menu": len(frontier) == 0}) // true: no sequence of any length reaches a further store
}

func runC12(r *mc.Report, e *Env) {
	r.Rule = "verification part: every case is one call of the real Verify*Update (conversion + VerifyGenericUpdate) under a fake clock, judged by a transcription of the statement's seven clauses; distinct = distinct (kind, wire type, relation, store, participation, corruption class, verdict). application part: every transition is a real verify followed by a real apply on a copy of a reached store; states are canonical stores"
	r.Assume("committees, headers and the beacon state tree are synthetic (deterministic BLS keys, sparse tree with the finalized root at depth 6 index 41 and the next committee at depth 5 index 23); slots lie in mainnet's Altair era so that the configured fork version for every signature slot is 0x01000000")
	r.Assume("updates have only the three shapes the repository's FromLightClient...Update conversions produce; one corruption per update; participation bitmaps are prefixes (thorough: also suffixes) of the committee")
	r.Assume("Electra-typed updates (7/6-node branches) are not exercised: FromLightClient...Update has no arm for them")
	r.SetMaxSamples(8)
	cases := c12VerifyCases(e.Thorough())
	for i, cs := range cases {
		if !e.Mine(int(uint32(i) * 2654435761 >> 8)) { // scattered: neighbouring cases cost alike
			continue
		}
		if e.Expired() {
			return
		}
		acc := c12CheckVerify(r, cs, cs.Store.store(), c12Build(*cs.U))
		if cs.U.Part == 342 && cs.U.Kind == "full" && cs.Store.Next == "" && cs.U.Wire == "deneb" && !cs.U.Suffix &&
			(cs.Rel == "base" && (cs.U.Corrupt == "" || cs.U.Corrupt == "bit-add") || cs.Rel == "sig-eq-attested" && cs.U.Corrupt == "") {
			r.Sample(map[string]any{"part": "verify", "case": cs, "accepted": acc})
		}
	}
	r.Set("honest_rejected_outside_statement_reasons", c12StricterWhy)
	r.Set("verify_part", map[string]any{"cases": len(cases), "relations": len(c12Rels), "corruptions": len(c12Corruptions(e.Thorough()))})
	if e.Of <= 1 || e.Shard == e.Of-1 {
		c12RunCarried(r, e)
	}
	if e.Shard == 0 {
		depth := 4
		if e.Thorough() {
			depth = 6
		}
		c12RunApply(r, e, depth)
	}
}

// ---------- one client instance carried across a fork ----------
//
// Everything above builds a fresh client per step, and all its slots lie in one fork. Here one
// client object verifies and applies a whole sequence whose updates lie on both sides of
// mainnet's Bellatrix fork (epoch 144896 = first slot of sync period 566; fork versions
// 0x01000000 before, 0x02000000 after). Menu: an honest optimistic update in period 565 signed
// by the current committee, one in period 566 signed by the next committee, and each of them
// signed under the other fork's version. Every sequence of <= 2 (thorough 3) of these. Clauses:
// an update signed under the wrong fork's domain is never accepted (its aggregate is not a valid
// signature of the message the configuration prescribes for its slot); and the carried client
// never accepts what a fresh client holding the same store rejects.

const (
	c12ForkPeriod = 566
	c12ForkSlot   = c12ForkPeriod * c12Period
)

func c12ForkMenu() []c12Upd {
	before, after := uint64(c12ForkSlot-c12Period+200), uint64(c12ForkSlot+200)
	return []c12Upd{
		{Kind: "optimistic", Wire: "altair", Att: before, Sig: before + 1, Part: 512, Signer: "A", Ver: 1},
		{Kind: "optimistic", Wire: "altair", Att: after, Sig: after + 1, Part: 512, Signer: "B", Ver: 2},
		{Kind: "optimistic", Wire: "altair", Att: before + 2, Sig: before + 3, Part: 512, Signer: "A", Ver: 2},
		{Kind: "optimistic", Wire: "altair", Att: after + 2, Sig: after + 3, Part: 512, Signer: "B", Ver: 1},
	}
}

func c12RunCarried(r *mc.Report, e *Env) {
	menu := c12ForkMenu()
	built := make([]*c12Built, len(menu))
	for i := range menu {
		built[i] = c12Build(menu[i])
	}
	spec := c12StoreSpec{Fin: c12ForkSlot - c12Period + 64, Opt: c12ForkSlot - c12Period + 96, Cur: "A", Next: "B"}
	now := uint64(c12ForkSlot + 4000)
	rightVersion := func(u *c12Upd) uint8 {
		if u.Sig >= c12ForkSlot {
			return 2
		}
		return 1
	}
	length := 2
	if e.Thorough() {
		length = 3
	}
	n := 0
	var rec func(seq []int)
	rec = func(seq []int) {
		if len(seq) > 0 {
			n++
			var us []c12Upd
			for _, i := range seq {
				us = append(us, menu[i])
			}
			cs := c12Case{Part: "carried", Store: spec, Now: now, Seq: us}
			carried := c12Client(spec.store(), now)
			var trace []string
			for _, i := range seq {
				u, b := &menu[i], built[i]
				fresh := c12Client(carried.Store, now)
				var errC, errF, aerr error
				msg, site := c12InBubble(func() {
					errF = c12Verify(fresh, u.Kind, b.obj)
					if errC = c12Verify(carried, u.Kind, b.obj); errC == nil {
						aerr = c12Apply(carried, u.Kind, b.obj)
					}
				})
				if msg != "" || aerr != nil {
					r.Violation("no-panic", site, fmt.Sprint(msg, aerr), cs)
					break
				}
				if errC == nil && u.Ver != rightVersion(u) {
					r.Violation("signature-valid-for-the-participating-keys", "VerifyGenericUpdate:carried-client-across-a-fork",
						fmt.Sprintf("step %d of %v: an update with signature slot %d signed under fork version %02x000000 was accepted; the configuration prescribes %02x000000 for that slot", len(trace)+1, seq, u.Sig, u.Ver, rightVersion(u)), cs)
				}
				if errC == nil && errF != nil {
					r.Violation("verdict-is-a-function-of-store-and-update", "VerifyGenericUpdate:carried-client-across-a-fork",
						fmt.Sprintf("step %d of %v: the client that verified the earlier updates accepts, a fresh client holding the same store rejects (%v)", len(trace)+1, seq, errF), cs)
				}
				if errC != nil && errF == nil {
					r.Count("model_drift_carried_client_rejects_what_a_fresh_one_accepts", 1)
				}
				trace = append(trace, fmt.Sprintf("%d:%v/%v", i, errC == nil, errF == nil))
			}
			r.Exec("carried|" + strings.Join(trace, ","))
		}
		if len(seq) == length || e.Expired() {
			return
		}
		for i := range menu {
			rec(append(append([]int{}, seq...), i))
		}
	}
	rec(nil)
	r.Count("carried_client_sequences", int64(n))
	r.Sample(map[string]any{"part": "carried", "store": spec, "now_slot": now, "menu": menu})
}

func replayC12(r *mc.Report, e *Env, raw json.RawMessage) {
	var cs c12Case
	if err := json.Unmarshal(raw, &cs); err != nil {
		panic(err)
	}
	if cs.Part == "verify" {
		c12CheckVerify(r, cs, cs.Store.store(), c12Build(*cs.U))
		return
	}
	if cs.Part == "carried" {
		carried := c12Client(cs.Store.store(), cs.Now)
		for i := range cs.Seq {
			u, b := &cs.Seq[i], c12Build(cs.Seq[i])
			fresh := c12Client(carried.Store, cs.Now)
			var errC, errF error
			c12InBubble(func() {
				errF = c12Verify(fresh, u.Kind, b.obj)
				if errC = c12Verify(carried, u.Kind, b.obj); errC == nil {
					c12Apply(carried, u.Kind, b.obj)
				}
			})
			fmt.Printf("step %d: signature slot %d signed under version %02x000000: carried client %v, fresh client %v\n", i+1, u.Sig, u.Ver, errC, errF)
		}
		return
	}
	st := cs.Store.store()
	for i := range cs.Seq {
		s := c12DoStep(st, &cs.Seq[i], c12Build(cs.Seq[i]))
		for _, b := range s.bad {
			r.Violation(b[0], b[1], fmt.Sprintf("%s; store before: %s; after: %s", b[2], c12StoreKey(&st), c12StoreKey(&s.after)), cs)
		}
		if !s.accepted {
			return
		}
		st = s.after
	}
}
