package main

import (
	"encoding/hex"
	"encoding/json"
	"fmt"
	"slices"
	"sort"
	"strings"
	"testing/synctest"
	"time"

	"github.com/ethereum/go-ethereum/p2p/enode"
	"github.com/holiman/uint256"
	"github.com/zen-eth/shisui/portalwire"
	pingext "github.com/zen-eth/shisui/portalwire/ping_ext"
	"github.com/zen-eth/shisui/storage"
	"verifharness/mc"
)

// C06 — radius, admission and retained content agree under the XOR metric.
//
// (a) the C05(a) exploration of put histories with the radius oracle (c05.go);
// (b) the full product of boundary (node id, radius, distance) triples through the
//     in-range test; (c) the Store RPC over a store advertising each radius;
// (d) concurrent puts with an observer (c06b.go).

func init() {
	register(&Prop{ID: "C06", Level: "model_checking", Run: runC06, Replay: replayC06,
		Workers: func(e *Env) int { return len(c05Tasks(e.Thorough())) + 1 + c06bTasks() }, Procs: 1,
		Budget: func(t string) time.Duration {
			if t == "thorough" {
				return 30 * time.Minute
			}
			return 5 * time.Minute
		}})
}

type c06Case struct {
	Node     string `json:"node"`
	Radius   string `json:"radius"`
	Distance string `json:"distance"`
	Via      string `json:"via"` // "inRange" | "StoreRPC"
}

func c06Lattice() []*uint256.Int {
	var out []*uint256.Int
	add := func(v *uint256.Int) { out = append(out, v) }
	for _, s := range []uint64{0, 1, 2, 255, 256, 257, 511, 512, 513} {
		add(uint256.NewInt(s))
	}
	one := uint256.NewInt(1)
	for _, k := range []uint{9, 64, 128, 200, 248, 255} {
		p := new(uint256.Int).Lsh(one, k)
		add(new(uint256.Int).Sub(p, one))
		add(p)
		add(new(uint256.Int).Add(p, one))
	}
	max := new(uint256.Int).SetAllOne()
	add(new(uint256.Int).Sub(max, one))
	add(max)
	return out
}

// fixedRadiusStore is a content store advertising a fixed radius (for the callers of the in-range test).
type fixedRadiusStore struct {
	storage.ContentStorage
	radius *uint256.Int
	puts   int
}

func (f *fixedRadiusStore) Radius() *uint256.Int { return f.radius }
func (f *fixedRadiusStore) Put(k, id, c []byte) error {
	f.puts++
	return f.ContentStorage.Put(k, id, c)
}

func c06Check(r *mc.Report, nodeName string, node enode.ID, radius, dist *uint256.Int, via string, api *portalwire.PortalProtocolAPI, st *fixedRadiusStore) {
	d32 := dist.Bytes32()
	id := make([]byte, 32)
	for i := range id {
		id[i] = node[i] ^ d32[i]
	}
	want := dist.Lt(radius)
	c := c06Case{nodeName, radius.Hex(), dist.Hex(), via}
	var got bool
	if via == "inRange" {
		if msg, site := panicsTo(func() { got = portalwire.VerifInRange(node, radius, id) }); msg != "" {
			r.Violation("in-range-no-panic", site, msg, c)
			return
		}
	} else {
		st.radius = radius
		before := st.puts
		var err error
		if msg, site := panicsTo(func() { got, err = api.Store("0x"+hex.EncodeToString(id), "0x00") }); msg != "" {
			r.Violation("in-range-no-panic", site, msg, c)
			return
		}
		if err != nil {
			r.Violation("store-rpc-returns", "PortalProtocolAPI.Store", err.Error(), c)
			return
		}
		if got != (st.puts > before) {
			r.Violation("store-rpc-stores-iff-accepted", "PortalProtocolAPI.Store", fmt.Sprintf("answer %v, puts %d", got, st.puts-before), c)
			return
		}
	}
	if dist.Eq(radius) {
		// the statement fixes both sides of the boundary but not the boundary itself
		r.Exec(fmt.Sprintf("%s:boundary:%v", via, got))
		c06Boundary.note(radius, via, got)
		return
	}
	if got != want {
		cls := "radius>256"
		if radius.LtUint64(257) {
			cls = "radius<=256"
		}
		kind := "admits-distance-not-below-radius"
		if want {
			kind = "refuses-distance-below-radius"
		}
		r.Violation("in-range-test-is-xor-distance-below-radius", via+":"+kind+":"+cls, fmt.Sprintf("node %s radius %s distance %s: %s says %v, XOR rule says %v", nodeName, radius.Hex(), dist.Hex(), via, got, want), c)
		return
	}
	r.Exec(fmt.Sprintf("%s:%v:%d:%d", via, got, radius.BitLen(), dist.BitLen()))
}

func c06Product(r *mc.Report) {
	lat := c06Lattice()
	n := 0
	one := uint256.NewInt(1)
	for _, nodeName := range []string{"zero", "ones", "mixed"} {
		node := c04Nodes[nodeName]
		for _, radius := range lat {
			dists := append([]*uint256.Int{}, lat...)
			if !radius.IsZero() {
				dists = append(dists, new(uint256.Int).Sub(radius, one))
			}
			if !radius.Eq(new(uint256.Int).SetAllOne()) {
				dists = append(dists, new(uint256.Int).Add(radius, one))
			}
			for _, d := range dists {
				c06Check(r, nodeName, node, radius, d, "inRange", nil, nil)
				n++
			}
		}
	}
	// the Store RPC on a real (unstarted) node whose content-id function is the identity
	st := &fixedRadiusStore{ContentStorage: storage.NewMockStorage(), radius: uint256.NewInt(0)}
	bn := c06Node(st)
	defer bn.Close()
	api := portalwire.NewPortalAPI(bn.P)
	for _, radius := range lat {
		for _, d := range lat {
			c06Check(r, "real-node", bn.P.Self().ID(), radius, d, "StoreRPC", api, st)
			n++
		}
	}
	r.Count("in_range_triples", int64(n))
	r.Sample(c06Case{"mixed", "0x200", "0x1ff", "inRange"})
}

// c06Callers: the same lattice through the two other users of the in-range test. Gossip: a
// table of two nodes, the first reports each radius in a pong, the content id lies at each
// distance from THAT node (so its distance from the local node is unrelated): it is a gossip
// target exactly when the distance is below its radius. Offers: a node whose store
// advertises each radius is offered a fresh key at each distance from the node itself, under
// both protocol versions: the key is marked accepted exactly when the distance is below the radius.
func c06Callers(r *mc.Report) {
	lat := c06Lattice()
	n := 0
	msg := inBubble(func() {
		// nine table nodes: the first reports each radius of the lattice, five report the maximum
		// (they cover everything, so more than four nodes are always in range), three report radius 1
		f := newC20Fix("history", 9, 50)
		defer f.close()
		x := f.nodes[0]
		one := uint256.NewInt(1)
		reported := map[enode.ID]*uint256.Int{}
		for i, nd := range f.nodes[1:] {
			rad := new(uint256.Int).SetAllOne()
			if i >= 5 {
				rad = one
			}
			f.pong(nd, pingext.HistoryRadius, c20SSZ(rad))
			reported[nd.ID()] = rad
		}
		synctest.Wait()
		for _, radius := range lat {
			f.pong(x, pingext.HistoryRadius, c20SSZ(radius))
			synctest.Wait()
			for _, d := range lat {
				d32 := d.Bytes32()
				cid := x.ID().Bytes()
				for i := range cid {
					cid[i] ^= d32[i]
				}
				keys, contents := c20Batch(cid, 0)
				c := c06Case{"gossip-target", radius.Hex(), d.Hex(), "Gossip"}
				var got []enode.ID
				if m, site := panicsTo(func() { got, _, _ = f.gossip(nil, nil, keys, contents) }); m != "" {
					r.Violation("in-range-no-panic", site, m, c)
					continue
				}
				chosen := slices.Contains(got, x.ID())
				n++
				for _, id := range got { // every other target too: its reported radius covers the content
					if rad := reported[id]; rad != nil && !c20Dist(id, cid).Lt(rad) && !c20Dist(id, cid).Eq(rad) {
						r.Violation("in-range-test-is-xor-distance-below-radius", "Gossip:offers-to-a-node-whose-radius-does-not-cover", fmt.Sprintf("a table node that reported radius %s is a gossip target for content at distance %s from it", rad.Hex(), c20Dist(id, cid).Hex()), c)
						break
					}
				}
				if d.Eq(radius) {
					r.Exec(fmt.Sprintf("Gossip:boundary:%v", chosen))
					c06Boundary.note(radius, "Gossip", chosen)
					continue
				}
				if want := d.Lt(radius); chosen != want {
					kind := "offers-to-a-node-whose-radius-does-not-cover"
					if want {
						kind = "skips-a-node-whose-radius-covers"
					}
					r.Violation("in-range-test-is-xor-distance-below-radius", "Gossip:"+kind, fmt.Sprintf("table node reported radius %s, content at distance %s from it: gossip target %v, XOR rule says %v", radius.Hex(), d.Hex(), chosen, want), c)
					continue
				}
				r.Exec(fmt.Sprintf("Gossip:%v:%d:%d", chosen, radius.BitLen(), d.BitLen()))
			}
		}
	})
	if msg != "" {
		r.EngineError("C06 gossip callers: " + msg)
	}
	st := &fixedRadiusStore{ContentStorage: storage.NewMockStorage(), radius: uint256.NewInt(0)}
	bn := c06Node(st)
	defer bn.Close()
	self := bn.P.Self().ID()
	for _, radius := range lat {
		st.radius = radius
		for _, d := range lat {
			d32 := d.Bytes32()
			key := self.Bytes()
			for i := range key {
				key[i] ^= d32[i]
			}
			for ver := uint8(0); ver <= 1; ver++ {
				c := c06Case{"offered-key", radius.Hex(), d.Hex(), fmt.Sprintf("OfferFilter:v%d", ver)}
				var acc portalwire.CommonAccept
				var err error
				if m, site := panicsTo(func() { acc, _, err = bn.P.VerifFilterContentKeys(&portalwire.Offer{ContentKeys: [][]byte{key}}, ver) }); m != "" {
					r.Violation("in-range-no-panic", site, m, c)
					continue
				}
				if err != nil {
					r.Violation("offer-filter-returns", "filterContentKeys", err.Error(), c)
					continue
				}
				accepted := len(acc.GetAcceptIndices()) == 1
				n++
				if d.Eq(radius) {
					r.Exec(fmt.Sprintf("OfferFilter:boundary:%v", accepted))
					c06Boundary.note(radius, fmt.Sprintf("OfferFilter:v%d", ver), accepted)
					continue
				}
				if want := d.Lt(radius); accepted != want {
					kind := "accepts-a-key-outside-the-radius"
					if want {
						kind = "declines-a-key-inside-the-radius"
					}
					r.Violation("in-range-test-is-xor-distance-below-radius", "OfferFilter:"+kind, fmt.Sprintf("store radius %s, fresh key at distance %s (version %d): accepted %v, XOR rule says %v", radius.Hex(), d.Hex(), ver, accepted, want), c)
					continue
				}
				r.Exec(fmt.Sprintf("OfferFilter:v%d:%v:%d:%d", ver, accepted, radius.BitLen(), d.BitLen()))
			}
		}
	}
	r.Count("in_range_caller_cases", int64(n))
}

// c06Boundary: what each user of the in-range test says where the distance equals the radius.
// The statement leaves that verdict open, but it is "this same rule" for all of them: the
// callers must agree with each other there too.
type c06BoundaryLog map[string]map[string]bool

var c06Boundary = c06BoundaryLog{}

func (l c06BoundaryLog) note(radius *uint256.Int, via string, verdict bool) {
	k := radius.Hex()
	if l[k] == nil {
		l[k] = map[string]bool{}
	}
	if old, seen := l[k][via]; seen && old != verdict {
		l[k][via+":varies"] = true
	}
	l[k][via] = verdict
}

func (l c06BoundaryLog) judge(r *mc.Report) {
	n := 0
	for radius, by := range l {
		var yes, no []string
		for via, v := range by {
			if v {
				yes = append(yes, via)
			} else {
				no = append(no, via)
			}
		}
		n += len(by)
		if len(yes) > 0 && len(no) > 0 {
			sort.Strings(yes)
			sort.Strings(no)
			minority := yes
			if len(no) < len(yes) {
				minority = no
			}
			r.Violation("users-of-the-in-range-test-agree", "boundary:"+strings.Join(minority, "+"), fmt.Sprintf("distance == radius == %s: in range according to %v, not in range according to %v", radius, yes, no), c06Case{"boundary", radius, radius, strings.Join(minority, "+")})
		}
	}
	r.Count("boundary_verdicts_compared", int64(n))
}

func runC06(r *mc.Report, e *Env) {
	r.Rule = "(a) BFS over put histories (see C05) with the radius clauses evaluated after every put on a scan of the database; (b) full product of a boundary lattice of radii x distances x 3 node ids through the in-range test and the Store RPC; distinct = distinct canonical store states / (verdict, radius bits, distance bits)"
	if freeRuns > 0 { // race-detector pass: only the concurrent scenarios, in this process
		for t := 0; t < c06bTasks(); t += c06bShards {
			runC06b(r, e, t)
		}
		return
	}
	nb := len(c05Tasks(e.Thorough()))
	if e.Of <= 1 || e.Shard < nb {
		c05BFS(r, e, nil, r)
	}
	if e.Of <= 1 || e.Shard == nb {
		c06Product(r)
		c06Callers(r)
		c06Boundary.judge(r)
		c06Advertised(r)
	}
	for t := 0; t < c06bTasks(); t++ {
		if e.Of <= 1 || e.Shard == nb+1+t {
			runC06b(r, e, t)
		}
	}
}

func replayC06(r *mc.Report, e *Env, raw json.RawMessage) {
	if replayC06b(r, raw) {
		return
	}
	var h c05Case
	if err := json.Unmarshal(raw, &h); err == nil && len(h.Hist) > 0 {
		c05Run1(nil, r, h.Node, h.Hist)
		return
	}
	var c c06Case
	if err := json.Unmarshal(raw, &c); err != nil {
		panic(err)
	}
	var ac c06AdvCase
	if err := json.Unmarshal(raw, &ac); err == nil && ac.Adv != "" {
		c06Advertised(r) // the whole part again (seconds): the report lists what reproduces
		return
	}
	if c.Via == "Gossip" || strings.HasPrefix(c.Via, "OfferFilter") || c.Node == "boundary" {
		c06Product(r) // the whole lattice again (a second): the report lists what reproduces
		c06Callers(r)
		c06Boundary.judge(r)
		return
	}
	radius, dist := uint256.MustFromHex(c.Radius), uint256.MustFromHex(c.Distance)
	node := c04Nodes[c.Node]
	if c.Via == "inRange" {
		c06Check(r, c.Node, node, radius, dist, c.Via, nil, nil)
		return
	}
	st := &fixedRadiusStore{ContentStorage: storage.NewMockStorage(), radius: radius}
	bn := c06Node(st)
	defer bn.Close()
	c06Check(r, c.Node, bn.P.Self().ID(), radius, dist, c.Via, portalwire.NewPortalAPI(bn.P), st)
}

func c06Node(st storage.ContentStorage) *bareNode {
	bn := newBareNode(bareOpts{keyIdx: 6, store: st})
	bn.P.VerifSetContentIdFunc(func(k []byte) []byte { return k })
	return bn
}
