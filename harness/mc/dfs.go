package mc

import (
	"fmt"
	"time"
)

// Point is one decision taken during an execution.
type Point struct {
	N      int    // number of alternatives
	Choice int    // the one taken
	Label  string // what was decided (checked on replay)
	Cost   int    // deviation cost of every non-default alternative at this point
}

// Ctx is handed to an execution body; every nondeterministic decision goes
// through Choose so that the explorer can enumerate them.
type Ctx struct {
	prefix []int
	Trace  []Point
	// Diverged is set when a replayed prefix asked for an out-of-range choice or a
	// point that does not exist: nondeterminism the harness does not own.
	Diverged string
}

// Choose returns a value in [0,n). Choice 0 is the default; any other costs 1 deviation.
func (c *Ctx) Choose(n int, label string) int { return c.ChooseCost(n, label, 1) }

// ChooseCost is Choose with an explicit deviation cost for non-default alternatives.
func (c *Ctx) ChooseCost(n int, label string, cost int) int {
	if n <= 0 {
		panic("mc: Choose with n<=0 at " + label)
	}
	i := len(c.Trace)
	ch := 0
	if i < len(c.prefix) {
		ch = c.prefix[i]
		if ch >= n {
			if c.Diverged == "" {
				c.Diverged = fmt.Sprintf("point %d (%s): replay wants choice %d of %d", i, label, ch, n)
			}
			ch = 0
		}
	}
	c.Trace = append(c.Trace, Point{N: n, Choice: ch, Label: label, Cost: cost})
	return ch
}

// Choices returns the choice sequence of this execution (a replayable schedule).
func (c *Ctx) Choices() []int {
	out := make([]int, len(c.Trace))
	for i, p := range c.Trace {
		out[i] = p.Choice
	}
	return out
}

func (c *Ctx) Labels() []string {
	out := make([]string, len(c.Trace))
	for i, p := range c.Trace {
		out[i] = fmt.Sprintf("%s=%d/%d", p.Label, p.Choice, p.N)
	}
	return out
}

// DFS explores all choice sequences of body whose total deviation cost is <= Bound
// (Bound < 0: unbounded).
type DFS struct {
	Bound      int
	Shard, Of  int          // this worker explores subtrees with index%Of == Shard at ShardDepth
	ShardDepth int          // tree depth (number of non-default prefixes) at which subtrees are dealt out
	Deadline   time.Time    // zero: none
	Body       func(c *Ctx) // one execution
	After      func(c *Ctx) // called after each execution this shard owns (oracle)
	Retries    int          // re-run an execution whose replayed prefix diverged up to this many times
	Retried    int64
	Executions int64
	Diverged   int64
	TimedOut   bool
	MaxPoints  int
	counter    int
}

func (d *DFS) Run() {
	if d.Of == 0 {
		d.Of = 1
	}
	d.explore(nil, 0, 0)
}

func (d *DFS) explore(prefix []int, spent int, depth int) {
	if !d.Deadline.IsZero() && time.Now().After(d.Deadline) {
		d.TimedOut = true
		return
	}
	own := true
	if d.Of > 1 {
		if depth < d.ShardDepth {
			own = d.Shard == 0 // everybody runs it to find the children; shard 0 reports it
		} else if depth == d.ShardDepth {
			idx := d.counter
			d.counter++
			if idx%d.Of != d.Shard {
				return
			}
		}
	}
	c := &Ctx{prefix: prefix}
	d.Body(c)
	for try := 0; try < d.Retries && (c.Diverged != "" || len(c.Trace) < len(prefix)); try++ {
		d.Retried++
		c = &Ctx{prefix: prefix}
		d.Body(c)
	}
	if c.Diverged != "" {
		d.Diverged++
		if own && d.After != nil {
			d.After(c)
		}
		return
	}
	if len(c.Trace) < len(prefix) {
		d.Diverged++
		c.Diverged = fmt.Sprintf("execution ended after %d points, replay prefix has %d", len(c.Trace), len(prefix))
		if own && d.After != nil {
			d.After(c)
		}
		return
	}
	if own {
		d.Executions++
		if len(c.Trace) > d.MaxPoints {
			d.MaxPoints = len(c.Trace)
		}
		if d.After != nil {
			d.After(c)
		}
	}
	for i := len(prefix); i < len(c.Trace); i++ {
		p := c.Trace[i]
		if p.N <= 1 {
			continue
		}
		cost := spent + p.Cost
		if d.Bound >= 0 && cost > d.Bound {
			continue
		}
		for alt := 1; alt < p.N; alt++ {
			np := make([]int, i+1)
			for j := 0; j < i; j++ {
				np[j] = c.Trace[j].Choice
			}
			np[i] = alt
			d.explore(np, cost, depth+1)
			if d.TimedOut {
				return
			}
		}
	}
}

// Replay runs body once along a recorded choice sequence.
func Replay(choices []int, body func(c *Ctx)) *Ctx {
	c := &Ctx{prefix: choices}
	body(c)
	return c
}
