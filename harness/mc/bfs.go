package mc

import (
	"sort"
	"strings"
	"sync"
	"time"
)

// BFS is an explicit-state breadth-first search over the real transition function.
// A state is identified by the event history that reaches it: Exec builds a fresh
// real object, replays the history and returns a canonical rendering of the state
// reached (property-relevant fields only). Successors of states already seen (same
// canonical rendering) are not expanded.
type BFS struct {
	Starts   [][]string                                      // start histories (history[0] names a start state)
	Events   func(hist []string) []string                    // enabled events after hist
	Exec     func(hist []string) (canon string, expand bool) // runs the implementation; checks invariants itself
	MaxDepth int
	Par      int
	Deadline time.Time
	Shard    int // Shard/Of: split the first level of events among worker processes
	Of       int

	States      int64
	Transitions int64
	Depth       int
	Complete    bool
	Seen        map[string]struct{}
}

type bfsTask struct {
	hist  []string
	canon string
	exp   bool
}

func (b *BFS) Run() {
	if b.Par <= 0 {
		b.Par = 1
	}
	if b.Of <= 0 {
		b.Of = 1
	}
	b.Seen = map[string]struct{}{}
	b.Complete = true
	var frontier [][]string
	// depth 0: the start states themselves
	var tasks []*bfsTask
	for _, s := range b.Starts {
		tasks = append(tasks, &bfsTask{hist: append([]string{}, s...)})
	}
	b.runTasks(tasks)
	for _, t := range tasks {
		if _, ok := b.Seen[t.canon]; ok {
			continue
		}
		b.Seen[t.canon] = struct{}{}
		b.States++
		if t.exp {
			frontier = append(frontier, t.hist)
		}
	}
	for depth := 1; depth <= b.MaxDepth && len(frontier) > 0; depth++ {
		tasks = tasks[:0]
		n := 0
		for _, h := range frontier {
			for _, ev := range b.Events(h) {
				n++
				if depth == 1 && b.Of > 1 && n%b.Of != b.Shard {
					continue
				}
				nh := make([]string, len(h)+1)
				copy(nh, h)
				nh[len(h)] = ev
				tasks = append(tasks, &bfsTask{hist: nh})
			}
		}
		if !b.Deadline.IsZero() && time.Now().After(b.Deadline) {
			b.Complete = false
			return
		}
		done := b.runTasks(tasks)
		b.Transitions += int64(done)
		if done < len(tasks) {
			b.Complete = false
		}
		b.Depth = depth
		frontier = frontier[:0]
		sort.Slice(tasks, func(i, j int) bool { return strings.Join(tasks[i].hist, "\x00") < strings.Join(tasks[j].hist, "\x00") })
		for _, t := range tasks {
			if t.canon == "" {
				continue
			}
			if _, ok := b.Seen[t.canon]; ok {
				continue
			}
			b.Seen[t.canon] = struct{}{}
			b.States++
			if t.exp {
				frontier = append(frontier, t.hist)
			}
		}
		if !b.Complete {
			return
		}
	}
}

// runTasks executes tasks in parallel; returns how many ran (deadline may cut it short).
func (b *BFS) runTasks(tasks []*bfsTask) int {
	var wg sync.WaitGroup
	var mu sync.Mutex
	next, done := 0, 0
	for w := 0; w < b.Par; w++ {
		wg.Add(1)
		go func() {
			defer wg.Done()
			for {
				mu.Lock()
				if next >= len(tasks) || (!b.Deadline.IsZero() && time.Now().After(b.Deadline)) {
					mu.Unlock()
					return
				}
				t := tasks[next]
				next++
				mu.Unlock()
				t.canon, t.exp = b.Exec(t.hist)
				mu.Lock()
				done++
				mu.Unlock()
			}
		}()
	}
	wg.Wait()
	return done
}
