// Package mc holds the exploration engines and the evidence / violation /
// known-finding plumbing shared by every property check.
package mc

import (
	"crypto/sha256"
	"encoding/hex"
	"encoding/json"
	"fmt"
	"os"
	"path/filepath"
	"sort"
	"strings"
	"sync"
	"time"
)

// Violation is one property violation found by a check.
type Violation struct {
	Property    string          `json:"property"`
	Clause      string          `json:"clause"` // which part of the statement failed
	Site        string          `json:"site"`   // repository function or input class (never a line, never raw bytes)
	Detail      string          `json:"detail"`
	Case        json.RawMessage `json:"case"` // what --replay needs
	Fingerprint string          `json:"fingerprint"`
	Count       int             `json:"count"` // how many explored cases hit this fingerprint
}

// Report collects what one run of one check covered. It is safe for concurrent use.
type Report struct {
	mu sync.Mutex

	Property string `json:"property"`
	Tier     string `json:"tier"`
	Level    string `json:"level"`
	Seed     int64  `json:"seed"`

	Evaluations int64                 `json:"evaluations"`
	Digests     map[string]struct{}   `json:"-"`
	DigestList  []string              `json:"digests"`
	Samples     []json.RawMessage     `json:"samples"`
	States      int64                 `json:"states"`
	Transitions int64                 `json:"transitions"`
	MaxDepth    int                   `json:"max_depth"`
	Exhaustive  bool                  `json:"exhaustive"`
	Rule        string                `json:"rule"`
	Extra       map[string]any        `json:"extra"`
	Counters    map[string]int64      `json:"counters"`
	Assumptions []string              `json:"assumptions"`
	Violations  map[string]*Violation `json:"violations"`
	EngineErrs  []string              `json:"engine_errors"`

	maxSamples int
	start      time.Time
}

func NewReport(prop, tier, level string, seed int64) *Report {
	return &Report{Property: prop, Tier: tier, Level: level, Seed: seed,
		Digests: map[string]struct{}{}, Extra: map[string]any{}, Counters: map[string]int64{},
		Violations: map[string]*Violation{}, maxSamples: 5, Exhaustive: true, start: time.Now()}
}

func short(s string) string {
	h := sha256.Sum256([]byte(s))
	return hex.EncodeToString(h[:8])
}

// Exec records one execution of the implementation that reached the code the
// property is about; digest is what was observed (distinct digests are counted).
func (r *Report) Exec(digest string) {
	r.mu.Lock()
	r.Evaluations++
	r.Digests[short(digest)] = struct{}{}
	r.mu.Unlock()
}

// Trivial records an execution that did not reach the code of interest.
func (r *Report) Trivial() {
	r.mu.Lock()
	r.Evaluations++
	r.mu.Unlock()
}

func (r *Report) Count(name string, n int64) {
	r.mu.Lock()
	r.Counters[name] += n
	r.mu.Unlock()
}

func (r *Report) Max(name string, n int64) {
	r.mu.Lock()
	if r.Counters[name] < n {
		r.Counters[name] = n
	}
	r.mu.Unlock()
}

func (r *Report) State()      { r.mu.Lock(); r.States++; r.mu.Unlock() }
func (r *Report) Transition() { r.mu.Lock(); r.Transitions++; r.mu.Unlock() }
func (r *Report) Depth(d int) {
	r.mu.Lock()
	if d > r.MaxDepth {
		r.MaxDepth = d
	}
	r.mu.Unlock()
}

// Sample keeps up to a handful of written-out cases per category.
func (r *Report) Sample(v any) {
	r.mu.Lock()
	defer r.mu.Unlock()
	if len(r.Samples) >= r.maxSamples {
		return
	}
	b, err := json.Marshal(v)
	if err != nil {
		b, _ = json.Marshal(fmt.Sprint(v))
	}
	if len(b) > 4000 {
		b, _ = json.Marshal(string(b[:4000]) + "...(truncated)")
	}
	r.Samples = append(r.Samples, b)
}

func (r *Report) SetMaxSamples(n int) { r.maxSamples = n }

func (r *Report) Set(key string, v any) {
	r.mu.Lock()
	r.Extra[key] = v
	r.mu.Unlock()
}

func (r *Report) Assume(s string) {
	r.mu.Lock()
	for _, a := range r.Assumptions {
		if a == s {
			r.mu.Unlock()
			return
		}
	}
	r.Assumptions = append(r.Assumptions, s)
	r.mu.Unlock()
}

// NotExhaustive marks the run as capped (deadline, sampling of a larger space).
func (r *Report) NotExhaustive(why string) {
	r.mu.Lock()
	r.Exhaustive = false
	r.addReason(why)
	r.mu.Unlock()
}

// addReason keeps every distinct reason (r.mu held).
func (r *Report) addReason(why string) {
	cur, _ := r.Extra["not_exhaustive_because"].(string)
	for _, w := range strings.Split(cur, " || ") {
		if w == why {
			return
		}
	}
	if cur != "" {
		why = cur + " || " + why
	}
	r.Extra["not_exhaustive_because"] = why
}

func (r *Report) EngineError(s string) {
	r.mu.Lock()
	r.EngineErrs = append(r.EngineErrs, s)
	r.Exhaustive = false
	r.mu.Unlock()
}

// Violation records a violation. clause and site make the fingerprint; the first
// case seen for a fingerprint is kept as its replay.
func (r *Report) Violation(clause, site, detail string, c any) {
	fp := r.Property + "/" + clause + "/" + site
	r.mu.Lock()
	defer r.mu.Unlock()
	if v, ok := r.Violations[fp]; ok {
		v.Count++
		return
	}
	b, _ := json.Marshal(c)
	if len(detail) > 2000 {
		detail = detail[:2000] + "..."
	}
	r.Violations[fp] = &Violation{Property: r.Property, Clause: clause, Site: site, Detail: detail, Case: b, Fingerprint: fp, Count: 1}
}

func (r *Report) HasViolation(clause, site string) bool {
	r.mu.Lock()
	defer r.mu.Unlock()
	_, ok := r.Violations[r.Property+"/"+clause+"/"+site]
	return ok
}

// Elapsed since the report was created.
func (r *Report) Elapsed() time.Duration { return time.Since(r.start) }

// ---- partial reports (worker → parent) ----

func (r *Report) WritePartial(path string) error {
	r.mu.Lock()
	r.DigestList = r.DigestList[:0]
	for d := range r.Digests {
		r.DigestList = append(r.DigestList, d)
	}
	b, err := json.Marshal(r)
	r.mu.Unlock()
	if err != nil {
		return err
	}
	return os.WriteFile(path, b, 0o644)
}

func (r *Report) MergeFile(path string) error {
	b, err := os.ReadFile(path)
	if err != nil {
		return err
	}
	var p Report
	if err := json.Unmarshal(b, &p); err != nil {
		return err
	}
	r.Merge(&p)
	return nil
}

func (r *Report) Merge(p *Report) {
	r.mu.Lock()
	defer r.mu.Unlock()
	r.Evaluations += p.Evaluations
	for _, d := range p.DigestList {
		r.Digests[d] = struct{}{}
	}
	for d := range p.Digests {
		r.Digests[d] = struct{}{}
	}
	for _, s := range p.Samples {
		if len(r.Samples) < r.maxSamples {
			r.Samples = append(r.Samples, s)
		}
	}
	r.States += p.States
	r.Transitions += p.Transitions
	if p.MaxDepth > r.MaxDepth {
		r.MaxDepth = p.MaxDepth
	}
	if !p.Exhaustive {
		r.Exhaustive = false
	}
	if p.Rule != "" {
		r.Rule = p.Rule
	}
	for k, v := range p.Extra {
		if k == "not_exhaustive_because" {
			if str, ok := v.(string); ok {
				for _, w := range strings.Split(str, " || ") {
					r.addReason(w)
				}
				continue
			}
		}
		r.Extra[k] = v
	}
	for k, v := range p.Counters {
		if strings.HasPrefix(k, "max_") {
			if r.Counters[k] < v {
				r.Counters[k] = v
			}
		} else {
			r.Counters[k] += v
		}
	}
	for _, a := range p.Assumptions {
		dup := false
		for _, b := range r.Assumptions {
			dup = dup || a == b
		}
		if !dup {
			r.Assumptions = append(r.Assumptions, a)
		}
	}
	for fp, v := range p.Violations {
		if w, ok := r.Violations[fp]; ok {
			w.Count += v.Count
		} else {
			r.Violations[fp] = v
		}
	}
	r.EngineErrs = append(r.EngineErrs, p.EngineErrs...)
}

// ---- known findings ----

type KnownFinding struct {
	Property    string `json:"property"`
	Fingerprint string `json:"fingerprint"`
	Status      string `json:"status"` // "known" or "fixed"
	What        string `json:"what"`
	Commit      string `json:"commit,omitempty"`
	Line        string `json:"line,omitempty"` // for fixed entries: "fixed: property=<id> <commit> <what failed>"
}

func LoadKnown(path string) ([]KnownFinding, error) {
	b, err := os.ReadFile(path)
	if err != nil {
		if os.IsNotExist(err) {
			return nil, nil
		}
		return nil, err
	}
	var f struct {
		Findings []KnownFinding `json:"findings"`
	}
	if err := json.Unmarshal(b, &f); err != nil {
		return nil, err
	}
	return f.Findings, nil
}

// Finish writes the evidence file, replay files and the KNOWN-FINDING / VIOLATION
// lines; it returns the process exit code.
func (r *Report) Finish(verifDir string) int {
	r.mu.Lock()
	defer r.mu.Unlock()
	known, err := LoadKnown(filepath.Join(verifDir, "known_findings.json"))
	if err != nil {
		fmt.Fprintln(os.Stderr, "cannot read known_findings.json:", err)
		return 2
	}
	isKnown := map[string]KnownFinding{}
	for _, k := range known {
		if k.Status == "known" && k.Property == r.Property {
			isKnown[k.Fingerprint] = k
		}
	}
	fps := make([]string, 0, len(r.Violations))
	for fp := range r.Violations {
		fps = append(fps, fp)
	}
	sort.Strings(fps)
	exit := 0
	var knownSeen, newSeen []string
	outDir := verifDir
	if m := os.Getenv("VERIF_MUTANT"); m != "" { // self-test runs never touch the real evidence
		outDir = filepath.Join(verifDir, ".build", "mutant-"+m)
	}
	if o := os.Getenv("VERIF_OUT"); o != "" { // runs against a deliberately changed tree (seedeval.sh) write elsewhere too
		outDir = o
	}
	os.MkdirAll(filepath.Join(outDir, "replays"), 0o755)
	for _, fp := range fps {
		v := r.Violations[fp]
		name := strings.NewReplacer("/", "_", " ", "_", ":", "_", "*", "_", "(", "", ")", "").Replace(fp)
		if len(name) > 120 {
			name = name[:100] + "_" + short(fp)
		}
		rp := filepath.Join(outDir, "replays", name+".json")
		b, _ := json.MarshalIndent(v, "", " ")
		os.WriteFile(rp, b, 0o644)
		if k, ok := isKnown[fp]; ok {
			fmt.Printf("KNOWN-FINDING: property=%s %s [%s] (%d cases) replay=%s\n", r.Property, k.What, fp, v.Count, rp)
			knownSeen = append(knownSeen, fp)
			continue
		}
		fmt.Printf("VIOLATION property=%s replay=%s\n", r.Property, rp)
		fmt.Printf("  fingerprint: %s\n  cases: %d\n  detail: %s\n", fp, v.Count, v.Detail)
		newSeen = append(newSeen, fp)
		exit = 1
	}
	for _, e := range r.EngineErrs {
		fmt.Printf("ENGINE-NOTE: %s\n", e)
	}

	cov := map[string]any{
		"evaluations":         r.Evaluations,
		"distinct_nontrivial": len(r.Digests),
		"rule":                r.Rule,
		"samples":             r.Samples,
		"exhaustive":          r.Exhaustive,
		"known_findings_seen": knownSeen,
		"new_violations":      newSeen,
	}
	if r.Level == "model_checking" {
		cov["states"] = r.States
		cov["transitions"] = r.Transitions
		cov["max_depth"] = r.MaxDepth
		cov["traces_validated_against_impl"] = r.Transitions
	}
	for k, v := range r.Extra {
		cov[k] = v
	}
	for k, v := range r.Counters {
		cov[k] = v
	}
	if len(r.EngineErrs) > 0 {
		cov["engine_notes"] = r.EngineErrs
	}
	if len(r.Samples) == 0 {
		cov["samples"] = []any{"(no case executed)"}
	}
	ev := map[string]any{
		"property_id": r.Property,
		"tier":        r.Tier,
		"seed":        r.Seed,
		"level":       r.Level,
		"coverage":    cov,
		"assumptions": r.Assumptions,
		"wall_s":      time.Since(r.start).Seconds(),
		"violations":  len(newSeen),
	}
	if r.Assumptions == nil {
		ev["assumptions"] = []string{}
	}
	b, _ := json.MarshalIndent(ev, "", " ")
	os.MkdirAll(filepath.Join(outDir, "evidence"), 0o755)
	if err := os.WriteFile(filepath.Join(outDir, "evidence", r.Property+".json"), b, 0o644); err != nil {
		fmt.Fprintln(os.Stderr, "cannot write evidence:", err)
		return 2
	}
	fmt.Printf("SUMMARY property=%s tier=%s evaluations=%d distinct=%d states=%d transitions=%d exhaustive=%v known=%d new=%d wall=%.1fs\n",
		r.Property, r.Tier, r.Evaluations, len(r.Digests), r.States, r.Transitions, r.Exhaustive, len(knownSeen), len(newSeen), time.Since(r.start).Seconds())
	return exit
}
