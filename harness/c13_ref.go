package main

import (
	"bytes"
	"math/big"

	"github.com/ethereum/go-ethereum/crypto"
	"github.com/ethereum/go-ethereum/rlp"
)

// Reference proof walker for C13, written against go-ethereum's RLP decoder only.
// It implements the statement and nothing else: proof[0] hashes to the state root,
// each next node is the child the previous one references along the key's path,
// the path is used up exactly on arrival at the last node, the last node (or the
// proven account's code hash) equals the hash in the key. Where the statement says
// nothing (nodes that are not canonical trie nodes, wire-size limits) it is silent.

const (
	c13Accept = iota
	c13Reject
	c13Silent
)

type refVerdict struct {
	st  int
	why string // kebab-case: the part of the statement that fails (or why the reference is silent)
}

func (v refVerdict) String() string {
	return [...]string{"accept:", "reject:", "silent:"}[v.st] + v.why
}

type refRef struct { // a child slot: hash reference, embedded node, or (both nil) no child
	hash []byte
	emb  *refNode
}

type refNode struct {
	branch bool
	kids   [16]refRef // branch
	key    []byte     // short node: nibbles
	leaf   bool
	val    []byte // leaf value
	next   refRef // extension child
	enc    []byte // the node's own encoding
}

func refHexPrefix(b []byte) (nib []byte, leaf, ok bool) {
	if len(b) == 0 || b[0]>>4 > 3 {
		return nil, false, false
	}
	leaf = b[0]&0x20 != 0
	if b[0]&0x10 != 0 {
		nib = append(nib, b[0]&0xf)
	} else if b[0]&0xf != 0 {
		return nil, false, false
	}
	for _, c := range b[1:] {
		nib = append(nib, c>>4, c&0xf)
	}
	return nib, leaf, true
}

func refChild(item rlp.RawValue) (refRef, bool) {
	kind, content, rest, err := rlp.Split(item)
	if err != nil || len(rest) != 0 {
		return refRef{}, false
	}
	switch {
	case kind == rlp.List:
		if len(item) >= 32 {
			return refRef{}, false
		}
		n, ok := refParse(item)
		return refRef{emb: n}, ok
	case len(content) == 0 && kind == rlp.String:
		return refRef{}, true
	case len(content) == 32:
		return refRef{hash: content}, true
	}
	return refRef{}, false
}

// refParse decodes a canonical trie node; ok=false for anything else.
func refParse(raw []byte) (*refNode, bool) {
	var items []rlp.RawValue
	if rlp.DecodeBytes(raw, &items) != nil {
		return nil, false
	}
	n := &refNode{enc: raw}
	switch len(items) {
	case 17:
		n.branch = true
		for i := 0; i < 16; i++ {
			c, ok := refChild(items[i])
			if !ok {
				return nil, false
			}
			n.kids[i] = c
		}
		if k, _, _, err := rlp.Split(items[16]); err != nil || k == rlp.List {
			return nil, false
		}
		return n, true
	case 2:
		var hp []byte
		if rlp.DecodeBytes(items[0], &hp) != nil {
			return nil, false
		}
		var ok bool
		if n.key, n.leaf, ok = refHexPrefix(hp); !ok {
			return nil, false
		}
		if n.leaf {
			return n, rlp.DecodeBytes(items[1], &n.val) == nil
		}
		n.next, ok = refChild(items[1])
		return n, ok && len(n.key) > 0 && (n.next.hash != nil || n.next.emb != nil)
	}
	return nil, false
}

// refChain checks root and links of a proof; it returns the last node and the part
// of the path that is left on arrival there.
func refChain(root, path []byte, proof [][]byte) (last, rem []byte, v refVerdict) {
	if len(proof) == 0 {
		return nil, nil, refVerdict{c13Reject, "empty-proof"}
	}
	if !bytes.Equal(crypto.Keccak256(proof[0]), root) {
		return nil, nil, refVerdict{c13Reject, "first-node-is-not-the-state-root"}
	}
	rem = path
	for i := 0; i+1 < len(proof); i++ {
		n, ok := refParse(proof[i])
		if !ok {
			return nil, nil, refVerdict{c13Silent, "non-canonical-node-in-proof"}
		}
		var ref []byte
		for ref == nil {
			var c refRef
			switch {
			case n.branch:
				if len(rem) == 0 {
					return nil, nil, refVerdict{c13Reject, "surplus-node-after-path-end"}
				}
				c, rem = n.kids[rem[0]], rem[1:]
			case n.leaf:
				return nil, nil, refVerdict{c13Reject, "node-follows-a-leaf"}
			default:
				if !bytes.HasPrefix(rem, n.key) {
					return nil, nil, refVerdict{c13Reject, "path-leaves-the-extension"}
				}
				c, rem = n.next, rem[len(n.key):]
			}
			switch {
			case c.hash != nil:
				ref = c.hash
			case c.emb != nil:
				n = c.emb
			default:
				return nil, nil, refVerdict{c13Reject, "no-child-on-the-path"}
			}
		}
		if !bytes.Equal(crypto.Keccak256(proof[i+1]), ref) {
			return nil, nil, refVerdict{c13Reject, "node-is-not-the-referenced-child"}
		}
	}
	return proof[len(proof)-1], rem, refVerdict{c13Accept, ""}
}

func refNodeClaim(root, path, hash []byte, proof [][]byte) refVerdict {
	last, rem, v := refChain(root, path, proof)
	if v.st != c13Accept {
		return v
	}
	if len(rem) != 0 {
		return refVerdict{c13Reject, "path-not-consumed"}
	}
	if !bytes.Equal(crypto.Keccak256(last), hash) {
		return refVerdict{c13Reject, "final-node-is-not-the-keyed-hash"}
	}
	return v
}

type refAccount struct {
	Nonce    uint64
	Balance  *big.Int
	Root     []byte
	CodeHash []byte
}

// refAccountClaim proves the account leaf for addrHash under root.
func refAccountClaim(root, addrHash []byte, proof [][]byte) (*refAccount, refVerdict) {
	path := make([]byte, 0, 64)
	for _, b := range addrHash {
		path = append(path, b>>4, b&0xf)
	}
	last, rem, v := refChain(root, path, proof)
	if v.st != c13Accept {
		v.why = "account-proof:" + v.why
		return nil, v
	}
	n, ok := refParse(last)
	if !ok {
		return nil, refVerdict{c13Silent, "account-proof:non-canonical-node-in-proof"}
	}
	for !n.leaf {
		var c refRef
		if n.branch {
			if len(rem) == 0 {
				return nil, refVerdict{c13Reject, "account-proof:no-account-leaf"}
			}
			c, rem = n.kids[rem[0]], rem[1:]
		} else {
			if !bytes.HasPrefix(rem, n.key) {
				return nil, refVerdict{c13Reject, "account-proof:path-leaves-the-extension"}
			}
			c, rem = n.next, rem[len(n.key):]
		}
		if c.emb == nil {
			return nil, refVerdict{c13Reject, "account-proof:ends-above-the-account-leaf"}
		}
		n = c.emb
	}
	if !bytes.Equal(n.key, rem) {
		return nil, refVerdict{c13Reject, "account-proof:leaf-of-another-address"}
	}
	acc := new(refAccount)
	if rlp.DecodeBytes(n.val, acc) != nil || len(acc.Root) != 32 || len(acc.CodeHash) != 32 {
		return nil, refVerdict{c13Silent, "account-proof:leaf-value-is-not-a-consensus-account"}
	}
	return acc, refVerdict{c13Accept, ""}
}

// refJudge is the reference verdict on what ValidateContent may accept. For bytecode
// the statement's acceptance condition is about the account's code hash; codeOK says
// whether the code bytes themselves hash to it (they must before anything is stored).
// The statement does not speak about the wire format's size limits: something it
// would accept but that exceeds them is left to the implementation.
func refJudge(c *c13Case) (v refVerdict, codeOK bool) {
	v, codeOK = refStatement(c)
	over := len(c.Path) > 64 || len(c.Proof) > 65 || len(c.Acct) > 65 || len(c.Code) > 32768
	for _, n := range append(raw(c.Proof), raw(c.Acct)...) {
		over = over || len(n) > 1024
	}
	if v.st == c13Accept && over {
		v = refVerdict{c13Silent, "beyond-wire-limits"}
	}
	return
}

func refStatement(c *c13Case) (refVerdict, bool) {
	root, ok := c.Roots[c.Block.String()]
	if !ok {
		return refVerdict{c13Reject, "no-header-for-the-named-block"}, false
	}
	if c.Kind == 0x20 {
		return refNodeClaim(root, c.Path, c.Hash, raw(c.Proof)), true
	}
	acc, v := refAccountClaim(root, c.Addr, raw(c.Acct))
	switch {
	case v.st != c13Accept:
		return v, false
	case c.Kind == 0x21:
		return refNodeClaim(acc.Root, c.Path, c.Hash, raw(c.Proof)), true
	case !bytes.Equal(acc.CodeHash, c.Hash):
		return refVerdict{c13Reject, "account-code-hash-is-not-the-keyed-hash"}, false
	}
	return v, bytes.Equal(crypto.Keccak256(c.Code), c.Hash)
}
