package main

import (
	"bytes"
	"encoding/binary"
	"errors"
	"fmt"
	"runtime"
	"sort"
	"strings"
	"sync"
	"testing/synctest"

	"github.com/cockroachdb/pebble"
	"github.com/cockroachdb/pebble/vfs"
	"github.com/ethereum/go-ethereum/p2p/enode"
	"github.com/holiman/uint256"
	"github.com/zen-eth/shisui/storage"
	sp "github.com/zen-eth/shisui/storage/pebble"
)

var pinned sync.Map

type quietLogger struct{}

func (quietLogger) Infof(string, ...interface{})  {}
func (quietLogger) Errorf(string, ...interface{}) {}
func (quietLogger) Fatalf(f string, a ...interface{}) {
	panic(fmt.Sprintf("pebble FATAL "+f, a...))
}

// storeEnv is one real pebble-backed content store on an in-memory file system.
type storeEnv struct {
	fs    vfs.FS
	db    *pebble.DB
	cs    storage.ContentStorage
	node  enode.ID
	capMB uint64
	small bool // 64 kB memtable + 64 kB block cache: buffers are recycled within short histories
	cache *pebble.Cache
}

func newStoreEnv(node enode.ID, capMB uint64, small bool) (*storeEnv, error) {
	s := &storeEnv{fs: vfs.NewMem(), node: node, capMB: capMB, small: small}
	return s, s.open()
}

func (s *storeEnv) open() error {
	opts := &pebble.Options{FS: s.fs, Logger: quietLogger{}, MaxConcurrentCompactions: func() int { return 1 }}
	if s.small {
		s.cache = pebble.NewCache(64 << 10)
		opts.Cache = s.cache
		opts.MemTableSize = 64 << 10
	}
	db, err := pebble.Open("db", opts)
	if err != nil {
		return err
	}
	s.db = db
	cs, err := sp.NewStorage(storage.PortalStorageConfig{StorageCapacityMB: s.capMB, NodeId: s.node, NetworkName: "verif"}, db)
	if err != nil {
		db.Close()
		return err
	}
	s.cs = cs
	return nil
}

// quiesce waits (inside a bubble) until every background goroutine of the store and
// of pebble is idle — in particular the Compact goroutine that prune() spawns.
func quiesce() { synctest.Wait() }

func (s *storeEnv) close() {
	quiesce()
	if s.db != nil {
		s.db.Close()
		s.db = nil
	}
	if s.cache != nil {
		s.cache.Unref()
		s.cache = nil
	}
}

func (s *storeEnv) reopen() error {
	s.close()
	return s.open()
}

type kv struct {
	K, V []byte
}

// scan reads the database directly: all items except the usage record, in key
// order, and the persisted usage record.
func (s *storeEnv) scan() (items []kv, rec uint64, hasRec bool) {
	it, err := s.db.NewIter(nil)
	if err != nil {
		panic(err)
	}
	defer it.Close()
	for it.First(); it.Valid(); it.Next() {
		if bytes.Equal(it.Key(), storage.SizeKey) {
			if len(it.Value()) == 8 {
				rec, hasRec = binary.BigEndian.Uint64(it.Value()), true
			}
			continue
		}
		items = append(items, kv{append([]byte{}, it.Key()...), append([]byte{}, it.Value()...)})
	}
	return
}

func held(items []kv) uint64 {
	var n uint64
	for _, it := range items {
		n += uint64(len(it.K) + len(it.V))
	}
	return n
}

// distKey is the big-endian XOR distance of a 32-byte (padded/truncated) id.
func distKey(node enode.ID, id []byte) []byte {
	p := make([]byte, 32)
	copy(p, id) // shorter ids are zero-padded, longer ones truncated (what the store does)
	for i := range p {
		p[i] ^= node[i]
	}
	return p
}

func beUint(b []byte) *uint256.Int { return new(uint256.Int).SetBytes(b) }

// maxU256 is the harness's own 2^256-1 (the repository's storage.MaxDistance is a shared
// pointer that the code under test could write through).
var maxU256 = new(uint256.Int).SetAllOne()

// inBubble runs f in a synctest bubble and absorbs the "deadlock" panic that
// synctest raises when leaked library goroutines remain blocked after f returned.
func inBubble(f func()) (panicMsg string) {
	finished := false
	g := f
	f = func() { g(); finished = true }
	defer func() {
		if r := recover(); r != nil {
			msg := fmt.Sprint(r)
			if strings.Contains(msg, "deadlock: all goroutines in bubble are blocked") {
				if !finished { // not leaked library goroutines: the body itself is stuck for ever
					panicMsg = "deadlock: the call never returns (every goroutine is blocked for ever)"
				}
				return
			}
			panicMsg = msg
		}
	}()
	// go1.24.2's synctest does not keep the closure reachable for the GC while the
	// bubble runs ("found pointer to free object" crashes); pin it ourselves.
	pinned.Store(&f, struct{}{})
	defer pinned.Delete(&f)
	synctest.Run(f)
	runtime.KeepAlive(f)
	return ""
}

func isNotFound(err error) bool { return errors.Is(err, storage.ErrContentNotFound) }

func sortedKeys(m map[string][]byte) []string {
	ks := make([]string, 0, len(m))
	for k := range m {
		ks = append(ks, k)
	}
	sort.Strings(ks)
	return ks
}

func fillBytes(n int, c byte) []byte { return bytes.Repeat([]byte{c}, n) }

func idOf(hexOrPattern string) []byte {
	var b []byte
	fmt.Sscanf(hexOrPattern, "%x", &b)
	return b
}

func c04MemSize(s *storeEnv) uint64 { return sp.VerifSize(s.cs) }
