package main

import (
	"bytes"
	"crypto/sha256"
	"encoding/binary"
	"encoding/json"
	"fmt"
	"math/big"
	"os"
	"path/filepath"
	"sort"

	"github.com/ethereum/go-ethereum/common"
	"github.com/ethereum/go-ethereum/common/hexutil"
	"github.com/ethereum/go-ethereum/core/types"
	"github.com/ethereum/go-ethereum/crypto"
	"github.com/ethereum/go-ethereum/rlp"
	"github.com/ethereum/go-ethereum/trie"
	"github.com/protolambda/zrnt/eth2/beacon/capella"
	"github.com/protolambda/zrnt/eth2/configs"
	"github.com/protolambda/ztyp/codec"
	"github.com/zen-eth/shisui/history"
	"gopkg.in/yaml.v2"
)

// The C02 corpus: genuine mainnet vectors read from the repository's testdata at
// run time, and synthetic blocks built with go-ethereum types.

type c02Block struct {
	Name   string
	Header *types.Header // the header an honest source serves for Hash
	Hash   common.Hash
}

type c02Seed struct {
	Name    string
	Key     []byte
	Content []byte
	Block   *c02Block
}

type c02Corpus struct {
	Seeds     []*c02Seed
	Blocks    []*c02Block
	ByHash    map[common.Hash]*c02Block
	Honest    map[string][]byte // key -> content of the honest pair
	Summaries capella.HistoricalSummaries
	Unproven  []string // blocks whose header vectors carry no proof of their era's format (header not a seed)
	Reordered []string // Bellatrix vectors brought into the repository's field order
}

// foldBranch folds a Merkle branch (concatenated 32-byte siblings) from a leaf up.
func foldBranch(leaf, branch []byte, gindex uint64) []byte {
	v := leaf
	for ; len(branch) > 0; branch, gindex = branch[32:], gindex>>1 {
		var h [32]byte
		if gindex&1 == 1 {
			h = sha256.Sum256(append(append([]byte{}, branch[:32]...), v...))
		} else {
			h = sha256.Sum256(append(append([]byte{}, v...), branch[:32]...))
		}
		v = h[:]
	}
	return v
}

// ---- reference SSZ splitting (strict, written for the harness) ----

// refFields splits a container of n variable-size fields.
func refFields(b []byte, n int) ([][]byte, bool) {
	if len(b) < 4*n {
		return nil, false
	}
	offs := make([]int, n+1)
	for i := 0; i < n; i++ {
		offs[i] = int(binary.LittleEndian.Uint32(b[4*i:]))
	}
	offs[n] = len(b)
	if offs[0] != 4*n {
		return nil, false
	}
	out := make([][]byte, n)
	for i := 0; i < n; i++ {
		if offs[i] > offs[i+1] {
			return nil, false
		}
		out[i] = b[offs[i]:offs[i+1]]
	}
	return out, true
}

// refList splits a list of variable-size byte strings.
func refList(b []byte) ([][]byte, bool) {
	if len(b) == 0 {
		return [][]byte{}, true
	}
	if len(b) < 4 {
		return nil, false
	}
	first := int(binary.LittleEndian.Uint32(b))
	if first%4 != 0 || first == 0 || first > len(b) {
		return nil, false
	}
	return refFields(b, first/4)
}

type refBody struct {
	Txs, Wds [][]byte
	Uncles   []byte
	Shanghai bool // three-field container
}

func refDecodeBody(b []byte) (*refBody, bool) {
	if len(b) < 4 {
		return nil, false
	}
	sh := binary.LittleEndian.Uint32(b) == 12
	n := 2
	if sh {
		n = 3
	}
	f, ok := refFields(b, n)
	if !ok {
		return nil, false
	}
	out := &refBody{Uncles: f[1], Shanghai: sh}
	if out.Txs, ok = refList(f[0]); !ok {
		return nil, false
	}
	if sh {
		if out.Wds, ok = refList(f[2]); !ok {
			return nil, false
		}
	}
	return out, true
}

// encode into the repository's SSZ containers
func (b *refBody) encode() []byte {
	var enc []byte
	var err error
	if b.Shanghai {
		wds := b.Wds
		if wds == nil {
			wds = [][]byte{}
		}
		enc, err = (&history.PortalBlockBodyShanghai{Transactions: b.Txs, Uncles: b.Uncles, Withdrawals: wds}).MarshalSSZ()
	} else {
		enc, err = (&history.BlockBodyLegacy{Transactions: b.Txs, Uncles: b.Uncles}).MarshalSSZ()
	}
	if err != nil {
		panic(err)
	}
	return enc
}

func deriveSha(l types.DerivableList) common.Hash { return types.DeriveSha(l, trie.NewStackTrie(nil)) }

// ---- genuine vectors ----

type c02Entry struct {
	ContentKey   string `yaml:"content_key" json:"content_key"`
	ContentValue string `yaml:"content_value" json:"content_value"`
	Value        string `json:"value"`
}

func c02ReadEntries(rel string) []c02Entry {
	raw, err := os.ReadFile(filepath.Join(repoDir(), rel))
	if err != nil {
		panic(err)
	}
	var out []c02Entry
	if filepath.Ext(rel) == ".yaml" {
		if err := yaml.Unmarshal(raw, &out); err != nil {
			panic(err)
		}
		return out
	}
	m := map[string]c02Entry{}
	if err := json.Unmarshal(raw, &m); err != nil {
		panic(err)
	}
	names := make([]string, 0, len(m))
	for k := range m {
		names = append(names, k)
	}
	sort.Strings(names)
	for _, k := range names {
		e := m[k]
		if e.ContentValue == "" {
			e.ContentValue = e.Value
		}
		out = append(out, e)
	}
	return out
}

func numberKey(n uint64) []byte {
	k := make([]byte, 9)
	k[0] = 0x03
	binary.LittleEndian.PutUint64(k[1:], n)
	return k
}

func c02LoadCorpus() *c02Corpus {
	c := &c02Corpus{ByHash: map[common.Hash]*c02Block{}, Honest: map[string][]byte{}}
	raw, err := os.ReadFile(filepath.Join(repoDir(), "validation/testdata/beacon_data/historical_summaries_at_slot_11476992.ssz"))
	if err != nil {
		panic(err)
	}
	if err := c.Summaries.Deserialize(configs.Mainnet, codec.NewDecodingReader(bytes.NewReader(raw), uint64(len(raw)))); err != nil {
		panic(err)
	}
	var entries []c02Entry
	for _, f := range []string{
		"history/testdata/validation/1.yaml", "history/testdata/validation/100.yaml", "history/testdata/validation/7000000.yaml", "history/testdata/validation/15537393.yaml",
		"history/testdata/test_data_collection_of_forks_blocks.yaml",
		"history/testdata/block_14764013.json",
		"types/history/testdata/header_with_proof.yaml",
		"validation/testdata/header_with_proofs.json",
	} {
		entries = append(entries, c02ReadEntries(f)...)
	}
	// pass 1: blocks from the header-by-hash vectors. A vector is a seed if its proof has
	// the size of its era's proof container (some vectors carry none or an older format).
	proven := map[common.Hash][]byte{}
	for _, e := range entries {
		key, val := hexutil.MustDecode(e.ContentKey), hexutil.MustDecode(e.ContentValue)
		if key[0] != 0x00 {
			continue
		}
		f, ok := refFields(val, 2)
		h := new(types.Header)
		if !ok || rlp.DecodeBytes(f[0], h) != nil || h.Hash() != common.BytesToHash(key[1:]) {
			panic("c02 corpus: header vector does not decode to its key: " + e.ContentKey)
		}
		if c.ByHash[h.Hash()] == nil {
			c.addBlock(&c02Block{Name: fmt.Sprintf("mainnet-%d", h.Number), Header: h, Hash: h.Hash()})
		}
		era := c02Era(h.Number.Uint64())
		if len(f[1]) != map[string]int{"pre-merge": 480, "bellatrix": 840, "capella": 808, "deneb": 840}[era] {
			continue
		}
		if p := f[1]; era == "bellatrix" && !bytes.Equal(foldBranch(h.Hash().Bytes(), p[15*32:26*32], 3228), p[14*32:15*32]) {
			// the vector has the former field order (execution proof, root, beacon proof, slot)
			if !bytes.Equal(foldBranch(h.Hash().Bytes(), p[:11*32], 3228), p[11*32:12*32]) {
				panic("c02 corpus: bellatrix vector in neither field order: " + e.ContentKey)
			}
			p = bytes.Join([][]byte{p[12*32 : 26*32], p[11*32 : 12*32], p[:11*32], p[26*32:]}, nil)
			val, _ = (&history.BlockHeaderWithProof{Header: f[0], Proof: p}).MarshalSSZ()
			c.Reordered = append(c.Reordered, c.ByHash[h.Hash()].Name)
		}
		if proven[h.Hash()] == nil {
			proven[h.Hash()] = val
		}
	}
	// pass 2: seeds in a fixed order: per block header by hash, header by number, body, receipts
	for _, b := range c.Blocks {
		if val, ok := proven[b.Hash]; ok {
			c.addSeed(b, "header-by-hash", append([]byte{0x00}, b.Hash[:]...), val)
			c.addSeed(b, "header-by-number", numberKey(b.Header.Number.Uint64()), val)
		} else {
			c.Unproven = append(c.Unproven, b.Name)
		}
		for _, e := range entries {
			key, val := hexutil.MustDecode(e.ContentKey), hexutil.MustDecode(e.ContentValue)
			if (key[0] == 0x01 || key[0] == 0x02) && common.BytesToHash(key[1:]) == b.Hash {
				c.addSeed(b, map[byte]string{1: "body", 2: "receipts"}[key[0]], key, val)
			}
		}
	}
	c.addSynthetic()
	return c
}

func (c *c02Corpus) addBlock(b *c02Block) {
	c.Blocks = append(c.Blocks, b)
	c.ByHash[b.Hash] = b
}

func (c *c02Corpus) addSeed(b *c02Block, what string, key, content []byte) {
	if old, ok := c.Honest[string(key)]; ok {
		if !bytes.Equal(old, content) {
			panic("c02 corpus: two genuine contents for key " + hx(key))
		}
		return
	}
	c.Honest[string(key)] = content
	c.Seeds = append(c.Seeds, &c02Seed{Name: b.Name + "/" + what, Key: key, Content: content, Block: b})
}

// ---- synthetic blocks ----

func c02Txs(n int) []*types.Transaction {
	key, signer, to := detKey(7), types.LatestSignerForChainID(big.NewInt(1)), common.HexToAddress("0x00000000000000000000000000000000000c0de2")
	all := []types.TxData{
		&types.LegacyTx{Nonce: 1, GasPrice: big.NewInt(30e9), Gas: 21000, To: &to, Value: big.NewInt(1e15)},
		&types.DynamicFeeTx{ChainID: big.NewInt(1), Nonce: 2, GasTipCap: big.NewInt(1e9), GasFeeCap: big.NewInt(40e9), Gas: 60000, To: &to, Value: big.NewInt(7), Data: []byte{0xa9, 0x05, 0x9c, 0xbb, 1, 2, 3}},
		&types.AccessListTx{ChainID: big.NewInt(1), Nonce: 3, GasPrice: big.NewInt(31e9), Gas: 50000, To: &to, Value: big.NewInt(0), AccessList: types.AccessList{{Address: to, StorageKeys: []common.Hash{{1}}}}},
	}
	var out []*types.Transaction
	for _, d := range all[:n] {
		out = append(out, types.MustSignNewTx(key, signer, d))
	}
	return out
}

func c02Receipts(txs []*types.Transaction, postState bool) []*types.Receipt {
	var out []*types.Receipt
	for i, tx := range txs {
		rc := &types.Receipt{Type: tx.Type(), Status: uint64(1 - i%2), CumulativeGasUsed: uint64(21000 * (i + 1)), Logs: []*types.Log{}}
		if postState && i == 0 {
			rc.PostState = crypto.Keccak256([]byte("post-state"))
		}
		if i > 0 {
			rc.Logs = append(rc.Logs, &types.Log{Address: *tx.To(), Topics: []common.Hash{crypto.Keccak256Hash([]byte("Transfer"))}, Data: []byte{byte(i), 2, 3}})
		}
		rc.Bloom = types.CreateBloom(rc)
		out = append(out, rc)
	}
	return out
}

// addSynthetic: {legacy, Shanghai with two withdrawals, Shanghai with none} x {0,1,3}
// transactions (and as many receipts) x {no uncle, one uncle}.
func (c *c02Corpus) addSynthetic() {
	for era, eraName := range []string{"legacy", "shanghai", "shanghai-nowd"} {
		for _, ntx := range []int{0, 1, 3} {
			for nunc := 0; nunc <= 1; nunc++ {
				name := fmt.Sprintf("synth-%s-%dtx-%dunc", eraName, ntx, nunc)
				txs := c02Txs(ntx)
				rcs := c02Receipts(txs, era == 0)
				uncles := []*types.Header{}
				if nunc == 1 {
					uncles = append(uncles, &types.Header{Number: big.NewInt(11_999_999), Difficulty: big.NewInt(1 << 40), GasLimit: 30e6, Time: 1_600_000_000, Extra: []byte(name)})
				}
				h := &types.Header{ParentHash: crypto.Keccak256Hash([]byte(name)), UncleHash: types.CalcUncleHash(uncles), Coinbase: common.HexToAddress("0xc0ffee"),
					Root: crypto.Keccak256Hash([]byte("state" + name)), TxHash: deriveSha(types.Transactions(txs)), ReceiptHash: deriveSha(types.Receipts(rcs)),
					Bloom: types.MergeBloom(rcs), Difficulty: big.NewInt(1 << 42), Number: big.NewInt(12_000_000 + int64(len(c.Blocks))), GasLimit: 30e6, GasUsed: uint64(21000 * ntx), Time: 1_610_000_000, Extra: []byte("verif")}
				body := &refBody{Txs: [][]byte{}, Shanghai: era > 0}
				if era > 0 {
					wds := types.Withdrawals{}
					if era == 1 {
						wds = types.Withdrawals{{Index: 5, Validator: 77, Address: h.Coinbase, Amount: 1_000_000}, {Index: 6, Validator: 78, Address: common.HexToAddress("0xbeef"), Amount: 2_000_000}}
					}
					wh := deriveSha(wds)
					h.WithdrawalsHash, h.BaseFee, h.Difficulty = &wh, big.NewInt(20e9), big.NewInt(0)
					h.Number = big.NewInt(17_100_000 + int64(len(c.Blocks)))
					body.Wds = [][]byte{}
					for _, w := range wds {
						enc, _ := rlp.EncodeToBytes(w)
						body.Wds = append(body.Wds, enc)
					}
				}
				for _, tx := range txs {
					enc, _ := tx.MarshalBinary()
					body.Txs = append(body.Txs, enc)
				}
				body.Uncles, _ = rlp.EncodeToBytes(uncles)
				rcEnc, err := history.EncodeReceipts(rcs)
				if err != nil {
					panic(err)
				}
				b := &c02Block{Name: name, Header: h, Hash: h.Hash()}
				c.addBlock(b)
				c.addSeed(b, "body", append([]byte{0x01}, b.Hash[:]...), body.encode())
				c.addSeed(b, "receipts", append([]byte{0x02}, b.Hash[:]...), rcEnc)
			}
		}
	}
}
