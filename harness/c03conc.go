package main

import (
	"encoding/json"
	"fmt"
	"strings"

	"verifharness/mc"
)

// C03 (concurrent part) — the history network validates on a pool of up to 100 workers
// that share ONE HeaderValidator (and every validator of the process shares the package).
// "An honest proof always verifies, a proof for another header never does" must hold for
// every interleaving of validations, not only one at a time. Two or three goroutines each
// validate one (header, proof) pair through the shared validator; every interleaving at
// statement granularity of validation/header_validator.go (a yield before every statement)
// up to a preemption bound; oracle: each call returns what the same call returns alone.

type c03ConcScenario struct {
	Name    string
	World   string // "pre" | "post"
	Threads []c03Case
}

var c03ConcScenarios = []c03ConcScenario{
	{"pre-merge-two-honest-same-epoch", "pre", []c03Case{{Kind: "honest", At: 1}, {Kind: "honest", At: 2}}},
	{"pre-merge-honest-beside-forged-twin", "pre", []c03Case{{Kind: "honest", At: 1}, {Kind: "twin", At: 1}}},
	{"pre-merge-honest-beside-other-header", "pre", []c03Case{{Kind: "honest", At: 3}, {Kind: "header-of", At: 1, Arg: 2}}},
	{"pre-merge-honest-forged-honest", "pre", []c03Case{{Kind: "honest", At: 1}, {Kind: "twin", At: 2}, {Kind: "honest", At: c03EpochSize + 1}}},
	{"bellatrix-honest-beside-forged-twin", "post", []c03Case{{Kind: "honest", At: 1}, {Kind: "twin", At: 2}}},
	{"capella-honest-beside-forged-twin", "post", []c03Case{{Kind: "honest", At: c03CapellaSlot + 1}, {Kind: "twin", At: c03CapellaSlot + 2}}},
	{"deneb-honest-beside-forged-twin", "post", []c03Case{{Kind: "honest", At: c03CapellaSlot + 3*c03EpochSize + 1}, {Kind: "twin", At: c03CapellaSlot + 3*c03EpochSize + 2}}},
	{"capella-beside-deneb", "post", []c03Case{{Kind: "honest", At: c03CapellaSlot + 5}, {Kind: "honest", At: c03CapellaSlot + 3*c03EpochSize + 5}}},
}

type c03ConcCase struct {
	Scenario string   `json:"concurrent_scenario"`
	Choices  []int    `json:"choices"`
	Trace    []string `json:"trace,omitempty"`
}

var c03ConcWorlds = map[string]*c03World{}

func c03ConcWorld(name string) *c03World {
	if w := c03ConcWorlds[name]; w != nil {
		return w
	}
	var w *c03World
	if name == "pre" {
		w = c03PreWorld("pre-conc", 8, 8)
	} else {
		w = c03PostWorld()
	}
	c03ConcWorlds[name] = w
	return w
}

func c03ConcRun(r *mc.Report, sc *c03ConcScenario, c *mc.Ctx) (outcome string) {
	w := c03ConcWorld(sc.World)
	var trace []string
	type call struct {
		alone, got error
		desc       string
	}
	calls := make([]call, len(sc.Threads))
	msg := inBubble(func() {
		s := newSched()
		defer s.stop()
		for i, tc := range sc.Threads {
			h, proof := w.input(tc)
			calls[i].alone = w.v.ValidateHeaderAndProof(h, proof) // reference: the same call on its own
			calls[i].desc = fmt.Sprintf("%s@%d", tc.Kind, tc.At)
			i := i
			s.spawn(fmt.Sprintf("T%d", i+1), func() { calls[i].got = w.v.ValidateHeaderAndProof(h, proof) })
		}
		ok, why := s.run(c, 3000)
		trace = s.Trace
		if !ok {
			r.Violation("validation-returns", "HeaderValidator.ValidateHeaderAndProof (concurrent:"+sc.Name+")", why+" | schedule: "+strings.Join(trace, " "), c03ConcCase{sc.Name, c.Choices(), trace})
			return
		}
		var ds []string
		for _, x := range calls {
			if (x.alone == nil) != (x.got == nil) {
				clause := "honest-proof-verifies"
				if x.alone != nil {
					clause = "other-header-rejected"
				}
				r.Violation(clause, "HeaderValidator.ValidateHeaderAndProof (concurrent:"+sc.Name+")",
					fmt.Sprintf("validation %s returns %v on its own and %v beside the other validations | schedule: %s", x.desc, x.alone, x.got, strings.Join(trace, " ")), c03ConcCase{sc.Name, c.Choices(), trace})
			}
			ds = append(ds, fmt.Sprintf("%s:%v", x.desc, x.got == nil))
		}
		outcome = strings.Join(ds, ",")
	})
	if msg != "" {
		r.Violation("out-of-range-yields-error", "HeaderValidator.ValidateHeaderAndProof (concurrent:"+sc.Name+")", "panic: "+msg, c03ConcCase{sc.Name, c.Choices(), trace})
	}
	return
}

func runC03Conc(r *mc.Report, e *Env) {
	bound := 1 // ~330 scheduling points per execution: every single preemption (thorough: every pair)
	if e.Thorough() {
		bound = 2
	}
	for si := range c03ConcScenarios {
		sc := &c03ConcScenarios[si]
		d := &mc.DFS{Bound: bound, Shard: e.Shard, Of: e.Of, ShardDepth: bound, Deadline: e.Deadline} // subtrees dealt out at the deepest level: those of the first deviations are far larger than the rest
		var out string
		outcomes := map[string]int{}
		d.Body = func(c *mc.Ctx) { out = c03ConcRun(r, sc, c) }
		if freeRuns > 0 { // race-detector pass: no exploration, the bodies run freely
			for i := 0; i < freeRuns; i++ {
				mc.Replay(nil, d.Body)
				r.Exec("free|" + sc.Name + "|" + out)
			}
			r.Count("free_running_executions", int64(freeRuns))
			continue
		}
		d.After = func(c *mc.Ctx) {
			if c.Diverged != "" {
				r.EngineError("schedule replay diverged in " + sc.Name + ": " + c.Diverged)
				return
			}
			r.Exec("conc|" + sc.Name + "|" + out)
			outcomes[out]++
		}
		d.Run()
		if d.TimedOut {
			r.NotExhaustive("internal deadline reached during schedule exploration of " + sc.Name)
		}
		r.Count("schedules_"+sc.Name, d.Executions)
		r.Count("schedules", d.Executions)
		r.Max("max_schedule_points", int64(d.MaxPoints))
		if e.Of <= 1 || e.Shard == 0 {
			r.Sample(map[string]any{"concurrent_scenario": sc.Name, "validations": sc.Threads, "distinct_outcomes_in_shard0": len(outcomes)})
		}
	}
	r.Set("preemption_bound", bound)
	r.Assume("concurrent part: interleavings at statement granularity of validation/header_validator.go (a yield before every statement); the Merkle library calls themselves are atomic steps")
}

func replayC03Conc(r *mc.Report, raw json.RawMessage) bool {
	var c c03ConcCase
	if err := json.Unmarshal(raw, &c); err != nil || c.Scenario == "" {
		return false
	}
	for si := range c03ConcScenarios {
		if c03ConcScenarios[si].Name == c.Scenario {
			ctx := mc.Replay(c.Choices, func(x *mc.Ctx) { fmt.Println("outcome:", c03ConcRun(r, &c03ConcScenarios[si], x)) })
			if ctx.Diverged != "" {
				fmt.Println("replay diverged:", ctx.Diverged)
			}
			return true
		}
	}
	return false
}
