package main

import (
	"bytes"
	"crypto/sha256"
	"encoding/binary"
	"encoding/hex"
	"encoding/json"
	"errors"
	"fmt"
	"regexp"
	"strings"

	"github.com/ethereum/go-ethereum/common"
	"github.com/ethereum/go-ethereum/core/types"
	"github.com/ethereum/go-ethereum/crypto"
	"github.com/protolambda/zrnt/eth2/beacon/capella"
	zc "github.com/protolambda/zrnt/eth2/beacon/common"
	"github.com/protolambda/ztyp/codec"

	"github.com/zen-eth/shisui/portalwire"
	"github.com/zen-eth/shisui/state"
	"github.com/zen-eth/shisui/storage"
	"verifharness/mc"
)

// C13 — state content is accepted only with a hash-linked proof down to the state root.
//
// Fixtures are tries built with go-ethereum's trie package (every non-empty subset of
// a 6-key pool forcing root branch / extension / embedded children / single leaf,
// hand-assembled tries with non-canonical and value-as-link nodes, and account tries
// of 1..500 hashed keys carrying storage tries and bytecode). For every hash-referenced
// node of every trie the genuine (key, content) is built in the repository's SSZ types
// and put through ValidateContent + state Storage.Put (the pipeline of
// state.Network.validateContents). A fixed operator set then mutates each genuine case
// (one operator at every position; pairs of structural operators too) and the verdict
// is compared with the independent reference walker in c13_ref.go.

func init() {
	register(&Prop{ID: "C13", Level: "exploration", Run: runC13, Replay: replayC13,
		Workers: func(e *Env) int { return minInt(cpus(), 16) }})
}

type hexb []byte

func (h hexb) String() string               { return hex.EncodeToString(h) }
func (h hexb) MarshalText() ([]byte, error) { return []byte(h.String()), nil }
func (h *hexb) UnmarshalText(t []byte) error {
	b, err := hex.DecodeString(string(t))
	*h = b
	return err
}
func raw(l []hexb) [][]byte {
	out := make([][]byte, len(l))
	for i, n := range l {
		out[i] = n
	}
	return out
}

// c13Case is one (content key, content value, header source) triple in decoded form.
type c13Case struct {
	Kind  byte            `json:"kind"` // 0x20 account trie node, 0x21 contract storage trie node, 0x22 bytecode
	Base  string          `json:"base"` // fixture and target (documentation)
	Op    string          `json:"op"`   // operators applied to the genuine case (documentation)
	Addr  hexb            `json:"address_hash,omitempty"`
	Path  hexb            `json:"path,omitempty"`  // one nibble per byte
	Hash  hexb            `json:"hash"`            // node hash / code hash in the key
	Proof []hexb          `json:"proof,omitempty"` // 0x20: account trie proof, 0x21: storage proof
	Acct  []hexb          `json:"account_proof,omitempty"`
	Code  hexb            `json:"code,omitempty"`
	Block hexb            `json:"block_hash"`
	Roots map[string]hexb `json:"oracle"` // block hash -> state root of the header served; absent: oracle error
}

func (c c13Case) clone() c13Case {
	c.Path = append(hexb{}, c.Path...)
	c.Proof = append([]hexb{}, c.Proof...)
	c.Acct = append([]hexb{}, c.Acct...)
	return c
}

var c13KindName = map[byte]string{0x20: "account-trie-node", 0x21: "contract-storage-trie-node", 0x22: "contract-bytecode"}

type c13Oracle map[string]hexb

func (o c13Oracle) GetHistoricalSummaries(uint64) (capella.HistoricalSummaries, error) {
	return nil, errors.New("not served")
}
func (o c13Oracle) GetFinalizedStateRoot() ([]byte, error) { return nil, errors.New("not served") }
func (o c13Oracle) GetBlockHeaderByHash(h []byte) (*types.Header, error) {
	root, ok := o[hex.EncodeToString(h)]
	if !ok {
		return nil, errors.New("header not found")
	}
	return &types.Header{Root: common.BytesToHash(root)}, nil
}

func b32(b []byte) (out zc.Bytes32) { copy(out[:], b); return }

func c13Proof(l []hexb) state.TrieProof {
	p := make(state.TrieProof, len(l))
	for i, n := range l {
		p[i] = state.EncodedTrieNode(n)
	}
	return p
}

// wire renders the case in the repository's own SSZ types.
func (c *c13Case) wire() (key, content []byte) {
	var k, v interface {
		Serialize(w *codec.EncodingWriter) error
	}
	switch c.Kind {
	case 0x20:
		k = &state.AccountTrieNodeKey{Path: state.Nibbles{Nibbles: c.Path}, NodeHash: b32(c.Hash)}
		v = &state.AccountTrieNodeWithProof{Proof: c13Proof(c.Proof), BlockHash: b32(c.Block)}
	case 0x21:
		k = &state.ContractStorageTrieNodeKey{AddressHash: b32(c.Addr), Path: state.Nibbles{Nibbles: c.Path}, NodeHash: b32(c.Hash)}
		v = &state.ContractStorageTrieNodeWithProof{StorageProof: c13Proof(c.Proof), AccountProof: c13Proof(c.Acct), BlockHash: b32(c.Block)}
	default:
		k = &state.ContractBytecodeKey{AddressHash: b32(c.Addr), CodeHash: b32(c.Hash)}
		v = &state.ContractBytecodeWithProof{Code: state.ContractByteCode(c.Code), AccountProof: c13Proof(c.Acct), BlockHash: b32(c.Block)}
	}
	var kb, vb bytes.Buffer
	kb.WriteByte(c.Kind)
	if err := k.Serialize(codec.NewEncodingWriter(&kb)); err != nil {
		panic(err)
	}
	if err := v.Serialize(codec.NewEncodingWriter(&vb)); err != nil {
		panic(err)
	}
	return kb.Bytes(), vb.Bytes()
}

var c13Digits = regexp.MustCompile(`-?[0-9]+`)
var c13NonWord = regexp.MustCompile(`[^a-zA-Z\[\]-]+`)

var c13Classes = map[string]string{}

// errClass turns a message into a short class without numbers or bytes.
func errClass(s string) string {
	if i := strings.IndexAny(s, ":,"); i > 0 && !strings.HasPrefix(s, "runtime error") {
		s = s[:i]
	}
	if c, ok := c13Classes[s]; ok {
		return c
	}
	c := strings.TrimPrefix(s, "runtime error: ")
	c = c13Digits.ReplaceAllStringFunc(c, func(d string) string {
		if d[0] == '-' {
			return "-N"
		}
		return "N"
	})
	c = strings.Trim(c13NonWord.ReplaceAllString(c, "-"), "-")
	if len(c) > 60 {
		c = c[:60]
	}
	if len(c13Classes) < 4096 {
		c13Classes[s] = c
	}
	return c
}

// c13Eval runs one case through the implementation and compares with the reference.
func c13Eval(r *mc.Report, c *c13Case) {
	key, content := c.wire()
	ref, codeOK := refJudge(c)
	kind := c13KindName[c.Kind]

	var verr, perr error
	val := state.NewStateValidator(c13Oracle(c.Roots))
	vmsg, vsite := panicsTo(func() { verr = val.ValidateContent(key, content) })
	if vmsg != "" {
		r.Violation("rejects-with-error-not-panic", vsite+":"+errClass(vmsg),
			fmt.Sprintf("ValidateContent panicked (%s) on a %s case [%s | %s]; reference: %s", vmsg, kind, c.Base, c.Op, ref), c)
	}

	// Storage.Put on an empty store, exactly as state.Network.validateContents calls it.
	mock := storage.NewMockStorage().(*storage.MockStorage)
	id := sha256.Sum256(key)
	pmsg, psite := panicsTo(func() { perr = state.NewStateStorage(mock, nil).Put(key, id[:], content) })
	if pmsg != "" {
		clause := "put-of-unvalidated-content-rejects-with-error-not-panic" // reachable through portal_stateStore only
		if vmsg == "" && verr == nil {
			clause = "put-of-validated-content-does-not-panic" // reachable from the network
		}
		r.Violation(clause, psite+":"+errClass(pmsg),
			fmt.Sprintf("state Storage.Put panicked (%s) on a %s case [%s | %s]; ValidateContent said: %v", pmsg, kind, c.Base, c.Op, verr), c)
	} else if bad := c13Stored(c, mock, id[:], perr); bad != "" {
		r.Violation("stores-exactly-the-final-node-or-code", kind, fmt.Sprintf("%s [%s | %s]", bad, c.Base, c.Op), c)
	}

	c13ThroughNetwork(r, c, key, content, kind, vmsg == "" && verr == nil, perr, mock)

	impl := "accept"
	switch {
	case vmsg != "":
		impl = "panic:" + errClass(vmsg)
	case verr != nil:
		impl = "validate:" + errClass(verr.Error())
	case pmsg != "":
		impl = "put-panic"
	case perr != nil:
		impl = "put:" + errClass(perr.Error())
	}
	if verr != nil && strings.Contains(verr.Error(), "header not found") {
		r.Trivial()
	} else {
		r.Exec(fmt.Sprintf("%s|%s|%v|%s", kind, ref, codeOK, impl))
	}
	validated := vmsg == "" && verr == nil
	switch {
	case ref.st == c13Silent:
		r.Count("reference_silent", 1)
		if validated {
			r.Count("model_drift", 1)
			r.Count("drift_accepted_where_silent:"+ref.why, 1)
		}
	case vmsg != "":
	case ref.st == c13Reject && validated:
		r.Violation("accepted-only-with-valid-proof", kind+":"+ref.why,
			fmt.Sprintf("ValidateContent accepts (Put then: %v), reference rejects: %s [%s | %s]", perr, ref.why, c.Base, c.Op), c)
	case ref.st == c13Reject:
	case !validated, codeOK && pmsg == "" && perr != nil:
		r.Violation("valid-proof-accepted", kind+":"+impl,
			fmt.Sprintf("reference accepts, implementation: validate=%v put=%v [%s | %s]", verr, perr, c.Base, c.Op), c)
	case !codeOK && perr != nil:
		// the validator does not look at the code bytes; Put refuses them, nothing is stored
		r.Count("validator_passes_wrong_code_put_refuses", 1)
	}
}

// c13Stored checks what Put left in the store: nothing on error, otherwise exactly
// one record under the content id holding the final node (or the code) whose hash
// is the one in the key.
func c13Stored(c *c13Case, mock *storage.MockStorage, id []byte, perr error) string {
	if perr != nil {
		if len(mock.Db) != 0 {
			return fmt.Sprintf("Put returned %q but left %d records", perr, len(mock.Db))
		}
		return ""
	}
	want := []byte(c.Code)
	if c.Kind != 0x22 {
		want = c.Proof[len(c.Proof)-1]
	}
	if !bytes.Equal(crypto.Keccak256(want), c.Hash) {
		return "Put stored content whose hash is not the hash in the key"
	}
	got, ok := mock.Db[string(id)]
	if len(mock.Db) != 1 || !ok {
		return fmt.Sprintf("Put left %d records (under the content id: %v)", len(mock.Db), ok)
	}
	if !bytes.Equal(got, append(binary.LittleEndian.AppendUint32(nil, 4), want...)) {
		return fmt.Sprintf("stored value %s is not the container of the final node / code %s", hx(got), hx(want))
	}
	return ""
}

func runC13(r *mc.Report, e *Env) {
	r.Rule = "every case is one ValidateContent + state Storage.Put on a fresh store, compared with an independent proof walker; non-trivial = the header source served a header (the proof code ran); distinct = distinct (kind, reference verdict and reason, implementation outcome class)"
	r.Assume("tries are synthetic: 3-byte keys for the structural pool, keccak-hashed keys for the large tries; node bytes that do not hash-link are only reachable as rejected mutants, so malformed nodes are covered by the hand-assembled tries only")
	r.Assume("SSZ framing of keys and values is not mutated here (C14/C01); every case is a well-formed container")
	full := e.Thorough()
	bases := c13Bases(full)
	r.Set("genuine_cases", len(bases))
	r.Set("bound", map[string]any{"operators_per_case": "all positions", "operator_pairs": "every ordered pair of structural operators on every genuine case" + map[bool]string{true: "; bit flip then structural operator on the small tries", false: ""}[full],
		"bit_flips": map[bool]string{true: "every bit of every proof node and code", false: "every bit of nodes <= 64 bytes, first 4 bytes + every 29th bit otherwise"}[full]})
	// pass 0: genuine cases and single operators; pass 1: pairs of structural operators;
	// pass 2 (thorough, small tries): a node / code bit flip followed by a structural
	// operator. Singles come first so that the case kept for a fingerprint is short.
	c13Sequences(r, e)
	for pass := 0; pass < 3; pass++ {
		for i, b := range bases {
			if !e.Mine(i) || (pass == 2 && !(full && b.small)) {
				continue
			}
			if e.Expired() {
				return
			}
			base := b.c
			if pass == 0 {
				if ref, ok := refJudge(&base); b.genuine && !(ref.st == c13Accept && ok) {
					r.EngineError(fmt.Sprintf("fixture %s: reference does not accept the genuine case: %s", base.Base, ref))
					continue
				}
				c13Eval(r, &base)
				r.Count("genuine_evaluated", 1)
			}
			n := 0
			c13Mutants(base, b.ctx, full && pass == 0, pass != 1, func(m c13Case) {
				isFlip := strings.Contains(m.Op, "flip-node(") || strings.Contains(m.Op, "code-bit(")
				switch {
				case pass == 0:
					c13Eval(r, &m)
					if n++; n == 7 && i%41 == 0 {
						r.Sample(m)
					}
				case pass == 1 || isFlip:
					c13Mutants(m, b.ctx, false, false, func(m2 c13Case) {
						c13Eval(r, &m2)
						n++
					})
				}
			})
			r.Count([]string{"single_mutants", "pair_mutants", "flip_then_operator_mutants"}[pass], int64(n))
		}
	}
}

func replayC13(r *mc.Report, e *Env, rawCase json.RawMessage) {
	var sq c13SeqCase
	if json.Unmarshal(rawCase, &sq) == nil && sq.Part == "held-key" {
		gkey, gcontent := sq.First.wire()
		id := sha256.Sum256(gkey)
		st := state.NewStateStorage(storage.NewMockStorage(), nil)
		fmt.Println("put genuine:", st.Put(gkey, id[:], gcontent))
		mkey, mcontent := sq.Second.wire()
		fmt.Println("put forged under the held key:", st.Put(mkey, id[:], mcontent))
		fmt.Println("put forged on an empty store:", state.NewStateStorage(storage.NewMockStorage(), nil).Put(mkey, id[:], mcontent))
		return
	}
	if json.Unmarshal(rawCase, &sq) == nil && sq.Part == "carried-validator" {
		or := &c13MutOracle{}
		v := state.NewStateValidator(or)
		for i, c := range []*c13Case{&sq.First, &sq.Second} {
			or.c13Oracle = c13Oracle(c.Roots)
			key, content := c.wire()
			fmt.Printf("item %d (%s): %v\n", i+1, c.Op, v.ValidateContent(key, content))
		}
		return
	}
	var c c13Case
	if err := json.Unmarshal(rawCase, &c); err != nil {
		panic(err)
	}
	c13Eval(r, &c)
}

// The consumer of accepted offers: state.Network.validateContents (validate, then Put through
// the node) on a long-lived unstarted state node whose store is swapped per case. What the
// validator refuses must not reach the store by this route either, and what it passes is
// stored exactly as the direct Put stores it.
type c13SwapStore struct{ storage.ContentStorage }

var (
	c13Net     *bareNode
	c13NetSwap *c13SwapStore
)

func c13ThroughNetwork(r *mc.Report, c *c13Case, key, content []byte, kind string, validated bool, perr error, direct *storage.MockStorage) {
	if c13Net == nil {
		c13NetSwap = &c13SwapStore{}
		c13NetSwap.ContentStorage = storage.NewMockStorage()
		c13Net = newBareNode(bareOpts{keyIdx: 13, proto: portalwire.State, store: c13NetSwap})
	}
	mock := storage.NewMockStorage().(*storage.MockStorage)
	c13NetSwap.ContentStorage = state.NewStateStorage(mock, nil)
	var nerr error
	if msg, site := panicsTo(func() {
		nerr = state.NewStateNetwork(c13Net.P, state.NewStateValidator(c13Oracle(c.Roots))).VerifValidateContents([][]byte{key}, [][]byte{content})
	}); msg != "" {
		r.Count("network_route_panics", 1) // the panic itself is reported by the direct route (same validator, same Put)
		_ = site
		return
	}
	r.Count("network_route_cases", 1)
	switch {
	case !validated && (nerr == nil || len(mock.Db) != 0):
		r.Violation("accepted-only-with-valid-proof", "state.Network.validateContents:"+kind,
			fmt.Sprintf("ValidateContent refuses the item, the network's consumer of accepted offers returned %v and left %d record(s) in the store [%s | %s]", nerr, len(mock.Db), c.Base, c.Op), c)
	case validated && perr == nil && (nerr != nil || len(mock.Db) != 1 || !c13SameValues(mock, direct)):
		r.Violation("stores-exactly-the-final-node-or-code", "state.Network.validateContents:"+kind,
			fmt.Sprintf("validated item: the direct Put stored %d record(s), the network's consumer returned %v and stored %d record(s) with other content [%s | %s]", len(direct.Db), nerr, len(mock.Db), c.Base, c.Op), c)
	}
}

func c13SameValues(a, b *storage.MockStorage) bool {
	if len(a.Db) != len(b.Db) {
		return false
	}
	for _, va := range a.Db {
		found := false
		for _, vb := range b.Db {
			found = found || bytes.Equal(va, vb)
		}
		if !found {
			return false
		}
	}
	return true
}
