package main

import (
	"context"
	"crypto/sha256"
	"encoding/hex"
	"fmt"
	"net"

	"github.com/ethereum/go-ethereum/core/types"
	"github.com/ethereum/go-ethereum/p2p/discover"
	"github.com/ethereum/go-ethereum/p2p/enode"
	cache "github.com/go-pkgz/expirable-cache/v3"
	"github.com/zen-eth/shisui/history"
	"github.com/zen-eth/shisui/portalwire"
	"github.com/zen-eth/shisui/storage"
)

// The block getters, on a real started node (discv5 + uTP on loopback UDP) whose only
// peer is a second real node serving scripted content from an unvalidated store.
// Judged for soundness only (whatever a getter returns or stores must be bound to the
// key); a lookup that fails for network reasons makes the honest count fall short and
// is reported as an engine note, never as a violation.

func c02StartNode(keyIdx int, store storage.ContentStorage) *portalwire.PortalProtocol {
	conn, err := net.ListenUDP("udp", &net.UDPAddr{IP: net.IP{127, 0, 0, 1}})
	if err != nil {
		panic(err)
	}
	key := detKey(keyIdx)
	db, _ := enode.OpenDB("")
	ln := enode.NewLocalNode(db, key)
	ln.SetStaticIP(net.IP{127, 0, 0, 1})
	ln.SetFallbackUDP(conn.LocalAddr().(*net.UDPAddr).Port)
	ln.Set(portalwire.Tag)
	conf := portalwire.DefaultPortalProtocolConfig()
	conf.ListenAddr = conn.LocalAddr().String()
	disc, err := discover.ListenV5(conn, ln, discover.Config{PrivateKey: key})
	if err != nil {
		panic(err)
	}
	utp := portalwire.NewZenEthUtp(context.Background(), conf, disc, conn)
	vc := cache.NewCache[*enode.Node, uint8]().WithMaxKeys(conf.VersionsCacheSize).WithTTL(conf.VersionsCacheTTL)
	p, err := portalwire.NewPortalProtocol(conf, portalwire.History, key, conn, ln, disc, utp, store, make(chan *portalwire.ContentElement, 50), vc)
	if err != nil {
		panic(err)
	}
	if err := p.Start(); err != nil {
		panic(err)
	}
	return p
}

type c02Peers struct {
	x              *c02Ctx
	served         *storage.MockStorage
	server, client *portalwire.PortalProtocol
	hnet           *history.Network
}

func (g *c02Peers) stop() { g.server.Stop(); g.client.Stop() }

func (x *c02Ctx) startPeers() *c02Peers {
	served := &storage.MockStorage{Db: map[string][]byte{}}
	server, client := c02StartNode(50, served), c02StartNode(51, x.st)
	return &c02Peers{x, served, server, client, history.NewHistoryNetwork(client, x.val)}
}

// call: one getter call for key while the peer serves content under that key; it
// reports whether the getter returned (bound) content.
func (g *c02Peers) call(seed, detail string, key, content []byte, mode string, serve *types.Header) bool {
	x := g.x
	id := sha256.Sum256(key)
	g.served.Put(key, id[:], content)
	g.client.AddEnr(g.server.Self()) // a content reply carries no nodes, which the table counts as a failure and eventually drops the peer
	x.or.mode, x.or.serve, x.or.last = mode, serve, nil
	x.st.reset()
	var got any
	var err error
	msg, site := panicsTo(func() {
		switch key[0] {
		case 0x00:
			got, err = g.hnet.GetBlockHeader(key[1:])
		case 0x01:
			got, err = g.hnet.GetBlockBody(key[1:])
		default:
			got, err = g.hnet.GetReceipts(key[1:])
		}
	})
	// the same lookup through the RPC layer (what the production header source calls): it has no
	// validator, so it may return what it found but must not put it into the store
	getterPuts := x.st.puts
	x.st.reset()
	var apiErr error
	amsg, asite := panicsTo(func() {
		_, apiErr = portalwire.NewPortalAPI(g.client).RecursiveFindContent("0x" + hex.EncodeToString(key))
	})
	apiPuts := x.st.puts
	x.st.reset()
	x.st.puts = getterPuts
	delete(g.served.Db, string(id[:]))
	cs := x.mkCase(seed, "getter", detail, key, content, mode, serve)
	if amsg != "" {
		x.r.Violation("rejects-with-error-not-panic", asite, "panic in RecursiveFindContent: "+amsg, cs)
	}
	for _, p := range apiPuts {
		if clause, _ := x.unbound(p.key, p.content); clause != "" {
			x.r.Violation("stored-only-if-validated", "PortalProtocolAPI.RecursiveFindContent", fmt.Sprintf("%s: the RPC lookup for key %s (err=%v) stored what the peer served although it is not bound to the key", seed, hx(key), apiErr), cs)
			break
		}
	}
	x.r.Count("rpc_lookup_calls", 1)
	what := fmt.Sprintf("%s, getter for key %s, peer serves %s (%s), header source: %s", seed, hx(key), hx(content), detail, mode)
	getter := map[byte]string{0: "GetBlockHeader", 1: "GetBlockBody", 2: "GetReceipts"}[key[0]]
	x.r.Count("getter_calls", 1)
	x.r.Exec(fmt.Sprintf("getter|%s|%s|%s|%v|%T", seed, detail, mode, err, got))
	switch {
	case msg != "":
		x.r.Violation("rejects-with-error-not-panic", site, "panic: "+msg+" on "+what, cs)
	case err != nil && len(x.st.puts) > 0:
		x.r.Violation("stored-only-if-validated", "history.(*Network)."+getter, "getter failed ("+err.Error()+") but stored: "+what, cs)
	case err == nil:
		if clause, cls := x.unbound(key, content); clause != "" {
			x.r.Violation(clause, cls, getter+" returned content that is not bound to the key: "+what, cs)
			x.r.Count("getter_returned_unbound_content", 1)
			return false
		}
		x.r.Count("getter_returned_bound_content", 1)
		return true
	}
	return false
}

func (x *c02Ctx) getters() {
	g := x.startPeers()
	defer g.stop()
	// a content of up to 1100 bytes fits one CONTENT message; a larger one goes through uTP,
	// which on loopback stalls for seconds now and then: thorough tier only, fewer calls
	raw := func(s *c02Seed) bool { return len(s.Content) <= 1100 }
	use := func(s *c02Seed) bool {
		return s.Key[0] != 0x03 && (raw(s) || x.e.Thorough() && len(s.Content) <= 40000)
	}
	honestOK, n := 0, len(x.c.Seeds)
	for i, s := range x.c.Seeds {
		if !use(s) || x.e.Expired() {
			continue
		}
		if g.call(s.Name, "its own content", s.Key, s.Content, "honest", nil) {
			honestOK++
		}
		if raw(s) {
			g.call(s.Name, "its own content, last byte replaced", s.Key, cat(s.Content[:max(len(s.Content)-1, 0)], 0x5a), "honest", nil)
		}
		// the peer (and the header source) lie: content (and header) of another block,
		// asked for under this block's hash and under a hash no header has
		unknown := sha256.Sum256(s.Key)
		for _, o := range []*c02Seed{x.c.Seeds[(i+4)%n], x.c.Seeds[(i+n-8)%n]} {
			if !use(o) || len(o.Content) == 0 {
				continue
			}
			for _, key := range [][]byte{s.Key, cat(s.Key[:1], unknown[:]...)} {
				if raw(o) {
					g.call(s.Name, "content of "+o.Name, key, o.Content, "honest", nil)
				}
				g.call(s.Name, "content and header of "+o.Name, key, o.Content, "serve", o.Block.Header)
			}
		}
	}
	x.r.Count("getter_honest_lookups_succeeded", int64(honestOK))
	if honestOK == 0 {
		x.r.EngineError("no honest getter lookup succeeded over loopback UDP: the getter path was not exercised")
	}
}
