package main

import (
	"context"
	"fmt"
	"net"
	"testing/synctest"
	"time"

	"github.com/ethereum/go-ethereum/p2p/enode"
	"github.com/zen-eth/shisui/portalwire"
	"verifharness/mc"
)

// C10, a lookup that is under way when the table shuts down. The table's own refresh runs a
// real lookup (transport.lookupSelf); one query is in flight when the table is asked to close;
// the query then completes. The lookup must finish - one query per peer, then done - and with
// it the refresh and the close. Variants: the query answers with nodes / with an error, before /
// after the close request.

type c10CloseCase struct {
	Part   string `json:"part"` // "close-during-refresh-lookup"
	Answer string `json:"answer"`
	Order  string `json:"order"` // "close-then-answer" | "answer-then-close"
}

// finish is called from inside the bubble once the case is judged: the worker process (or the
// replay) ends there - after a lookup that never finishes the bubble can never be left.
func c10CloseRun(r *mc.Report, c c10CloseCase, finish func()) {
	stage := ""
	msg := inBubble(func() {
		release := make(chan struct{})
		started := make(chan struct{}, 1)
		lookupDone := make(chan int, 1)
		var vt *portalwire.VTable
		self := portalwire.VNode(tabSelfID, net.IP{127, 0, 0, 1}, 9000, 1)
		peer := portalwire.VNode(c10PeerID(1), net.IP{127, 0, 0, 2}, 9001, 1)
		found := portalwire.VNode(c10PeerID(2), net.IP{127, 0, 0, 3}, 9002, 1)
		refreshes := 0
		tr := &portalwire.VTransport{SelfNode: self,
			PingFn:       func(n *enode.Node) (uint64, error) { return n.Seq(), nil },
			RequestENRFn: func(n *enode.Node) (*enode.Node, error) { return n, nil },
			LookupSelfFn: func() []*enode.Node {
				if refreshes++; refreshes != 2 { // the initial refresh finds an empty table; the second is the one under test
					return nil
				}
				res := vt.RunLookup(context.Background(), tabSelfID, func(n *enode.Node) ([]*enode.Node, error) {
					started <- struct{}{}
					<-release
					if c.Answer == "error" {
						return nil, fmt.Errorf("timeout")
					}
					return []*enode.Node{found}, nil
				})
				lookupDone <- len(res)
				return res
			}}
		var err error
		vt, err = portalwire.NewVTable(tr, &portalwire.VSource{Hold: int64(time.Hour), Next: func(string) int64 { return 0 }}, portalwire.Config{DisableInitCheck: true, PingInterval: 10000 * time.Hour, RefreshInterval: 10000 * time.Hour})
		if err != nil {
			panic(err)
		}
		go vt.Loop()
		vt.WaitInit()
		synctest.Wait()
		vt.AddFound(peer, true)
		synctest.Wait()
		go vt.Refresh() // the second refresh: a real lookup over the table's one node
		<-started       // its query is in flight
		closed := make(chan struct{})
		doClose := func() { go func() { vt.Close(); close(closed) }() }
		if c.Order == "close-then-answer" {
			doClose()
			synctest.Wait()
			close(release)
		} else {
			close(release)
			synctest.Wait()
			doClose()
		}
		// explicit horizon: library tickers (the node database) keep the virtual clock running, so a
		// stuck lookup is no deadlock; ten virtual minutes are far beyond anything the lookup waits for
		horizon := time.After(10 * time.Minute)
		stage = "the refresh lookup's only query has returned, yet the lookup has not finished 10 virtual minutes later"
		select {
		case <-lookupDone:
		case <-horizon:
			r.Violation("lookup-terminates", "lookup.run:table-closing", fmt.Sprintf("%s, query answers with %s: %s", c.Order, c.Answer, stage), c)
			stage = ""
			finish()
			return
		}
		stage = "the lookup finished but closing the table has not, 10 virtual minutes later"
		select {
		case <-closed:
		case <-horizon:
			r.Violation("lookup-terminates", "Table.close:refresh-lookup-under-way", fmt.Sprintf("%s, query answers with %s: %s", c.Order, c.Answer, stage), c)
			stage = ""
			finish()
			return
		}
		stage = ""
		r.Exec(fmt.Sprintf("close|%s|%s", c.Answer, c.Order))
		finish()
	})
	if msg != "" {
		r.Violation("lookup-terminates", "lookup.run:table-closing", fmt.Sprintf("%s, query answers with %s: %s (%s)", c.Order, c.Answer, stage, msg), c)
	}
}

func c10CloseCases() (cs []c10CloseCase) {
	for _, a := range []string{"nodes", "error"} {
		for _, o := range []string{"close-then-answer", "answer-then-close"} {
			cs = append(cs, c10CloseCase{"close-during-refresh-lookup", a, o})
		}
	}
	return
}
