package main

import (
	"encoding/json"
	"errors"
	"fmt"
	"os"
	"strings"

	"github.com/holiman/uint256"
	"github.com/zen-eth/shisui/storage"
	"verifharness/mc"
)

// C06 (concurrent part) — "at all times every retained item lies within the advertised
// radius ... and the radius only shrinks during a run", with puts in flight. Putter
// goroutines run against each other at the injected yield points of storage.go (as in
// C05(b)); an observer thread is a scheduling choice of its own: whenever the explorer
// picks it, it reads Radius() and scans the database. All interleavings up to a
// preemption bound. Clauses: at every observation and at the end nothing retained lies
// beyond the advertised radius; the observed radii never grow; a put refused for
// insufficient radius was not below the smallest radius of the run.
//
// The known little-endian decoding of the radius (C06's recorded finding) is kept
// apart exactly as in the sequential part: a clause that fails as stated but holds with
// the radius read byte-reversed carries the recorded fingerprint; the items that the
// scenarios race with have palindromic distances, for which both readings agree.

type c06bScenario struct {
	Name     string
	Prefill  int
	Threads  [][]c05bOp
	Observes int
}

var c06bScenarios = []c06bScenario{
	// the store is one put away from its capacity: T1's put prunes and shrinks the radius while
	// T2 puts an item just inside the old (maximum) radius and far outside the new one
	{"admission-races-prune", 33, [][]c05bOp{{{"f40", 30_000}}, {{"pal-far", 1000}}}, 0},
	{"admission-races-prune-observed", 33, [][]c05bOp{{{"f40", 30_000}}, {{"pal-far", 1000}}}, 2},
	{"two-prunes-observed", 33, [][]c05bOp{{{"f40", 30_000}, {"f41", 30_000}}, {{"f42", 30_000}, {"pal-far", 10}}}, 2},
	{"near-item-and-far-item-race-prune", 33, [][]c05bOp{{{"f40", 30_000}}, {{"pal-far", 1000}}, {{"pal-near", 1000}}}, 0},
}

const c06bShards = 8

func c06bTasks() int { return len(c06bScenarios) * c06bShards }

// palindromic distances: the same number whichever end is read first
func c06bPal(name string) []byte {
	d := make([]byte, 32)
	switch name {
	case "pal-far": // just below the maximum
		for i := range d {
			d[i] = 0xff
		}
		d[15], d[16] = 0xfe, 0xfe
	case "pal-near":
		d[15], d[16] = 0x01, 0x01
	}
	return d
}

type c06bCase struct {
	Scenario string   `json:"scenario"`
	Choices  []int    `json:"choices"`
	Trace    []string `json:"trace,omitempty"`
}

func c06bRun(r *mc.Report, sc *c06bScenario, c *mc.Ctx) (outcome string) {
	var trace []string
	cs := func() c06bCase { return c06bCase{sc.Name, c.Choices(), trace} }
	rev := func(u *uint256.Int) *uint256.Int {
		b := u.Bytes32()
		for i, j := 0, 31; i < j; i, j = i+1, j-1 {
			b[i], b[j] = b[j], b[i]
		}
		return new(uint256.Int).SetBytes(b[:])
	}
	site := func(okReversed bool, base string) string {
		if okReversed {
			return base + ":holds-only-with-radius-read-byte-reversed"
		}
		return base + " (concurrent:" + sc.Name + ")"
	}
	msg := inBubble(func() {
		env, err := newStoreEnv(c04Nodes["mixed"], 1, false)
		if err != nil {
			r.EngineError("open: " + err.Error())
			return
		}
		defer env.close()
		idOf := func(n string) []byte {
			if strings.HasPrefix(n, "pal-") {
				d := c06bPal(n)
				id := make([]byte, 32)
				for i := range id {
					id[i] = d[i] ^ env.node[i]
				}
				return id
			}
			var k int
			fmt.Sscanf(n, "f%d", &k)
			return c05Filler(env.node, k)
		}
		for i := 0; i < sc.Prefill; i++ {
			env.cs.Put(nil, c05Filler(env.node, i), fillBytes(30_000, byte(i)))
			quiesce()
		}
		type obs struct {
			radius *uint256.Int
			items  []kv
			when   string
		}
		var seen []obs
		observe := func(when string) {
			items, _, _ := env.scan()
			seen = append(seen, obs{env.cs.Radius().Clone(), items, when})
		}
		observe("start")
		s := newSched()
		defer s.stop()
		errs := make([][]error, len(sc.Threads))
		for ti, ops := range sc.Threads {
			ti, ops := ti, ops
			errs[ti] = make([]error, len(ops))
			s.spawn(fmt.Sprintf("T%d", ti+1), func() {
				for oi, op := range ops {
					errs[ti][oi] = env.cs.Put(nil, idOf(op.Id), fillBytes(op.Size, byte(0x10*(ti+1)+oi)))
				}
			})
		}
		if sc.Observes > 0 && freeRuns == 0 { // free-running, a scan and a radius read are not one step: nothing to judge
			s.spawn("OBS", func() {
				for i := 0; i < sc.Observes; i++ {
					s.Gate("observe")
					// scan and radius read are one step (Radius() contains an injected yield)
					s.Atomically(func() { observe(fmt.Sprintf("observation %d", i+1)) })
				}
			})
		}
		ok, why := s.run(c, 3000)
		trace = s.Trace
		if !ok {
			r.Violation("puts-return", "ContentStorage.Put (concurrent:"+sc.Name+")", why+" | schedule: "+strings.Join(trace, " "), cs())
			return
		}
		quiesce()
		observe("end")
		sched := " | schedule: " + strings.Join(trace, " ")
		minRadius := seen[0].radius
		for i, o := range seen {
			// one report per reading, as in the sequential part (c05.go)
			firstOf := map[string]*uint256.Int{}
			for _, it := range o.items {
				if d := beUint(it.K); d.Gt(o.radius) { // "within" includes the boundary
					kind := " (concurrent:" + sc.Name + ")"
					switch {
					case !d.Gt(rev(o.radius)):
						kind = ":holds-only-with-radius-read-byte-reversed"
					case !rev(d).Gt(o.radius):
						kind = ":holds-only-with-distance-read-little-endian"
					}
					if firstOf[kind] == nil {
						firstOf[kind] = d
					}
				}
			}
			for kind, d := range firstOf {
				r.Violation("retained-within-advertised-radius", "ContentStorage"+kind,
					fmt.Sprintf("at %s a retained item lies at distance %s, advertised radius is %s%s", o.when, d.Hex(), o.radius.Hex(), sched), cs())
			}
			if i > 0 && o.radius.Gt(seen[i-1].radius) {
				r.Violation("radius-only-shrinks", site(!rev(o.radius).Gt(rev(seen[i-1].radius)), "ContentStorage.Put"),
					fmt.Sprintf("the radius read at %s is %s, at %s it was %s%s", o.when, o.radius.Hex(), seen[i-1].when, seen[i-1].radius.Hex(), sched), cs())
			}
			if o.radius.Lt(minRadius) {
				minRadius = o.radius
			}
		}
		var es []string
		for ti := range errs {
			for oi, e := range errs[ti] {
				es = append(es, fmt.Sprint(e))
				if e == nil {
					continue
				}
				if !errors.Is(e, storage.ErrInsufficientRadius) {
					r.Violation("put-no-internal-error", "ContentStorage.Put (concurrent:"+sc.Name+")", fmt.Sprintf("a concurrent Put returned %v%s", e, sched), cs())
					continue
				}
				// the radius only shrinks, so a put refused at any moment of the run was not below the final radius
				d := beUint(distKey(env.node, idOf(sc.Threads[ti][oi].Id)))
				if d.Lt(minRadius) {
					r.Violation("refused-only-at-or-beyond-radius", site(!rev(d).Lt(minRadius), "ContentStorage.Put"),
						fmt.Sprintf("put of %s refused for insufficient radius although its distance %s is below every radius advertised during the run (smallest %s)%s", sc.Threads[ti][oi].Id, d.Hex(), minRadius.Hex(), sched), cs())
				}
			}
		}
		last := seen[len(seen)-1]
		outcome = fmt.Sprintf("items=%d radiusMax=%v errs=%v obs=%d", len(last.items), last.radius.Eq(maxU256), es, len(seen))
		if os.Getenv("VERIF_DEBUG") != "" && len(last.items) > 0 {
			outcome += fmt.Sprintf(" DBG far=%s radius=%s", hx(last.items[len(last.items)-1].K), last.radius.Hex())
		}
		for _, o := range seen[1 : len(seen)-1] {
			outcome += fmt.Sprintf("|%d,%v", len(o.items), o.radius.Eq(maxU256))
		}
	})
	if msg != "" {
		r.Violation("no-panic", "ContentStorage (concurrent:"+sc.Name+")", "panic: "+msg, cs())
	}
	return
}

func runC06b(r *mc.Report, e *Env, task int) {
	total := int64(0)
	for si := range c06bScenarios {
		if si != task/c06bShards {
			continue
		}
		sc := &c06bScenarios[si]
		bound := 2
		if e.Thorough() {
			bound = 3
		}
		outcomes := map[string]int{}
		d := &mc.DFS{Bound: bound, Shard: task % c06bShards, Of: c06bShards, ShardDepth: 1, Deadline: e.Deadline}
		var out string
		d.Body = func(c *mc.Ctx) { out = c06bRun(r, sc, c) }
		if freeRuns > 0 { // race-detector pass: no exploration, the bodies run freely
			for i := 0; i < freeRuns; i++ {
				ctx := mc.Replay(nil, d.Body)
				_ = ctx
				r.Exec("free|" + sc.Name + "|" + out)
			}
			r.Count("free_running_executions", int64(freeRuns))
			continue
		}
		d.After = func(c *mc.Ctx) {
			if c.Diverged != "" {
				r.EngineError("schedule replay diverged in " + sc.Name + ": " + c.Diverged)
				return
			}
			r.Exec("conc|" + sc.Name + "|" + out)
			if os.Getenv("VERIF_DEBUG") != "" && outcomes[out] == 0 {
				if f, err := os.OpenFile(os.Getenv("VERIF_DEBUG"), os.O_APPEND|os.O_CREATE|os.O_WRONLY, 0o644); err == nil {
					fmt.Fprintln(f, "C06B", sc.Name, out, c.Labels())
					f.Close()
				}
			}
			outcomes[out]++
		}
		d.Run()
		total += d.Executions
		if d.TimedOut {
			r.NotExhaustive("internal deadline reached during schedule exploration of " + sc.Name)
		}
		r.Count("schedules_"+sc.Name, d.Executions)
		r.Max("max_schedule_points", int64(d.MaxPoints))
		r.Set("preemption_bound", bound)
		if task%c06bShards == 0 {
			r.Sample(map[string]any{"scenario": sc.Name, "threads": sc.Threads, "prefill_items": sc.Prefill, "observations": sc.Observes, "distinct_outcomes_in_shard0": len(outcomes)})
		}
	}
	r.Count("schedules", total)
	r.Assume("concurrent part: interleavings at statement granularity of storage.go (yields before every statement that touches c.size, c.radius, c.db or commits a batch) plus the observer's reads; pebble itself is not interleaved")
}

func replayC06b(r *mc.Report, raw json.RawMessage) bool {
	var c c06bCase
	if err := json.Unmarshal(raw, &c); err != nil || c.Scenario == "" {
		return false
	}
	for si := range c06bScenarios {
		if c06bScenarios[si].Name == c.Scenario {
			ctx := mc.Replay(c.Choices, func(x *mc.Ctx) { fmt.Println("outcome:", c06bRun(r, &c06bScenarios[si], x)) })
			if ctx.Diverged != "" {
				fmt.Println("replay diverged:", ctx.Diverged)
			}
			return true
		}
	}
	return false
}
