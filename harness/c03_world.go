package main

import (
	"bytes"
	"crypto/sha256"
	"encoding/binary"
	"math/big"

	"github.com/ethereum/go-ethereum/core/types"
	"github.com/protolambda/zrnt/eth2/beacon/capella"
	"github.com/protolambda/zrnt/eth2/beacon/common"

	"github.com/zen-eth/shisui/validation"
)

// Synthetic accumulators for C03 and the reference that says what is committed where.
// Everything here is plain SHA-256 over harness-owned data; none of the repository's
// constants, index arithmetic or Merkle helpers is used.

const (
	c03EpochSize   = 8192
	c03Merge       = 15_537_394           // first proof-of-stake block
	c03Shanghai    = 17_034_870           // first Capella-era block
	c03Cancun      = 19_426_587           // first Deneb-era block
	c03CapellaSlot = 194_048 * 32         // first slot covered by historical_summaries
	c03GindexOld   = ((8+4)*16+9)*16 + 12 // block_hash below a Bellatrix/Capella beacon block root (3228)
	c03GindexDeneb = ((8+4)*16+9)*32 + 12 // the same below a Deneb beacon block root (6444)
)

// eras, also used as proof styles: index into c03Shape / c03Site
const (
	eraPre = iota
	eraBellatrix
	eraCapella
	eraDeneb
)

var c03Shape = [4]struct{ beacon, exec int }{{15, 0}, {14, 11}, {13, 11}, {13, 12}}

var c03Site = [4]string{
	"validation.HeaderValidator.validatePreMergeHeader",
	"validation.HeaderValidator.validateMergeToCapellaHeader",
	"validation.HeaderValidator.validateCapellaToDenebHeader",
	"validation.HeaderValidator.validatePostDenebHeader",
}

func c03Era(number uint64) int {
	switch {
	case number < c03Merge:
		return eraPre
	case number < c03Shanghai:
		return eraBellatrix
	case number < c03Cancun:
		return eraCapella
	}
	return eraDeneb
}

type h32 = [32]byte

func sha2(a, b h32) h32 {
	var buf [64]byte
	copy(buf[:32], a[:])
	copy(buf[32:], b[:])
	return sha256.Sum256(buf[:])
}

// fold walks a branch from a leaf to the root: bit k of gindex tells whether the
// node at level k is a right child.
func fold(leaf h32, sibs []h32, gindex uint64) h32 {
	for k, s := range sibs {
		if gindex>>uint(k)&1 == 1 {
			leaf = sha2(s, leaf)
		} else {
			leaf = sha2(leaf, s)
		}
	}
	return leaf
}

// mtree is a complete binary Merkle tree; level 0 holds the leaves.
type mtree [][]h32

func newTree(leaves []h32) mtree {
	t := mtree{leaves}
	for len(leaves) > 1 {
		up := make([]h32, len(leaves)/2)
		for i := range up {
			up[i] = sha2(leaves[2*i], leaves[2*i+1])
		}
		t = append(t, up)
		leaves = up
	}
	return t
}

func (t mtree) root() h32 { return t[len(t)-1][0] }

// branch returns the siblings of leaf i, bottom up.
func (t mtree) branch(i int) []h32 {
	out := make([]h32, 0, len(t)-1)
	for _, lvl := range t[:len(t)-1] {
		out = append(out, lvl[i^1])
		i >>= 1
	}
	return out
}

// c03Filler is an arbitrary but deterministic 32-byte value.
func c03Filler(tag string, a, b uint64) h32 {
	return sha256.Sum256(binary.BigEndian.AppendUint64(binary.BigEndian.AppendUint64([]byte("c03/"+tag), a), b))
}

// c03Header is the synthetic header with the given number; salt 0 is the one the
// accumulators commit to, any other salt is a different header with the same number.
func c03Header(number, salt uint64) *types.Header {
	h := &types.Header{
		Number:     new(big.Int).SetUint64(number),
		Difficulty: big.NewInt(int64(1 + number%5)),
		Time:       1_438_269_973 + 13*number,
		GasLimit:   30_000_000,
		Extra:      binary.BigEndian.AppendUint64(nil, salt),
	}
	if number >= c03Merge {
		h.Difficulty = new(big.Int)
	}
	return h
}

// c03Proof is a proof before serialisation. Every container is fixed-size, so the
// encoding is the concatenation beacon nodes | beacon block root | execution nodes |
// slot (little endian); a pre-merge proof is its 15 nodes only.
type c03Proof struct {
	pre    bool
	beacon []h32
	root   h32
	exec   []h32
	slot   uint64
}

func (p *c03Proof) bytes() []byte {
	out := make([]byte, 0, p.nodes()*32+8)
	for _, n := range p.beacon {
		out = append(out, n[:]...)
	}
	if p.pre {
		return out
	}
	out = append(out, p.root[:]...)
	for _, n := range p.exec {
		out = append(out, n[:]...)
	}
	return binary.LittleEndian.AppendUint64(out, p.slot)
}

func (p *c03Proof) nodes() int {
	if p.pre {
		return len(p.beacon)
	}
	return len(p.beacon) + 1 + len(p.exec)
}

// node addresses the 32-byte values of the proof in encoding order.
func (p *c03Proof) node(i int) *h32 {
	switch {
	case i < len(p.beacon):
		return &p.beacon[i]
	case i == len(p.beacon):
		return &p.root
	}
	return &p.exec[i-len(p.beacon)-1]
}

// c03Epoch is one pre-merge epoch accumulator: header records at some positions,
// zero records (the repository's padding) everywhere else.
type c03Epoch struct {
	n    int   // committed headers
	hash []h32 // header hash per record; zero = padding
	td   []h32 // total-difficulty chunk per record
	tree mtree // over hash_tree_root(record) = H(block_hash, total_difficulty)
	root h32   // tree root with the list length mixed in
}

var c03LenChunk = h32{1: 0x20} // 8192, little endian

func newC03Epoch(base uint64, positions []int) *c03Epoch {
	ep := &c03Epoch{n: len(positions), hash: make([]h32, c03EpochSize), td: make([]h32, c03EpochSize)}
	var total uint64 // restarts in every epoch, as in the repository's accumulator builder
	for _, p := range positions {
		h := c03Header(base+uint64(p), 0)
		ep.hash[p] = h.Hash()
		total += h.Difficulty.Uint64()
		binary.LittleEndian.PutUint64(ep.td[p][:], total)
	}
	leaves := make([]h32, c03EpochSize)
	for i := range leaves {
		leaves[i] = sha2(ep.hash[i], ep.td[i])
	}
	ep.tree = newTree(leaves)
	ep.root = sha2(ep.tree.root(), c03LenChunk)
	return ep
}

// proof: the record's other field, 13 siblings in the record tree, the length chunk.
func (ep *c03Epoch) proof(i int) c03Proof {
	nodes := append([]h32{ep.td[i]}, ep.tree.branch(i)...)
	return c03Proof{pre: true, beacon: append(nodes, c03LenChunk)}
}

func (ep *c03Epoch) records() [][]byte {
	out := make([][]byte, c03EpochSize)
	for i := range out {
		out[i] = append(append(make([]byte, 0, 64), ep.hash[i][:]...), ep.td[i][:]...)
	}
	return out
}

// c03Batch is one block_roots vector of 8192 beacon block roots. A committed position
// holds a synthetic beacon block root = a random execution branch folded up from the
// header hash; the other positions hold filler roots.
type c03Batch struct {
	hist  bool     // entry of historical_roots (root = H(block_roots, state_roots)) rather than a summary
	depth int      // execution-branch nodes: 11 below gindex 3228, 12 below gindex 6444
	num   []uint64 // committed header number per position; 0 = filler
	hash  []h32
	exec  [][]h32
	tree  mtree // over the beacon block roots
	state h32   // root of the state_roots half
}

func newC03Batch(tag string, hist bool, depth int, numOf func(p int) uint64) *c03Batch {
	b := &c03Batch{hist: hist, depth: depth, num: make([]uint64, c03EpochSize), hash: make([]h32, c03EpochSize),
		exec: make([][]h32, c03EpochSize), state: c03Filler(tag, 0, 1)}
	gindex := uint64(c03GindexOld)
	if depth == 12 {
		gindex = c03GindexDeneb
	}
	roots := make([]h32, c03EpochSize)
	for p := range roots {
		if b.num[p] = numOf(p); b.num[p] == 0 {
			roots[p] = c03Filler(tag, uint64(p), 2)
			continue
		}
		b.hash[p] = c03Header(b.num[p], 0).Hash()
		b.exec[p] = make([]h32, depth)
		for k := range b.exec[p] {
			b.exec[p][k] = c03Filler(tag, uint64(p), uint64(3+k))
		}
		roots[p] = fold(b.hash[p], b.exec[p], gindex)
	}
	b.tree = newTree(roots)
	return b
}

// entry is the value the trusted accumulator holds for this batch.
func (b *c03Batch) entry() h32 {
	if b.hist {
		return sha2(b.tree.root(), b.state)
	}
	return b.tree.root()
}

func (b *c03Batch) proof(p int, slot uint64) c03Proof {
	pr := c03Proof{beacon: b.tree.branch(p), root: b.tree[0][p], exec: append([]h32(nil), b.exec[p]...), slot: slot}
	if b.hist {
		pr.beacon = append(pr.beacon, b.state)
	}
	return pr
}

// c03World is one set of trusted accumulators plus the validator built over it.
type c03World struct {
	name   string
	epochs []*c03Epoch // pre-merge epoch roots; nil = a root nothing is known about
	hroots []*c03Batch
	sums   []*c03Batch
	v      validation.HeaderValidator
}

func (w *c03World) seal() *c03World {
	var pre [][]byte
	for i, ep := range w.epochs {
		root := c03Filler(w.name, uint64(i), 0)
		if ep != nil {
			root = ep.root
		}
		pre = append(pre, root[:])
	}
	var hr validation.HistoricalRoots
	for _, b := range w.hroots {
		hr = append(hr, common.Root(b.entry()))
	}
	var hs []capella.HistoricalSummary
	for _, b := range w.sums {
		hs = append(hs, capella.HistoricalSummary{BlockSummaryRoot: common.Root(b.entry()), StateSummaryRoot: common.Root(b.state)})
	}
	w.v = validation.NewHeaderValidatorForVerif(pre, hr, hs)
	return w
}

// batchAt returns the batch that covers a slot, nil if no accumulator entry does.
func (w *c03World) batchAt(slot uint64) *c03Batch {
	list, idx := w.hroots, slot/c03EpochSize
	if slot >= c03CapellaSlot {
		list, idx = w.sums, (slot-c03CapellaSlot)/c03EpochSize
	}
	if idx >= uint64(len(list)) {
		return nil
	}
	return list[idx]
}

type c03Verdict int

const (
	refAccept     c03Verdict = iota // the header's hash is the committed leaf and every node is the true one
	refReject                       // well-formed, in range, not that
	refMalformed                    // not a proof container of the header's era
	refOutOfRange                   // the position lies outside the trusted accumulator
)

// ref says what the property demands for a header and proof bytes in this world. It
// compares with what the world committed; it does not hash.
func (w *c03World) ref(h *types.Header, proof []byte) c03Verdict {
	n, hh := h.Number.Uint64(), h32(h.Hash())
	era := c03Era(n)
	sh := c03Shape[era]
	if era == eraPre {
		if n/c03EpochSize >= uint64(len(w.epochs)) {
			return refOutOfRange
		}
		if len(proof) != sh.beacon*32 {
			return refMalformed
		}
		ep, i := w.epochs[n/c03EpochSize], int(n%c03EpochSize)
		if ep == nil || ep.hash[i] != hh {
			return refReject
		}
		if honest := ep.proof(i); !bytes.Equal(proof, honest.bytes()) {
			return refReject
		}
		return refAccept
	}
	if len(proof) != (sh.beacon+1+sh.exec)*32+8 {
		return refMalformed
	}
	slot := binary.LittleEndian.Uint64(proof[len(proof)-8:])
	list, idx := w.hroots, slot/c03EpochSize
	if era != eraBellatrix {
		if slot < c03CapellaSlot {
			return refOutOfRange
		}
		list, idx = w.sums, (slot-c03CapellaSlot)/c03EpochSize
	}
	if idx >= uint64(len(list)) {
		return refOutOfRange
	}
	b, p := list[idx], int(slot%c03EpochSize)
	if b.num[p] == 0 || b.hash[p] != hh || b.depth != sh.exec {
		return refReject
	}
	if honest := b.proof(p, slot); !bytes.Equal(proof, honest.bytes()) {
		return refReject
	}
	return refAccept
}

// ---- the worlds ----

func c03Range(n int) []int {
	out := make([]int, n)
	for i := range out {
		out[i] = i
	}
	return out
}

// c03PreWorld: a chain from block 0 whose epochs hold the given numbers of headers.
func c03PreWorld(name string, sizes ...int) *c03World {
	w := &c03World{name: name}
	for e, n := range sizes {
		w.epochs = append(w.epochs, newC03Epoch(uint64(e)*c03EpochSize, c03Range(n)))
	}
	return w.seal()
}

// c03PostWorld: three full historical roots (Bellatrix), three Capella-style and three
// Deneb-style summaries; position k of era X holds the header numbered first(X)+k.
func c03PostWorld() *c03World {
	w := &c03World{name: "post"}
	seq := func(first uint64, i int) func(int) uint64 {
		return func(p int) uint64 { return first + uint64(i*c03EpochSize+p) }
	}
	for i := 0; i < 3; i++ {
		w.hroots = append(w.hroots, newC03Batch("post-b", true, 11, seq(c03Merge, i)))
	}
	for i := 0; i < 3; i++ {
		w.sums = append(w.sums, newC03Batch("post-c", false, 11, seq(c03Shanghai, i)))
	}
	for i := 0; i < 3; i++ {
		w.sums = append(w.sums, newC03Batch("post-d", false, 12, seq(c03Cancun, i)))
	}
	return w.seal()
}

// c03Fork lists the headers around the three era boundaries.
var c03Fork = func() (out []uint64) {
	for _, f := range []uint64{c03Merge, c03Shanghai, c03Cancun} {
		out = append(out, f-2, f-1, f, f+1)
	}
	return out
}()

// c03DispatchWorld commits every header of c03Fork in accumulators of all four styles:
// in its own pre-merge epoch (2372 epoch roots, three of them known), in historical
// root 0, in Capella-style summary 0 and in Deneb-style summary 1, at position = its
// index in c03Fork.
func c03DispatchWorld() *c03World {
	w := &c03World{name: "dispatch", epochs: make([]*c03Epoch, (c03Cancun+1)/c03EpochSize+1)}
	for _, f := range []uint64{c03Merge, c03Shanghai, c03Cancun} {
		i := int(f % c03EpochSize)
		w.epochs[f/c03EpochSize] = newC03Epoch(f-f%c03EpochSize, []int{i - 2, i - 1, i, i + 1})
	}
	forkAt := func(p int) uint64 {
		if p < len(c03Fork) {
			return c03Fork[p]
		}
		return 0
	}
	w.hroots = []*c03Batch{newC03Batch("disp-b", true, 11, forkAt)}
	w.sums = []*c03Batch{newC03Batch("disp-c", false, 11, forkAt), newC03Batch("disp-d", false, 12, forkAt)}
	return w.seal()
}

var c03Worlds = []struct {
	name  string
	build func() *c03World
}{
	{"pre-1", func() *c03World { return c03PreWorld("pre-1", 1) }},
	{"pre-2", func() *c03World { return c03PreWorld("pre-2", 2) }},
	{"pre-8191", func() *c03World { return c03PreWorld("pre-8191", 8191) }},
	{"pre-8192", func() *c03World { return c03PreWorld("pre-8192", 8192) }},
	{"pre-chain", func() *c03World { return c03PreWorld("pre-chain", 8192, 8192, 100) }},
	{"post", c03PostWorld},
	{"dispatch", c03DispatchWorld},
}
