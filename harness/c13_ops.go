package main

import (
	"fmt"
	"sort"

	"github.com/ethereum/go-ethereum/crypto"
)

// The fixed operator set of C13. Each operator is applied at every applicable
// position. Structural operators (everything except single-bit flips of node / code
// bytes) are also applied in pairs.

func flipBit(b []byte, i int) hexb {
	out := append(hexb{}, b...)
	out[i/8] ^= 0x80 >> (i % 8)
	return out
}

// c13Bits: the bit positions flipped in a byte string of n bytes.
func c13Bits(n int, all bool) (out []int) {
	for i := 0; i < 8*n; i++ {
		if all || n <= 64 || i < 32 || i%29 == 0 {
			out = append(out, i)
		}
	}
	return
}

var c13HashBits = []int{0, 7, 128, 255}

func c13SortedKeys(m map[string]hexb) (out []string) {
	for k := range m {
		out = append(out, k)
	}
	sort.Strings(out)
	return
}

// listOps: reorder / drop / duplicate / insert / flip on a proof list.
func listOps(l []hexb, extras []hexb, flips, allBits bool, emit func(op string, q []hexb)) {
	cp := func() []hexb { return append([]hexb{}, l...) }
	ins := func(i int, n hexb) []hexb { return append(append(append([]hexb{}, l[:i]...), n), l[i:]...) }
	n := len(l)
	for i := 0; i+1 < n; i++ {
		q := cp()
		q[i], q[i+1] = q[i+1], q[i]
		emit(fmt.Sprintf("swap(%d,%d)", i, i+1), q)
	}
	for i := 0; i < n; i++ {
		where := "middle"
		if i == 0 {
			where = "first"
		} else if i == n-1 {
			where = "last"
		}
		emit(fmt.Sprintf("drop-%s(%d)", where, i), append(cp()[:i], l[i+1:]...))
		if i == 0 || i == n-1 {
			emit(fmt.Sprintf("duplicate-%s", where), ins(i, l[i]))
		}
	}
	if n > 0 {
		emit("drop-all", []hexb{})
	}
	if n > 2 {
		q := cp()
		for i, j := 0, n-1; i < j; i, j = i+1, j-1 {
			q[i], q[j] = q[j], q[i]
		}
		emit("reverse", q)
	}
	for x, e := range extras {
		for i := 0; i <= n; i++ {
			emit(fmt.Sprintf("insert-foreign%d-at(%d of %d)", x, i, n), ins(i, e))
		}
		if n > 0 {
			q := cp()
			q[n-1] = e
			emit(fmt.Sprintf("replace-last-by-foreign%d", x), q)
		}
	}
	if !flips {
		return
	}
	for i, node := range l {
		for _, b := range c13Bits(len(node), allBits) {
			q := cp()
			q[i] = flipBit(node, b)
			emit(fmt.Sprintf("flip-node(%d)-bit(%d)", i, b), q)
		}
	}
}

// embeddedClaims enumerates the embedded descendants of n: chain = their encodings
// from n's child down, nibs = the nibbles leading there.
func embeddedClaims(n *refNode, nibs []byte, chain []hexb, emit func(nibs []byte, chain []hexb)) {
	step := func(r refRef, more ...byte) {
		if r.emb != nil {
			nn, cc := append(append([]byte{}, nibs...), more...), append(append([]hexb{}, chain...), r.emb.enc)
			emit(nn, cc)
			embeddedClaims(r.emb, nn, cc, emit)
		}
	}
	if n.branch {
		for i, k := range n.kids {
			step(k, byte(i))
		}
	} else if !n.leaf {
		step(n.next, n.key...)
	}
}

// c13Mutants applies every operator once to b.
func c13Mutants(b c13Case, ctx c13Ctx, allBits, flips bool, emit func(c13Case)) {
	mut := func(op string, f func(m *c13Case)) {
		m := b.clone()
		if m.Op = b.Op + " + " + op; b.Op == "genuine" {
			m.Op = op
		}
		f(&m)
		emit(m)
	}
	var unknown hexb = crypto.Keccak256([]byte("c13 no such block"))
	mut("block-hash-without-header", func(m *c13Case) { m.Block = unknown })
	for _, k := range c13SortedKeys(b.Roots) {
		if k != b.Block.String() {
			mut("block-hash-of-header-with-another-root", func(m *c13Case) { m.Block.UnmarshalText([]byte(k)) })
		}
	}
	for _, i := range c13HashBits {
		mut(fmt.Sprintf("key-hash-bit(%d)", i), func(m *c13Case) { m.Hash = flipBit(m.Hash, i) })
	}

	if b.Kind != 0x22 { // the node claim: path, node hash, proof
		p := b.Path
		set := func(op string, np []byte) { mut(op, func(m *c13Case) { m.Path = append(hexb{}, np...) }) }
		if len(p) >= 1 {
			set("path-1", p[:len(p)-1])
			set("path-drop-first", p[1:])
			set("path-empty", nil)
		}
		if len(p) >= 2 {
			set("path-2", p[:len(p)-2])
		}
		set("path+0", append(append([]byte{}, p...), 0))
		set("path+f", append(append([]byte{}, p...), 0xf))
		for i := range p {
			np := append([]byte{}, p...)
			np[i] = (np[i] + 1) & 0xf
			set(fmt.Sprintf("path-nibble(%d)+1", i), np)
		}
		extras := ctx.alts
		if ctx.child != nil {
			extras = append(append([]hexb{}, extras...), ctx.child)
		}
		listOps(b.Proof, extras, flips, allBits, func(op string, q []hexb) { mut("proof:"+op, func(m *c13Case) { m.Proof = q }) })
		if n := len(b.Proof); n > 0 {
			last := b.Proof[n-1]
			if n > 1 {
				mut("claim-parent-with-this-path", func(m *c13Case) { m.Proof, m.Hash = m.Proof[:n-1], crypto.Keccak256(m.Proof[n-2]) })
			}
			for x, e := range extras {
				mut(fmt.Sprintf("claim-appended-foreign%d-with-this-path", x), func(m *c13Case) { m.Proof, m.Hash = append(m.Proof, e), crypto.Keccak256(e) })
				mut(fmt.Sprintf("claim-foreign%d-in-place-of-last", x), func(m *c13Case) { m.Proof[n-1], m.Hash = e, crypto.Keccak256(e) })
			}
			if node, ok := refParse(last); ok {
				if node.leaf {
					set("path-extended-by-leaf-key", append(append([]byte{}, p...), node.key...))
				}
				embeddedClaims(node, nil, nil, func(nibs []byte, chain []hexb) {
					for cut := 0; cut <= len(nibs); cut++ {
						mut(fmt.Sprintf("embedded-node-as-proof-node(depth %d, %d of %d nibbles)", len(chain), cut, len(nibs)), func(m *c13Case) {
							m.Path = append(m.Path, nibs[:cut]...)
							m.Proof = append(m.Proof, chain...)
							m.Hash = crypto.Keccak256(chain[len(chain)-1])
						})
					}
				})
			}
		}
	}

	if b.Kind != 0x20 { // the account proof
		for _, i := range c13HashBits {
			mut(fmt.Sprintf("address-hash-bit(%d)", i), func(m *c13Case) { m.Addr = flipBit(m.Addr, i) })
		}
		listOps(b.Acct, ctx.alts, flips, allBits, func(op string, q []hexb) { mut("account-proof:"+op, func(m *c13Case) { m.Acct = q }) })
		if o := ctx.other; o != nil {
			mut("account-proof-of-another-account", func(m *c13Case) { m.Acct = o.Acct })
			mut("address-and-account-proof-of-another-account", func(m *c13Case) { m.Addr, m.Acct = o.Addr, o.Acct })
			if b.Kind == 0x21 {
				mut("storage-claim-of-another-account", func(m *c13Case) { m.Path, m.Hash, m.Proof = o.Path, o.Hash, o.Proof })
			} else {
				mut("code-of-another-account", func(m *c13Case) { m.Code = o.Code })
				mut("code-and-code-hash-of-another-account", func(m *c13Case) { m.Code, m.Hash = o.Code, o.Hash })
			}
		}
		if b.Kind == 0x21 {
			mut("storage-and-account-proof-exchanged", func(m *c13Case) { m.Proof, m.Acct = m.Acct, m.Proof })
		}
	}

	if b.Kind == 0x22 {
		mut("code+1-byte", func(m *c13Case) { m.Code = append(append(hexb{}, m.Code...), 0) })
		if len(b.Code) > 0 {
			mut("code-1-byte", func(m *c13Case) { m.Code = m.Code[:len(m.Code)-1] })
			mut("code-empty", func(m *c13Case) { m.Code = hexb{} })
			mut("code-bit-flipped-and-rehashed", func(m *c13Case) { m.Code = flipBit(m.Code, 0); m.Hash = crypto.Keccak256(m.Code) })
		}
		if flips {
			for _, i := range c13Bits(len(b.Code), allBits) {
				mut(fmt.Sprintf("code-bit(%d)", i), func(m *c13Case) { m.Code = flipBit(m.Code, i) })
			}
		}
	}
}
