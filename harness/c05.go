package main

import (
	"bytes"
	"crypto/sha256"
	"encoding/hex"
	"encoding/json"
	"errors"
	"fmt"
	"sort"
	"strings"
	"time"

	"github.com/ethereum/go-ethereum/p2p/enode"
	"github.com/holiman/uint256"
	"github.com/zen-eth/shisui/storage"
	"verifharness/mc"
)

// C05(a) / C06(a) — one exploration, two oracles.
//
// Explicit-state BFS over put histories on the real pebble-backed store (capacity
// 1 MB, and capacity 0) from real start states; after every put the database is
// scanned and the capacity clauses (C05) or the radius clauses (C06) are evaluated.

const c05Cap = 1_000_000

type c05Case struct {
	Node  string   `json:"node"`
	Hist  []string `json:"history"`
	Check string   `json:"check"` // "C05" | "C06"
}

// pool: distances (id XOR node) chosen so that big- and little-endian readings order
// them differently, plus one uniformly distributed id.
func c05Pool(node enode.ID) map[string][]byte {
	d := map[string][]byte{
		"hi1":   append([]byte{0x01}, make([]byte, 31)...),               // BE 2^248, LE 1
		"lo1":   append(make([]byte, 31), 0x01),                          // BE 1, LE 2^248
		"lo256": append(append(make([]byte, 30), 0x01), 0x00),            // BE 256
		"top":   append([]byte{0x80}, make([]byte, 31)...),               // BE 2^255, LE 128
		"mid":   append([]byte{0x7f}, bytes.Repeat([]byte{0xff}, 31)...), // just below top
	}
	h := sha256.Sum256([]byte("verif-c05-uniform"))
	d["uni"] = h[:]
	out := map[string][]byte{}
	for k, v := range d {
		id := make([]byte, 32)
		for i := range id {
			id[i] = v[i] ^ node[i]
		}
		out[k] = id
	}
	return out
}

var c05PoolOrder = []string{"hi1", "lo1", "lo256", "top", "mid", "uni"}
var c05Sizes = map[string]int{"z": 0, "s20k": 20_000, "p5": 50_000 - 32, "p5+1": 50_000 - 32 + 1, "p30": 300_000, "over": c05Cap + 1}
var c05SizeOrder = []string{"z", "s20k", "p5", "p5+1", "p30", "over"}

func c05Filler(node enode.ID, i int) []byte {
	h := sha256.Sum256([]byte(fmt.Sprintf("verif-c05-filler-%d", i)))
	return h[:]
}

type c05Exec struct {
	r5, r6  *mc.Report
	node    string
	env     *storeEnv
	pool    map[string][]byte
	hist    []string
	maxItem int // largest key+value ever put in this history
	tag     int
}

func (x *c05Exec) v5(clause, site, detail string) {
	if x.r5 != nil {
		x.r5.Violation(clause, site, detail, c05Case{x.node, x.hist, "C05"})
	}
}
func (x *c05Exec) v6(clause, site, detail string) {
	if x.r6 != nil {
		x.r6.Violation(clause, site, detail, c05Case{x.node, x.hist, "C06"})
	}
}

func keysOf(items []kv) map[string]int {
	m := map[string]int{}
	for _, it := range items {
		m[string(it.K)] = len(it.K) + len(it.V)
	}
	return m
}

// put applies one put; check evaluates both oracles around it.
func (x *c05Exec) put(id []byte, n int, check bool, ev string) bool {
	x.tag++
	val := fillBytes(n, byte(x.tag))
	if 32+n > x.maxItem {
		x.maxItem = 32 + n
	}
	var before []kv
	var radiusBefore *uint256.Int
	if check {
		before, _, _ = x.env.scan()
		radiusBefore = x.env.cs.Radius().Clone()
	}
	err := x.env.cs.Put(nil, id, val)
	if !check {
		return true
	}
	quiesce()
	after, rec, hasRec := x.env.scan()
	mem := c04MemSize(x.env)
	k := distKey(x.env.node, id)
	dist := beUint(k)
	radiusAfter := x.env.cs.Radius()
	capB := x.env.capMB * 1_000_000
	bk, ak := keysOf(before), keysOf(after)

	// ---- C06: radius, admission, retention (big-endian XOR metric). Each clause is also
	// evaluated with the advertised radius read byte-reversed: (for admission: the distance read
	// little-endian, as the store's own comparison does). A clause that fails as stated
	// but holds under that reading fails only because the store decodes key bytes
	// little-endian (one known cause, pinned by TestPrune); failing under both readings is
	// something else and gets its own fingerprint.
	rev := func(u *uint256.Int) *uint256.Int {
		b := u.Bytes32()
		for i, j := 0, 31; i < j; i, j = i+1, j-1 {
			b[i], b[j] = b[j], b[i]
		}
		return new(uint256.Int).SetBytes(b[:])
	}
	site := func(okReversed bool, base string) string {
		if okReversed {
			return base + ":holds-only-with-radius-read-byte-reversed"
		}
		return base
	}
	if radiusAfter.Gt(radiusBefore) {
		x.v6("radius-only-shrinks", site(!rev(radiusAfter).Gt(rev(radiusBefore)), "ContentStorage.Put"), fmt.Sprintf("%s: radius grew from %s to %s", ev, radiusBefore.Hex(), radiusAfter.Hex()))
	}
	if errors.Is(err, storage.ErrInsufficientRadius) && dist.Lt(radiusBefore) {
		// alternative reading: the distance itself read little-endian (what inRadius does)
		x.v6("refused-only-at-or-beyond-radius", site(!rev(dist).Lt(radiusBefore), "ContentStorage.Put"), fmt.Sprintf("%s: refused for insufficient radius although distance %s < radius %s", ev, dist.Hex(), radiusBefore.Hex()))
	}
	// one report per reading. An item beyond the radius as stated is explained by the recorded
	// little-endian decoding if it is within the radius (R) with the radius read byte-reversed —
	// what a prune leaves behind, pebble orders keys big-endian — or (L) with its own distance
	// read little-endian — what admission (inRadius) enforces. The first item of each kind is
	// reported; one that fails under all readings carries the bare fingerprint.
	firstOf := map[string]*uint256.Int{}
	for _, it := range after {
		if d := beUint(it.K); d.Gt(radiusAfter) { // "within" includes the boundary
			kind := ""
			switch {
			case !d.Gt(rev(radiusAfter)):
				kind = ":holds-only-with-radius-read-byte-reversed"
			case !rev(d).Gt(radiusAfter):
				kind = ":holds-only-with-distance-read-little-endian"
			}
			if firstOf[kind] == nil {
				firstOf[kind] = d
			}
		}
	}
	for _, kind := range []string{":holds-only-with-radius-read-byte-reversed", ":holds-only-with-distance-read-little-endian", ""} {
		if d := firstOf[kind]; d != nil {
			x.v6("retained-within-advertised-radius", "ContentStorage"+kind, fmt.Sprintf("after %s a retained item lies at distance %s, advertised radius is %s", ev, d.Hex(), radiusAfter.Hex()))
		}
	}
	// under the byte-reversed reading alone (not the statement, but it keeps the check
	// sharp while the endianness finding is open): nothing beyond the reversed radius is
	// retained or admitted, whatever the true reading says
	if x.r6 != nil {
		rr := rev(radiusAfter)
		for _, it := range after {
			if beUint(it.K).Gt(rr) {
				x.r6.Count("retained_beyond_reversed_radius", 1)
			}
		}
	}

	// ---- C05: capacity and farthest-first pruning
	if err != nil {
		if !errors.Is(err, storage.ErrInsufficientRadius) {
			x.v5("put-no-internal-error", "ContentStorage.Put", fmt.Sprintf("%s returned %v", ev, err))
			return false
		}
		return true
	}
	B, A := held(before), held(after)
	L := uint64(32 + n)
	would := B - uint64(bk[string(k)]) + L
	if would > capB {
		freed := int64(would) - int64(A)
		if freed < int64(capB/20) && A != 0 {
			x.v5("over-capacity-put-frees-5-percent", "ContentStorage.Put", fmt.Sprintf("%s would leave %d bytes (capacity %d) but the call freed only %d and %d bytes remain", ev, would, capB, freed, A))
		}
	}
	if uint64(x.maxItem) <= capB/20 && A > capB {
		x.v5("held-within-capacity", "ContentStorage.Put", fmt.Sprintf("after %s the store holds %d bytes, capacity %d, largest item %d", ev, A, capB, x.maxItem))
	}
	if mem < A {
		x.v5("usage-never-under-reports", "in-memory counter", fmt.Sprintf("after %s the in-memory usage is %d, bytes held %d", ev, mem, A))
	}
	if (hasRec && rec < A) || (!hasRec && A > 0) {
		x.v5("usage-never-under-reports", "persisted record", fmt.Sprintf("after %s the persisted usage is %d (present=%v), bytes held %d", ev, rec, hasRec, A))
	}
	// removed set must be a farthest-first prefix: every dropped key >= every kept key
	var minDropped, maxKept []byte
	all := map[string]bool{string(k): true}
	for s := range bk {
		all[s] = true
	}
	for s := range all {
		if _, kept := ak[s]; !kept {
			if minDropped == nil || bytes.Compare([]byte(s), minDropped) < 0 {
				minDropped = []byte(s)
			}
		}
	}
	for s := range ak {
		if maxKept == nil || bytes.Compare([]byte(s), maxKept) > 0 {
			maxKept = []byte(s)
		}
	}
	if minDropped != nil && maxKept != nil && bytes.Compare(minDropped, maxKept) < 0 {
		x.v5("prune-drops-farthest-first", "ContentStorage.prune", fmt.Sprintf("%s dropped the item at distance %s but kept the farther one at %s", ev, hx(minDropped[:8]), hx(maxKept[:8])))
	}
	return true
}

func (x *c05Exec) start(name string) {
	switch name {
	case "empty", "cap0":
	case "filled93", "filled93-pruned":
		for i := 0; i < 31; i++ {
			x.put(c05Filler(x.env.node, i), 30_000, false, "start")
		}
		if name == "filled93-pruned" {
			x.put(c05Filler(x.env.node, 31), 30_000, false, "start")
			x.put(c05Filler(x.env.node, 32), 30_000, false, "start")
			x.put(c05Filler(x.env.node, 33), 30_000, false, "start") // crosses 1 MB: prune
		}
	case "cap2-many-tiny-far":
		// capacity 2 MB: 2600 items of 8 bytes at the far end (104 kB, more than the 5% a pruning
		// pass must free) and 18 items of 100 kB near the node: 95% full. The pass that the next
		// large put triggers has to delete more than 2500 items.
		mk := func(hi byte, i int) []byte {
			d := make([]byte, 32)
			d[0], d[1], d[2], d[3] = hi, 0x01, byte(i>>8), byte(i)
			for k := range d {
				d[k] ^= x.env.node[k]
			}
			return d
		}
		for i := 0; i < 2600; i++ {
			x.put(mk(0xff, i), 8, false, "start")
		}
		for i := 0; i < 18; i++ {
			x.put(mk(0x00, i), 100_000-32, false, "start")
		}
	case "rewritten-farthest":
		// 28 items, the three farthest of which were written twice (an older version of each lies
		// below the current one in the database): what a pruning pass deletes must stay deleted
		ids := make([][]byte, 28)
		for i := range ids {
			ids[i] = c05Filler(x.env.node, i)
		}
		sort.Slice(ids, func(a, b int) bool {
			return bytes.Compare(distKey(x.env.node, ids[a]), distKey(x.env.node, ids[b])) > 0
		})
		for _, id := range ids[:3] {
			x.put(id, 29_000, false, "start")
		}
		quiesce()
		for _, id := range ids {
			x.put(id, 30_000, false, "start")
		}
	default:
		panic("start " + name)
	}
}

func (x *c05Exec) canon() string {
	items, rec, _ := x.env.scan()
	h := sha256.New()
	for _, it := range items {
		fmt.Fprintf(h, "%x:%d;", it.K, len(it.V))
	}
	fmt.Fprintf(h, "rec=%d mem=%d radius=%s max=%v", rec, c04MemSize(x.env), x.env.cs.Radius().Hex(), uint64(x.maxItem) <= x.env.capMB*50_000)
	return hex.EncodeToString(h.Sum(nil)[:16])
}

func c05Run1(r5, r6 *mc.Report, node string, hist []string) (canon string, expand bool) {
	which := r5
	if which == nil {
		which = r6
	}
	msg := inBubble(func() {
		capMB := uint64(1)
		switch hist[0] {
		case "cap0":
			capMB = 0
		case "cap2-many-tiny-far":
			capMB = 2
		}
		env, err := newStoreEnv(c04Nodes[node], capMB, true)
		if err != nil {
			which.EngineError("open: " + err.Error())
			return
		}
		defer env.close()
		x := &c05Exec{r5: r5, r6: r6, node: node, env: env, pool: c05Pool(c04Nodes[node]), hist: hist}
		if r0 := env.cs.Radius(); !r0.Eq(maxU256) {
			x.v6("fresh-store-advertises-the-maximum-radius", "NewStorage", fmt.Sprintf("a store opened on an empty database advertises radius %s", r0.Hex()))
		}
		x.start(hist[0])
		for i, ev := range hist[1:] {
			p := strings.Split(ev, ":") // put:<id>:<size>
			if !x.put(x.pool[p[1]], c05Sizes[p[2]], i == len(hist)-2, ev) {
				return
			}
		}
		canon, expand = x.canon(), true
	})
	if msg != "" {
		which.Violation("no-panic", "ContentStorage", "panic: "+msg, c05Case{node, hist, which.Property})
		return "", false
	}
	return
}

func c05Events() []string {
	var evs []string
	for _, id := range c05PoolOrder {
		for _, s := range c05SizeOrder {
			evs = append(evs, "put:"+id+":"+s)
		}
	}
	return evs
}

type c05Unit struct {
	node, start string
	depth       int
}

func c05Units(thorough bool) []c05Unit {
	var us []c05Unit
	for _, node := range []string{"zero", "ones", "mixed"} {
		for _, start := range []string{"empty", "filled93", "filled93-pruned", "cap0", "rewritten-farthest"} {
			d := 2
			if thorough {
				d = 3
			}
			us = append(us, c05Unit{node, start, d})
		}
		us = append(us, c05Unit{node, "cap2-many-tiny-far", 1}) // 2618 puts to set up: one put deep only
	}
	return us
}

// c05Tasks splits the exploration into short-lived tasks (one worker process each):
// prune() never closes its pebble iterator, which pins ~1 MB of C memory per pruning
// execution until the process exits, so processes are kept short.
type c05Task struct {
	u      c05Unit
	prefix []string // first-level event, for depth-3 units
}

func c05Tasks(thorough bool) []c05Task {
	var ts []c05Task
	for _, u := range c05Units(thorough) {
		if u.depth <= 2 {
			ts = append(ts, c05Task{u, nil})
			continue
		}
		for _, ev := range c05Events() {
			ts = append(ts, c05Task{u, []string{ev}})
		}
	}
	return ts
}

// c05BFS runs this worker's task of the shared exploration for one of the two properties.
func c05BFS(r *mc.Report, e *Env, r5, r6 *mc.Report) {
	evs := c05Events()
	tasks := c05Tasks(e.Thorough())
	for ti, t := range tasks {
		if e.Of > 1 && ti != e.Shard {
			continue
		}
		u := t.u
		b := &mc.BFS{Starts: [][]string{append([]string{u.start}, t.prefix...)}, MaxDepth: u.depth - len(t.prefix), Par: 1, Deadline: e.Deadline,
			Events: func([]string) []string { return evs },
			Exec:   func(h []string) (string, bool) { return c05Run1(r5, r6, u.node, h) }}
		b.Run()
		b.Transitions += int64(len(t.prefix)) // the start history of a prefix task is itself a checked transition
		r.States += b.States
		r.Transitions += b.Transitions
		r.Evaluations += b.Transitions
		r.Depth(b.Depth + len(t.prefix))
		for s := range b.Seen {
			r.Digests[u.node+u.start+s] = struct{}{}
		}
		if !b.Complete {
			r.NotExhaustive("internal deadline reached during BFS")
		}
		r.Count(fmt.Sprintf("transitions_%s_%s_depth%d", u.node, u.start, u.depth), b.Transitions)
	}
	if e.Shard == 0 {
		r.Sample(c05Case{"mixed", []string{"filled93", "put:lo1:p5", "put:hi1:s20k", "put:lo1:p30"}, r.Property})
		r.Sample(c05Case{"zero", []string{"cap0", "put:uni:z", "put:uni:s20k"}, r.Property})
	}
	r.Assume("capacity 1 MB (the smallest non-zero capacity) and capacity 0; 32-byte ids; item sizes from {0, 20 kB, exactly 5%, 5%+1, 30%, capacity+1}; in-memory file system")
	r.Assume("depth-3 units are split by their first event into separate worker processes with separate visited sets, so the reported state count can include duplicates across workers")
}

func init() {
	register(&Prop{ID: "C05", Level: "model_checking", Run: runC05, Replay: replayC05,
		Workers: func(e *Env) int {
			return len(c05Tasks(e.Thorough())) + c05bTasks(e.Thorough()) + c05wTasks(e.Thorough())
		}, Procs: 1,
		Budget: func(t string) time.Duration {
			if t == "thorough" {
				return 30 * time.Minute
			}
			return 5 * time.Minute
		}})
}

func runC05(r *mc.Report, e *Env) {
	r.Rule = "(a) BFS: every transition is one real Put on a fresh pebble-backed store reached by replaying its history; after it the database is scanned and the capacity / usage / farthest-first clauses are evaluated; (b) every interleaving (bounded preemptions) of concurrent Puts at injected yield points, clauses evaluated at quiescence; (w) the stores wired by portal.NewNode filled past the node's capacity through the protocol and the RPC, clauses evaluated against the node's own id and capacity after every put; distinct = distinct canonical store states / final outcomes"
	if freeRuns > 0 { // race-detector pass: only the concurrent scenarios, in this process
		for t := 0; t < c05bTasks(e.Thorough()); t += c05bShards {
			runC05b(r, e, t)
		}
		return
	}
	if nb := len(c05Tasks(e.Thorough())); e.Of <= 1 || e.Shard < nb {
		c05BFS(r, e, r, nil)
	} else if nc := c05bTasks(e.Thorough()); e.Shard < nb+nc {
		runC05b(r, e, e.Shard-nb)
	} else {
		runC05w(r, e, e.Shard-nb-nc)
	}
}

func replayC05(r *mc.Report, e *Env, raw json.RawMessage) {
	if replayC05w(r, e, raw) {
		return
	}
	var c c05Case
	if err := json.Unmarshal(raw, &c); err == nil && len(c.Hist) > 0 {
		c05Run1(r, nil, c.Node, c.Hist)
		return
	}
	replayC05b(r, e, raw)
}
