package main

import (
	"bytes"
	"crypto/sha256"
	"encoding/hex"
	"encoding/json"
	"fmt"

	"github.com/ethereum/go-ethereum/common/hexutil"
	"github.com/ethereum/go-ethereum/p2p/enode"
	"github.com/zen-eth/shisui/portalwire"
	"verifharness/mc"
)

// C04 (node read path) — the store is not read by anybody directly: the JSON-RPC methods
// (LocalContent, GetContent), the eth API and the network glue read through
// PortalProtocol.Get, which wraps the store. What the statement promises for a get must
// hold at that entry point as well.
//
// An unstarted real node (newBareNode) sits on the real pebble store (capacity 1 MB) opened
// for the node's own id. A put history issued through the node's own Put runs; it is long
// enough to make the store prune (a long-lived, nearly full node: the radius is below the
// maximum) and contains overwrites, empty values and reopens of a store that is more than
// 95 % full. After EVERY operation of the history, for EVERY id offered so far, the bytes read
//   - straight from the store handle (ContentStorage.Get),
//   - through the node (PortalProtocol.Get) and
//   - through the API object (PortalProtocolAPI.LocalContent, which derives the id from the key)
// are compared with what the database holds (a direct scan, not a Get): exactly the bytes of
// the last accepted put for every item the database still holds, no bytes for an id whose
// item was pruned, refused or never put.
//
// Dimensions: node key x id family x history shape x every prefix of the history x every
// offered id x entry point. The id families differ in how the two byte-order readings of the
// distance relate (the store reads its radius little-endian, the node's in-range test reads
// the distance big-endian - C06's known finding - so "which held items does the node think
// are out of range" depends on it): equal (palindromes: the item at the radius boundary sits
// exactly at the radius in both readings), independent (SHA-256 ids as the protocol derives
// them), ordered by one reading only (ramps), and tiny in one reading and huge in the other
// (near / far).

type c04NodeCase struct {
	Kind   string `json:"kind"` // "node"
	Key    int    `json:"key"`  // index of the deterministic node key (detKey)
	Family string `json:"family"`
	Shape  string `json:"shape"`
	Upto   int    `json:"upto"` // number of operations of the history after which the oracle failed
	Item   int    `json:"item"`
	Via    string `json:"via"`
}

type c04NodeOp struct {
	Op   string // "put" | "reopen"
	Item int
	Size int
}

var c04NodeFamilies = []string{"sha256", "palindrome", "be-ramp", "le-ramp", "near", "far"}

func c04NodeKeys(thorough bool) []int {
	if thorough {
		return []int{404, 405, 406, 407, 408, 409}
	}
	return []int{404, 405, 406}
}

func c04NodeShapes(thorough bool) []string {
	s := []string{"fill40k", "fill100k", "mixed", "overwrite", "reopen96"}
	if thorough {
		s = append(s, "fill3k", "fill40k-reopen-each-prune")
	}
	return s
}

// c04NodeShape: the operations of a history shape. Every shape offers more than the
// capacity (1 MB), so the store has to prune at least once.
func c04NodeShape(name string) []c04NodeOp {
	var ops []c04NodeOp
	put := func(item, size int) { ops = append(ops, c04NodeOp{"put", item, size}) }
	switch name {
	case "fill40k": // 1.6 MB in 40 items
		for i := 0; i < 40; i++ {
			put(i, 40_000)
		}
	case "fill100k": // 1.4 MB in 14 items
		for i := 0; i < 14; i++ {
			put(i, 100_000)
		}
	case "mixed": // empty, one-byte, small and large values side by side, 1.8 MB
		sizes := []int{0, 1, 3000, 70_000, 150_000, 33}
		for i := 0; i < 48; i++ {
			put(i, sizes[i%len(sizes)])
		}
	case "overwrite": // fill to the first prune, overwrite every third item (other sizes, one empty), go on
		for i := 0; i < 26; i++ {
			put(i, 40_000)
		}
		for i := 0; i < 26; i += 3 {
			put(i, []int{20_000, 0, 45_000}[(i/3)%3])
		}
		for i := 26; i < 34; i++ {
			put(i, 40_000)
		}
	case "reopen96": // reopened 96 % full without ever having pruned (the radius then comes from the database), then on
		for i := 0; i < 24; i++ {
			put(i, 40_000)
		}
		ops = append(ops, c04NodeOp{Op: "reopen"})
		for i := 24; i < 30; i++ {
			put(i, 40_000)
		}
		ops = append(ops, c04NodeOp{Op: "reopen"})
		for i := 30; i < 34; i++ {
			put(i, 10_000)
		}
	case "fill3k": // 1.3 MB in 420 small items
		for i := 0; i < 420; i++ {
			put(i, 3000)
		}
	case "fill40k-reopen-each-prune":
		for i := 0; i < 40; i++ {
			put(i, 40_000)
			if i >= 24 && i%3 == 0 {
				ops = append(ops, c04NodeOp{Op: "reopen"})
			}
		}
	default:
		panic("shape " + name)
	}
	return ops
}

// c04NodeItem: content key and content id of item i of a family, for the node id self.
// identity: the node's content-id function is the identity (key == id), otherwise the
// protocol's default (SHA-256 of the key).
func c04NodeItem(family string, keyIdx int, self enode.ID, i int) (key, id []byte) {
	// the free bytes differ from node to node: every node key has its own set of distances
	h := sha256.Sum256([]byte(fmt.Sprintf("verif-c04-node-%d-item-%d", keyIdx, i)))
	if family == "sha256" {
		key = append([]byte{0x00}, h[:]...) // a block header key
		d := sha256.Sum256(key)
		return key, d[:]
	}
	// the position of item i on a ramp: a permutation of 0..104 (the history does not offer
	// the items in order of distance); 2*pos+3 fits a byte
	pos := (i * 17) % 105
	if i >= 105 {
		pos = i % 105 // fill3k: positions repeat, the other bytes still differ
	}
	d := make([]byte, 32)
	switch family {
	case "palindrome": // reads the same in either byte order
		copy(d[1:16], h[1:16])
		d[0] = byte(2*pos + 3)
		d[1] = byte(i >> 8) // keeps items with equal pos apart and ordered
		for k := 0; k < 16; k++ {
			d[31-k] = d[k]
		}
	case "be-ramp": // ordered by the big-endian reading, the little-endian reading is arbitrary
		copy(d, h[:])
		d[0] = byte(2*pos + 3)
	case "le-ramp": // ordered by the little-endian reading, the big-endian reading is arbitrary
		copy(d, h[:])
		d[31] = byte(2*pos + 3)
	case "near": // big-endian tiny, little-endian huge
		copy(d[28:], h[:4])
		d[31] |= 1
	case "far": // big-endian huge, little-endian tiny
		copy(d[:4], h[:4])
		d[0] |= 1
	default:
		panic("family " + family)
	}
	id = make([]byte, 32)
	for k := range id {
		id[k] = d[k] ^ self[k]
	}
	return id, id
}

// c04NodeValue: size bytes that depend on the item and on how often it was put.
func c04NodeValue(item, version, size int) []byte {
	out := make([]byte, 0, size+32)
	h := sha256.Sum256([]byte(fmt.Sprintf("verif-c04-node-value-%d-%d", item, version)))
	for len(out) < size {
		out = append(out, h[:]...)
		h = sha256.Sum256(h[:])
	}
	return out[:size]
}

type c04NodeExec struct {
	r      *mc.Report
	c      c04NodeCase
	env    *storeEnv
	bn     *bareNode
	api    *portalwire.PortalProtocolAPI
	self   enode.ID
	keys   map[int][]byte
	ids    map[int][]byte
	order  []int          // items in the order of their first offer
	model  map[int][]byte // item -> bytes of the last accepted put, until the item is pruned
	vers   map[int]int
	failed bool
}

func (x *c04NodeExec) viol(upto, item int, via, clause, site, detail string) {
	c := x.c
	c.Upto, c.Item, c.Via = upto, item, via
	x.failed = true
	x.r.Violation(clause, site, fmt.Sprintf("node key %d, ids %s, history %s, after operation %d: %s", c.Key, c.Family, c.Shape, upto, detail), c)
}

func (x *c04NodeExec) openNode() {
	if x.bn != nil {
		x.bn.Close()
	}
	x.bn = newBareNode(bareOpts{keyIdx: x.c.Key, store: x.env.cs})
	if x.c.Family != "sha256" {
		x.bn.P.VerifSetContentIdFunc(func(k []byte) []byte { return k })
	}
	x.api = portalwire.NewPortalAPI(x.bn.P)
}

// read observes one id through one entry point and judges it against the database content.
func (x *c04NodeExec) judge(upto, item int, via, site string, got []byte, err error, stored []byte, held bool) {
	switch {
	case held && err != nil:
		x.viol(upto, item, via, "get-returns-what-was-put", site, fmt.Sprintf("item %d (distance %s) was accepted and the database still holds it (%d bytes), but %s says: %v", item, hx(distKey(x.self, x.ids[item])[:8]), len(stored), via, err))
	case held && !bytes.Equal(got, stored):
		x.viol(upto, item, via, "get-returns-what-was-put", site, fmt.Sprintf("item %d: %s returned %s, the last accepted put was %s", item, via, hx(got), hx(stored)))
	case !held && err == nil:
		x.viol(upto, item, via, "get-never-returns-foreign-bytes", site, fmt.Sprintf("item %d is not in the database (pruned, refused or never put) but %s returned %d bytes", item, via, len(got)))
	}
}

// checkpoint compares, for every id offered so far, every entry point with the database.
func (x *c04NodeExec) checkpoint(upto int, mayPrune bool) {
	items, _, _ := x.env.scan()
	present := make(map[string][]byte, len(items))
	for _, it := range items {
		present[string(it.K)] = it.V
	}
	radiusBelowMax := x.bn.P.Radius().Lt(maxU256)
	nHeld, nGone, outside := 0, 0, 0
	claimed := 0
	for _, item := range x.order {
		key, id := x.keys[item], x.ids[item]
		stored, held := present[string(distKey(x.self, id))]
		want, accepted := x.model[item]
		if held {
			claimed++
		}
		switch {
		case held && !accepted:
			x.viol(upto, item, "database", "get-never-returns-foreign-bytes", "ContentStorage", fmt.Sprintf("the database holds %d bytes for item %d, which was refused, pruned or never put", len(stored), item))
			continue
		case held && !bytes.Equal(stored, want):
			x.viol(upto, item, "database", "get-returns-what-was-put", "ContentStorage", fmt.Sprintf("the database holds %s for item %d, the last accepted put was %s", hx(stored), item, hx(want)))
			continue
		case !held && accepted:
			if !mayPrune {
				x.viol(upto, item, "database", "item-kept-until-pruned", "ContentStorage", fmt.Sprintf("item %d is gone after an operation that does not prune", item))
				continue
			}
			delete(x.model, item) // pruned: which items may be pruned is C05's question
		}
		if held {
			nHeld++
			if !x.bn.P.InRange(id) {
				outside++
			}
		} else {
			nGone++
		}
		got, err := x.env.cs.Get(key, id)
		x.judge(upto, item, "ContentStorage.Get", "ContentStorage.Get", got, err, stored, held)
		got, err = x.bn.P.Get(key, id)
		x.judge(upto, item, "PortalProtocol.Get", "PortalProtocol.Get", got, err, stored, held)
		s, err := x.api.LocalContent(hexutil.Encode(key))
		got = nil
		if err == nil {
			var derr error
			if got, derr = hexutil.Decode(s); derr != nil {
				x.viol(upto, item, "LocalContent", "get-returns-what-was-put", "PortalProtocolAPI.LocalContent", fmt.Sprintf("item %d: the answer is not hex: %v", item, derr))
				continue
			}
		}
		x.judge(upto, item, "LocalContent", "PortalProtocolAPI.LocalContent", got, err, stored, held)
	}
	if claimed != len(items) {
		// an item under a key that no offered id maps to
		x.viol(upto, -1, "database", "get-never-returns-foreign-bytes", "ContentStorage", fmt.Sprintf("the database holds %d items, %d of them under offered ids", len(items), claimed))
	}
	x.r.Exec(fmt.Sprintf("node|%d|%s|%s|%d|held=%d|gone=%d|outside=%d|below=%v", x.c.Key, x.c.Family, x.c.Shape, upto, nHeld, nGone, outside, radiusBelowMax))
	x.r.Count("node_checkpoints", 1)
	x.r.Count("node_reads_per_entry_point_item_held", int64(nHeld))
	x.r.Count("node_reads_per_entry_point_item_pruned_or_refused", int64(nGone))
	x.r.Count("node_reads_held_item_outside_the_nodes_in_range_test", int64(outside))
	if radiusBelowMax {
		x.r.Count("node_checkpoints_radius_below_max", 1)
	}
}

// c04NodeRun runs one history (its first upto operations; upto < 0: all) with the oracle
// evaluated after every operation.
func c04NodeRun(r *mc.Report, c c04NodeCase, upto int) {
	ops := c04NodeShape(c.Shape)
	if upto < 0 || upto > len(ops) {
		upto = len(ops)
	}
	c.Kind = "node"
	msg := inBubble(func() {
		self := enode.PubkeyToIDV4(&detKey(c.Key).PublicKey)
		env, err := newStoreEnv(self, 1, true)
		if err != nil {
			r.EngineError("open: " + err.Error())
			return
		}
		defer func() { env.close() }()
		x := &c04NodeExec{r: r, c: c, env: env, self: self, keys: map[int][]byte{}, ids: map[int][]byte{}, model: map[int][]byte{}, vers: map[int]int{}}
		x.openNode()
		defer func() { x.bn.Close() }()
		if x.bn.P.Self().ID() != self {
			r.EngineError("the node's id is not the id the store was opened for")
			return
		}
		pruned := false
		for n, op := range ops[:upto] {
			mayPrune := true
			switch op.Op {
			case "put":
				if _, ok := x.ids[op.Item]; !ok {
					x.keys[op.Item], x.ids[op.Item] = c04NodeItem(c.Family, c.Key, self, op.Item)
					for _, other := range x.order {
						if bytes.Equal(x.ids[other], x.ids[op.Item]) {
							r.EngineError(fmt.Sprintf("items %d and %d of family %s share an id", other, op.Item, c.Family))
							return
						}
					}
					x.order = append(x.order, op.Item)
				}
				x.vers[op.Item]++
				val := c04NodeValue(op.Item, x.vers[op.Item], op.Size)
				err := x.bn.P.Put(x.keys[op.Item], x.ids[op.Item], val)
				quiesce()
				if err == nil {
					x.model[op.Item] = val
					r.Count("node_puts_accepted", 1)
				} else {
					r.Count("node_puts_refused", 1)
				}
			case "reopen":
				// opening prunes only a store whose persisted usage figure exceeds the capacity (C17)
				_, rec, _ := env.scan()
				mayPrune = rec > env.capMB*1_000_000
				if err := env.reopen(); err != nil {
					x.viol(n+1, -1, "reopen", "reopen-succeeds", "NewStorage", err.Error())
					return
				}
				x.openNode()
				r.Count("node_reopens", 1)
			}
			x.checkpoint(n+1, mayPrune)
			if x.bn.P.Radius().Lt(maxU256) {
				pruned = true
			}
			if x.failed {
				return
			}
		}
		if !pruned && upto == len(ops) {
			r.Count("node_histories_radius_never_below_max", 1)
		}
	})
	if msg != "" {
		c.Upto = upto
		r.Violation("no-panic", "PortalProtocol.Get", "panic: "+msg, c)
	}
}

type c04NodeTask struct {
	Key    int
	Family string
}

func c04NodeTaskList(thorough bool) []c04NodeTask {
	var ts []c04NodeTask
	for _, k := range c04NodeKeys(thorough) {
		for _, f := range c04NodeFamilies {
			ts = append(ts, c04NodeTask{k, f})
		}
	}
	return ts
}

func c04NodeTasks(thorough bool) int { return len(c04NodeTaskList(thorough)) }

// runC04Node runs one task: every history shape for one node key and one id family.
func runC04Node(r *mc.Report, e *Env, t c04NodeTask) {
	r.Assume("node read path: an unstarted PortalProtocol (History) on the pebble store opened for the node's own id, capacity 1 MB; crafted id families use the identity as content-id function, the SHA-256 family the protocol's default")
	for _, shape := range c04NodeShapes(e.Thorough()) {
		if e.Expired() {
			r.NotExhaustive("internal deadline reached in the node read path part")
			return
		}
		c := c04NodeCase{Kind: "node", Key: t.Key, Family: t.Family, Shape: shape}
		if !e.Mark(func() string { b, _ := json.Marshal(c); return string(b) }) {
			continue
		}
		c04NodeRun(r, c, -1)
		r.Count("node_histories", 1)
		r.Count("node_history_operations", int64(len(c04NodeShape(shape))))
	}
	r.Set("node_read_path", map[string]any{"node_keys": c04NodeKeys(e.Thorough()), "id_families": c04NodeFamilies, "history_shapes": c04NodeShapes(e.Thorough()),
		"entry_points": []string{"ContentStorage.Get", "PortalProtocol.Get", "PortalProtocolAPI.LocalContent"}, "oracle_evaluated": "after every operation, for every id offered so far"})
	if t.Key == c04NodeKeys(false)[0] && t.Family == "palindrome" {
		_, id := c04NodeItem(t.Family, t.Key, enode.PubkeyToIDV4(&detKey(t.Key).PublicKey), 0)
		r.Sample(map[string]any{"kind": "node", "key": t.Key, "family": t.Family, "shape": "overwrite", "item0_id": hex.EncodeToString(id), "operations": len(c04NodeShape("overwrite"))})
	}
}

func replayC04Node(r *mc.Report, raw json.RawMessage) bool {
	var c c04NodeCase
	if err := json.Unmarshal(raw, &c); err != nil || c.Kind != "node" {
		return false
	}
	upto := c.Upto
	if upto == 0 {
		upto = -1
	}
	c04NodeRun(r, c, upto)
	return true
}
