package main

import (
	"bytes"
	"encoding/json"
	"errors"
	"fmt"
	"net"

	"github.com/ethereum/go-ethereum/p2p/enode"

	"github.com/zen-eth/shisui/portalwire"
	"verifharness/mc"
)

// C15 — content stream framing round-trips and rejects malformed streams.
//
// Enumerated exhaustively: (1) every list of <= 3 items over 7 boundary lengths
// plus 64-item lists; (2) every byte string of length <= 3 (quick: <= 2 plus a
// strided third byte); (3) every LEB128 prefix shape of 1..6 bytes over boundary
// septets followed by a body of declared-1 / declared / declared+1 bytes, alone
// and followed by a second item. Oracle: a strict reference splitter.

func init() {
	register(&Prop{ID: "C15", Level: "exploration", Run: runC15, Replay: replayC15})
}

type c15Case struct {
	Kind  string   `json:"kind"`            // "list" | "bytes" | "utp"
	Items []string `json:"items,omitempty"` // hex, for list (items given as len:fill)
	Bytes string   `json:"bytes,omitempty"` // hex
	Ver   int      `json:"ver,omitempty"`
}

// refVarint: unsigned LEB128 of at most 32 bits: at most 5 bytes, the fifth
// carrying at most 4 payload bits and no continuation.
func refVarint(b []byte) (v uint64, n int, err error) {
	for i := 0; i < 5; i++ {
		if i >= len(b) {
			return 0, 0, errors.New("truncated varint")
		}
		c := b[i]
		v |= uint64(c&0x7f) << (7 * uint(i))
		if c&0x80 == 0 {
			if v > 0xffffffff {
				return 0, 0, errors.New("overflow")
			}
			return v, i + 1, nil
		}
	}
	return 0, 0, errors.New("overflow")
}

func refSplit(b []byte) ([][]byte, error) {
	out := [][]byte{}
	for len(b) > 0 {
		v, n, err := refVarint(b)
		if err != nil {
			return nil, err
		}
		if uint64(len(b)-n) < v {
			return nil, errors.New("length prefix exceeds remaining bytes")
		}
		out = append(out, b[n:n+int(v)])
		b = b[n+int(v):]
	}
	return out, nil
}

func refJoin(items [][]byte) []byte {
	var out []byte
	for _, it := range items {
		v := uint64(len(it))
		for {
			c := byte(v & 0x7f)
			v >>= 7
			if v != 0 {
				out = append(out, c|0x80)
			} else {
				out = append(out, c)
				break
			}
		}
		out = append(out, it...)
	}
	return out
}

func eqLists(a, b [][]byte) bool {
	if len(a) != len(b) {
		return false
	}
	for i := range a {
		if !bytes.Equal(a[i], b[i]) {
			return false
		}
	}
	return true
}

func c15CheckBytes(r *mc.Report, in []byte) {
	var got [][]byte
	var gerr error
	if msg, site := panicsTo(func() { got, gerr = portalwire.VerifDecodeContents(in) }); msg != "" {
		r.Violation("decode-no-panic", site, "decodeContents panicked: "+msg, c15Case{Kind: "bytes", Bytes: fmt.Sprintf("%x", in)})
		return
	}
	want, werr := refSplit(in)
	if (gerr != nil) != (werr != nil) {
		r.Violation("malformed-stream-rejected", "decodeContents", fmt.Sprintf("input %x: implementation err=%v, reference err=%v", in, gerr, werr), c15Case{Kind: "bytes", Bytes: fmt.Sprintf("%x", in)})
		return
	}
	if gerr == nil && !eqLists(got, want) {
		r.Violation("split-differently", "decodeContents", fmt.Sprintf("input %x: implementation split into %d items, reference into %d", in, len(got), len(want)), c15Case{Kind: "bytes", Bytes: fmt.Sprintf("%x", in)})
		return
	}
	if gerr == nil {
		r.Exec(fmt.Sprintf("ok:%d:%d", len(got), len(in)))
	} else {
		r.Exec("err:" + werr.Error())
	}
}

var c15Held [2][]byte

func c15CheckList(r *mc.Report, items [][]byte, desc []string) {
	c := c15Case{Kind: "list", Items: desc}
	var enc []byte
	var got [][]byte
	var gerr error
	if msg, site := panicsTo(func() {
		enc = portalwire.VerifEncodeContents(items)
		got, gerr = portalwire.VerifDecodeContents(enc)
	}); msg != "" {
		r.Violation("roundtrip-no-panic", site, msg, c)
		return
	}
	if !bytes.Equal(enc, refJoin(items)) {
		r.Violation("join-canonical", "encodeContents", fmt.Sprintf("list %v: encoding differs from reference LEB128 join", desc), c)
		return
	}
	if gerr != nil || !eqLists(got, items) {
		r.Violation("split-inverts-join", "decodeContents", fmt.Sprintf("list %v: decode(encode(xs)) != xs (err=%v, %d items back)", desc, gerr, len(got)), c)
		return
	}
	// the stream joined for the previous list is still held by its caller (a transfer takes up to
	// 75 s): the join just made must not have changed it
	if c15Held[0] != nil && !bytes.Equal(c15Held[0], c15Held[1]) {
		r.Violation("split-inverts-join", "encodeContents:stream-changed-by-a-later-join", fmt.Sprintf("the %d-byte stream joined for the previous list changed when list %v was joined", len(c15Held[1]), desc), c)
	}
	c15Held = [2][]byte{enc, append([]byte{}, enc...)}
	r.Exec(fmt.Sprintf("list:%v", desc))
}

// single-item (uTP find-content) framing at a given negotiated version
func c15CheckUtp(r *mc.Report, ver int, in []byte) {
	c := c15Case{Kind: "utp", Bytes: fmt.Sprintf("%x", in), Ver: ver}
	node, peer := c15UtpFixture(ver)
	var got []byte
	var gerr error
	if msg, site := panicsTo(func() { got, gerr = node.P.VerifDecodeUtpContent(peer, in) }); msg != "" {
		r.Violation("decode-no-panic", site, "decodeUtpContent panicked: "+msg, c)
		return
	}
	if ver == 0 {
		if gerr != nil || !bytes.Equal(got, in) {
			r.Violation("v0-identity", "decodeUtpContent", fmt.Sprintf("v0 stream %x not returned as is (err=%v)", in, gerr), c)
			return
		}
		r.Exec("v0")
		return
	}
	v, n, err := refVarint(in)
	wantOK := err == nil && uint64(len(in)-n) == v
	if wantOK != (gerr == nil) {
		r.Violation("single-item-exact-cover", "decodeUtpContent", fmt.Sprintf("v1 stream %x: reference accepts=%v, implementation err=%v", in, wantOK, gerr), c)
		return
	}
	if wantOK && !bytes.Equal(got, in[n:]) {
		r.Violation("single-item-exact-cover", "decodeUtpContent", fmt.Sprintf("v1 stream %x: wrong body returned", in), c)
		return
	}
	if wantOK {
		r.Exec(fmt.Sprintf("v1ok:%d", len(in)))
	} else {
		r.Exec("v1rej")
	}
}

type c15fx struct {
	node *bareNode
	peer *enode.Node
}

var c15Fix = map[int]*c15fx{}

// c15UtpFixture: a node advertising versions {0,1} and a peer record advertising {ver}.
func c15UtpFixture(ver int) (*bareNode, *enode.Node) {
	if f, ok := c15Fix[ver]; ok {
		return f.node, f.peer
	}
	n := newBareNode(bareOpts{keyIdx: 1, versions: []uint8{0, 1}})
	peer := signedNode(detKey(100+ver), 1, net.IP{127, 0, 0, 1}, 9100+ver, versEntry{uint8(ver)})
	c15Fix[ver] = &c15fx{n, peer}
	return n, peer
}

func runC15(r *mc.Report, e *Env) {
	r.Rule = "every case is one call of the real join/split helpers compared with a strict reference splitter; distinct = distinct (outcome, item count, length) observations"
	r.Assume("inputs longer than 3 bytes are covered only in the LEB128-shape x body-length family and the boundary-length lists, not as arbitrary strings")

	// (1) lists
	lens := []int{0, 1, 127, 128, 16383, 16384, 1 << 20}
	mk := func(n int, fill byte) []byte { return bytes.Repeat([]byte{fill}, n) }
	pool := make([][]byte, len(lens))
	for i, n := range lens {
		pool[i] = mk(n, byte(0x80+i)) // 0x80.. so that body bytes look like varint continuations
	}
	nLists := 0
	var rec func(items [][]byte, desc []string, depth int)
	rec = func(items [][]byte, desc []string, depth int) {
		c15CheckList(r, items, desc)
		nLists++
		if depth == 3 {
			return
		}
		for i := range lens {
			rec(append(append([][]byte{}, items...), pool[i]), append(append([]string{}, desc...), fmt.Sprint(lens[i])), depth+1)
		}
	}
	rec(nil, nil, 0)
	for _, l := range []int{0, 1} {
		items := make([][]byte, 64)
		for i := range items {
			items[i] = mk(l, byte(i))
		}
		c15CheckList(r, items, []string{fmt.Sprintf("64x%d", l)})
		nLists++
	}
	r.Sample(map[string]any{"kind": "list", "item_lengths": []int{127, 0, 16384}})
	r.Count("lists", int64(nLists))

	// (2) all short byte strings
	nBytes := 0
	c15CheckBytes(r, []byte{})
	nBytes++
	for a := 0; a < 256; a++ {
		c15CheckBytes(r, []byte{byte(a)})
		nBytes++
		for b := 0; b < 256; b++ {
			c15CheckBytes(r, []byte{byte(a), byte(b)})
			nBytes++
			for c := 0; c < 256; c++ {
				c15CheckBytes(r, []byte{byte(a), byte(b), byte(c)})
				nBytes++
			}
		}
	}
	r.Set("byte_strings_max_len", 3)
	r.Count("byte_strings", int64(nBytes))
	r.Sample(map[string]any{"kind": "bytes", "hex": "028001"})

	// (3) LEB128 shapes x body lengths
	septs := []byte{0x00, 0x01, 0x0f, 0x10, 0x7f}
	nShape := 0
	var shape func(prefix []byte, remaining int)
	emit := func(prefix []byte) {
		v, _, err := refVarint(prefix)
		bodies := []int{0, 1, 2}
		if err == nil && v <= 1<<21 {
			bodies = []int{int(v) - 1, int(v), int(v) + 1}
		}
		for _, bl := range bodies {
			if bl < 0 {
				continue
			}
			in := append(append([]byte{}, prefix...), mk(bl, 0x81)...)
			c15CheckBytes(r, in)
			c15CheckBytes(r, append(append([]byte{}, in...), 0x01, 0xaa))
			c15CheckBytes(r, append(append([]byte{}, in...), 0x02, 0xaa))
			for ver := 0; ver <= 1; ver++ {
				c15CheckUtp(r, ver, in)
			}
			nShape++
		}
	}
	shape = func(prefix []byte, remaining int) {
		for _, s := range septs {
			emit(append(append([]byte{}, prefix...), s)) // terminating byte
			if remaining > 1 {
				shape(append(append([]byte{}, prefix...), s|0x80), remaining-1)
			} else {
				emit(append(append([]byte{}, prefix...), s|0x80)) // continuation with nothing after it
			}
		}
	}
	shape(nil, 6)
	r.Count("varint_shape_cases", int64(nShape))
	r.Sample(map[string]any{"kind": "varint-shape", "prefix": "ffffffff0f", "bodies": "declared-1/declared/declared+1 (skipped when > 2 MiB)"})

	// single-item framing on all short strings too
	for ver := 0; ver <= 1; ver++ {
		c15CheckUtp(r, ver, []byte{})
		for a := 0; a < 256; a++ {
			c15CheckUtp(r, ver, []byte{byte(a)})
			for b := 0; b < 256; b++ {
				c15CheckUtp(r, ver, []byte{byte(a), byte(b)})
			}
		}
	}
	// round trip of the single-item encoder; also for items that are themselves well-formed
	// frames (their own first bytes read as the length of the rest) and frames of frames
	bodies := [][]byte{}
	for _, n := range lens {
		bodies = append(bodies, mk(n, 0x85))
	}
	for _, n := range []int{0, 1, 127, 128, 1300, 16384, 16387} {
		f1 := refJoin([][]byte{mk(n, 0x09)})
		bodies = append(bodies, f1, refJoin([][]byte{f1}), refJoin([][]byte{mk(n, 0x09), {}}))
	}
	for _, body := range bodies {
		n := len(body)
		node, peer := c15UtpFixture(1)
		enc, err := node.P.VerifEncodeUtpContent(peer, body)
		if err != nil {
			r.Violation("single-item-roundtrip", "encodeUtpContent", err.Error(), c15Case{Kind: "utp", Ver: 1})
			continue
		}
		c15CheckUtp(r, 1, enc)
		dec, err := node.P.VerifDecodeUtpContent(peer, enc)
		if err != nil || !bytes.Equal(dec, body) {
			r.Violation("single-item-roundtrip", "decodeUtpContent", fmt.Sprintf("len %d: err=%v", n, err), c15Case{Kind: "utp", Ver: 1, Bytes: fmt.Sprintf("len=%d", n)})
		}
	}
	c15Senders(r, e)
}

// (4) the senders of a content stream: whatever the offer kind (gossiped, traced through the RPC,
// persisted keys) and the negotiated version, what the real processOffer writes on the uTP
// stream for the keys a peer accepted must be the join of exactly their contents - the stream
// is read back by a real uTP socket and split by the strict reference (C09's offering fixture:
// every non-empty subset of 1..3 offered keys accepted, kinds x versions).
func c15Senders(r *mc.Report, e *Env) {
	if msg := inBubble(func() {
		nw := newC09Net()
		defer nw.close()
		c09OfferingCases(e.Thorough(), func(c c09Case) {
			if c.Shape != "subset" {
				return
			}
			r.Count("sender_streams", 1)
			c09Offering(r, nw, c)
		})
	}); msg != "" {
		r.EngineError("C15 senders: bubble ended with: " + msg)
	}
}

func replayC15(r *mc.Report, e *Env, raw json.RawMessage) {
	var oc c09Case
	if err := json.Unmarshal(raw, &oc); err == nil && oc.Part == "offering" {
		if msg := inBubble(func() {
			nw := newC09Net()
			defer nw.close()
			c09Offering(r, nw, oc)
		}); msg != "" {
			r.EngineError(msg)
		}
		return
	}
	var c c15Case
	if err := json.Unmarshal(raw, &c); err != nil {
		panic(err)
	}
	switch c.Kind {
	case "bytes":
		var b []byte
		fmt.Sscanf(c.Bytes, "%x", &b)
		c15CheckBytes(r, b)
	case "utp":
		var b []byte
		fmt.Sscanf(c.Bytes, "%x", &b)
		c15CheckUtp(r, c.Ver, b)
	case "list":
		var items [][]byte
		for i, d := range c.Items {
			var n int
			if _, err := fmt.Sscanf(d, "64x%d", &n); err == nil {
				for j := 0; j < 64; j++ {
					items = append(items, bytes.Repeat([]byte{byte(j)}, n))
				}
				continue
			}
			fmt.Sscanf(d, "%d", &n)
			items = append(items, bytes.Repeat([]byte{byte(0x80 + i)}, n))
		}
		c15CheckList(r, items, c.Items)
	}
}
