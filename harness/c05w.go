package main

import (
	"bytes"
	"encoding/json"
	"errors"
	"fmt"
	"math/bits"
	"os"
	"runtime"
	"strings"
	"time"

	"github.com/cockroachdb/pebble"
	"github.com/ethereum/go-ethereum/common/hexutil"
	"github.com/ethereum/go-ethereum/crypto"
	"github.com/ethereum/go-ethereum/p2p/enode"
	"github.com/ethereum/go-ethereum/rpc"
	"github.com/protolambda/ztyp/codec"
	"github.com/zen-eth/shisui/beacon"
	"github.com/zen-eth/shisui/history"
	"github.com/zen-eth/shisui/portal"
	"github.com/zen-eth/shisui/portalwire"
	"github.com/zen-eth/shisui/state"
	"github.com/zen-eth/shisui/storage"
	sp "github.com/zen-eth/shisui/storage/pebble"
	"verifharness/mc"
)

// C05(w) — the stores as the application wires them.
//
// Parts (a) and (b) open a store by hand (pebble.NewStorage with the harness's own configuration).
// This part takes the second entry point: the node is built the way cmd/shisui builds it —
// portal.NewNode with a small data capacity, a real data directory and every network enabled, not
// started — and the clauses are evaluated on the storage object each network's protocol instance
// was constructed with, measured against THE NODE's id and THE NODE's configured capacity:
// the store of every distance-keyed network (history, state) is filled past the capacity, one put
// at a time, through a put path of the node (the protocol's storage object, or the portal_*Store
// RPC); after every put the set of items still readable through the protocol and the bytes in the
// database are observed.
//
// The beacon store keeps one record per period / block root, measures no distance and has no
// pruning pass, so the behavioural clauses do not apply to it; for it (and for the two others) the
// configuration handed over by the wiring is compared with the node's.

type c05wCase struct {
	Kind    string `json:"kind"` // "wiring"
	Key     int    `json:"key"`  // detKey index of the node's private key
	CapMB   uint64 `json:"capacity_mb"`
	Network string `json:"network"` // "history" | "state"
	Path    string `json:"path"`    // "storage": PortalProtocol.Put with chosen content ids | "rpc": portal_<network>Store, ids derived from the keys
	// Byte is the byte of the 32-byte distance in which the items differ (path "storage"): item i
	// lies at distance bitrev8(i) in that byte, 0 elsewhere. -1 for path "rpc" (ids are sha256(key)).
	Byte  int `json:"distance_byte"`
	Value int `json:"value_bytes"` // bytes of payload per item (<= 5% of the capacity with its key)
	Extra int `json:"puts_after_full"`
	// Alone: the node is configured with this network only (otherwise with all three)
	Alone bool `json:"alone,omitempty"`
}

func (c c05wCase) String() string {
	s := fmt.Sprintf("key%d/cap%d/%s/%s/byte%d/v%d", c.Key, c.CapMB, c.Network, c.Path, c.Byte, c.Value)
	if c.Alone {
		s += "/alone"
	}
	return s
}

// c05wTasks is the number of worker processes of this part.
func c05wTasks(thorough bool) int {
	if thorough {
		return 48 // a node that was never started cannot be stopped cleanly: each case leaves ~10 MB behind, so processes are kept short
	}
	return 4
}

// c05wCases: node key x capacity x distance-keyed network x item size x (one fill per distinguishing
// distance byte through the protocol's storage, one fill through the RPC).
func c05wCases(thorough bool) []c05wCase {
	keys := []int{1, 2, 3}
	values := []int{20_000}
	bytesOf := func(capMB uint64) []int {
		if capMB == 1 {
			return []int{0, 8, 15, 16, 24, 31}
		}
		return []int{0}
	}
	if thorough {
		keys = []int{1, 2, 3, 4, 5, 6}
		values = []int{20_000, 30_000}
		bytesOf = func(uint64) (l []int) {
			for j := 0; j < 32; j++ {
				l = append(l, j)
			}
			return
		}
	}
	var cs []c05wCase
	for _, k := range keys {
		for _, capMB := range []uint64{1, 2} {
			for _, nw := range []string{"history", "state"} {
				for _, v := range values {
					for _, j := range bytesOf(capMB) {
						cs = append(cs, c05wCase{"wiring", k, capMB, nw, "storage", j, v, 8, false})
						if j == 0 || thorough {
							cs = append(cs, c05wCase{"wiring", k, capMB, nw, "storage", j, v, 8, true})
						}
					}
					cs = append(cs, c05wCase{"wiring", k, capMB, nw, "rpc", -1, v, 8, false}, c05wCase{"wiring", k, capMB, nw, "rpc", -1, v, 8, true})
				}
			}
		}
	}
	return cs
}

type c05wItem struct {
	key, id, content []byte
	dist             []byte // XOR distance of id from the node's id, big-endian
}

// c05wMakeItem builds item i of a case: a content key the network's store accepts, the content
// and the content id.
func c05wMakeItem(c c05wCase, self enode.ID, i int, toId func([]byte) []byte) c05wItem {
	var it c05wItem
	payload := fillBytes(c.Value, byte(i+1))
	tag := crypto.Keccak256([]byte(fmt.Sprintf("verif-c05w-%d", i)))
	switch c.Network {
	case "history":
		// block header by hash / body / receipts keys: selector ++ 32-byte hash (never the ephemeral type)
		it.key = append([]byte{byte(i % 3)}, tag...)
		it.content = payload
	case "state":
		// contract bytecode: 0x22 ++ address_hash ++ code_hash; the value carries the code (no proof:
		// the store checks only the code hash)
		it.key = append(append([]byte{state.ContractByteCodeType}, tag...), crypto.Keccak256(payload)...)
		var buf bytes.Buffer
		v := &state.ContractBytecodeWithProof{Code: payload}
		if err := v.Serialize(codec.NewEncodingWriter(&buf)); err != nil {
			panic(err)
		}
		it.content = buf.Bytes()
	default:
		panic("network " + c.Network)
	}
	if c.Path == "rpc" {
		it.id = toId(it.key)
	} else {
		d := make([]byte, 32)
		d[c.Byte] = bits.Reverse8(uint8(i))
		it.id = distKey(self, d) // id = distance XOR node id
	}
	it.dist = distKey(self, it.id)
	return it
}

// c05wScanHeld sums key+value bytes of everything in db except the usage record.
func c05wScanHeld(db *pebble.DB) (heldBytes uint64, items int) {
	it, err := db.NewIter(nil)
	if err != nil {
		panic(err)
	}
	defer it.Close()
	for it.First(); it.Valid(); it.Next() {
		if bytes.Equal(it.Key(), storage.SizeKey) {
			continue
		}
		heldBytes += uint64(len(it.Key()) + len(it.Value()))
		items++
	}
	return
}

// c05wWaitPruneDone waits until no goroutine spawned by ContentStorage.prune (the background
// Compact) is alive: the databases must not be closed under it. A wait, not an oracle.
func c05wWaitPruneDone() bool {
	buf := make([]byte, 1<<20)
	for i := 0; i < 20_000; i++ {
		n := runtime.Stack(buf, true)
		for n == len(buf) { // truncated: nodes that were never started leave goroutines behind
			buf = make([]byte, 2*len(buf))
			n = runtime.Stack(buf, true)
		}
		if !bytes.Contains(buf[:n], []byte("ContentStorage).prune.func")) {
			return true
		}
		time.Sleep(time.Millisecond)
	}
	return false
}

func c05wInitSite(network string) string {
	return "portal.Node.init" + strings.ToUpper(network[:1]) + network[1:] + "Network"
}

// c05wRun builds the node and runs one case. Returns a digest of what was observed.
func c05wRun(r *mc.Report, c c05wCase) (digest string) {
	violated := false
	viol := func(clause, site, detail string) { violated = true; r.Violation(clause, site, detail, c) }
	defer func() {
		if p := recover(); p != nil {
			viol("no-panic", repoFrame()+" (node wired by portal.NewNode)", fmt.Sprintf("panic: %v", p))
			digest = ""
		}
	}()
	dir, err := os.MkdirTemp("", "verif-c05w-")
	if err != nil {
		r.EngineError("temporary directory: " + err.Error())
		return ""
	}
	defer os.RemoveAll(dir)

	cfg := portal.DefaultConfig()
	cfg.PrivateKey = detKey(c.Key)
	cfg.DataDir = dir
	cfg.DataCapacity = c.CapMB
	cfg.Networks = []string{portalwire.History.Name(), portalwire.Beacon.Name(), portalwire.State.Name()}
	if c.Alone {
		cfg.Networks = []string{c.Network}
	}
	cfg.RpcAddr = "127.0.0.1:0"
	cfg.DisableTableInitCheck = true
	cfg.PortalProtocolConfig.ListenAddr = "127.0.0.1:0"
	cfg.PortalProtocolConfig.BootstrapNodes = nil
	cfg.PortalProtocolConfig.NAT = nil
	node, err := portal.NewNode(cfg)
	if err != nil {
		r.EngineError("portal.NewNode: " + err.Error())
		return ""
	}
	closed := false
	closeNode := func() {
		if !closed {
			closed = true
			if !c05wWaitPruneDone() {
				r.EngineError("the background compaction of a pruning pass never finished")
				return // leave everything open: the worker process exits soon
			}
			node.VerifClose()
		}
	}
	defer closeNode()

	self := node.VerifLocalID()
	if self == (enode.ID{}) {
		r.EngineError("node id is zero")
		return ""
	}
	capB := c.CapMB * 1_000_000
	protos := node.VerifProtocols()
	if len(protos) != len(cfg.Networks) || protos[c.Network] == nil {
		r.EngineError(fmt.Sprintf("NewNode wired %d networks, want %d", len(protos), len(cfg.Networks)))
		return ""
	}

	// ---- the configuration every network's store was handed is the node's
	inner := map[string]storage.ContentStorage{}
	if p := protos["history"]; p != nil {
		inner["history"] = history.VerifEternalStore(p.VerifStorage())
	}
	if p := protos["state"]; p != nil {
		inner["state"] = state.VerifInnerStore(p.VerifStorage())
	}
	for _, nw := range []string{"history", "state"} {
		if inner[nw] == nil {
			continue
		}
		if got := sp.VerifNodeId(inner[nw]); got != self {
			viol("wired-store-measures-distance-from-the-nodes-id", c05wInitSite(nw), fmt.Sprintf("node %s: the %s store was configured with node id %s", hx(self[:8]), nw, hx(got[:8])))
		}
		if got := sp.VerifCapacity(inner[nw]); got != capB {
			viol("wired-store-has-the-nodes-capacity", c05wInitSite(nw), fmt.Sprintf("data capacity %d MB: the %s store was configured with a capacity of %d bytes", c.CapMB, nw, got))
		}
	}
	if p := protos["beacon"]; p != nil && beacon.VerifCapacity(p.VerifStorage()) != capB {
		got := beacon.VerifCapacity(p.VerifStorage())
		viol("wired-store-has-the-nodes-capacity", c05wInitSite("beacon"), fmt.Sprintf("data capacity %d MB: the beacon store was configured with a capacity of %d bytes", c.CapMB, got))
	}
	for _, nw := range []string{"history", "beacon", "state"} {
		if p := protos[nw]; p != nil && p.Self().ID() != self {
			viol("wired-store-measures-distance-from-the-nodes-id", c05wInitSite(nw)+":protocol", fmt.Sprintf("the %s protocol instance has id %s, the node %s", nw, hx(p.Self().ID().Bytes()[:8]), hx(self[:8])))
		}
	}

	// ---- fill the store of c.Network past the capacity through the node
	proto := protos[c.Network]
	db := sp.VerifDB(inner[c.Network])
	var client *rpc.Client
	if c.Path == "rpc" {
		client = rpc.DialInProc(node.VerifRPC())
		defer client.Close()
	}
	perItem := uint64(32 + c.Value + 8)
	if perItem > capB/20 {
		r.EngineError("case with items above 5% of the capacity")
		return ""
	}
	nPuts := int(capB/uint64(32+c.Value)) + 1 + c.Extra
	if c.Path == "storage" && nPuts > 256 {
		nPuts = 256 // one distance per value of the distinguishing byte
	}
	site := "ContentStorage.prune (wired by " + c05wInitSite(c.Network) + ")"
	putSite := "ContentStorage.Put (wired by " + c05wInitSite(c.Network) + ")"

	var items []c05wItem
	present := map[int]bool{}
	passes, refused, ambiguous := 0, 0, 0
	maxHeld := uint64(0)
	var firstPass string
	for i := 0; i < nPuts; i++ {
		it := c05wMakeItem(c, self, i, proto.ToContentId)
		items = append(items, it)
		B, _ := c05wScanHeld(db)

		// the put
		accepted := false // known to have been taken by the store
		known := false    // whether acceptance is known at all
		switch c.Path {
		case "storage":
			err := proto.Put(it.key, it.id, it.content)
			switch {
			case err == nil:
				// the state store reports nothing about what its inner store answered
				accepted, known = c.Network != "state", c.Network != "state"
			case errors.Is(err, storage.ErrInsufficientRadius):
				known = true
			default:
				viol("put-no-internal-error", putSite, fmt.Sprintf("put #%d (distance %s) returned %v", i, hx(it.dist[:4]), err))
				return ""
			}
		case "rpc":
			var ok bool
			err := client.Call(&ok, "portal_"+c.Network+"Store", hexutil.Encode(it.key), hexutil.Encode(it.content))
			if err != nil && !strings.Contains(err.Error(), storage.ErrInsufficientRadius.Error()) {
				viol("put-no-internal-error", putSite, fmt.Sprintf("portal_%sStore #%d returned %v", c.Network, i, err))
				return ""
			}
			// ok=false: outside the advertised radius, nothing was put; ok=true on the state network
			// still says nothing about the inner store
			if !ok || err != nil {
				known = true
			} else if c.Network != "state" {
				accepted, known = true, true
			}
		}

		// observe: what is readable through the protocol, what the database holds
		A, nItems := c05wScanHeld(db)
		if A > maxHeld {
			maxHeld = A
		}
		now := map[int]bool{}
		newLen := 32 + len(it.content) // bytes the store holds for the new item (read back when possible)
		for k, o := range items {
			v, err := proto.Get(o.key, o.id)
			if err == nil {
				now[k] = true
				if k == i {
					newLen = 32 + len(v)
				}
			} else if !isNotFound(err) {
				viol("put-no-internal-error", putSite, fmt.Sprintf("after put #%d reading item #%d back returned %v", i, k, err))
				return ""
			}
		}
		if !known {
			if now[i] {
				accepted = true
			} else {
				ambiguous++ // refused or pruned at once: cannot tell, so it is in neither set below
			}
		}
		if !accepted && !now[i] && known {
			refused++
		}

		// capacity clauses, against the node's configured capacity
		if A > capB {
			viol("held-within-capacity", putSite, fmt.Sprintf("node capacity %d bytes: after put #%d the %s store holds %d bytes in %d items (largest item %d bytes)", capB, i, c.Network, A, nItems, perItem))
		}
		if accepted || now[i] {
			would := B + uint64(newLen)
			if would > capB {
				freed := int64(would) - int64(A)
				if freed < int64(capB/20) && A != 0 {
					viol("over-capacity-put-frees-5-percent", putSite, fmt.Sprintf("node capacity %d bytes: put #%d would leave %d bytes but the call freed only %d and %d remain", capB, i, would, freed, A))
				}
			}
		}

		// farthest-first, measured from the node's id: every item dropped by this put is at least as
		// far as every item kept
		var minDropped, maxKept []byte
		var minDroppedIdx, maxKeptIdx int
		dropped := 0
		for k, o := range items {
			was := present[k] || (k == i && accepted)
			switch {
			case was && !now[k]:
				dropped++
				if minDropped == nil || bytes.Compare(o.dist, minDropped) < 0 {
					minDropped, minDroppedIdx = o.dist, k
				}
			case now[k]:
				if maxKept == nil || bytes.Compare(o.dist, maxKept) > 0 {
					maxKept, maxKeptIdx = o.dist, k
				}
			}
			if !was && now[k] && k != i {
				r.Count("model_drift", 1) // gone before this put, readable after it: not something the statement speaks about
			}
		}
		if dropped > 0 {
			passes++
			if firstPass == "" {
				firstPass = fmt.Sprintf("put#%d dropped=%d kept=%d", i, dropped, len(now))
			}
			if maxKept != nil && bytes.Compare(minDropped, maxKept) < 0 {
				viol("prune-drops-farthest-first", site, fmt.Sprintf("node %s: put #%d dropped item #%d at distance %s from the node id but kept item #%d at the greater distance %s (content ids %s / %s)",
					hx(self[:8]), i, minDroppedIdx, hx(minDropped[:8]), maxKeptIdx, hx(maxKept[:8]), hx(items[minDroppedIdx].id[:8]), hx(items[maxKeptIdx].id[:8])))
			}
		}
		present = now
	}
	if passes == 0 && !violated {
		r.EngineError("case " + c.String() + " never pruned: the fill does not reach the code of interest")
	}
	r.Count("wiring_puts", int64(nPuts))
	r.Count("wiring_pruning_passes_observed", int64(passes))
	r.Count("wiring_puts_refused_by_radius", int64(refused))
	r.Count("wiring_puts_state_store_silent", int64(ambiguous))
	r.Max("max_wiring_bytes_held", int64(maxHeld))
	closeNode()
	return fmt.Sprintf("%s|first-pass:%s|passes=%d|refused=%d|kept=%d", c.String(), firstPass, passes, refused, len(present))
}

func runC05w(r *mc.Report, e *Env, shard int) {
	cases := c05wCases(e.Thorough())
	ids := map[string]bool{}
	n := 0
	for i, c := range cases {
		ids[hx(enode.PubkeyToIDV4(&detKey(c.Key).PublicKey).Bytes()[:4])] = true
		if i%c05wTasks(e.Thorough()) != shard {
			continue
		}
		if e.Expired() {
			r.NotExhaustive("internal deadline reached during the wiring cases")
			break
		}
		if d := c05wRun(r, c); d != "" {
			r.Exec("wiring|" + d)
		}
		n++
	}
	r.Count("wiring_cases", int64(n))
	if shard == 0 {
		var l []string
		for s := range ids {
			l = append(l, s)
		}
		r.Set("wiring_node_id_prefixes", sortedStrings(l))
		r.Set("wiring_cases_total", len(cases))
		r.Sample(cases[0])
		r.Sample(cases[len(cases)-1])
		r.Assume("wiring part: the node is built by portal.NewNode (all three networks, or the one under test alone; never started) on a real temporary data directory and a loopback UDP socket, outside a bubble; node ids are those of a fixed list of private keys; data capacity 1 MB and 2 MB; one fill per case up to capacity plus 8 puts, each id put once, equal-sized items below 5% of the capacity; the state network's store is filled with contract bytecode items only; the beacon store (no distance, no pruning pass) is only checked for the capacity it was configured with")
	}
}

func sortedStrings(l []string) []string {
	for i := 1; i < len(l); i++ {
		for j := i; j > 0 && l[j] < l[j-1]; j-- {
			l[j], l[j-1] = l[j-1], l[j]
		}
	}
	return l
}

func replayC05w(r *mc.Report, e *Env, raw json.RawMessage) bool {
	var c c05wCase
	if err := json.Unmarshal(raw, &c); err != nil || c.Kind != "wiring" {
		return false
	}
	fmt.Println("replaying wiring case", c.String(), "->", c05wRun(r, c))
	return true
}
