package main

import (
	"bytes"
	"context"
	"encoding/binary"
	"fmt"
	"sync/atomic"
	"testing/synctest"
	"time"

	"github.com/OffchainLabs/go-bitfield"
	"github.com/ethereum/go-ethereum/p2p/enode"
	"github.com/zen-eth/shisui/portalwire"
	"verifharness/mc"
)

// C16, several offers at once (E4). Three scripted peers offer fresh keys to one real node
// with slot limit L at the same moment; each accepted peer then behaves as its entry of
// Peers says. Two virtual seconds later — every transfer whose peer stalls or never dials
// is then certainly still in progress — a fourth peer offers. Clauses: never more accepting
// replies than L while none of the transfers can have ended; the fourth offer is not
// accepted while L transfers are in progress; after activity has ceased all L slots are
// free, shown both by the controller's count and by L further offers all being accepted.

var c16MultiBehaviours = []string{"never-dials", "success", "dial-then-stall", "dial-then-close"}

func c16MultiCases(thorough bool) []c16Case {
	var cs []c16Case
	beh := c16MultiBehaviours[:3]
	limits := []int{1, 2}
	if thorough {
		beh, limits = c16MultiBehaviours, []int{1, 2, 3}
	}
	for _, a := range beh {
		for _, b := range beh {
			for _, c := range beh {
				for _, lim := range limits {
					for ver := 0; ver <= 1; ver++ {
						cs = append(cs, c16Case{Dir: "in-multi", Peers: []string{a, b, c}, Ver: ver, Limit: lim, StopAt: -1})
					}
				}
			}
		}
	}
	return cs
}

// acceptsAny decodes an ACCEPT reply of the given version: the connection id and whether any key was accepted.
func acceptsAny(ver int, resp []byte) (connId uint16, any bool, ok bool) {
	if len(resp) < 3 || resp[0] != portalwire.ACCEPT {
		return 0, false, false
	}
	connId = binary.BigEndian.Uint16(resp[1:3])
	if ver == 0 {
		a := &portalwire.Accept{}
		if a.UnmarshalSSZ(resp[1:]) != nil {
			return 0, false, false
		}
		bl := bitfield.Bitlist(a.ContentKeys)
		for i := uint64(0); i < bl.Len(); i++ {
			any = any || bl.BitAt(i)
		}
		return connId, any, true
	}
	a := &portalwire.AcceptV1{}
	if a.UnmarshalSSZ(resp[1:]) != nil {
		return 0, false, false
	}
	for _, code := range a.ContentKeys {
		any = any || code == uint8(portalwire.Accepted)
	}
	return connId, any, true
}

func c16InboundMulti(r *mc.Report, c c16Case, w *mwire, nodeP **mnode, peers *[]*mnode, decide func(int, mdgram) pumpAction, viol func(string, string, string)) string {
	node := newMNode(w, mnodeOpts{keyIdx: 21, versions: []uint8{0, 1}, utpLimit: c.Limit})
	*nodeP = node
	var ps []*mnode
	for i := 0; i < 4; i++ {
		p := newMNode(w, mnodeOpts{keyIdx: 22 + i, versions: []uint8{uint8(c.Ver)}, puppet: func(enode.ID, []byte) []byte { return nil }})
		ps = append(ps, p)
	}
	*peers = ps
	site := fmt.Sprintf("inbound-multi:%v", c.Peers)
	round := 0
	// offer sends one OFFER of two fresh keys from peer p and reports the verdict
	type verdict struct {
		connId   uint16
		accepted bool
		replied  bool
		vals     [][]byte
	}
	offer := func(p *mnode, tag string) verdict {
		var keys, vals [][]byte
		for i := 0; i < 2; i++ {
			keys = append(keys, []byte(fmt.Sprintf("c16m-%s-%d", tag, i)))
			vals = append(vals, bytes.Repeat([]byte{byte(len(tag) + i + 1)}, 2000))
		}
		msg, _ := (&portalwire.Offer{ContentKeys: keys}).MarshalSSZ()
		resp, err := p.D5.TalkRequest(node.Self(), string(portalwire.History), append([]byte{portalwire.OFFER}, msg...))
		if err != nil {
			return verdict{}
		}
		id, any, ok := acceptsAny(c.Ver, resp)
		return verdict{id, any && ok, ok, vals}
	}
	act := func(p *mnode, v verdict, how string) {
		if !v.accepted || how == "never-dials" {
			return
		}
		ctx, cancel := context.WithTimeout(p.ctx, 20*time.Second)
		defer cancel()
		stream, err := p.Utp.DialWithCid(ctx, node.Self(), v.connId)
		if err != nil {
			return
		}
		switch how {
		case "dial-then-stall":
			<-p.ctx.Done()
		case "dial-then-close":
			stream.Close()
		default:
			wctx, wcancel := context.WithTimeout(p.ctx, 60*time.Second)
			defer wcancel()
			stream.Write(wctx, portalwire.VerifEncodeContents(v.vals))
			stream.Close()
		}
	}
	// concurrent offers from the given peers; returns once every one has its reply
	offerAll := func(from []*mnode) []verdict {
		round++
		vs := make([]verdict, len(from))
		var pending atomic.Int32
		pending.Store(int32(len(from)))
		for i, p := range from {
			i, p := i, p
			go func() {
				vs[i] = offer(p, fmt.Sprintf("r%d-p%d", round, i))
				pending.Add(-1)
			}()
			synctest.Wait() // its first datagram is queued before the next peer starts: one fixed order
		}
		w.pump(func() bool { return pending.Load() == 0 }, 30*time.Second, decide)
		return vs
	}
	if f, _ := node.P.VerifPermits(); f != c.Limit {
		viol("all-slots-free-initially", "utpController", fmt.Sprintf("limit %d but %d inbound slots free", c.Limit, f))
	}
	t0 := time.Now()
	first := offerAll(ps[:3])
	acc, holding := 0, 0
	who := ""
	for i, v := range first {
		if v.accepted {
			acc++
			who += fmt.Sprint(i + 1)
			if c.Peers[i] == "never-dials" || c.Peers[i] == "dial-then-stall" {
				holding++
			}
		}
	}
	if acc > c.Limit {
		viol("never-more-than-the-limit-in-progress", "inbound-multi:simultaneous-offers", fmt.Sprintf("limit %d: %d of 3 simultaneous offers were accepted before any transfer had started", c.Limit, acc))
	}
	for i, v := range first {
		go act(ps[i], v, c.Peers[i])
	}
	w.pump(func() bool { return time.Since(t0) > 2*time.Second }, 10*time.Second, decide)
	// a stalling or never-dialling accepted peer keeps its transfer in progress for at least 15 s
	late := offerAll(ps[3:4])[0]
	if late.accepted && holding >= c.Limit {
		viol("never-more-than-the-limit-in-progress", "inbound-multi:offer-during-transfers", fmt.Sprintf("limit %d: %d accepted transfers are still in progress (their peers stall or have not dialled, 2 virtual seconds in) and a further offer was accepted", c.Limit, holding))
	}
	go act(ps[3], late, "success")
	w.pump(func() bool { return false }, 5*time.Minute, decide)
	free, _ := node.P.VerifPermits()
	if free != c.Limit {
		viol("all-slots-available-after-activity-ceased", site, fmt.Sprintf("limit %d, %d inbound slots free 5 virtual minutes after the last event", c.Limit, free))
	}
	// drain what was delivered, then: L further simultaneous offers are all accepted
	delivered := 0
	for len(node.Q) > 0 {
		<-node.Q
		delivered++
	}
	again := offerAll(ps[:c.Limit])
	acc2 := 0
	for _, v := range again {
		if v.accepted {
			acc2++
		}
	}
	if acc2 != c.Limit && free == c.Limit {
		viol("all-slots-available-after-activity-ceased", "inbound-multi:further-offers", fmt.Sprintf("limit %d and the controller reports %d free slots, but only %d of %d further simultaneous offers of fresh keys were accepted", c.Limit, free, acc2, c.Limit))
	}
	for i, v := range again {
		go act(ps[i], v, "success")
	}
	w.pump(func() bool { return false }, 3*time.Minute, decide)
	if f, _ := node.P.VerifPermits(); f != c.Limit {
		viol("all-slots-available-after-activity-ceased", site+":second-round", fmt.Sprintf("limit %d, %d inbound slots free after the second round", c.Limit, f))
	}
	return fmt.Sprintf("accepted=%d(%s) late=%v free=%d/%d delivered=%d again=%d", acc, who, late.accepted, free, c.Limit, delivered, acc2)
}

// ---- outbound: gossip rounds while earlier transfers are still in progress ----
//
// A real node with outbound limit L knows three scripted peers (table entries with a known
// radius). Each peer either declines every offer or accepts and then never waits for the
// dial, which keeps that transfer in progress until the dial times out. Three gossip
// rounds of fresh content: at once, two virtual seconds later (held transfers still in
// progress), and after everything has timed out. Counted at the peers: the OFFERs that
// really arrive. Clauses: a round never starts more transfers than there are slots not
// held by transfers still in progress; after activity has ceased a round again starts
// min(L, 3) transfers and the controller reports L free slots.

func c16OutMultiCases(thorough bool) []c16Case {
	var cs []c16Case
	beh := []string{"accept-never-waits", "declined"}
	for _, a := range beh {
		for _, b := range beh {
			for _, c := range beh {
				for _, lim := range []int{1, 2} {
					for ver := 0; ver <= 1; ver++ {
						if !thorough && ver == 0 && lim == 1 {
							continue
						}
						cs = append(cs, c16Case{Dir: "out-multi", Peers: []string{a, b, c}, Ver: ver, Limit: lim, StopAt: -1})
					}
				}
			}
		}
	}
	return cs
}

func c16OutboundMulti(r *mc.Report, c c16Case, w *mwire, nodeP **mnode, peers *[]*mnode, decide func(int, mdgram) pumpAction, viol func(string, string, string)) string {
	node := newMNode(w, mnodeOpts{keyIdx: 11, versions: []uint8{0, 1}, utpLimit: c.Limit})
	*nodeP = node
	var offers [3]atomic.Int32
	var ps []*mnode
	for i := 0; i < 3; i++ {
		i := i
		p := newMNode(w, mnodeOpts{keyIdx: 12 + i, versions: []uint8{uint8(c.Ver)}, puppet: func(from enode.ID, msg []byte) []byte {
			if len(msg) == 0 || msg[0] != portalwire.OFFER {
				return nil
			}
			offers[i].Add(1)
			o := &portalwire.Offer{}
			if o.UnmarshalSSZ(msg[1:]) != nil {
				return nil
			}
			if c.Peers[i] == "declined" {
				return c16Accept(c.Ver, len(o.ContentKeys), nil, 0)
			}
			return c16Accept(c.Ver, len(o.ContentKeys), []int{0}, uint16(0x2000+i))
		}})
		ps = append(ps, p)
		node.P.AddEnr(p.Self()) // table entry with a radius that covers everything
	}
	*peers = ps
	total := func() (n int) {
		for i := range offers {
			n += int(offers[i].Load())
		}
		return
	}
	holdingOf := func(before [3]int32) (n int) { // offers of this round that went to peers which keep the transfer open
		for i := range offers {
			if c.Peers[i] == "accept-never-waits" {
				n += int(offers[i].Load() - before[i])
			}
		}
		return
	}
	snap := func() (b [3]int32) {
		for i := range offers {
			b[i] = offers[i].Load()
		}
		return
	}
	gossip := func(tag string) {
		k, v := []byte("c16-out-multi-"+tag), bytes.Repeat([]byte{7}, 3000)
		node.P.Put(k, node.P.ToContentId(k), v)
		node.P.Gossip(nil, [][]byte{k}, [][]byte{v})
	}
	site := fmt.Sprintf("outbound-multi:%v", c.Peers)
	if _, f := node.P.VerifPermits(); f != c.Limit {
		viol("all-slots-free-initially", "utpController", fmt.Sprintf("limit %d but %d outbound slots free", c.Limit, f))
	}
	// round 1
	b0 := snap()
	t0 := time.Now()
	gossip("1")
	w.pump(func() bool { return time.Since(t0) > time.Second }, 5*time.Second, decide)
	n1, hold1 := total(), holdingOf(b0)
	if n1 > c.Limit {
		viol("never-more-than-the-limit-in-progress", "outbound-multi:one-gossip-round", fmt.Sprintf("limit %d: one gossip round sent %d offers", c.Limit, n1))
	}
	// round 2, while the transfers accepted in round 1 are still dialling
	w.pump(func() bool { return time.Since(t0) > 2*time.Second }, 5*time.Second, decide)
	b1 := snap()
	gossip("2")
	w.pump(func() bool { return time.Since(t0) > 3*time.Second }, 5*time.Second, decide)
	n2 := total() - n1
	if hold1+n2 > c.Limit {
		viol("never-more-than-the-limit-in-progress", "outbound-multi:gossip-during-transfers", fmt.Sprintf("limit %d: %d transfers accepted in the first round are still in progress (their peers never wait for the dial) and a second gossip round sent %d further offers", c.Limit, hold1, n2))
	}
	_ = b1
	// everything times out; then a third round
	w.pump(func() bool { return false }, 5*time.Minute, decide)
	_, free := node.P.VerifPermits()
	if free != c.Limit {
		viol("all-slots-available-after-activity-ceased", site, fmt.Sprintf("limit %d, %d outbound slots free 5 virtual minutes after the last event", c.Limit, free))
	}
	before3 := total()
	t3 := time.Now()
	gossip("3")
	w.pump(func() bool { return time.Since(t3) > time.Second }, 5*time.Second, decide)
	n3 := total() - before3
	if want := minInt(c.Limit, 3); free == c.Limit && n3 != want {
		viol("all-slots-available-after-activity-ceased", "outbound-multi:further-gossip", fmt.Sprintf("limit %d and the controller reports %d free slots, but a gossip round to 3 covered peers sent %d offers (want %d)", c.Limit, free, n3, want))
	}
	w.pump(func() bool { return false }, 5*time.Minute, decide)
	if _, f := node.P.VerifPermits(); f != c.Limit {
		viol("all-slots-available-after-activity-ceased", site+":after-third-round", fmt.Sprintf("limit %d, %d outbound slots free at the end", c.Limit, f))
	}
	return fmt.Sprintf("round1=%d(holding %d) round2=%d free=%d/%d round3=%d", n1, hold1, n2, free, c.Limit, n3)
}

// ---- outbound: more offers queued than there are workers when the node stops ----
//
// Limit 600 (far above the 50 offer workers). 550 offers to a peer that never answers are queued,
// each with a slot from the real controller; the workers are busy with the first ones, the rest
// is still in the queue when the node is stopped. Every slot must come back: those of the queued
// offers at once, those of the offers under way when their requests time out.

func c16OutDrainCases() []c16Case {
	return []c16Case{{Dir: "out-drain", Ver: 1, Limit: 600, StopAt: -1}}
}

func c16OutboundDrain(r *mc.Report, c c16Case, w *mwire, nodeP **mnode, decide func(int, mdgram) pumpAction, viol func(string, string, string)) string {
	node := newMNode(w, mnodeOpts{keyIdx: 11, versions: []uint8{0, 1}, utpLimit: c.Limit, queueCap: 50})
	*nodeP = node
	target := signedNode(detKey(13), 1, []byte{10, 0, 0, 99}, 9099, versEntry{0, 1}) // nobody listens there
	k, v := []byte("c16-out-drain"), bytes.Repeat([]byte{3}, 100)
	node.P.Put(k, node.P.ToContentId(k), v)
	req := &portalwire.OfferRequest{Kind: portalwire.TransientOfferRequestKind, Request: &portalwire.TransientOfferRequest{Contents: []*portalwire.ContentEntry{{ContentKey: k, Content: v}}}}
	queued := 0
	for i := 0; i < 550; i++ {
		permit, ok := node.P.Utp.GetOutboundPermit()
		if !ok {
			break
		}
		if !node.P.VerifEnqueueOffer(target, req, permit) {
			permit.Release()
			break
		}
		queued++
	}
	w.pump(func() bool { return false }, 100*time.Millisecond, decide) // the workers pick up what they can
	left := node.P.VerifOfferQueueLen()
	_, freeBefore := node.P.VerifPermits()
	node.Stop()
	w.pump(func() bool { return false }, 5*time.Minute, decide)
	_, free := node.P.VerifPermits()
	if free != c.Limit {
		viol("all-slots-available-after-activity-ceased", "outbound-drain:stop-with-more-queued-offers-than-workers", fmt.Sprintf("limit %d: %d offers were queued (%d still in the queue, %d slots free) when the node stopped; 5 virtual minutes later %d slots are free", c.Limit, queued, left, freeBefore, free))
	}
	return fmt.Sprintf("queued=%d left=%d free=%d/%d", queued, left, free, c.Limit)
}
