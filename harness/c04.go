package main

import (
	"bytes"
	"crypto/sha256"
	"encoding/hex"
	"encoding/json"
	"fmt"
	"strings"
	"time"

	"github.com/ethereum/go-ethereum/p2p/enode"
	"verifharness/mc"
)

// C04 — stored content is returned intact and nothing else is.
//
// (a) explicit-state BFS over {put, get, reopen, flush, compact, churn} on a pool of
//     colliding ids against a reference map, from several real start states;
// (b) stateless enumeration of every op sequence after a Get whose returned slice is
//     retained: the bytes handed back must never change;
// (c) the node's own read path (PortalProtocol.Get, the API's LocalContent) on top of the real
//     store, compared with the database after every operation of pruning histories (c04node.go).

func init() {
	register(&Prop{ID: "C04", Level: "model_checking", Run: runC04, Replay: replayC04,
		Workers: func(e *Env) int { return c04TaskCount(e.Thorough()) }, Procs: 1, CrashIsViolation: true,
		Budget: func(t string) time.Duration {
			if t == "thorough" {
				return 25 * time.Minute
			}
			return 4 * time.Minute
		}})
}

type c04Case struct {
	Node string   `json:"node"`
	Hist []string `json:"history"`
	Kind string   `json:"kind"` // "bfs" | "live"
}

var c04Nodes = map[string]enode.ID{
	"zero":  {},
	"ones":  enode.ID(bytes.Repeat([]byte{0xff}, 32)),
	"mixed": enode.ID(bytes.Repeat([]byte{0xa5, 0x3c}, 16)),
}

func c04Ids(node enode.ID) map[string][]byte {
	a := sha256.Sum256([]byte("verif-c04-A"))
	b := sha256.Sum256([]byte("verif-c04-B"))
	a1 := a
	a1[31] ^= 1
	a2 := a
	a2[0] ^= 0x80
	n1 := node
	n1[31] ^= 1
	s3 := []byte{0x12, 0x34, 0x56}
	s32 := make([]byte, 32)
	copy(s32, s3)
	l33 := append(append([]byte{}, b[:]...), 0x77)
	return map[string][]byte{"A": a[:], "A1": a1[:], "A2": a2[:], "N1": n1[:], "S3": s3, "S32": s32, "L33": l33, "L32": b[:]}
}

var c04IdOrder = []string{"A", "A1", "A2", "N1", "S3", "S32", "L33", "L32"}

func c04Val(name string, tag byte) []byte {
	switch name {
	case "e":
		return []byte{}
	case "b1":
		return []byte{tag}
	case "b8":
		return fillBytes(8, tag)
	case "b100":
		return fillBytes(100, tag)
	case "k3":
		return fillBytes(3000, tag)
	case "big":
		return fillBytes(300_000, tag)
	case "over": // larger than the whole capacity: the put prunes everything, itself included
		return fillBytes(1_000_001, tag)
	}
	panic("value " + name)
}

func fillerId(node enode.ID, i int) []byte {
	h := sha256.Sum256([]byte(fmt.Sprintf("verif-filler-%d", i)))
	return h[:]
}

// c04Run replays hist on a fresh store and evaluates the oracle on the last event.
// hist[0] is the start state name.
type c04Exec struct {
	r     *mc.Report
	node  string
	env   *storeEnv
	ids   map[string][]byte
	model map[string][]byte // hex(distance key) -> value
	tagNo int
	live  []liveSlice
	kind  string
	hist  []string
	// reopenMayPrune: the usage figure persisted before the reopen being executed exceeded the capacity
	reopenMayPrune bool
}

type liveSlice struct {
	got  []byte
	snap []byte
	what string
}

func (x *c04Exec) viol(clause, site, detail string) {
	x.r.Violation(clause, site, detail, c04Case{Node: x.node, Hist: x.hist, Kind: x.kind})
}

func (x *c04Exec) key(id []byte) string { return hex.EncodeToString(distKey(x.env.node, id)) }

// step applies one event; check=true evaluates the oracle around it.
func (x *c04Exec) step(ev string, check bool) bool {
	parts := strings.Split(ev, ":")
	switch parts[0] {
	case "put":
		id := x.ids[parts[1]]
		x.tagNo++
		val := c04Val(parts[2], byte(0x40+x.tagNo))
		if !x.put(id, val, check, ev) {
			return false
		}
	case "get":
		id := x.ids[parts[1]]
		got, err := x.env.cs.Get(nil, id)
		want, ok := x.model[x.key(id)]
		if err == nil {
			x.live = append(x.live, liveSlice{got, append([]byte{}, got...), ev})
		}
		if check {
			switch {
			case err != nil && !isNotFound(err):
				x.viol("get-returns", "ContentStorage.Get", fmt.Sprintf("%s: unexpected error %v", ev, err))
				return false
			case err == nil && !ok:
				x.viol("get-never-returns-foreign-bytes", "ContentStorage.Get", fmt.Sprintf("%s returned %d bytes, nothing was put under that id", ev, len(got)))
				return false
			case err == nil && !bytes.Equal(got, want):
				x.viol("get-returns-what-was-put", "ContentStorage.Get", fmt.Sprintf("%s returned %s, last put was %s", ev, hx(got), hx(want)))
				return false
			case err != nil && ok:
				// allowed only if the item was pruned: handled by reconcile (never after a get)
				x.viol("get-returns-what-was-put", "ContentStorage.Get", fmt.Sprintf("%s: not found, but an accepted put was never pruned", ev))
				return false
			}
		}
	case "reopen":
		// opening prunes only a store whose persisted usage figure exceeds the capacity (C17)
		_, rec, _ := x.env.scan()
		x.reopenMayPrune = rec > x.env.capMB*1_000_000
		if err := x.env.reopen(); err != nil {
			x.viol("reopen-succeeds", "NewStorage", err.Error())
			return false
		}
	case "flush":
		x.env.db.Flush()
	case "compact":
		x.env.db.Compact([]byte{0}, bytes.Repeat([]byte{0xff}, 33), true)
	case "churn":
		for i := 0; i < 100; i++ {
			x.tagNo++
			if !x.put(fillerId(x.env.node, i), fillBytes(3000, byte(x.tagNo)), false, ev) {
				return false
			}
			if i%20 == 19 {
				x.env.db.Flush()
			}
		}
		if check {
			return x.reconcile(ev, true)
		}
	default:
		panic("event " + ev)
	}
	if check {
		// opening a store whose usage figure exceeds the capacity prunes it (C17), so a
		// reopen may remove items just like a put
		return x.reconcile(ev, parts[0] == "put" || parts[0] == "reopen" && x.reopenMayPrune) && x.checkLive(ev)
	}
	return x.quietReconcile(parts[0] == "put" || parts[0] == "churn" || parts[0] == "reopen")
}

func (x *c04Exec) put(id, val []byte, check bool, ev string) bool {
	var before []kv
	var recBefore, memBefore uint64
	if check {
		before, recBefore, _ = x.env.scan()
		memBefore = c04MemSize(x.env)
	}
	err := x.env.cs.Put(nil, id, val)
	quiesce()
	if err != nil {
		if check {
			after, recAfter, _ := x.env.scan()
			if !sameKVs(before, after) || recBefore != recAfter || memBefore != c04MemSize(x.env) {
				x.viol("refused-put-changes-nothing", "ContentStorage.Put", fmt.Sprintf("%s was refused (%v) but the store changed: items %d->%d, record %d->%d", ev, err, len(before), len(after), recBefore, recAfter))
				return false
			}
		}
		return true
	}
	x.model[x.key(id)] = append([]byte{}, val...)
	return true
}

// quietReconcile drops from the model what a prune removed (prefix steps).
func (x *c04Exec) quietReconcile(afterPut bool) bool {
	if !afterPut {
		return true
	}
	items, _, _ := x.env.scan()
	present := map[string]bool{}
	for _, it := range items {
		present[hex.EncodeToString(it.K)] = true
	}
	for k := range x.model {
		if !present[k] {
			delete(x.model, k)
		}
	}
	return true
}

// reconcile compares the whole store with the model after the checked event.
func (x *c04Exec) reconcile(ev string, mayPrune bool) bool {
	items, _, _ := x.env.scan()
	present := map[string][]byte{}
	for _, it := range items {
		present[hex.EncodeToString(it.K)] = it.V
	}
	for k, v := range present {
		want, ok := x.model[k]
		if !ok {
			x.viol("get-never-returns-foreign-bytes", "ContentStorage", fmt.Sprintf("after %s the store holds an item at distance %s that was never put (or was refused)", ev, k[:16]))
			return false
		}
		if !bytes.Equal(v, want) {
			x.viol("get-returns-what-was-put", "ContentStorage", fmt.Sprintf("after %s the item at distance %s is %s, last accepted put was %s", ev, k[:16], hx(v), hx(want)))
			return false
		}
	}
	for k := range x.model {
		if _, ok := present[k]; !ok {
			if !mayPrune {
				x.viol("item-kept-until-pruned", "ContentStorage", fmt.Sprintf("after %s (not a put) the item at distance %s is gone", ev, k[:16]))
				return false
			}
			delete(x.model, k) // pruned: which items may be pruned is C05's question
		}
	}
	// and through the API: every pool id reads back as the model says
	for _, name := range c04IdOrder {
		id := x.ids[name]
		got, err := x.env.cs.Get(nil, id)
		want, ok := x.model[x.key(id)]
		if ok && (err != nil || !bytes.Equal(got, want)) {
			x.viol("get-returns-what-was-put", "ContentStorage.Get", fmt.Sprintf("after %s get(%s): err=%v got %s want %s", ev, name, err, hx(got), hx(want)))
			return false
		}
		if !ok && err == nil {
			x.viol("get-never-returns-foreign-bytes", "ContentStorage.Get", fmt.Sprintf("after %s get(%s) returned %d bytes, model has nothing", ev, name, len(got)))
			return false
		}
	}
	return true
}

func (x *c04Exec) checkLive(ev string) bool {
	for _, l := range x.live {
		if !bytes.Equal(l.got, l.snap) {
			x.viol("returned-bytes-stay-unchanged", "ContentStorage.Get", fmt.Sprintf("the slice returned by %s read %s when returned and reads %s after %s", l.what, hx(l.snap), hx(l.got), ev))
			return false
		}
	}
	return true
}

func sameKVs(a, b []kv) bool {
	if len(a) != len(b) {
		return false
	}
	for i := range a {
		if !bytes.Equal(a[i].K, b[i].K) || !bytes.Equal(a[i].V, b[i].V) {
			return false
		}
	}
	return true
}

func (x *c04Exec) canon() string {
	h := sha256.New()
	for _, k := range sortedKeys(x.model) {
		v := x.model[k]
		vh := sha256.Sum256(v)
		fmt.Fprintf(h, "%s=%d:%x;", k, len(v), vh[:8])
	}
	_, rec, _ := x.env.scan()
	fmt.Fprintf(h, "rec=%d mem=%d radius=%s", rec, c04MemSize(x.env), x.env.cs.Radius().Hex())
	return hex.EncodeToString(h.Sum(nil)[:16])
}

// start states, built by real operations
func (x *c04Exec) start(name string) bool {
	switch name {
	case "empty":
	case "populated-reopened":
		for i, n := range []string{"A", "A1", "S3", "L33", "N1"} {
			x.step(fmt.Sprintf("put:%s:%s", n, []string{"b100", "e", "b8", "b1", "b100"}[i]), false)
		}
		x.step("reopen", false)
	case "after-prune":
		for i := 0; i < 3; i++ {
			x.tagNo++
			x.put(fillerId(x.env.node, 200+i), fillBytes(310_000, byte(x.tagNo)), false, "start")
		}
		x.step("put:A:b100", false)
		x.step("put:A1:b8", false)
		x.tagNo++
		x.put(fillerId(x.env.node, 210), fillBytes(100_000, byte(x.tagNo)), false, "start") // crosses 1 MB: prune
		x.quietReconcile(true)
	default:
		panic("start " + name)
	}
	return true
}

func c04Exec1(r *mc.Report, node string, hist []string, kind string) (canon string, expand bool) {
	msg := inBubble(func() {
		env, err := newStoreEnv(c04Nodes[node], 1, true)
		if err != nil {
			r.EngineError("open: " + err.Error())
			return
		}
		defer env.close()
		x := &c04Exec{r: r, node: node, env: env, ids: c04Ids(c04Nodes[node]), model: map[string][]byte{}, kind: kind, hist: hist}
		x.start(hist[0])
		for i, ev := range hist[1:] {
			last := i == len(hist)-2
			if !x.step(ev, last || kind == "live") {
				return
			}
		}
		canon, expand = x.canon(), true
	})
	if msg != "" {
		r.Violation("no-panic", "ContentStorage", "panic: "+msg, c04Case{Node: node, Hist: hist, Kind: kind})
		return "", false
	}
	return
}

func c04Events() []string {
	var evs []string
	for _, id := range c04IdOrder {
		for _, v := range []string{"e", "b1", "b8", "b100"} {
			evs = append(evs, "put:"+id+":"+v)
		}
	}
	evs = append(evs, "put:A:big", "put:N1:big", "put:A2:over")
	for _, id := range c04IdOrder {
		evs = append(evs, "get:"+id)
	}
	return append(evs, "reopen", "flush", "compact", "churn")
}

func runC04(r *mc.Report, e *Env) {
	base := c04TaskCount(e.Thorough()) - c04ConcTasks()
	for t := 0; t < c04ConcTasks(); t++ {
		if e.Of <= 1 || e.Shard == base+t {
			runC04Conc(r, e, t)
		}
	}
	if freeRuns > 0 { // race-detector pass: only the concurrent scenarios
		return
	}
	if e.Of > 1 && e.Shard >= base {
		return
	}
	r.Rule = "BFS: every transition is one real operation on a fresh pebble-backed store reached by replaying its history, compared with a reference map; live-slice family: every op sequence of length <= d after a Get whose slice is retained; non-trivial = all; distinct = distinct canonical store states / observation digests"
	r.Assume("pebble is opened with a 64 kB memtable and a 64 kB block cache so that buffers are recycled within short histories; capacity 1 MB")
	r.Assume("ids of other lengths than 32 are identified with their zero-padded / truncated 32-byte form (as the statement allows)")
	depth := map[string]int{"empty": 2, "populated-reopened": 2, "after-prune": 2}
	nodes := []string{"zero", "ones", "mixed"}
	if e.Thorough() {
		depth = map[string]int{"empty": 3, "populated-reopened": 3, "after-prune": 3}
	}
	evs := c04Events()
	unit := 0
	for _, node := range nodes {
		for _, start := range []string{"empty", "populated-reopened", "after-prune"} {
			// one short-lived worker process per task (prune() leaks a pebble iterator per call):
			// a depth-2 unit is one task, a depth-3 unit one task per first event
			prefixes := [][]string{nil}
			if depth[start] >= 3 {
				prefixes = nil
				for _, ev := range evs {
					prefixes = append(prefixes, []string{ev})
				}
			}
			for _, prefix := range prefixes {
				unit++
				if e.Of > 1 && e.Shard != unit-1 {
					continue
				}
				b := &mc.BFS{Starts: [][]string{append([]string{start}, prefix...)}, MaxDepth: depth[start] - len(prefix), Par: 1, Deadline: e.Deadline,
					Events: func([]string) []string { return evs },
					Exec: func(h []string) (string, bool) {
						if !e.Mark(func() string { b, _ := json.Marshal(c04Case{Node: node, Hist: h, Kind: "bfs"}); return string(b) }) {
							return "", false
						}
						return c04Exec1(r, node, h, "bfs")
					}}
				b.Run()
				b.Transitions += int64(len(prefix))
				r.States += b.States
				r.Transitions += b.Transitions
				r.Depth(b.Depth + len(prefix))
				r.Evaluations += b.Transitions
				for s := range b.Seen {
					r.Digests[node+start+s] = struct{}{}
				}
				if !b.Complete {
					r.NotExhaustive("internal deadline reached during BFS")
				}
				r.Count(fmt.Sprintf("transitions_%s_%s_depth%d", node, start, depth[start]), b.Transitions)
			}
		}
	}
	if e.Shard == 0 {
		r.Sample(c04Case{Node: "mixed", Hist: []string{"after-prune", "put:S3:b8", "get:S32", "reopen"}, Kind: "bfs"})
		r.Sample(c04Case{Node: "zero", Hist: []string{"empty", "put:A:k3", "flush", "get:A", "churn", "get:A1"}, Kind: "live"})
	}

	// (b) live slices
	suffix := []string{"flush", "compact", "churn", "reopen", "put:L32:b100", "put:A:k3", "put:A:b8", "get:A", "get:A1"}
	d := 2
	if e.Thorough() {
		d = 3
	}
	n := 0
	for _, node := range []string{"zero", "mixed"} {
		for _, val := range []string{"k3", "b100", "b8"} {
			for _, pre := range [][]string{{"put:A:" + val, "get:A"}, {"put:A:" + val, "flush", "get:A"}, {"put:A:" + val, "churn", "get:A"}} {
				unit++
				if e.Of > 1 && e.Shard != unit-1 {
					continue
				}
				var rec func(h []string, left int)
				rec = func(h []string, left int) {
					if e.Expired() {
						return
					}
					if len(h) > len(pre)+1 && e.Mark(func() string { b, _ := json.Marshal(c04Case{Node: node, Hist: h, Kind: "live"}); return string(b) }) {
						c04Exec1(r, node, h, "live")
						r.Exec("live:" + strings.Join(h, ","))
						n++
					}
					if left == 0 {
						return
					}
					for _, ev := range suffix {
						rec(append(append([]string{}, h...), ev), left-1)
					}
				}
				rec(append([]string{"empty"}, pre...), d)
			}
		}
	}
	r.Count("live_slice_sequences", int64(n))

	// (c) the node's own read path on top of the store (c04node.go)
	for _, t := range c04NodeTaskList(e.Thorough()) {
		unit++
		if e.Of > 1 && e.Shard != unit-1 {
			continue
		}
		runC04Node(r, e, t)
	}
}

func c04TaskCount(thorough bool) int {
	n := 9 // BFS units at depth 2
	if thorough {
		n = 9 * len(c04Events())
	}
	return n + 18 + c04NodeTasks(thorough) + c04ConcTasks() // live-slice units, node read path units, concurrent scenarios
}

func replayC04(r *mc.Report, e *Env, raw json.RawMessage) {
	if replayC04Conc(r, raw) || replayC04Node(r, raw) {
		return
	}
	var c c04Case
	if err := json.Unmarshal(raw, &c); err != nil {
		panic(err)
	}
	c04Exec1(r, c.Node, c.Hist, c.Kind)
}
