package main

import (
	"crypto/ecdsa"
	"encoding/binary"
	"encoding/json"
	"errors"
	"fmt"
	"math/rand"
	"net"
	"slices"
	"sort"
	"strings"
	"time"

	"github.com/ethereum/go-ethereum/crypto"
	"github.com/ethereum/go-ethereum/p2p/enode"
	"github.com/ethereum/go-ethereum/p2p/enr"
	"github.com/ethereum/go-ethereum/p2p/netutil"
	"github.com/ethereum/go-ethereum/rlp"
	"github.com/zen-eth/shisui/portalwire"
	"verifharness/mc"
)

// C11 — FINDNODES replies and their acceptance obey distance, size and relay rules.
//
// Serving side: the real handleFindNodes of an unstarted node whose table is filled
// through the table's own add handler; full product of table configurations
// (local address class x bucket filling x record size x liveness x entry address class)
// x distance lists x asker addresses. The oracle reads the decoded NODES reply only.
// Asking side: the real processNodes on every list of <= 3 (thorough: 4) records over a
// 12-entry record menu plus 32-/33-record lists, x responder address class x requested
// distance list. The oracle is soundness of the five stated acceptance rules (c11_ask.go).

func init() {
	register(&Prop{ID: "C11", Level: "exploration", Run: runC11, Replay: replayC11,
		Workers: func(e *Env) int { return minInt(cpus(), 12) },
		Budget: func(t string) time.Duration {
			if t == "thorough" {
				return 20 * time.Minute
			}
			return 5 * time.Minute
		}})
}

type c11Cfg struct {
	Local string `json:"local"` // address class of the local record; "big-<class>": record padded to the 300-byte limit
	Fill  int    `json:"fill"`  // entries per bucket, all 17 buckets
	Size  string `json:"size"`  // "min" | "max" (exactly 300 bytes) | "fit" / "over" (see c11Sizes)
	Live  string `json:"live"`  // "all" | "none" | "mixed"
	Class string `json:"class"` // entry address class, or "mixed"
}

type c11Case struct {
	Side string `json:"side"` // "serve" | "ask"
	// serve
	Cfg   *c11Cfg `json:"cfg,omitempty"`
	Asker string  `json:"asker,omitempty"`
	List  string  `json:"list,omitempty"`
	Dists []uint  `json:"dists,omitempty"`
	// ask
	Sender string   `json:"sender,omitempty"`
	Req    string   `json:"req,omitempty"`
	Items  []string `json:"items,omitempty"`
}

const (
	c11LocalKey = 11
	// One discv5 packet is 1280 bytes; an ordinary message packet spends 16 (masking IV)
	// + 55 (header with source id) + 16 (GCM tag) on framing and a TALKRESP 1 (type)
	// + 3 (list header) + 9 (request id) + 3 (string header) around its payload.
	c11ReplyLimit = 1280 - (16 + 55 + 16) - (1 + 3 + 9 + 3)
)

var (
	c11Schemes = enr.SchemeMap{"v4": enode.V4ID{}, "null": enode.NullID{}}
	c11Classes = []string{"public", "lan", "loopback", "special"}
	// Record sizes of entries 0..3 of a bucket (repeating). A reply is 6 bytes plus 4 + size
	// per record: the four records of "fit" fill the packet exactly, those of "over" are
	// one byte too many in whatever order they are listed.
	c11Sizes = map[string][4]int{
		"max":  {300, 300, 300, 300},
		"fit":  {300, 300, 300, c11ReplyLimit - 6 - 3*304 - 4},
		"over": {300, 300, 300, c11ReplyLimit - 6 - 3*304 - 4 + 1},
	}
	// log distances of the 16 entries of the catch-all bucket
	c11CatchAll = [16]int{240, 240, 239, 239, 238, 200, 129, 128, 65, 64, 33, 17, 9, 8, 7, 6}
)

// c11IP is address number idx of a class. Public addresses sit in distinct /24
// networks (the table admits two per bucket and ten in total from one /24).
func c11IP(class string, idx int) net.IP {
	hi, lo := byte(idx>>8), byte(idx)
	switch class {
	case "public":
		return net.IP{44, hi, lo, 1}
	case "lan":
		return net.IP{10, hi, lo, 1}
	case "loopback":
		return net.IP{127, hi, lo, 1}
	}
	return net.IP{198, 18 + hi, lo, 1} // 198.18.0.0/15 is a special-use network: never relayable
}

// c11Rec returns the RLP of a node record, v4-signed by key or (key == nil) an unsigned
// "null"-scheme record with node id `id`. size > 0 pads it to exactly that many bytes.
// It is encoded and signed by hand so that a validly signed record one byte over the
// 300-byte limit can be produced too.
func c11Rec(key *ecdsa.PrivateKey, id enode.ID, seq uint64, ip net.IP, port, size int) []byte {
	var r enr.Record
	r.SetSeq(seq)
	r.Set(enr.IP(ip))
	r.Set(enr.UDP(port))
	sig := []byte{}
	if key != nil {
		r.Set(enr.ID("v4"))
		r.Set(enode.Secp256k1(key.PublicKey))
		sig = make([]byte, 64)
	} else {
		r.Set(enr.ID("null"))
		r.Set(enr.WithEntry("nulladdr", id))
	}
	enc := func() []byte {
		b, err := rlp.EncodeToBytes(append([]interface{}{sig}, r.AppendElements(nil)...))
		if err != nil {
			panic(err)
		}
		return b
	}
	for pad := 0; size > 0 && len(enc()) != size; pad++ {
		if pad > size {
			panic("c11: record size not reachable")
		}
		r.Set(enr.WithEntry("zz", slices.Repeat([]byte{0x5a}, pad)))
	}
	if key != nil {
		content, _ := rlp.EncodeToBytes(r.AppendElements(nil))
		s, err := crypto.Sign(crypto.Keccak256(content), key)
		if err != nil {
			panic(err)
		}
		sig = s[:64]
	}
	return enc()
}

func c11Node(raw []byte) *enode.Node {
	var rec enr.Record
	if err := rlp.DecodeBytes(raw, &rec); err != nil {
		panic(err)
	}
	n, err := enode.New(c11Schemes, &rec)
	if err != nil {
		panic(err)
	}
	return n
}

// c11IDAt returns an id at log distance d from base; salt < 16 tells entries apart (d >= 6 only).
func c11IDAt(base enode.ID, d, salt int) enode.ID {
	id := base
	id[31-(d-1)/8] ^= 1 << uint((d-1)%8)
	if d >= 6 {
		id[31] ^= byte(salt)
	}
	if enode.LogDist(base, id) != d {
		panic("c11: id not at the wanted distance")
	}
	return id
}

type c11Entry struct {
	raw    []byte
	node   *enode.Node
	bucket int // index of the bucket the table put it in; -1: the local record
	live   bool
	class  string
}

// c11Serving holds what is shared by all table configurations of one process.
type c11Serving struct {
	localID enode.ID
	keys    map[int][]*ecdsa.PrivateKey // signed identities for the buckets of distances >= 253
	recs    map[string]*c11Entry
}

func newC11Serving() *c11Serving {
	s := &c11Serving{localID: enode.PubkeyToIDV4(&detKey(c11LocalKey).PublicKey), keys: map[int][]*ecdsa.PrivateKey{}, recs: map[string]*c11Entry{}}
	for i, need := 1000, 4*16; need > 0; i++ {
		k := detKey(i)
		if d := enode.LogDist(s.localID, enode.PubkeyToIDV4(&k.PublicKey)); d >= 253 && len(s.keys[d]) < 16 {
			s.keys[d] = append(s.keys[d], k)
			need--
		}
	}
	return s
}

// record returns (cached) entry e of bucket b: signed where a key at that distance is
// found quickly, an unsigned record with a chosen id elsewhere.
func (s *c11Serving) record(b, e int, size, class string) *c11Entry {
	k := fmt.Sprintf("%d/%d/%s/%s", b, e, size, class)
	if ent, ok := s.recs[k]; ok {
		return ent
	}
	d, idx, total := 240+b, b*16+e, 0
	if b == 0 {
		d = c11CatchAll[e]
	}
	if size != "min" {
		total = c11Sizes[size][e%4]
	}
	var raw []byte
	if d >= 253 {
		raw = c11Rec(s.keys[d][e], enode.ID{}, 1, c11IP(class, idx), 30000+idx, total)
	} else {
		raw = c11Rec(nil, c11IDAt(s.localID, d, e), 1, c11IP(class, idx), 30000+idx, total)
	}
	ent := &c11Entry{raw: raw, node: c11Node(raw), class: class}
	s.recs[k] = ent
	return ent
}

type c11World struct {
	bn    *bareNode
	vt    *portalwire.VTable
	stop  func()
	peer  *enode.Node // the asker's identity; never admitted to the table (inbound contacts are refused until the table loop has initialised)
	byRaw map[string]*c11Entry
	all   []*c11Entry
	local *c11Entry
	cover [257]int // distance -> index of the bucket that stores ids at that distance
}

func (s *c11Serving) build(c c11Cfg) *c11World {
	lclass := strings.TrimPrefix(c.Local, "big-")
	bn := newBareNode(bareOpts{keyIdx: c11LocalKey, ip: c11IP(lclass, 300), port: 9011})
	// the routing table is created first and the local record changes afterwards (as it does when the
	// external address is learnt, or another sub-protocol adds an entry): distance 0 must offer
	// the record as it is now
	vt := bn.initTable()
	bn.LN.Set(enr.WithEntry("c11", uint8(1)))
	if lclass != c.Local {
		s0, _ := rlp.EncodeToBytes(bn.P.Self().Record())
		bn.LN.Set(enr.WithEntry("zz", make([]byte, enr.SizeLimit-len(s0)-6))) // key 3 + value header 2 + longer list header 1
	}
	lraw, err := rlp.EncodeToBytes(bn.P.Self().Record())
	if err != nil {
		panic(err)
	}
	w := &c11World{bn: bn, byRaw: map[string]*c11Entry{}, local: &c11Entry{raw: lraw, node: bn.P.Self(), bucket: -1, live: true, class: lclass}}
	w.byRaw[string(lraw)] = w.local
	w.vt, w.stop, w.peer = vt, vt.ServeAdds(), signedNode(detKey(13), 1, net.IP{44, 0, 13, 1}, 30303)
	for b := 0; b < portalwire.VNBuckets; b++ {
		for e := 0; e < c.Fill; e++ {
			class := c.Class
			if class == "mixed" {
				class = c11Classes[(b+e)%4]
			}
			ent := *s.record(b, e, c.Size, class)
			ent.live = c.Live == "all" || c.Live == "mixed" && ((b+e)/4+e)%2 == 0
			if !vt.InsertDirect(ent.node, ent.live) {
				panic(fmt.Sprintf("c11: table refused entry %d of bucket %d", e, b))
			}
			w.byRaw[string(ent.raw)] = &ent
			w.all = append(w.all, &ent)
		}
	}
	byID := map[enode.ID]*c11Entry{}
	for _, ent := range w.all {
		byID[ent.node.ID()] = ent
	}
	placed := 0
	for _, bs := range vt.Snapshot().Buckets { // where the table really put them
		for _, n := range bs.Entries {
			if ent := byID[n.ID]; ent != nil && n.Live == ent.live {
				ent.bucket = bs.Index
				placed++
			}
		}
	}
	if placed != len(w.all) {
		panic("c11: table entry missing or with another liveness flag than requested")
	}
	for d := 1; d <= 256; d++ {
		w.cover[d] = vt.BucketIndex(c11IDAt(s.localID, d, 0))
	}
	return w
}

func (w *c11World) close() { w.stop(); w.bn.Close() }

// c11Enrs splits a NODES message by hand: the generated decoder refuses more than 32
// records, which is one of the things to be observed.
func c11Enrs(msg []byte) ([][]byte, error) {
	if len(msg) < 6 || msg[0] != portalwire.NODES || binary.LittleEndian.Uint32(msg[2:6]) != 5 {
		return nil, errors.New("not a NODES message")
	}
	b := msg[6:]
	if len(b) == 0 {
		return nil, nil
	}
	first := int(binary.LittleEndian.Uint32(b))
	if first == 0 || first%4 != 0 || first > len(b) {
		return nil, errors.New("bad first offset")
	}
	offs := make([]int, first/4+1)
	for i := range offs[:first/4] {
		offs[i] = int(binary.LittleEndian.Uint32(b[4*i:]))
	}
	offs[first/4] = len(b)
	out := make([][]byte, first/4)
	for i := range out {
		if offs[i] > offs[i+1] || offs[i+1] > len(b) {
			return nil, errors.New("bad offset")
		}
		out[i] = b[offs[i]:offs[i+1]]
	}
	return out, nil
}

func c11AskerIP(s string) net.IP {
	switch {
	case s == "nil":
		return nil
	case strings.HasPrefix(s, "4:"): // 4-byte form
		return net.ParseIP(s[2:]).To4()
	}
	return net.ParseIP(s)
}

func c11AddrClass(ip net.IP) string {
	a := netutil.IPToAddr(ip)
	switch {
	case !a.IsValid() || a.IsUnspecified() || netutil.AddrIsSpecialNetwork(a):
		return "unusable"
	case a.IsLoopback():
		return "loopback"
	case netutil.AddrIsLAN(a):
		return "lan"
	}
	return "public"
}

func c11Serve(r *mc.Report, w *c11World, c c11Case) {
	asker := c11AskerIP(c.Asker)
	req := &portalwire.FindNodes{Distances: make([][2]byte, len(c.Dists))}
	for i, d := range c.Dists {
		binary.LittleEndian.PutUint16(req.Distances[i][:], uint16(d))
	}
	from := &net.UDPAddr{IP: asker, Port: 30303}
	var reply []byte
	var herr error
	call := func() { reply, herr = w.bn.P.VerifHandleFindNodes(from, req) }
	if b, err := req.MarshalSSZ(); err == nil { // what the wire format can carry comes in through the talk handler
		call = func() {
			if reply = w.bn.P.VerifHandleTalkRequest(w.peer, from, append([]byte{portalwire.FINDNODES}, b...)); reply == nil {
				herr = errors.New("the talk handler answered nothing")
			}
		}
	}
	w.vt.SetSource(rand.NewSource(1)) // the bucket listing is shuffled: same case, same order, also on replay
	if msg, site := panicsTo(call); msg != "" {
		r.Violation("no-panic", site, "FINDNODES handler panicked: "+msg, c)
		return
	}
	if herr != nil {
		r.Count("serve_handler_errors", 1)
		r.Exec("serve:error:" + herr.Error())
		return
	}
	bad := func(clause, site, detail string) {
		r.Violation(clause, site, fmt.Sprintf("table %+v, asker %s, distances %s: %s", *c.Cfg, c.Asker, c.List, detail), c)
	}
	enrs, err := c11Enrs(reply)
	if err != nil {
		bad("reply-is-a-nodes-message", "handleFindNodes", err.Error())
		return
	}
	if len(reply) > c11ReplyLimit {
		bad("fits-one-packet", "handleFindNodes", fmt.Sprintf("reply of %d bytes, %d records; limit %d", len(reply), len(enrs), c11ReplyLimit))
	}
	if len(enrs) > portalwire.VerifFindnodesResultLimit {
		bad("at-most-32-records", "handleFindNodes", fmt.Sprintf("%d records", len(enrs)))
	} else if (&portalwire.Nodes{}).UnmarshalSSZ(reply[1:]) != nil {
		bad("reply-is-a-nodes-message", "handleFindNodes", "the NODES decoder refuses the reply")
	}
	// what was validly asked: distance 0, and per bucket the number of distinct distances it covers
	zero, asked, seenD := false, map[int]int{}, map[uint]bool{}
	for _, d := range c.Dists {
		if d > 256 || seenD[d] {
			continue
		}
		seenD[d] = true
		if d == 0 {
			zero = true
		} else {
			asked[w.cover[d]]++
		}
	}
	times, buckets, fromTable := map[*c11Entry]int{}, map[int]bool{}, 0
	for _, raw := range enrs {
		ent := w.byRaw[string(raw)]
		if ent == nil {
			bad("only-local-record-or-table-entries", "handleFindNodes", "record "+hx(raw)+" is neither")
			continue
		}
		times[ent]++
		relaySite := "local-record:" + ent.class + "->" + c11AddrClass(asker)
		if ent.bucket < 0 {
			if !zero {
				bad("local-record-only-for-distance-0", "collectTableNodes", "local record offered")
			} else if times[ent] == 2 {
				bad("repeated-distances-ignored", "local-record", "local record offered more than once")
			}
		} else {
			fromTable++
			buckets[ent.bucket] = true
			relaySite = "table-entry:" + ent.class + "->" + c11AddrClass(asker)
			if !ent.live {
				bad("only-liveness-checked-entries", "appendBucketNodes", fmt.Sprintf("entry %s of bucket %d was never validated live", ent.node.ID().TerminalString(), ent.bucket))
			}
			if asked[ent.bucket] == 0 {
				site := "bucket-not-covering-a-requested-distance"
				if len(asked) == 0 {
					site = "no-valid-table-distance-requested"
				}
				bad("only-buckets-covering-requested-distances", site, fmt.Sprintf("entry of bucket %d at distance %d", ent.bucket, enode.LogDist(w.local.node.ID(), ent.node.ID())))
			} else if times[ent] == asked[ent.bucket]+1 {
				bad("repeated-distances-ignored", "table-entry", fmt.Sprintf("entry of bucket %d offered %d times, %d distinct requested distances map to its bucket", ent.bucket, times[ent], asked[ent.bucket]))
			}
		}
		if err := netutil.CheckRelayIP(asker, ent.node.IP()); err != nil {
			bad("no-record-the-asker-must-not-be-relayed", relaySite, fmt.Sprintf("%s offered to %s: %v", ent.node.IP(), c.Asker, err))
		}
	}
	// candidates: live, relayable entries of the asked buckets; wanted: once per distinct distance their bucket covers
	candidates, wanted := 0, 0
	for _, ent := range w.all {
		if ent.live && asked[ent.bucket] > 0 && netutil.CheckRelayIP(asker, ent.node.IP()) == nil {
			candidates++
			wanted += asked[ent.bucket]
		}
	}
	if zero && times[w.local] == 0 && netutil.CheckRelayIP(asker, w.local.node.IP()) == nil {
		switch {
		case c.Dists[0] == 0: // asked first: nothing else can have used up the room
			bad("local-record-offered-for-distance-0", "collectTableNodes", "distance 0 requested first, local record relayable, not offered")
		case fromTable >= wanted && len(reply)+4+len(w.local.raw) <= c11ReplyLimit && len(enrs) < portalwire.VerifFindnodesResultLimit: // every listable table record is there (nothing was cut) and the local record would still fit: nothing crowded it out
			bad("local-record-offered-for-distance-0", "collectTableNodes:zero-not-first-nothing-cut", fmt.Sprintf("distance 0 requested after other distances, local record relayable, all %d listable table records are in the reply (%d bytes), the local record is not", wanted, len(reply)))
		default:
			r.Count("serve_local_record_crowded_out", 1)
		}
	}
	switch {
	case fromTable > 0:
		r.Count("serve_replies_with_table_entries", 1)
	case candidates > 0 && len(enrs) == 0:
		r.Count("serve_empty_despite_candidates", 1)
	}
	r.Max("max_records_in_reply", int64(len(enrs)))
	r.Max("max_reply_bytes", int64(len(reply)))
	r.Max("max_local_record_bytes", int64(len(w.local.raw)))
	bs := []int{}
	for b := range buckets {
		bs = append(bs, b)
	}
	sort.Ints(bs)
	r.Exec(fmt.Sprintf("serve:%s:%s:%d:%d:%v:%v", c.List, c11AddrClass(asker), len(enrs), len(reply), times[w.local], bs))
	if fromTable > 1 && times[w.local] > 0 {
		r.Sample(map[string]any{"case": c, "reply_bytes": len(reply), "records": len(enrs), "buckets": bs})
	}
}

func c11Lists(thorough bool) (names []string, lists map[string][]uint) {
	lists = map[string][]uint{}
	add := func(name string, l []uint) {
		if _, dup := lists[name]; !dup {
			names = append(names, name)
			lists[name] = l
		}
	}
	for _, l := range [][]uint{{}, {0}, {256}, {255, 256}, {256, 256, 0, 0}, {257}, {65535}, {257, 256, 65535, 0}, {1, 2, 3}, {239, 240, 241}, {250, 251, 252}, {253, 254}, {256, 1, 0}} {
		name := strings.Trim(strings.ReplaceAll(fmt.Sprint(l), " ", ","), "[]")
		if name == "" {
			name = "empty"
		}
		add(name, l)
	}
	var asc, desc, rep, repCatch []uint
	for i := 0; i <= 256; i++ {
		asc = append(asc, uint(i))
		add(fmt.Sprint(i), []uint{uint(i)}) // every single distance: the whole distance-to-bucket mapping
	}
	for i := 0; i < 256; i++ {
		desc = append(desc, uint(256-i))
		rep = append(rep, []uint{256, 255, 254, 0}[i%4])
		repCatch = append(repCatch, uint(1+i%8))
	}
	add("0..256", asc)              // 257 distances: one more than the wire format carries, handler called directly
	add("256..1", desc)             // 256 distances
	add("256x{256,255,254,0}", rep) // 256 distances, 4 distinct
	add("256x{1..8}", repCatch)     // 256 distances, 8 distinct, all covered by the catch-all bucket
	if thorough {
		edge := []uint{0, 1, 239, 240, 241, 242, 255, 256, 257}
		for _, a := range edge {
			for _, b := range edge {
				add(fmt.Sprintf("%d,%d", a, b), []uint{a, b})
			}
		}
	}
	return
}

func c11Configs(thorough bool) (out []c11Cfg) {
	locals, fills := []string{"loopback", "lan", "public"}, []int{0, 1, 4, 16}
	if thorough {
		locals, fills = append(locals, "special", "big-public"), []int{0, 1, 2, 4, 5, 16}
	}
	for _, l := range locals {
		for _, f := range fills {
			if f == 0 {
				out = append(out, c11Cfg{Local: l, Size: "min", Live: "all", Class: "public"})
				continue
			}
			sizes := []string{"min", "max"}
			if f == 4 {
				sizes = []string{"fit", "over"}
			}
			for _, size := range sizes {
				for _, live := range []string{"all", "none", "mixed"} {
					for _, class := range append([]string{"mixed"}, c11Classes...) {
						out = append(out, c11Cfg{l, f, size, live, class})
					}
				}
			}
		}
	}
	return
}

func runC11(r *mc.Report, e *Env) {
	r.Rule = "serving: one call of the real handleFindNodes per (table configuration, distance list, asker address), verdict from the decoded reply; asking: one call of the real processNodes per (record list, responder address class, requested distances), every returned node re-checked against the five stated rules; distinct = distinct (input class, reply shape) / (accepted, rejected) observations"
	r.Assume("table entries for log distances below 253 are unsigned null-scheme records with chosen ids (keys at those distances are not found by search); the handler does not look at signatures")
	r.Assume("every bucket of a table configuration gets the same number of entries; per-bucket mixtures of fillings are not enumerated")
	r.Assume("the 32-record cap cannot bind on the wire: the smallest record the table can hold is ~70 bytes, so at most 16 fit in one packet; the cap is checked but only the packet limit is ever reached")
	askers := []string{"127.0.0.1", "192.168.1.7", "44.9.9.9"}
	if e.Thorough() {
		askers = append(askers, "4:44.9.9.9", "169.254.3.3", "198.18.0.9", "0.0.0.0", "::1", "fd00::1", "fe80::1", "2001:4860::1", "2001:db8::1", "nil")
	}
	names, lists := c11Lists(e.Thorough())
	cfgs := c11Configs(e.Thorough())
	r.Set("bound", map[string]any{"table_configurations": len(cfgs), "distance_lists": len(names), "asker_addresses": len(askers),
		"ask_max_list": c11AskDepth(e.Thorough()), "ask_menu": c11Menu, "ask_requests": c11ReqNames, "ask_senders": c11Classes[:3]})
	unit := 0
	s := newC11Serving()
	for _, cfg := range cfgs {
		unit++
		if !e.Mine(unit) {
			continue
		}
		if e.Expired() {
			return
		}
		w := s.build(cfg)
		for _, name := range names {
			for _, a := range askers {
				cfg := cfg
				c11Serve(r, w, c11Case{Side: "serve", Cfg: &cfg, Asker: a, List: name, Dists: lists[name]})
			}
		}
		w.close()
	}
	c11RunAsk(r, e, &unit)
}

func replayC11(r *mc.Report, e *Env, raw json.RawMessage) {
	var c c11Case
	if err := json.Unmarshal(raw, &c); err != nil {
		panic(err)
	}
	if c.Side == "ask" {
		a := newC11Asking()
		defer a.close()
		c11CheckAsk(r, a, c)
		return
	}
	w := newC11Serving().build(*c.Cfg)
	defer w.close()
	c11Serve(r, w, c)
}
