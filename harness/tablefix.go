package main

import (
	"errors"
	"fmt"
	"net"
	"sort"
	"strings"
	"sync"
	"testing/synctest"
	"time"

	"github.com/ethereum/go-ethereum/p2p/enode"
	"github.com/zen-eth/shisui/portalwire"
)

// Table driver: the real Table with its real loop() in a bubble, over a stub
// transport whose ping parks until the explorer answers it, a scripted random
// source and the bubble clock.

const tabPingInterval = 3 * time.Second

var tabSelfID = enode.ID{} // all zero: log-distance of an id is its bit length

// ids by name. Bucket 16 holds log-distance 256, bucket 15 → 255, ..., bucket 0 is the catch-all (<= 240).
func tabID(name string) enode.ID {
	var id enode.ID
	switch {
	case name == "A":
		id[0], id[31] = 0x80, 0x0a
	case name == "B":
		id[0], id[31] = 0xc0, 0x0b
	case name == "X":
		id[0], id[31] = 0xa0, 0x0c
	case name == "P":
		id[0], id[31] = 0x90, 0x0d
	case name == "Q":
		id[0], id[31] = 0x98, 0x0e
	case name == "R":
		id[0], id[31] = 0x88, 0x0f
	case name == "S": // the local id itself
	case name == "C": // 255
		id[0], id[31] = 0x40, 0x0c
	case name == "D": // catch-all
		id[31] = 0x01
	case name == "E": // catch-all
		id[30] = 0x01
	case name == "H": // 252
		id[0], id[31] = 0x08, 0x01
	case name == "I": // 251
		id[0], id[31] = 0x04, 0x01
	case strings.HasPrefix(name, "F"): // fillers in bucket 256
		var k int
		fmt.Sscanf(name, "F%d", &k)
		id[0], id[1], id[31] = 0x81, byte(k), 0xf0
	case strings.HasPrefix(name, "G"): // same-/24 nodes spread over buckets 256..252
		var k int
		fmt.Sscanf(name, "G%d", &k)
		id[0], id[2], id[31] = byte(0x80>>(k/2)), byte(k), 0xe0
	default:
		panic("id " + name)
	}
	return id
}

type tabEndpoint struct {
	ip   net.IP
	port int
}

var tabEndpoints = map[string]tabEndpoint{
	"a": {net.IP{52, 1, 1, 10}, 30303},
	"b": {net.IP{52, 1, 1, 11}, 30303},   // same /24, other ip
	"c": {net.IP{52, 1, 1, 10}, 30304},   // same ip, other port
	"d": {net.IP{52, 2, 2, 10}, 30303},   // other /24
	"e": {net.IP{52, 2, 2, 11}, 30303},   // other /24, second address
	"f": {net.IP{52, 2, 2, 12}, 30303},   // other /24, third address
	"l": {net.IP{192, 168, 1, 5}, 30303}, // LAN: exempt from the IP limits
}

// tabRec: "<id>.<seq>.<endpoint>", e.g. "A.2.b"; fillers "F7" (seq 1, own /24), "G3" (seq 1, 52.1.1.100+k).
func tabNode(rec string) *enode.Node {
	if strings.HasPrefix(rec, "F") && !strings.Contains(rec, ".") {
		var k int
		fmt.Sscanf(rec, "F%d", &k)
		return portalwire.VNode(tabID(rec), net.IP{31, 0, byte(k), 1}, 30303, 1)
	}
	if strings.HasPrefix(rec, "G") && !strings.Contains(rec, ".") {
		var k int
		fmt.Sscanf(rec, "G%d", &k)
		return portalwire.VNode(tabID(rec), net.IP{52, 1, 1, byte(100 + k)}, 30303, 1)
	}
	p := strings.Split(rec, ".")
	var seq uint64
	fmt.Sscanf(p[1], "%d", &seq)
	ep := tabEndpoints[p[2]]
	if len(p) > 3 { // "<id>.<seq>.<endpoint>.<form>": the address in another record form (c07_forms.go)
		return tabNodeAddr(tabID(p[0]), tabFormAddr(ep.ip, p[3]), ep.port, seq)
	}
	return portalwire.VNode(tabID(p[0]), ep.ip, ep.port, seq)
}

func tabRecID(rec string) string {
	if i := strings.Index(rec, "."); i > 0 {
		return rec[:i]
	}
	return rec
}

type pingAnswer struct {
	seq    uint64
	err    error
	newRec *enode.Node
}

type pingReq struct {
	node *enode.Node
	ch   chan pingAnswer
	at   time.Time // virtual time at which the liveness check was started
}

type tabEnv struct {
	vt       *portalwire.VTable
	mu       sync.Mutex
	pending  map[enode.ID]*pingReq
	enrAns   map[enode.ID]*enode.Node
	intn     []int // scripted answers for Intn draws (index k); empty: 0
	draws    []string
	names    map[enode.ID]string
	loopErr  string
	loopEnd  chan struct{}
	intnGate func(site string) // optional: called inside every Intn draw (concurrency harness)
	pingAuto bool              // answer pings "alive" without parking them
}

func (t *tabEnv) name(id enode.ID) string {
	if n, ok := t.names[id]; ok {
		return n
	}
	return id.TerminalString()
}

func newTabEnv() *tabEnv {
	t := &tabEnv{pending: map[enode.ID]*pingReq{}, enrAns: map[enode.ID]*enode.Node{}, names: map[enode.ID]string{}, loopEnd: make(chan struct{})}
	for _, n := range []string{"A", "B", "X", "C", "D", "E", "H", "I", "P", "Q", "R", "S"} {
		t.names[tabID(n)] = n
	}
	for k := 0; k < 40; k++ {
		t.names[tabID(fmt.Sprintf("F%d", k))] = fmt.Sprintf("F%d", k)
	}
	for k := 0; k < 10; k++ {
		t.names[tabID(fmt.Sprintf("G%d", k))] = fmt.Sprintf("G%d", k)
	}
	tr := &portalwire.VTransport{
		SelfNode: portalwire.VNode(tabSelfID, net.IP{127, 0, 0, 1}, 9000, 1),
		PingFn: func(n *enode.Node) (uint64, error) {
			if t.pingAuto {
				return n.Seq(), nil
			}
			req := &pingReq{node: n, ch: make(chan pingAnswer), at: time.Now()}
			t.mu.Lock()
			t.pending[n.ID()] = req
			t.mu.Unlock()
			a := <-req.ch
			if a.newRec != nil {
				t.mu.Lock()
				t.enrAns[n.ID()] = a.newRec
				t.mu.Unlock()
			}
			return a.seq, a.err
		},
		RequestENRFn: func(n *enode.Node) (*enode.Node, error) {
			t.mu.Lock()
			defer t.mu.Unlock()
			if r := t.enrAns[n.ID()]; r != nil {
				delete(t.enrAns, n.ID())
				return r, nil
			}
			return nil, errors.New("no record")
		},
	}
	src := &portalwire.VSource{Hold: int64(3*tabPingInterval) - 1, Next: func(site string) int64 {
		if t.intnGate != nil {
			t.intnGate(site)
		}
		t.mu.Lock()
		defer t.mu.Unlock()
		k := 0
		if len(t.intn) > 0 {
			k, t.intn = t.intn[0], t.intn[1:]
		}
		t.draws = append(t.draws, fmt.Sprintf("%s=%d", site, k))
		return int64(k) << 32
	}}
	vt, err := portalwire.NewVTable(tr, src, portalwire.Config{DisableInitCheck: true, PingInterval: tabPingInterval, RefreshInterval: 10000 * time.Hour})
	if err != nil {
		panic(err)
	}
	t.vt = vt
	return t
}

// startLoop runs the real loop in its own goroutine; a panic in it is caught and kept.
func (t *tabEnv) startLoop() {
	go func() {
		defer close(t.loopEnd)
		defer func() {
			if r := recover(); r != nil {
				t.loopErr = fmt.Sprintf("%v @ %s", r, repoFrame())
			}
		}()
		t.vt.Loop()
	}()
	t.vt.WaitInit()
	synctest.Wait()
}

// stop ends the loop; pending pings are answered first so their goroutines can finish.
func (t *tabEnv) stop() {
	t.mu.Lock()
	for id, r := range t.pending {
		delete(t.pending, id)
		go func(r *pingReq) { r.ch <- pingAnswer{err: errors.New("shutdown")} }(r)
	}
	t.mu.Unlock()
	if t.loopErr == "" {
		select {
		case <-t.loopEnd:
		default:
			t.vt.Close()
			return
		}
	}
	t.vt.CloseDB()
}

func (t *tabEnv) pendingIDs() []string {
	t.mu.Lock()
	defer t.mu.Unlock()
	var out []string
	for id := range t.pending {
		out = append(out, t.name(id))
	}
	sort.Strings(out)
	return out
}

// apply executes one event and waits for quiescence. It returns an error text if
// the event could not be applied (unknown pending ping etc.).
func (t *tabEnv) apply(ev string) string {
	// the call is handed to the loop goroutine; if that goroutine has died (a panic, kept in
	// loopErr) the call never returns - and timers elsewhere keep the virtual clock running, so
	// no deadlock would ever be reported
	done := make(chan string, 1)
	go func() { done <- t.applyNoWait(ev) }()
	select {
	case e := <-done:
		if e != "" {
			return e
		}
	case <-t.loopEnd:
		select {
		case e := <-done: // the event itself ended the loop? no: it returned, fine
			if e != "" {
				return e
			}
		default:
		}
	}
	if t.loopErr == "" {
		synctest.Wait()
	}
	return ""
}

// applyNoWait executes one event without waiting for quiescence (for scheduler threads).
func (t *tabEnv) applyNoWait(ev string) string {
	p := strings.Split(ev, ":")
	switch p[0] {
	case "found":
		t.vt.AddFound(tabNode(p[1]), false)
	case "foundlive": // forceSetLive: start-state construction, and AddEnr / processPong etc. for known nodes (c07LiveRecs)
		t.vt.AddFound(tabNode(p[1]), true)
	case "inbound":
		t.vt.AddInbound(tabNode(p[1]))
	case "del":
		t.vt.Delete(portalwire.VNode(tabID(p[1]), net.IP{1, 1, 1, 1}, 1, 0))
	case "tick": // tick:<i>,<j>,...: scripted Intn answers, then both revalidation lists come due
		t.mu.Lock()
		t.intn = nil
		if len(p) > 1 && p[1] != "" {
			for _, s := range strings.Split(p[1], ",") {
				var k int
				fmt.Sscanf(s, "%d", &k)
				t.intn = append(t.intn, k)
			}
		}
		t.mu.Unlock()
		time.Sleep(3 * tabPingInterval)
	case "ans": // ans:<id>:<kind>
		id := tabID(p[1])
		t.mu.Lock()
		req := t.pending[id]
		delete(t.pending, id)
		t.mu.Unlock()
		if req == nil {
			return "no pending ping for " + p[1]
		}
		cur := req.node
		var a pingAnswer
		kind := p[2]
		fa, formed := tabFormAnswer(cur, kind) // "newform", and address changes of real IPv6 records (c07_forms.go)
		if formed {
			kind = "(form)"
		}
		switch kind {
		case "(form)":
			a = fa
		case "alive":
			a = pingAnswer{seq: cur.Seq()}
		case "dead":
			a = pingAnswer{err: errors.New("timeout")}
		case "nofetch": // answers, announcing a newer record that then cannot be fetched
			a = pingAnswer{seq: cur.Seq() + 1}
		case "newseq":
			a = pingAnswer{seq: cur.Seq() + 1, newRec: portalwire.VNode(id, cur.IP(), cur.UDP(), cur.Seq()+1)}
		case "newip":
			ip := append(net.IP{}, cur.IP().To4()...)
			ip[3] ^= 1
			a = pingAnswer{seq: cur.Seq() + 1, newRec: portalwire.VNode(id, ip, cur.UDP(), cur.Seq()+1)}
		case "newsubnet":
			ip := append(net.IP{}, cur.IP().To4()...)
			ip[2] ^= 1
			a = pingAnswer{seq: cur.Seq() + 1, newRec: portalwire.VNode(id, ip, cur.UDP(), cur.Seq()+1)}
		case "newport":
			a = pingAnswer{seq: cur.Seq() + 1, newRec: portalwire.VNode(id, cur.IP(), cur.UDP()+1, cur.Seq()+1)}
		case "lowerseq": // claims a higher number, serves a lower-numbered record
			a = pingAnswer{seq: cur.Seq() + 1, newRec: portalwire.VNode(id, cur.IP(), cur.UDP()+1, 0)}
		default:
			panic("answer " + p[2])
		}
		req.ch <- a
	case "track": // track:<id>:ok|fail[:<rec>,<rec>]
		var found []*enode.Node
		if len(p) > 3 {
			for _, r := range strings.Split(p[3], ",") {
				found = append(found, tabNode(r))
			}
		}
		// the node handed to trackRequest is whatever record the caller holds; use the pool's first
		t.vt.Track(tabNode(p[1]+".1.a"), p[2] == "ok", found)
	case "refresh":
		<-t.vt.Refresh()
	default:
		panic("event " + ev)
	}
	return ""
}

func (t *tabEnv) fails(id string) int {
	return t.vt.FindFails(tabID(id), tabEndpoints["a"].ip)
}
