package main

import (
	"bytes"
	"crypto/sha256"
	"encoding/binary"
	"encoding/json"
	"fmt"
	"io"
	"sync/atomic"
	"testing/synctest"
	"time"

	"github.com/cockroachdb/pebble"
	"github.com/cockroachdb/pebble/vfs"
	"github.com/cockroachdb/pebble/vfs/errorfs"
	"github.com/holiman/uint256"
	"github.com/zen-eth/shisui/storage"
	sp "github.com/zen-eth/shisui/storage/pebble"
	"verifharness/mc"
)

// C17 — restart and crash leave a consistent store (E5).
//
// For every history of a small menu, every file-system write operation index k the
// database performs (create, write, sync, rename, remove, ...) and both loss models
// {unsynced data kept, unsynced data dropped}: run the history on a strict in-memory
// FS, freeze the world at operation k, copy the file tree, reopen, and evaluate the
// recovery clauses; then two further puts.

func init() {
	register(&Prop{ID: "C17", Level: "fault_enumeration", Run: runC17, Replay: replayC17,
		Workers: func(e *Env) int { return len(c17Histories) * c17Shards }, Procs: 1,
		Budget: func(t string) time.Duration {
			if t == "thorough" {
				return 25 * time.Minute
			}
			return 4 * time.Minute
		}})
}

const c17Shards = 4

type c17Put struct {
	Id   string `json:"id"`
	Size int    `json:"size"`
}

type c17History struct {
	Name string
	Ops  []c17Put
}

var c17Histories = []c17History{
	{"cross-capacity-then-overwrite", []c17Put{{"a", 400_000}, {"b", 400_000}, {"c", 300_000}, {"b", 1000}}},
	{"overwrite-empty-oversize", []c17Put{{"a", 30_000}, {"a", 50_000}, {"b", 0}, {"c", 1_000_001}, {"d", 10}}},
	{"fill-94-percent", []c17Put{{"a", 235_000}, {"b", 235_000}, {"c", 235_000}, {"d", 234_800}}},
	{"fill-96-percent", []c17Put{{"a", 240_000}, {"b", 240_000}, {"c", 240_000}, {"d", 239_900}}},
	{"fill-100-percent-then-put", []c17Put{{"a", 250_000}, {"b", 250_000}, {"c", 250_000}, {"d", 250_000}, {"e", 20_000}}},
	{"many-small-then-prune", []c17Put{{"a", 45_000}, {"b", 45_000}, {"c", 45_000}, {"d", 45_000}, {"e", 45_000}, {"f", 800_000}, {"g", 45_000}}},
}

type c17Case struct {
	History string `json:"history"`
	Small   bool   `json:"small_memtable"`
	K       int64  `json:"crash_at_write_op"`
	Drop    bool   `json:"drop_unsynced"`
}

func c17Id(name string) []byte {
	h := sha256.Sum256([]byte("verif-c17-" + name))
	return h[:]
}

func c17Val(op c17Put, seq int) []byte { return fillBytes(op.Size, byte(0x30+seq)) }

func copyFS(src, dst vfs.FS, dir string) error {
	names, err := src.List(dir)
	if err != nil {
		return err
	}
	dst.MkdirAll(dir, 0o755)
	for _, n := range names {
		p := src.PathJoin(dir, n)
		st, err := src.Stat(p)
		if err != nil {
			return err
		}
		if st.IsDir() {
			if err := copyFS(src, dst, p); err != nil {
				return err
			}
			continue
		}
		f, err := src.Open(p)
		if err != nil {
			return err
		}
		data, _ := io.ReadAll(f)
		f.Close()
		g, err := dst.Create(p)
		if err != nil {
			return err
		}
		g.Write(data)
		g.Sync()
		g.Close()
	}
	return nil
}

// c17Run runs the history, freezing at write-op k (k<0: never). It returns the
// number of write ops seen, the file system at the cut, how many puts had been
// started and completed, and whether the freeze happened.
type c17Cut struct {
	ops       int64
	fs        *vfs.MemFS
	started   int
	completed int
	frozen    bool
	openErr   string
}

// c17Opts: besides pebble's defaults, a configuration with a small memtable and an
// eager L0 compaction trigger, so that flushes, sstable creation, manifest edits, WAL
// rotation and compactions all occur within a 4-7 put history.
func c17Opts(fs vfs.FS, small bool) *pebble.Options {
	o := &pebble.Options{FS: fs, Logger: quietLogger{}, MaxConcurrentCompactions: func() int { return 1 }}
	if small {
		o.MemTableSize = 128 << 10
		o.L0CompactionThreshold = 2
	}
	return o
}

func c17Execute(h *c17History, k int64, small bool) (cut c17Cut) {
	fs := vfs.NewStrictMem()
	fs.MkdirAll("db", 0o755)
	if root, err := fs.OpenDir(""); err == nil {
		root.Sync()
		root.Close()
	}
	cut.fs = fs
	var cnt atomic.Int64
	var crashed atomic.Bool
	inj := errorfs.InjectorFunc(func(op errorfs.Op, path string) error {
		if crashed.Load() {
			select {} // the world stopped at op k
		}
		if op.OpKind() == errorfs.OpKindWrite {
			i := cnt.Add(1) - 1
			if k >= 0 && i == k {
				crashed.Store(true)
				select {}
			}
		}
		return nil
	})
	var started, completed atomic.Int32
	// The history runs in its own goroutine, one call at a time; this goroutine owns
	// synctest.Wait: after every call it waits until flushes, compactions and the
	// store's Compact goroutine have settled (or the world froze).
	next := make(chan int)
	stepDone := make(chan struct{})
	var db *pebble.DB
	var cs storage.ContentStorage
	go func() {
		defer func() { recover() }()
		for i := range next {
			switch {
			case i == -1:
				var err error
				db, err = pebble.Open("db", c17Opts(errorfs.Wrap(fs, inj), small))
				if err == nil {
					cs, err = sp.NewStorage(storage.PortalStorageConfig{StorageCapacityMB: 1, NodeId: c04Nodes["mixed"], NetworkName: "verif"}, db)
				}
				if err != nil {
					cut.openErr = err.Error()
				}
			case i == -2:
				db.Close()
			default:
				started.Add(1)
				cs.Put(nil, c17Id(h.Ops[i].Id), c17Val(h.Ops[i], i))
				completed.Add(1)
			}
			stepDone <- struct{}{}
		}
	}()
	step := func(i int) bool { // false: the world froze during this step
		next <- i
		for {
			synctest.Wait()
			if crashed.Load() {
				return false
			}
			select {
			case <-stepDone:
				synctest.Wait() // background work triggered by the call
				return !crashed.Load()
			default:
				time.Sleep(time.Millisecond) // virtual; a call never needs this on the unchanged tree
			}
		}
	}
	finish := func() {
		cut.ops, cut.started, cut.completed = cnt.Load(), int(started.Load()), int(completed.Load())
	}
	if !step(-1) {
		cut.frozen = true
		finish()
		return
	}
	if cut.openErr != "" {
		close(next)
		finish()
		return
	}
	for i := range h.Ops {
		if !step(i) {
			cut.frozen = true
			finish()
			return
		}
	}
	finish() // the operations of Close are not crash points of the history
	if k < 0 {
		step(-2)
	}
	close(next)
	return
}

func c17Check(r *mc.Report, h *c17History, small bool, k int64, drop bool) string {
	c := c17Case{h.Name, small, k, drop}
	viol := func(clause, site, detail string) { r.Violation(clause, site, detail, c) }
	digest := ""
	msg := inBubble(func() {
		cut := c17Execute(h, k, small)
		if !cut.frozen {
			digest = "not-reached"
			return
		}
		if drop {
			cut.fs.ResetToSyncedState()
		}
		fs2 := vfs.NewMem()
		if err := copyFS(cut.fs, fs2, ""); err != nil {
			r.EngineError("copy: " + err.Error())
			return
		}
		db, err := pebble.Open("db", c17Opts(fs2, small))
		if err != nil {
			viol("reopen-succeeds", "pebble.Open", fmt.Sprintf("after a crash in put #%d the database does not open: %v", cut.started, err))
			return
		}
		defer func() { synctest.Wait(); db.Close() }()
		// what is on disk before the store is constructed
		scanDB := func() (items []kv, rec uint64, has bool) {
			it, _ := db.NewIter(nil)
			defer it.Close()
			for it.First(); it.Valid(); it.Next() {
				if bytes.Equal(it.Key(), storage.SizeKey) {
					if len(it.Value()) == 8 {
						rec, has = binary.BigEndian.Uint64(it.Value()), true
					}
					continue
				}
				items = append(items, kv{append([]byte{}, it.Key()...), append([]byte{}, it.Value()...)})
			}
			return
		}
		before, recBefore, _ := scanDB()
		cs, err := sp.NewStorage(storage.PortalStorageConfig{StorageCapacityMB: 1, NodeId: c04Nodes["mixed"], NetworkName: "verif"}, db)
		if err != nil {
			viol("reopen-succeeds", "NewStorage", fmt.Sprintf("after a crash in put #%d the store does not open: %v", cut.started, err))
			return
		}
		synctest.Wait()
		after, recAfter, hasRec := scanDB()
		// every item present was put under that id at or before the cut
		putUnder := map[string][][]byte{}
		for i := 0; i < cut.started && i < len(h.Ops); i++ {
			kx := string(distKey(c04Nodes["mixed"], c17Id(h.Ops[i].Id)))
			putUnder[kx] = append(putUnder[kx], c17Val(h.Ops[i], i))
		}
		for _, it := range after {
			ok := false
			for _, v := range putUnder[string(it.K)] {
				ok = ok || bytes.Equal(v, it.V)
			}
			if !ok {
				viol("items-identical-to-a-put", "ContentStorage", fmt.Sprintf("after recovery the item at distance %s holds %s, which was never put under that id before the cut", hx(it.K[:8]), hx(it.V)))
				return
			}
		}
		for i := 0; i < cut.started && i < len(h.Ops); i++ {
			got, err := cs.Get(nil, c17Id(h.Ops[i].Id))
			if err != nil && !isNotFound(err) {
				viol("get-after-recovery", "ContentStorage.Get", err.Error())
				return
			}
			if err == nil {
				ok := false
				for _, v := range putUnder[string(distKey(c04Nodes["mixed"], c17Id(h.Ops[i].Id)))] {
					ok = ok || bytes.Equal(v, got)
				}
				if !ok {
					viol("items-identical-to-a-put", "ContentStorage.Get", fmt.Sprintf("Get(%s) after recovery returned bytes never put under that id", h.Ops[i].Id))
					return
				}
			}
		}
		A := held(after)
		if (hasRec && recAfter < A) || (!hasRec && A > 0) {
			viol("persisted-usage-not-below-present", "persisted record", fmt.Sprintf("after recovery the persisted usage is %d (present=%v) but %d bytes are present", recAfter, hasRec, A))
		}
		if mem := sp.VerifSize(cs); mem < A {
			viol("persisted-usage-not-below-present", "in-memory counter", fmt.Sprintf("after recovery the in-memory usage is %d but %d bytes are present", mem, A))
		}
		capB := uint64(c05Cap)
		if recBefore > capB {
			freed := int64(held(before)) - int64(A)
			if freed < int64(capB/20) && A != 0 {
				viol("over-capacity-pruned-on-open", "NewStorage", fmt.Sprintf("persisted usage %d > capacity at the cut, but opening freed only %d bytes and %d remain", recBefore, freed, A))
			}
		}
		// radius
		radius := cs.Radius()
		over95 := recBefore > uint64(float64(capB)*0.95)
		switch {
		case !over95:
			if !radius.Eq(storage.MaxDistance) {
				viol("radius-maximum-below-95-percent", "NewStorage", fmt.Sprintf("persisted usage %d <= 95%% of capacity but the radius after opening is %s", recBefore, radius.Hex()))
			}
		case len(after) == 0:
			// the usage figure said > 95% but opening pruned everything: an empty store is not
			// "more than 95% full" under any reading, and there is no retained item to derive from
			r.Count("over95_but_empty_after_open", 1)
			if !radius.Eq(storage.MaxDistance) {
				viol("radius-maximum-below-95-percent", "NewStorage:empty-store", fmt.Sprintf("persisted usage %d at the cut, nothing retained after opening, radius %s (every later put is refused)", recBefore, radius.Hex()))
			}
		default:
			far := after[len(after)-1].K
			le := new(uint256.Int)
			le.UnmarshalSSZ(far)
			if !radius.Eq(beUint(far)) && !radius.Eq(le) {
				viol("radius-from-farthest-retained-above-95-percent", "NewStorage", fmt.Sprintf("persisted usage %d > 95%% of capacity; farthest retained key %s; radius after opening %s", recBefore, hx(far), radius.Hex()))
			}
		}
		// further operations
		for j, n := range []int{100, 30_000} {
			id := c17Id(fmt.Sprintf("after-%d", j))
			v := fillBytes(n, byte(0x70+j))
			if err := cs.Put(nil, id, v); err == nil {
				synctest.Wait()
				got, gerr := cs.Get(nil, id)
				items, rec, has := scanDB()
				if gerr == nil && !bytes.Equal(got, v) {
					viol("further-put-get", "ContentStorage.Get", "a put after recovery reads back differently")
				}
				if has && rec < held(items) {
					viol("persisted-usage-not-below-present", "persisted record (after further put)", fmt.Sprintf("usage %d < held %d", rec, held(items)))
				}
			}
		}
		digest = fmt.Sprintf("started=%d completed=%d items=%d rec=%d over95=%v radiusMax=%v", cut.started, cut.completed, len(after), recAfter, over95, radius.Eq(storage.MaxDistance))
	})
	if msg != "" {
		viol("no-panic", "ContentStorage", "panic during recovery: "+msg)
	}
	return digest
}

func runC17(r *mc.Report, e *Env) {
	r.Rule = "one case = (history, write-op index k, keep|drop unsynced): run the real store on pebble over a strict in-memory FS, freeze every FS operation from the k-th write-kind operation on, copy the tree, reopen with pebble.Open + NewStorage, evaluate the recovery clauses, then two further puts; distinct = distinct (puts started/completed, items, usage, radius) observations"
	r.Assume("crash model: fail-stop at file-system operation boundaries; unsynced data is either all kept or all dropped (pebble's strict MemFS); no torn writes inside one Write")
	r.Assume("either byte order of the farthest retained key is accepted as the re-derived radius (which one is C06's question)")
	for hi := range c17Histories {
		for sh := 0; sh < c17Shards; sh++ {
			if e.Of > 1 && e.Shard != hi*c17Shards+sh {
				continue
			}
			h := &c17Histories[hi]
			for _, small := range []bool{false, true} {
				var n1, n2 int64
				for try := 0; try < 3; try++ { // fault-free runs: how many write operations are there
					var n int64
					inBubble(func() { n = c17Execute(h, -1, small).ops })
					if try == 0 || n < n2 {
						n2 = n
					}
					if n > n1 {
						n1 = n
					}
				}
				if n1 != n2 && sh == 0 {
					// background flush/compaction order is not fully owned: every index up to the
					// largest count is still tried, but the run is not called exhaustive
					r.NotExhaustive(fmt.Sprintf("history %s (small=%v): fault-free runs performed between %d and %d write operations", h.Name, small, n2, n1))
				}
				if sh == 0 {
					r.Count(fmt.Sprintf("write_ops_%s_small=%v", h.Name, small), n1)
					r.Sample(map[string]any{"history": h.Name, "small_memtable": small, "puts": h.Ops, "write_ops": n1})
				}
				stride := int64(1)
				if !e.Thorough() && n1 > 150 {
					stride = 2
					r.NotExhaustive("quick tier takes every 2nd crash point of histories with more than 150 write operations")
				}
				for k := int64(0); k < n1; k += stride {
					if k%c17Shards != int64(sh) {
						continue
					}
					if e.Expired() {
						return
					}
					for _, drop := range []bool{false, true} {
						d := c17Check(r, h, small, k, drop)
						if d == "not-reached" {
							r.EngineError(fmt.Sprintf("history %s: crash point %d was not reached on replay (nondeterministic operation count)", h.Name, k))
							continue
						}
						r.Exec(h.Name + "|" + d)
						r.Count("recoveries", 1)
					}
				}
			}
		}
	}
	r.SetMaxSamples(12)
}

func replayC17(r *mc.Report, e *Env, raw json.RawMessage) {
	var c c17Case
	if err := json.Unmarshal(raw, &c); err != nil {
		panic(err)
	}
	for i := range c17Histories {
		if c17Histories[i].Name == c.History {
			fmt.Println("outcome:", c17Check(r, &c17Histories[i], c.Small, c.K, c.Drop))
		}
	}
}
