package main

import (
	"bytes"
	"crypto/sha256"
	"encoding/binary"
	"encoding/json"
	"fmt"
	"io"
	"sort"
	"strings"
	"sync/atomic"
	"testing/synctest"
	"time"

	"github.com/cockroachdb/pebble"
	"github.com/cockroachdb/pebble/vfs"
	"github.com/cockroachdb/pebble/vfs/errorfs"
	"github.com/holiman/uint256"
	"github.com/zen-eth/shisui/storage"
	sp "github.com/zen-eth/shisui/storage/pebble"
	"verifharness/mc"
)

// C17 — restart and crash leave a consistent store (E5).
//
// For every history of a small menu, every file-system write operation index k the
// database performs (create, write, sync, rename, remove, ...) and both loss models
// {unsynced data kept, unsynced data dropped}: run the history on a strict in-memory
// FS, freeze the world at operation k, copy the file tree, reopen, and evaluate the
// recovery clauses; then two further puts.

func init() {
	register(&Prop{ID: "C17", Level: "fault_enumeration", Run: runC17, Replay: replayC17,
		Workers: func(e *Env) int { return len(c17Tasks(e.Thorough())) }, Procs: 1,
		Budget: func(t string) time.Duration {
			if t == "thorough" {
				return 25 * time.Minute
			}
			return 4 * time.Minute
		}})
}

const c17Shards = 4

type c17Put struct {
	Id   string `json:"id"`
	Size int    `json:"size"`
}

type c17History struct {
	Name string
	Ops  []c17Put
}

var c17Histories = []c17History{
	{"cross-capacity-then-overwrite", []c17Put{{"a", 400_000}, {"b", 400_000}, {"c", 300_000}, {"b", 1000}}},
	{"overwrite-empty-oversize", []c17Put{{"a", 30_000}, {"a", 50_000}, {"b", 0}, {"c", 1_000_001}, {"d", 10}}},
	{"fill-94-percent", []c17Put{{"a", 235_000}, {"b", 235_000}, {"c", 235_000}, {"d", 234_800}}},
	{"fill-96-percent", []c17Put{{"a", 240_000}, {"b", 240_000}, {"c", 240_000}, {"d", 239_900}}},
	{"fill-100-percent-then-put", []c17Put{{"a", 250_000}, {"b", 250_000}, {"c", 250_000}, {"d", 250_000}, {"e", 20_000}}},
	{"many-small-then-prune", []c17Put{{"a", 45_000}, {"b", 45_000}, {"c", 45_000}, {"d", 45_000}, {"e", 45_000}, {"f", 800_000}, {"g", 45_000}}},
}

// Generated histories: every sequence of 2 (thorough: 3) puts over 2 ids x 6 sizes, up to
// renaming of the ids (the first id used is "a"). The sizes are chosen so that two or three
// of them cross 95% / 100% of the 1 MB capacity in many ways: 400k+600k and 480k+600k cross
// the capacity, 480k+480k stops at 96%, 400k+480k at 88%, an oversize value exceeds it alone.
var c17GenSizes = []struct {
	Name string
	N    int
}{{"0", 0}, {"45k", 45_000}, {"400k", 400_000}, {"480k", 480_000}, {"600k", 600_000}, {"over", 1_000_001}}

func c17Generated(depth int) []c17History {
	var out []c17History
	var rec func(ops []c17Put, name string)
	rec = func(ops []c17Put, name string) {
		if len(ops) == depth {
			out = append(out, c17History{"gen:" + name[1:], append([]c17Put{}, ops...)})
			return
		}
		for _, id := range []string{"a", "b"} {
			if len(ops) == 0 && id != "a" {
				continue // ids are interchangeable: the first one used is "a"
			}
			for _, sz := range c17GenSizes {
				rec(append(ops, c17Put{id, sz.N}), name+","+id+sz.Name)
			}
		}
	}
	rec(nil, "")
	return out
}

func c17HistoryByName(name string) *c17History {
	for i := range c17Histories {
		if c17Histories[i].Name == name {
			return &c17Histories[i]
		}
	}
	for _, depth := range []int{2, 3} {
		for _, h := range c17Generated(depth) {
			if h.Name == name {
				h := h
				return &h
			}
		}
	}
	return nil
}

// c17Task: one worker process explores shard Sh of Of of the crash points of one history.
type c17Task struct {
	H      c17History
	Sh, Of int
	Fault  []c17FaultSpec // non-nil: a task of the second part (c17_openfault.go)
}

func c17Tasks(thorough bool) []c17Task {
	ts := c17FaultTasks(thorough) // second part (c17_openfault.go)
	for _, h := range c17Histories {
		for sh := 0; sh < c17Shards; sh++ {
			ts = append(ts, c17Task{H: h, Sh: sh, Of: c17Shards})
		}
	}
	depth := 2
	if thorough {
		depth = 3
	}
	for _, h := range c17Generated(depth) {
		// The goroutines of a frozen world never end and keep its file system alive (a few MB per
		// crash point, more with large values): a worker process handles a bounded share.
		total := 0
		for _, op := range h.Ops {
			total += op.Size
		}
		of := 1 + total/250_000
		for sh := 0; sh < of; sh++ {
			ts = append(ts, c17Task{H: h, Sh: sh, Of: of})
		}
	}
	return ts
}

type c17Case struct {
	History string `json:"history"`
	Small   bool   `json:"small_memtable"`
	K       int64  `json:"crash_at_write_op"`
	Drop    bool   `json:"drop_unsynced"`
	// Tear > 0: operation K is a file Write of which only a prefix reaches the file before
	// the world stops (1: one byte, 2: half, 3: all but the last byte).
	Tear int `json:"torn_write,omitempty"`
	// Mixed: per-unit loss. Of the units that differ between "all unsynced state kept" and
	// "all dropped" (each file with an unsynced tail; the directory entries as a whole),
	// exactly those in Kept keep theirs.
	Mixed bool     `json:"per_file_loss,omitempty"`
	Kept  []string `json:"unsynced_kept_for,omitempty"`
}

// tearFS sits between the fault injector and the strict MemFS: when armed, the next file
// Write stores only a prefix of its buffer and the world stops.
type tearFS struct {
	vfs.FS
	armed, crashed *atomic.Bool
	mode           int
	tornLen        *atomic.Int64
}

type tearFile struct {
	vfs.File
	fs *tearFS
}

func (t *tearFS) wrap(f vfs.File, err error) (vfs.File, error) {
	if err != nil || f == nil {
		return f, err
	}
	return &tearFile{f, t}, nil
}
func (t *tearFS) Create(name string) (vfs.File, error) { return t.wrap(t.FS.Create(name)) }
func (t *tearFS) OpenReadWrite(name string, opts ...vfs.OpenOption) (vfs.File, error) {
	return t.wrap(t.FS.OpenReadWrite(name, opts...))
}
func (t *tearFS) ReuseForWrite(oldname, newname string) (vfs.File, error) {
	return t.wrap(t.FS.ReuseForWrite(oldname, newname))
}

func (f *tearFile) Write(p []byte) (int, error) {
	if f.fs.armed.CompareAndSwap(true, false) {
		n := 0
		switch {
		case len(p) < 2:
			n = -1 // nothing to tear
		case f.fs.mode == 1:
			n = 1
		case f.fs.mode == 2:
			n = len(p) / 2
		default:
			n = len(p) - 1
		}
		f.fs.tornLen.Store(int64(n))
		if n > 0 {
			f.File.Write(p[:n])
		}
		f.fs.crashed.Store(true)
		select {} // the world stopped inside this Write
	}
	return f.File.Write(p)
}

func c17Id(name string) []byte {
	h := sha256.Sum256([]byte("verif-c17-" + name))
	return h[:]
}

func c17Val(op c17Put, seq int) []byte { return fillBytes(op.Size, byte(0x30+seq)) }

func copyFS(src, dst vfs.FS, dir string) error {
	names, err := src.List(dir)
	if err != nil {
		return err
	}
	dst.MkdirAll(dir, 0o755)
	for _, n := range names {
		p := src.PathJoin(dir, n)
		st, err := src.Stat(p)
		if err != nil {
			return err
		}
		if st.IsDir() {
			if err := copyFS(src, dst, p); err != nil {
				return err
			}
			continue
		}
		f, err := src.Open(p)
		if err != nil {
			return err
		}
		data, _ := io.ReadAll(f)
		f.Close()
		g, err := dst.Create(p)
		if err != nil {
			return err
		}
		g.Write(data)
		g.Sync()
		g.Close()
	}
	return nil
}

// c17Run runs the history, freezing at write-op k (k<0: never). It returns the
// number of write ops seen, the file system at the cut, how many puts had been
// started and completed, and whether the freeze happened.
type c17Cut struct {
	ops       int64
	fs        *vfs.MemFS
	started   int
	completed int
	frozen    bool
	openErr   string
	tornLen   int64 // torn-write cases: bytes of the torn Write that reached the file; -1: operation k cannot be torn
}

// c17Opts: besides pebble's defaults, a configuration with a small memtable and an
// eager L0 compaction trigger, so that flushes, sstable creation, manifest edits, WAL
// rotation and compactions all occur within a 4-7 put history.
func c17Opts(fs vfs.FS, small bool) *pebble.Options {
	o := &pebble.Options{FS: fs, Logger: quietLogger{}, MaxConcurrentCompactions: func() int { return 1 }}
	if small {
		o.MemTableSize = 128 << 10
		o.L0CompactionThreshold = 2
	}
	return o
}

func c17Execute(h *c17History, k int64, small bool, tear int) (cut c17Cut) {
	fs := vfs.NewStrictMem()
	fs.MkdirAll("db", 0o755)
	if root, err := fs.OpenDir(""); err == nil {
		root.Sync()
		root.Close()
	}
	cut.fs = fs
	var cnt, tornLen atomic.Int64
	var crashed, armed atomic.Bool
	tornLen.Store(-1)
	inj := errorfs.InjectorFunc(func(op errorfs.Op, path string) error {
		if crashed.Load() {
			select {} // the world stopped at op k
		}
		if op.OpKind() == errorfs.OpKindWrite {
			i := cnt.Add(1) - 1
			if k >= 0 && i == k {
				if tear > 0 && op == errorfs.OpFileWrite {
					armed.Store(true) // the Write itself stops the world (tearFile.Write)
					return nil
				}
				crashed.Store(true)
				select {}
			}
		}
		return nil
	})
	var inner vfs.FS = fs
	if tear > 0 {
		inner = &tearFS{FS: fs, armed: &armed, crashed: &crashed, mode: tear, tornLen: &tornLen}
	}
	var started, completed atomic.Int32
	// The history runs in its own goroutine, one call at a time; this goroutine owns
	// synctest.Wait: after every call it waits until flushes, compactions and the
	// store's Compact goroutine have settled (or the world froze).
	next := make(chan int)
	stepDone := make(chan struct{})
	var db *pebble.DB
	var cs storage.ContentStorage
	go func() {
		defer func() { recover() }()
		for i := range next {
			switch {
			case i == -1:
				var err error
				db, err = pebble.Open("db", c17Opts(errorfs.Wrap(inner, inj), small))
				if err == nil {
					cs, err = sp.NewStorage(storage.PortalStorageConfig{StorageCapacityMB: 1, NodeId: c04Nodes["mixed"], NetworkName: "verif"}, db)
				}
				if err != nil {
					cut.openErr = err.Error()
				}
			case i == -2:
				db.Close()
			default:
				started.Add(1)
				cs.Put(nil, c17Id(h.Ops[i].Id), c17Val(h.Ops[i], i))
				completed.Add(1)
			}
			stepDone <- struct{}{}
		}
	}()
	step := func(i int) bool { // false: the world froze during this step
		next <- i
		for {
			synctest.Wait()
			if crashed.Load() {
				return false
			}
			select {
			case <-stepDone:
				synctest.Wait() // background work triggered by the call
				return !crashed.Load()
			default:
				time.Sleep(time.Millisecond) // virtual; a call never needs this on the unchanged tree
			}
		}
	}
	finish := func() {
		cut.ops, cut.started, cut.completed = cnt.Load(), int(started.Load()), int(completed.Load())
		cut.tornLen = tornLen.Load()
	}
	if !step(-1) {
		cut.frozen = true
		finish()
		return
	}
	if cut.openErr != "" {
		close(next)
		finish()
		return
	}
	for i := range h.Ops {
		if !step(i) {
			cut.frozen = true
			finish()
			return
		}
	}
	finish() // the operations of Close are not crash points of the history
	if k < 0 {
		step(-2)
	}
	close(next)
	return
}

// c17Tree is a file tree read out of a MemFS: path -> content.
type c17Tree map[string][]byte

func readTree(fs vfs.FS, dir string, out c17Tree) error {
	names, err := fs.List(dir)
	if err != nil {
		return err
	}
	for _, n := range names {
		p := fs.PathJoin(dir, n)
		st, err := fs.Stat(p)
		if err != nil {
			return err
		}
		if st.IsDir() {
			if err := readTree(fs, p, out); err != nil {
				return err
			}
			continue
		}
		f, err := fs.Open(p)
		if err != nil {
			return err
		}
		data, _ := io.ReadAll(f)
		f.Close()
		out[p] = data
	}
	return nil
}

func (t c17Tree) materialize() vfs.FS {
	fs := vfs.NewMem()
	fs.MkdirAll("db", 0o755)
	for p, data := range t {
		fs.MkdirAll(fs.PathDir(p), 0o755)
		g, err := fs.Create(p)
		if err != nil {
			panic(err)
		}
		g.Write(data)
		g.Sync()
		g.Close()
	}
	return fs
}

// c17Point freezes one execution at write operation k (optionally tearing it) and recovers
// from every loss pattern asked for: all unsynced data kept, all dropped, and per-file
// mixtures (masks over the files that differ between the two). only != nil: just that case.
func c17Point(r *mc.Report, h *c17History, small bool, k int64, tear int, thorough bool, only *c17Case, each func(c c17Case, digest string)) {
	base := c17Case{History: h.Name, Small: small, K: k, Tear: tear}
	msg := inBubble(func() {
		cut := c17Execute(h, k, small, tear)
		if !cut.frozen {
			each(base, "not-reached")
			return
		}
		if tear > 0 && cut.tornLen < 0 {
			each(base, "tear-n/a") // operation k is not a file Write of at least two bytes
			return
		}
		kept, dropped := c17Tree{}, c17Tree{}
		if err := readTree(cut.fs, "", kept); err != nil {
			r.EngineError("copy: " + err.Error())
			return
		}
		cut.fs.ResetToSyncedState()
		if err := readTree(cut.fs, "", dropped); err != nil {
			r.EngineError("copy: " + err.Error())
			return
		}
		// Units of loss. Directory entries are one unit: creations, removals and renames of one
		// directory reach the disk in order (a journalled directory), so either all unsynced name
		// changes are kept or none. File data is lost per file: a file present on both sides whose
		// synced content is a proper prefix of its current content keeps or loses its unsynced tail
		// independently. (A name whose two contents are not prefix-related was renamed over and
		// belongs to the directory unit.)
		const dirUnit = "<directory entries>"
		var differ []string
		nameLevel := map[string]bool{}
		for p, a := range kept {
			b, ok := dropped[p]
			switch {
			case ok && bytes.Equal(a, b):
			case ok && len(b) < len(a) && bytes.Equal(a[:len(b)], b):
				differ = append(differ, p)
			default:
				nameLevel[p] = true
			}
		}
		for p := range dropped {
			if _, ok := kept[p]; !ok {
				nameLevel[p] = true
			}
		}
		sort.Strings(differ)
		if len(nameLevel) > 0 {
			differ = append(differ, dirUnit)
		}
		r.Max("max_units_with_unsynced_state_at_a_cut", int64(len(differ)))
		recoverFrom := func(c c17Case, t c17Tree) {
			d := ""
			m := recoverPanic(func() { d = c17Recover(r, c, c.Small, h, cut, t.materialize()) })
			if m != "" {
				r.Violation("no-panic", "ContentStorage", "panic during recovery: "+m, c)
			}
			each(c, d)
		}
		mix := func(keep map[string]bool) c17Tree {
			t := c17Tree{}
			for p, b := range dropped {
				t[p] = b
			}
			if keep[dirUnit] {
				for p := range nameLevel {
					if a, ok := kept[p]; ok {
						t[p] = a
					} else {
						delete(t, p) // its removal (or renaming away) is what was kept
					}
				}
			}
			for _, p := range differ {
				if keep[p] && p != dirUnit {
					t[p] = kept[p]
				}
			}
			return t
		}
		if only != nil {
			switch {
			case only.Mixed:
				keep := map[string]bool{}
				for _, p := range only.Kept {
					keep[p] = true
				}
				recoverFrom(*only, mix(keep))
			case only.Drop:
				recoverFrom(*only, dropped)
			default:
				recoverFrom(*only, kept)
			}
			return
		}
		recoverFrom(base, kept)
		if tear > 0 && !thorough {
			return // a torn Write only differs from the plain cut while its file's unsynced data is kept
		}
		if tear == 0 {
			c := base
			c.Drop = true
			recoverFrom(c, dropped)
		}
		// per-file mixtures: all masks when few files differ (thorough), otherwise the masks that
		// deviate from one of the two extremes in exactly one file
		n := len(differ)
		if n < 2 {
			return
		}
		var masks []uint
		if thorough && n <= 5 {
			for m := uint(1); m < (1<<n)-1; m++ {
				masks = append(masks, m)
			}
		} else {
			full := uint(1<<n) - 1
			for i := 0; i < n; i++ {
				masks = append(masks, 1<<i)
				if n > 2 {
					masks = append(masks, full&^(1<<i))
				}
			}
			if n > 2 {
				r.Count("cuts_with_single_deviation_masks_only", 1)
			}
		}
		for _, m := range masks {
			c := base
			c.Mixed = true
			keep := map[string]bool{}
			for i, p := range differ {
				if m&(1<<i) != 0 {
					keep[p] = true
					c.Kept = append(c.Kept, p)
				}
			}
			recoverFrom(c, mix(keep))
		}
	})
	if msg != "" {
		r.Violation("no-panic", "ContentStorage", "panic: "+msg, base)
	}
}

func recoverPanic(f func()) (msg string) {
	defer func() {
		if rec := recover(); rec != nil {
			msg = fmt.Sprintf("%v @ %s", rec, repoFrame())
		}
	}()
	f()
	return
}

// c17Recover reopens the store on fs2 and evaluates the recovery clauses (inside the caller's bubble).
func c17Recover(r *mc.Report, c any, small bool, h *c17History, cut c17Cut, fs2 vfs.FS) (digest string) {
	viol := func(clause, site, detail string) { r.Violation(clause, site, detail, c) }
	db, err := pebble.Open("db", c17Opts(fs2, small))
	if err != nil {
		viol("reopen-succeeds", "pebble.Open", fmt.Sprintf("after a crash in put #%d the database does not open: %v", cut.started, err))
		return
	}
	defer func() { synctest.Wait(); db.Close() }()
	// what is on disk before the store is constructed
	scanDB := func() (items []kv, rec uint64, has bool) {
		it, _ := db.NewIter(nil)
		defer it.Close()
		for it.First(); it.Valid(); it.Next() {
			if bytes.Equal(it.Key(), storage.SizeKey) {
				if len(it.Value()) == 8 {
					rec, has = binary.BigEndian.Uint64(it.Value()), true
				}
				continue
			}
			items = append(items, kv{append([]byte{}, it.Key()...), append([]byte{}, it.Value()...)})
		}
		return
	}
	before, recBefore, _ := scanDB()
	cs, err := sp.NewStorage(storage.PortalStorageConfig{StorageCapacityMB: 1, NodeId: c04Nodes["mixed"], NetworkName: "verif"}, db)
	if err != nil {
		viol("reopen-succeeds", "NewStorage", fmt.Sprintf("after a crash in put #%d the store does not open: %v", cut.started, err))
		return
	}
	synctest.Wait()
	after, recAfter, hasRec := scanDB()
	// every item present was put under that id at or before the cut
	putUnder := map[string][][]byte{}
	for i := 0; i < cut.started && i < len(h.Ops); i++ {
		kx := string(distKey(c04Nodes["mixed"], c17Id(h.Ops[i].Id)))
		putUnder[kx] = append(putUnder[kx], c17Val(h.Ops[i], i))
	}
	for _, it := range after {
		ok := false
		for _, v := range putUnder[string(it.K)] {
			ok = ok || bytes.Equal(v, it.V)
		}
		if !ok {
			viol("items-identical-to-a-put", "ContentStorage", fmt.Sprintf("after recovery the item at distance %s holds %s, which was never put under that id before the cut", hx(it.K[:8]), hx(it.V)))
			return
		}
	}
	for i := 0; i < cut.started && i < len(h.Ops); i++ {
		got, err := cs.Get(nil, c17Id(h.Ops[i].Id))
		if err != nil && !isNotFound(err) {
			viol("get-after-recovery", "ContentStorage.Get", err.Error())
			return
		}
		if err == nil {
			ok := false
			for _, v := range putUnder[string(distKey(c04Nodes["mixed"], c17Id(h.Ops[i].Id)))] {
				ok = ok || bytes.Equal(v, got)
			}
			if !ok {
				viol("items-identical-to-a-put", "ContentStorage.Get", fmt.Sprintf("Get(%s) after recovery returned bytes never put under that id", h.Ops[i].Id))
				return
			}
		}
	}
	A := held(after)
	if (hasRec && recAfter < A) || (!hasRec && A > 0) {
		viol("persisted-usage-not-below-present", "persisted record", fmt.Sprintf("after recovery the persisted usage is %d (present=%v) but %d bytes are present", recAfter, hasRec, A))
	}
	if mem := sp.VerifSize(cs); mem < A {
		viol("persisted-usage-not-below-present", "in-memory counter", fmt.Sprintf("after recovery the in-memory usage is %d but %d bytes are present", mem, A))
	}
	capB := uint64(c05Cap)
	if recBefore <= capB && len(after) < len(before) {
		viol("open-prunes-only-an-over-capacity-store", "NewStorage", fmt.Sprintf("persisted usage %d <= capacity at the cut, yet opening removed %d of %d items", recBefore, len(before)-len(after), len(before)))
	}
	if recBefore > capB {
		freed := int64(held(before)) - int64(A)
		if freed < int64(capB/20) && A != 0 {
			viol("over-capacity-pruned-on-open", "NewStorage", fmt.Sprintf("persisted usage %d > capacity at the cut, but opening freed only %d bytes and %d remain", recBefore, freed, A))
		}
	}
	// radius
	radius := cs.Radius()
	over95 := recBefore > uint64(float64(capB)*0.95)
	switch {
	case !over95:
		if !radius.Eq(maxU256) {
			viol("radius-maximum-below-95-percent", "NewStorage", fmt.Sprintf("persisted usage %d <= 95%% of capacity but the radius after opening is %s", recBefore, radius.Hex()))
		}
	case len(after) == 0:
		// the usage figure said > 95% but opening pruned everything: an empty store is not
		// "more than 95% full" under any reading, and there is no retained item to derive from
		r.Count("over95_but_empty_after_open", 1)
		if !radius.Eq(maxU256) {
			viol("radius-maximum-below-95-percent", "NewStorage:empty-store", fmt.Sprintf("persisted usage %d at the cut, nothing retained after opening, radius %s (every later put is refused)", recBefore, radius.Hex()))
		}
	default:
		far := after[len(after)-1].K
		le := new(uint256.Int)
		le.UnmarshalSSZ(far)
		if !radius.Eq(beUint(far)) && !radius.Eq(le) {
			viol("radius-from-farthest-retained-above-95-percent", "NewStorage", fmt.Sprintf("persisted usage %d > 95%% of capacity; farthest retained key %s; radius after opening %s", recBefore, hx(far), radius.Hex()))
		}
	}
	// further operations
	for j, n := range []int{100, 30_000} {
		id := c17Id(fmt.Sprintf("after-%d", j))
		v := fillBytes(n, byte(0x70+j))
		if err := cs.Put(nil, id, v); err == nil {
			synctest.Wait()
			got, gerr := cs.Get(nil, id)
			items, rec, has := scanDB()
			if gerr == nil && !bytes.Equal(got, v) {
				viol("further-put-get", "ContentStorage.Get", "a put after recovery reads back differently")
			}
			if has && rec < held(items) {
				viol("persisted-usage-not-below-present", "persisted record (after further put)", fmt.Sprintf("usage %d < held %d", rec, held(items)))
			}
		}
	}
	digest = fmt.Sprintf("started=%d completed=%d items=%d rec=%d over95=%v radiusMax=%v", cut.started, cut.completed, len(after), recAfter, over95, radius.Eq(maxU256))
	return digest
}

func runC17(r *mc.Report, e *Env) {
	r.Rule = "one case = (history, write-op index k, whole | torn to 1 byte | half | all but one byte, loss pattern over the files with unsynced state: all kept | all dropped | per-file mixtures): run the real store on pebble over a strict in-memory FS, freeze every FS operation from the k-th write-kind operation on, copy the tree, reopen with pebble.Open + NewStorage, evaluate the recovery clauses, then two further puts; distinct = distinct (puts started/completed, items, usage, radius) observations"
	r.Assume("crash model: fail-stop at file-system operation boundaries, or inside one file Write after a prefix of 1 byte / half / all but one byte of its buffer; unsynced state (pebble's strict MemFS) is lost per unit — each file's unsynced tail on its own, the unsynced directory entries (creations, removals, renames) together, in order: all kept, all dropped, and mixtures (thorough: every subset when at most 5 units differ, otherwise and in the quick tier the subsets one unit away from either extreme); quick tier tears with all unsynced data kept only")
	r.Rule += "; second part (open under fault): one case = (put sequence = non-empty prefix of a history, small memtable or not, capacity 1 MB | 4 MB in the first life (reopened with 1 MB), first life ends with a clean close (log replayed on open) [thorough: | flush, then close], index r of the read-kind file-system operation performed by the goroutine inside NewStorage, fault = that operation only | that and all later ones): pebble.Open without faults, NewStorage under the fault, retry on a restarted process if it failed, two further puts, clean shutdown, clean reopen judged by the recovery clauses"
	r.Assume("open under fault: only read-kind operations (open, opendir, list, stat, read, read-at, file stat) issued by the goroutine that calls NewStorage are failed (errorfs.ErrInjected), pebble.Open itself and the database's background work run without faults; write-kind operations are not failed (pebble treats a failing WAL / manifest write as fatal by design); a panic raised inside pebble purely because of the injected fault counts as a loud failure of the open, a panic raised in repository code as a violation; a store handed out although a read failed is judged on usage figure, items and pruning-only-when-over-capacity, while a missing re-derivation of the radius / missing prune in that store is only counted (open_fault_handed_out_*): the statement speaks of crashes, not of failing reads")
	r.Assume("either byte order of the farthest retained key is accepted as the re-derived radius (which one is C06's question)")
	tasks := c17Tasks(e.Thorough())
	nh := map[string]bool{}
	for _, t := range tasks {
		if t.Fault == nil {
			nh[t.H.Name] = true
		}
	}
	r.Set("open_fault_put_sequences", len(c17FaultSpecs(e.Thorough())))
	r.Set("histories", len(nh))
	for ti := range tasks {
		{
			if e.Of > 1 && e.Shard != ti {
				continue
			}
			if tasks[ti].Fault != nil {
				c17FaultExplore(r, e, tasks[ti].Fault)
				continue
			}
			h, sh, of := &tasks[ti].H, tasks[ti].Sh, int64(tasks[ti].Of)
			for _, small := range []bool{false, true} {
				var n1, n2 int64
				for try := 0; try < 3; try++ { // fault-free runs: how many write operations are there
					var n int64
					inBubble(func() { n = c17Execute(h, -1, small, 0).ops })
					if try == 0 || n < n2 {
						n2 = n
					}
					if n > n1 {
						n1 = n
					}
				}
				if n1 != n2 && sh == 0 {
					// background flush/compaction order is not fully owned: every index up to the
					// largest count is still tried, but the run is not called exhaustive
					r.NotExhaustive(fmt.Sprintf("history %s (small=%v): fault-free runs performed between %d and %d write operations", h.Name, small, n2, n1))
				}
				if sh == 0 {
					r.Max("max_write_ops_in_a_history", n1)
					r.Count("crash_points", n1)
					if !strings.HasPrefix(h.Name, "gen:") || len(h.Name)%13 == 0 {
						r.Sample(map[string]any{"history": h.Name, "small_memtable": small, "puts": h.Ops, "write_ops": n1})
					}
				}
				stride := int64(1)
				if !e.Thorough() && n1 > 150 {
					stride = 2
					r.NotExhaustive("quick tier takes every 2nd crash point of histories with more than 150 write operations")
				}
				for k := int64(0); k < n1; k += stride {
					if k%of != int64(sh) {
						continue
					}
					if e.Expired() {
						return
					}
					for tear := 0; tear <= 3; tear++ {
						c17Point(r, h, small, k, tear, e.Thorough(), nil, func(c c17Case, d string) {
							switch {
							case d == "not-reached":
								if tear == 0 {
									r.Count("crash_points_not_reached_on_replay", 1)
									r.NotExhaustive("some crash points beyond the shortest fault-free run were not reached when the history was replayed (pebble's background flush / compaction order is not owned by the explorer)")
								}
							case d == "tear-n/a":
								r.Count("cuts_whose_operation_cannot_be_torn", 1)
							default:
								r.Exec(h.Name + "|" + d)
								r.Count("recoveries", 1)
								switch {
								case c.Tear > 0 && c.Mixed:
									r.Count("recoveries_torn_write_and_per_file_loss", 1)
								case c.Tear > 0:
									r.Count("recoveries_torn_write", 1)
								case c.Mixed:
									r.Count("recoveries_per_file_loss", 1)
								}
							}
						})
					}
				}
			}
		}
	}
	r.SetMaxSamples(12)
}

func replayC17(r *mc.Report, e *Env, raw json.RawMessage) {
	var fc c17FaultCase
	if err := json.Unmarshal(raw, &fc); err == nil && fc.Kind == c17FaultKind {
		replayC17Fault(r, fc)
		return
	}
	var c c17Case
	if err := json.Unmarshal(raw, &c); err != nil {
		panic(err)
	}
	if h := c17HistoryByName(c.History); h != nil {
		c17Point(r, h, c.Small, c.K, c.Tear, true, &c, func(_ c17Case, d string) { fmt.Println("outcome:", d) })
	} else {
		fmt.Println("unknown history", c.History)
	}
}
