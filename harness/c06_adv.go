package main

import (
	"fmt"
	"testing/synctest"

	"github.com/holiman/uint256"
	"github.com/zen-eth/shisui/portalwire"
	"github.com/zen-eth/shisui/storage"
	"verifharness/mc"
)

// C06 (advertised part) — "every retained item lies within the ADVERTISED radius ... the
// in-range test used to pick gossip targets applies this same rule". What a peer hears is
// what it gossips by: the radius a peer ends up holding for us, read the way its gossip
// reads it (SSZ uint256), must be the number our store reports - for every radius of the
// lattice (most are not byte-palindromes), every network, every radius-carrying payload
// type, in the PONG we answer with and in the PING we send.
//
// Handler level: responder and asker are two unstarted nodes; the responder's real
// handler answers a PING of each supported type, the asker's real PONG processing files
// the answer. Wire level: two started nodes on the in-memory wire ping each other three
// times each (the payload type is then chosen by the nodes themselves from what they have
// learnt about each other), the radii changing between pings.

type c06AdvCase struct {
	Adv    string `json:"advertised_via"`
	Proto  string `json:"proto"`
	Radius string `json:"radius"`
	Typ    uint16 `json:"payload_type"`
}

var c20KeyIdx = 20

func c06Heard(p *portalwire.PortalProtocol, of *portalwire.PortalProtocol) (*uint256.Int, []byte) {
	raw := p.VerifCachedRadius(of.Self().ID())
	v := new(uint256.Int)
	if len(raw) != 32 || v.UnmarshalSSZ(raw) != nil {
		return nil, raw
	}
	return v, raw
}

func c06Advertised(r *mc.Report) {
	lat := c06Lattice()
	// asymmetric bit patterns beside the boundary lattice
	lat = append(lat, uint256.MustFromHex("0x1102030405060708090a0b0c0d0e0f101112131415161718191a1b1c1d1e1f20"),
		new(uint256.Int).AddUint64(new(uint256.Int).Lsh(uint256.NewInt(1), 254), 1), new(uint256.Int).AddUint64(new(uint256.Int).Lsh(uint256.NewInt(1), 248), 0x40))
	for _, proto := range []string{"history", "state", "beacon"} {
		msg := inBubble(func() {
			c20KeyIdx = 20
			f1 := newC20FixConf(proto, 3, 50, nil)
			c20KeyIdx = 21
			f2 := newC20FixConf(proto, 3, 50, nil)
			c20KeyIdx = 20
			defer f1.close()
			defer f2.close()
			f2.vt.InsertDirect(f1.bn.P.Self(), true)
			me := f2.bn.P.Self()
			for _, radius := range lat {
				f1.st.radius = radius
				for typ := range c20Carries[proto] {
					cs := c06AdvCase{"PONG", proto, radius.Hex(), typ}
					reply := f1.talkPing(me, me.Seq(), typ, c20SSZ(c20Rs["r1"]))
					synctest.Wait()
					f2.bn.P.VerifResetPeerCaches()
					if len(reply) > 0 {
						f2.bn.P.VerifProcessPong(f1.bn.P.Self(), reply)
					}
					synctest.Wait()
					heard, raw := c06Heard(f2.bn.P, f1.bn.P)
					if heard == nil || !heard.Eq(radius) {
						r.Violation("advertised-radius-is-the-store-radius", fmt.Sprintf("PONG:type-%d", typ),
							fmt.Sprintf("%s network, store radius %s: the asker processed our PONG of payload type %d and now holds %x for us (gossip reads that as %v)", proto, radius.Hex(), typ, raw, heard), cs)
					}
					r.Exec(fmt.Sprintf("adv|pong|%s|%d|%v", proto, typ, heard != nil && heard.Eq(radius)))
				}
			}
		})
		if msg != "" {
			r.EngineError("C06 advertised (handler level, " + proto + "): " + msg)
		}
		// wire level
		msg = inBubble(func() {
			w := newWire()
			w.immediate = true
			sa := &fixedRadiusStore{ContentStorage: storage.NewMockStorage(), radius: new(uint256.Int).SetAllOne()}
			sb := &fixedRadiusStore{ContentStorage: storage.NewMockStorage(), radius: new(uint256.Int).SetAllOne()}
			a := newMNode(w, mnodeOpts{keyIdx: 61, proto: c20Protos[proto], store: sa, utpLimit: 5})
			b := newMNode(w, mnodeOpts{keyIdx: 62, proto: c20Protos[proto], store: sb, utpLimit: 5})
			defer a.close()
			defer b.close()
			// a radius is only recorded for a node of the routing table (C20): the two know each other
			a.P.VerifTable().InsertDirect(b.Self(), true)
			b.P.VerifTable().InsertDirect(a.Self(), true)
			synctest.Wait()
			one := uint256.NewInt(1)
			for i, radius := range lat {
				other := new(uint256.Int).Xor(radius, new(uint256.Int).Lsh(one, uint(7+i)))
				sa.radius, sb.radius = radius, other
				for round := 0; round < 3; round++ {
					from, to, rf, rt := a, b, radius, other
					if (round+i)%2 == 1 {
						from, to, rf, rt = b, a, other, radius
					}
					_, err := from.P.VerifPing(to.Self())
					synctest.Wait()
					if err != nil {
						r.Count("advertised_wire_pings_failed", 1)
						continue
					}
					cs := c06AdvCase{"wire", proto, radius.Hex(), 0}
					if heard, raw := c06Heard(to.P, from.P); heard == nil || !heard.Eq(rf) {
						r.Violation("advertised-radius-is-the-store-radius", "PING:over-the-wire",
							fmt.Sprintf("%s network, round %d: the pinging node's store radius is %s, the pinged node now holds %x for it (gossip reads that as %v)", proto, round, rf.Hex(), raw, heard), cs)
					}
					if heard, raw := c06Heard(from.P, to.P); heard == nil || !heard.Eq(rt) {
						r.Violation("advertised-radius-is-the-store-radius", "PONG:over-the-wire",
							fmt.Sprintf("%s network, round %d: the answering node's store radius is %s, the pinging node now holds %x for it (gossip reads that as %v)", proto, round, rt.Hex(), raw, heard), cs)
					}
					r.Exec(fmt.Sprintf("adv|wire|%s|%d", proto, round))
					r.Count("advertised_wire_pings", 1)
				}
			}
		})
		if msg != "" {
			r.EngineError("C06 advertised (wire level, " + proto + "): " + msg)
		}
	}
}
