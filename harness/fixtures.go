package main

import (
	"crypto/ecdsa"
	"crypto/sha256"
	"encoding/binary"
	"encoding/hex"
	"fmt"
	"math/big"
	"net"
	"time"

	"github.com/ethereum/go-ethereum/crypto"
	"github.com/ethereum/go-ethereum/p2p/enode"
	"github.com/ethereum/go-ethereum/p2p/enr"
	cache "github.com/go-pkgz/expirable-cache/v3"
	"github.com/zen-eth/shisui/portalwire"
	"github.com/zen-eth/shisui/storage"
)

// detKey returns a deterministic secp256k1 key for index i.
func detKey(i int) *ecdsa.PrivateKey {
	var seed [40]byte
	copy(seed[:], "verif-harness-key")
	binary.BigEndian.PutUint64(seed[32:], uint64(i))
	for ctr := 0; ; ctr++ {
		h := sha256.Sum256(append(seed[:], byte(ctr)))
		k, err := crypto.ToECDSA(h[:])
		if err == nil {
			return k
		}
	}
}

// keyWithLogDist searches deterministic keys for one whose node id is at log
// distance d from base (d close to 256 is found quickly; small d is not).
func keyWithLogDist(base enode.ID, d int, start int) (*ecdsa.PrivateKey, int) {
	for i := start; ; i++ {
		k := detKey(i)
		id := enode.PubkeyToIDV4(&k.PublicKey)
		if enode.LogDist(base, id) == d {
			return k, i
		}
	}
}

type versEntry []uint8

func (versEntry) ENRKey() string { return "pv" }

type rawEntry struct {
	k string
	v interface{}
}

// signedNode builds a signed node record.
func signedNode(key *ecdsa.PrivateKey, seq uint64, ip net.IP, port int, entries ...enr.Entry) *enode.Node {
	var r enr.Record
	if ip != nil {
		r.Set(enr.IP(ip))
	}
	if port != 0 {
		r.Set(enr.UDP(port))
	}
	for _, e := range entries {
		r.Set(e)
	}
	r.SetSeq(seq)
	if err := enode.SignV4(&r, key); err != nil {
		panic(err)
	}
	n, err := enode.New(enode.ValidSchemes, &r)
	if err != nil {
		panic(err)
	}
	return n
}

// bareNode is a PortalProtocol that is not started: no discv5, no uTP, no table
// loop. Handlers that only need caches, storage and the local record work on it.
type bareNode struct {
	P    *portalwire.PortalProtocol
	Key  *ecdsa.PrivateKey
	DB   *enode.DB
	LN   *enode.LocalNode
	Q    chan *portalwire.ContentElement
	Stor storage.ContentStorage
}

type bareOpts struct {
	keyIdx   int
	versions []uint8 // nil: no "pv" entry → protocol default {0,1}
	proto    portalwire.ProtocolId
	store    storage.ContentStorage
	queueCap int
	ttl      time.Duration
	ip       net.IP
	port     int
	utpLimit int
	conf     *portalwire.PortalProtocolConfig // nil: a config of its own (portal/node.go hands ONE config object to every sub-protocol)
}

func newBareNode(o bareOpts) *bareNode {
	key := detKey(o.keyIdx)
	db, err := enode.OpenDB("")
	if err != nil {
		panic(err)
	}
	ln := enode.NewLocalNode(db, key)
	ip := o.ip
	if ip == nil {
		ip = net.IP{127, 0, 0, 1}
	}
	port := o.port
	if port == 0 {
		port = 9000 + o.keyIdx
	}
	ln.SetStaticIP(ip)
	ln.SetFallbackUDP(port)
	ln.Set(portalwire.Tag)
	if o.versions != nil {
		ln.Set(versEntry(o.versions))
	}
	ln.Node() // sign now (LocalNode.Node sleeps under its mutex when re-signing)
	conf := o.conf
	if conf == nil {
		conf = portalwire.DefaultPortalProtocolConfig()
	}
	conf.RadiusCacheSize = 1 << 20
	conf.CapabilitiesCacheSize = 1 << 20
	conf.EphemeralHeaderCountCacheSize = 1 << 20
	conf.ContentKeyCacheSize = 1 << 20
	if o.ttl != 0 {
		conf.VersionsCacheTTL = o.ttl
	}
	if o.utpLimit != 0 {
		conf.MaxUtpConnSize = o.utpLimit
	}
	if len(o.proto) == 0 {
		o.proto = portalwire.History
	}
	if o.store == nil {
		o.store = storage.NewMockStorage()
	}
	qc := o.queueCap
	if qc == 0 {
		qc = 50
	}
	q := make(chan *portalwire.ContentElement, qc)
	vc := cache.NewCache[*enode.Node, uint8]().WithMaxKeys(conf.VersionsCacheSize).WithTTL(conf.VersionsCacheTTL)
	p, err := portalwire.NewPortalProtocol(conf, o.proto, key, nil, ln, nil, nil, o.store, q, vc)
	if err != nil {
		panic(err)
	}
	return &bareNode{P: p, Key: key, DB: db, LN: ln, Q: q, Stor: o.store}
}

func (b *bareNode) Close() { b.DB.Close() }

func hx(b []byte) string {
	if len(b) > 96 {
		return fmt.Sprintf("%s…(%d bytes)", hex.EncodeToString(b[:48]), len(b))
	}
	return hex.EncodeToString(b)
}

func bigOf(b []byte) *big.Int { return new(big.Int).SetBytes(b) }

// panicsTo runs f and returns a non-empty description if it panicked.
func panicsTo(f func()) (msg string, site string) {
	defer func() {
		if r := recover(); r != nil {
			msg = fmt.Sprint(r)
			site = repoFrame()
		}
	}()
	f()
	return "", ""
}

// initTable gives an unstarted node its routing table (what Start() would create)
// without running the table loop; fill it with vt.InsertDirect.
func (b *bareNode) initTable() *portalwire.VTable {
	vt, err := b.P.VerifInitTable(portalwire.Config{DisableInitCheck: true, PingInterval: 10000 * time.Hour, RefreshInterval: 10000 * time.Hour})
	if err != nil {
		panic(err)
	}
	return vt
}
