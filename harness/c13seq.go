package main

import (
	"bytes"
	"crypto/sha256"
	"encoding/hex"
	"fmt"

	"github.com/zen-eth/shisui/state"
	"github.com/zen-eth/shisui/storage"
	"verifharness/mc"
)

// C13, one validator instance for a sequence of items (the network keeps one validator for
// its whole life). For every genuine case with a proof of L >= 2 nodes and every split
// 1 <= j < L: first an item carrying the proof's first j nodes under a block the header source
// does not know (rejected after it was decoded), then the same claim with only the remaining
// L-j nodes and an honest header source. The second item's proof does not start at the state
// root: it must be rejected by the validator that saw the first item exactly as by a fresh
// one. Also the honest item after the rejected one must still be accepted (counted as drift
// if not: that direction is completeness).

type c13SeqCase struct {
	Part   string  `json:"part"` // "carried-validator"
	First  c13Case `json:"first"`
	Second c13Case `json:"second"`
}

type c13MutOracle struct{ c13Oracle }

func c13ProofOf(c *c13Case) *[]hexb {
	if c.Kind == 0x22 {
		return &c.Acct
	}
	return &c.Proof
}

func c13Sequences(r *mc.Report, e *Env) {
	n := 0
	for i, b := range c13Bases(e.Thorough()) {
		if !b.genuine || !e.Mine(i) {
			continue
		}
		if e.Expired() {
			return
		}
		proof := *c13ProofOf(&b.c)
		for j := 1; j < len(proof); j++ {
			first, second, honest := b.c.clone(), b.c.clone(), b.c.clone()
			*c13ProofOf(&first) = append([]hexb{}, proof[:j]...)
			first.Roots = map[string]hexb{} // the header source does not know the block
			first.Op = fmt.Sprintf("first %d proof nodes, unknown block", j)
			*c13ProofOf(&second) = append([]hexb{}, proof[j:]...)
			second.Op = fmt.Sprintf("proof without its first %d nodes", j)
			cs := c13SeqCase{"carried-validator", first, second}
			or := &c13MutOracle{}
			carried := state.NewStateValidator(or)
			run := func(v *state.StateValidator, c *c13Case) (err error, panicked string) {
				or.c13Oracle = c13Oracle(c.Roots)
				key, content := c.wire()
				panicked, _ = panicsTo(func() { err = v.ValidateContent(key, content) })
				return
			}
			e1, p1 := run(carried, &first)
			e2, p2 := run(carried, &second)
			if p1 != "" || p2 != "" {
				r.Violation("rejects-with-error-not-panic", "ValidateContent:carried-validator", p1+p2, cs)
				continue
			}
			if e1 == nil {
				r.Count("model_drift_item_under_unknown_block_accepted", 1)
			}
			fresh := state.NewStateValidator(or)
			ef, _ := run(fresh, &second)
			if ref, _ := refJudge(&second); e2 == nil && ref.st != c13Accept {
				r.Violation("accepted-only-with-valid-proof", c13KindName[b.c.Kind]+":after-a-rejected-item-on-the-same-validator",
					fmt.Sprintf("%s: after an item with the first %d proof nodes was rejected (unknown block), the claim with only the remaining %d nodes was accepted by the same validator (a fresh validator says: %v; reference: %s)", b.c.Base, j, len(proof)-j, ef, ref), cs)
			}
			// the honest item on the used validator
			if eh, _ := run(carried, &honest); eh != nil {
				r.Count("model_drift_honest_item_rejected_after_a_rejected_one", 1)
			}
			r.Exec(fmt.Sprintf("carried|%s|%d/%d|%v|%v|%v", c13KindName[b.c.Kind], j, len(proof), e1 == nil, e2 == nil, ef == nil))
			n++
		}
	}
	r.Count("carried_validator_sequences", int64(n))
	c13OtherBlock(r, e)
	c13HeldKeys(r, e)
}

// c13OtherBlock: after a genuine item was accepted, the same item naming ANOTHER block the header
// source knows (with another state root) must be rejected by the same validator as by a fresh one:
// its proof does not start at that block's state root.
func c13OtherBlock(r *mc.Report, e *Env) {
	n := 0
	otherHash := sha256.Sum256([]byte("verif c13 another known block"))
	otherRoot := sha256.Sum256([]byte("verif c13 another state root"))
	for i, b := range c13Bases(e.Thorough()) {
		if !b.genuine || !e.Mine(i) || e.Expired() {
			continue
		}
		first, second := b.c.clone(), b.c.clone()
		roots := map[string]hexb{hex.EncodeToString(otherHash[:]): otherRoot[:]}
		for k, v := range b.c.Roots {
			roots[k] = v
		}
		first.Roots, second.Roots = roots, roots
		second.Block = otherHash[:]
		second.Op = "names another known block"
		cs := c13SeqCase{"carried-validator", first, second}
		or := &c13MutOracle{c13Oracle(roots)}
		v := state.NewStateValidator(or)
		run := func(v *state.StateValidator, c *c13Case) (err error) {
			key, content := c.wire()
			if m, _ := panicsTo(func() { err = v.ValidateContent(key, content) }); m != "" {
				err = fmt.Errorf("panic: %s", m)
			}
			return
		}
		e1 := run(v, &first)
		e2 := run(v, &second)
		ef := run(state.NewStateValidator(or), &second)
		if e1 != nil {
			r.Count("model_drift_genuine_item_rejected_with_two_known_blocks", 1)
		}
		if e2 == nil {
			r.Violation("accepted-only-with-valid-proof", c13KindName[b.c.Kind]+":other-block-after-the-genuine-item-on-the-same-validator",
				fmt.Sprintf("%s: accepted under its own block, then accepted again naming another block whose state root is different (a fresh validator says: %v)", b.c.Base, ef), cs)
		}
		r.Exec(fmt.Sprintf("otherblock|%s|%v|%v|%v", c13KindName[b.c.Kind], e1 == nil, e2 == nil, ef == nil))
		n++
	}
	r.Count("other_block_sequences", int64(n))
}

// c13HeldKeys: one Storage instance. After the genuine item is held, a Put of forged content
// under the same key must fail exactly as it fails on an empty store.
func c13HeldKeys(r *mc.Report, e *Env) {
	n := 0
	for i, b := range c13Bases(false) {
		if !b.genuine || !e.Mine(i) || e.Expired() {
			continue
		}
		gkey, gcontent := b.c.wire()
		id := sha256.Sum256(gkey)
		used := state.NewStateStorage(storage.NewMockStorage(), nil)
		if err := used.Put(gkey, id[:], gcontent); err != nil {
			continue
		}
		k := 0
		c13Mutants(b.c, b.ctx, false, true, func(m c13Case) {
			mkey, mcontent := m.wire()
			if k >= 60 || !bytes.Equal(mkey, gkey) || bytes.Equal(mcontent, gcontent) {
				return
			}
			k++
			var eu, ef error
			panicsTo(func() { eu = used.Put(mkey, id[:], mcontent) })
			panicsTo(func() { ef = state.NewStateStorage(storage.NewMockStorage(), nil).Put(mkey, id[:], mcontent) })
			if ef != nil && eu == nil {
				r.Violation("stores-exactly-the-final-node-or-code", c13KindName[b.c.Kind]+":put-under-a-key-already-held",
					fmt.Sprintf("%s [%s]: an empty store refuses the item (%v); the store that already holds the genuine item under the key accepts it", b.c.Base, m.Op, ef), c13SeqCase{"held-key", b.c, m})
			}
			n++
		})
	}
	r.Count("held_key_puts", int64(n))
}
