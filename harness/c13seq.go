package main

import (
	"fmt"

	"github.com/zen-eth/shisui/state"
	"verifharness/mc"
)

// C13, one validator instance for a sequence of items (the network keeps one validator for
// its whole life). For every genuine case with a proof of L >= 2 nodes and every split
// 1 <= j < L: first an item carrying the proof's first j nodes under a block the header source
// does not know (rejected after it was decoded), then the same claim with only the remaining
// L-j nodes and an honest header source. The second item's proof does not start at the state
// root: it must be rejected by the validator that saw the first item exactly as by a fresh
// one. Also the honest item after the rejected one must still be accepted (counted as drift
// if not: that direction is completeness).

type c13SeqCase struct {
	Part   string  `json:"part"` // "carried-validator"
	First  c13Case `json:"first"`
	Second c13Case `json:"second"`
}

type c13MutOracle struct{ c13Oracle }

func c13ProofOf(c *c13Case) *[]hexb {
	if c.Kind == 0x22 {
		return &c.Acct
	}
	return &c.Proof
}

func c13Sequences(r *mc.Report, e *Env) {
	n := 0
	for i, b := range c13Bases(e.Thorough()) {
		if !b.genuine || !e.Mine(i) {
			continue
		}
		if e.Expired() {
			return
		}
		proof := *c13ProofOf(&b.c)
		for j := 1; j < len(proof); j++ {
			first, second, honest := b.c.clone(), b.c.clone(), b.c.clone()
			*c13ProofOf(&first) = append([]hexb{}, proof[:j]...)
			first.Roots = map[string]hexb{} // the header source does not know the block
			first.Op = fmt.Sprintf("first %d proof nodes, unknown block", j)
			*c13ProofOf(&second) = append([]hexb{}, proof[j:]...)
			second.Op = fmt.Sprintf("proof without its first %d nodes", j)
			cs := c13SeqCase{"carried-validator", first, second}
			or := &c13MutOracle{}
			carried := state.NewStateValidator(or)
			run := func(v *state.StateValidator, c *c13Case) (err error, panicked string) {
				or.c13Oracle = c13Oracle(c.Roots)
				key, content := c.wire()
				panicked, _ = panicsTo(func() { err = v.ValidateContent(key, content) })
				return
			}
			e1, p1 := run(carried, &first)
			e2, p2 := run(carried, &second)
			if p1 != "" || p2 != "" {
				r.Violation("rejects-with-error-not-panic", "ValidateContent:carried-validator", p1+p2, cs)
				continue
			}
			if e1 == nil {
				r.Count("model_drift_item_under_unknown_block_accepted", 1)
			}
			fresh := state.NewStateValidator(or)
			ef, _ := run(fresh, &second)
			if ref, _ := refJudge(&second); e2 == nil && ref.st != c13Accept {
				r.Violation("accepted-only-with-valid-proof", c13KindName[b.c.Kind]+":after-a-rejected-item-on-the-same-validator",
					fmt.Sprintf("%s: after an item with the first %d proof nodes was rejected (unknown block), the claim with only the remaining %d nodes was accepted by the same validator (a fresh validator says: %v; reference: %s)", b.c.Base, j, len(proof)-j, ef, ref), cs)
			}
			// the honest item on the used validator
			if eh, _ := run(carried, &honest); eh != nil {
				r.Count("model_drift_honest_item_rejected_after_a_rejected_one", 1)
			}
			r.Exec(fmt.Sprintf("carried|%s|%d/%d|%v|%v|%v", c13KindName[b.c.Kind], j, len(proof), e1 == nil, e2 == nil, ef == nil))
			n++
		}
	}
	r.Count("carried_validator_sequences", int64(n))
}
