package main

import (
	"bytes"
	"crypto/sha256"
	"encoding/binary"
	"encoding/hex"
	"encoding/json"
	"errors"
	"fmt"
	"strings"
	"sync"
	"time"

	"github.com/ethereum/go-ethereum/common"
	"github.com/ethereum/go-ethereum/core/types"
	"github.com/ethereum/go-ethereum/rlp"
	"github.com/holiman/uint256"
	"github.com/protolambda/zrnt/eth2/beacon/capella"
	"github.com/zen-eth/shisui/history"
	"github.com/zen-eth/shisui/storage"
	"verifharness/mc"
)

// C02 — history content is accepted only when bound to its key and the trusted roots.
//
// Every case is one call of the real Network.validateContents (real HistoryValidator,
// built-in accumulators, stub header source, recording store) on a (key, content,
// header-source answer) triple. Enumerated: the honest pairs of the corpus; single-bit
// flips, truncations and extensions of every content; every bit / truncation / extension
// of every key; every ordered cross-pairing key_i/content_j under a 4-entry answer menu of
// the header source; the right header with each root changed; the same body in the other
// SSZ container; whole-field splices between vectors. Judged by an independent
// reference: an accepted item must be bound to its key as the statement says.

func init() {
	register(&Prop{ID: "C02", Level: "exploration", Run: runC02, Replay: replayC02,
		Workers: func(e *Env) int { return minInt(cpus(), 16) },
		Budget: func(tier string) time.Duration {
			if tier == "thorough" {
				return 18 * time.Minute
			}
			return 100 * time.Second
		}})
}

type c02Case struct {
	Seed    string `json:"seed"`
	Kind    string `json:"kind"` // mutation family ("honest": the unmutated pair)
	Detail  string `json:"detail,omitempty"`
	Key     string `json:"key"`
	Content string `json:"content"`
	Oracle  string `json:"oracle"`           // "honest": the header with the asked hash or an error; "serve": Served whatever is asked; "error"
	Served  string `json:"served,omitempty"` // RLP of the served header
}

// ---- the header source stub and the recording store ----

type c02Oracle struct {
	c     *c02Corpus
	mode  string
	serve *types.Header
	last  *types.Header // what the last call answered
}

func (o *c02Oracle) GetHistoricalSummaries(uint64) (capella.HistoricalSummaries, error) {
	return o.c.Summaries, nil
}
func (o *c02Oracle) GetFinalizedStateRoot() ([]byte, error) { return nil, errors.New("not served") }
func (o *c02Oracle) GetBlockHeaderByHash(hash []byte) (*types.Header, error) {
	o.last = nil
	switch {
	case o.mode == "serve":
		o.last = types.CopyHeader(o.serve)
	case o.mode == "honest" && len(hash) == 32 && o.c.ByHash[common.BytesToHash(hash)] != nil:
		o.last = types.CopyHeader(o.c.ByHash[common.BytesToHash(hash)].Header)
	default:
		return nil, errors.New("header source: not found")
	}
	return o.last, nil
}

type c02Put struct{ key, id, content []byte }

type c02Store struct {
	mu   sync.Mutex
	db   map[string][]byte
	puts []c02Put
}

func (s *c02Store) reset() {
	s.mu.Lock()
	s.db, s.puts = map[string][]byte{}, nil
	s.mu.Unlock()
}
func (s *c02Store) Get(_, id []byte) ([]byte, error) {
	s.mu.Lock()
	defer s.mu.Unlock()
	if v, ok := s.db[string(id)]; ok {
		return v, nil
	}
	return nil, storage.ErrContentNotFound
}
func (s *c02Store) Put(key, id, content []byte) error {
	s.mu.Lock()
	defer s.mu.Unlock()
	s.puts = append(s.puts, c02Put{append([]byte{}, key...), append([]byte{}, id...), append([]byte{}, content...)})
	s.db[string(id)] = content
	return nil
}
func (s *c02Store) Radius() *uint256.Int { return storage.MaxDistance }
func (s *c02Store) Close() error         { return nil }

type c02Ctx struct {
	r    *mc.Report
	e    *Env
	c    *c02Corpus
	or   *c02Oracle
	st   *c02Store
	val  *history.HistoryValidator
	net  *history.Network
	n    int
	stop bool
	err  error // of the last validateContents call
}

func newC02Ctx(r *mc.Report, e *Env) *c02Ctx {
	x := &c02Ctx{r: r, e: e, c: c02LoadCorpus(), st: &c02Store{}}
	x.or = &c02Oracle{c: x.c}
	x.val = history.NewHistoryValidator(x.or)
	x.net = history.NewHistoryNetwork(newBareNode(bareOpts{keyIdx: 2, store: x.st}).P, x.val)
	return x
}

// mine numbers the cases and deals them out to the workers.
func (x *c02Ctx) mine() bool {
	x.n++
	if x.n%512 == 0 && x.e.Expired() {
		x.stop = true
	}
	return !x.stop && x.e.Mine(x.n)
}

// ---- the reference: is this content bound to this key? ----

func c02Era(n uint64) string {
	switch {
	case n < 15_537_394:
		return "pre-merge"
	case n < 17_034_870:
		return "bellatrix"
	case n < 19_426_587:
		return "capella"
	}
	return "deneb"
}

func refBodyValue(content []byte) (txs types.Transactions, uncles []*types.Header, wds types.Withdrawals, legacy, ok bool) {
	b, ok := refDecodeBody(content)
	if !ok {
		return
	}
	for _, raw := range b.Txs {
		tx := new(types.Transaction)
		if tx.UnmarshalBinary(raw) != nil {
			return nil, nil, nil, false, false
		}
		txs = append(txs, tx)
	}
	for _, raw := range b.Wds {
		w := new(types.Withdrawal)
		if rlp.DecodeBytes(raw, w) != nil {
			return nil, nil, nil, false, false
		}
		wds = append(wds, w)
	}
	return txs, uncles, wds, !b.Shanghai, rlp.DecodeBytes(b.Uncles, &uncles) == nil
}

// rootsMismatch names the first root of header t that the body does not have ("" = all
// equal). A header without a withdrawals root commits to no withdrawal.
func rootsMismatch(txs types.Transactions, uncles []*types.Header, wds types.Withdrawals, t *types.Header) string {
	switch {
	case deriveSha(txs) != t.TxHash:
		return "tx-root"
	case types.CalcUncleHash(uncles) != t.UncleHash:
		return "uncle-hash"
	case t.WithdrawalsHash == nil && len(wds) > 0, t.WithdrawalsHash != nil && deriveSha(wds) != *t.WithdrawalsHash:
		return "withdrawals-root"
	}
	return ""
}

// unbound returns ("", "") if content is bound to key as the statement demands,
// else the violated clause and the input class.
func (x *c02Ctx) unbound(key, content []byte) (clause, site string) {
	if len(key) == 0 || key[0] > 3 {
		return "key-selector-known", "unknown-selector"
	}
	served := "source-served-the-header-with-the-key-hash"
	if x.or.last == nil {
		served = "no-header-served"
	} else if len(key) != 33 || x.or.last.Hash() != common.BytesToHash(key[1:]) {
		served = "source-served-a-header-with-another-hash"
	}
	var t *types.Header
	if len(key) == 33 && x.c.ByHash[common.BytesToHash(key[1:])] != nil {
		t = x.c.ByHash[common.BytesToHash(key[1:])].Header
	}
	switch key[0] {
	case 0x00, 0x03:
		f, ok := refFields(content, 2)
		h := new(types.Header)
		if !ok || rlp.DecodeBytes(f[0], h) != nil {
			return "accepted-content-decodes", "header"
		}
		if key[0] == 0x00 && (len(key) != 33 || h.Hash() != common.BytesToHash(key[1:])) {
			return "header-hash-equals-key", "header-by-hash"
		}
		if key[0] == 0x03 && (len(key) < 9 || !h.Number.IsUint64() || h.Number.Uint64() != binary.LittleEndian.Uint64(key[1:])) {
			return "header-number-equals-key", "header-by-number"
		}
		if key[0] == 0x03 && len(key) != 9 {
			return "header-number-equals-key", "key-with-surplus-bytes"
		}
		// Merkle branches are unique: besides the genuine vector only a neighbouring slot
		// can verify (a missed slot repeats the previous block root in the accumulator)
		if g := x.c.Honest[string(key)]; !bytes.Equal(g, content) {
			if n := len(content) - 8; len(g) != len(content) || !bytes.Equal(g[:n], content[:n]) || c02Era(h.Number.Uint64()) == "pre-merge" {
				return "header-proof-verifies", c02Era(h.Number.Uint64())
			}
			x.r.Count("accepted_other_slot_same_branch", 1)
		}
	case 0x01:
		txs, uncles, wds, legacy, ok := refBodyValue(content)
		if !ok {
			// The independent decoder (SSZ split + rlp of transactions, uncles, withdrawals)
			// cannot read a body the validator accepted: its roots cannot equal the header's.
			// (Never observed on the unchanged tree in either tier; an earlier version fell
			// back to the repository's own decoder here and so missed a seeded change that made
			// that decoder swallow the uncle-list error.)
			return "accepted-content-decodes", "body"
		}
		if t == nil {
			return "body-bound-to-key-header", served
		}
		switch m := rootsMismatch(txs, uncles, wds, t); {
		case m == "":
		case served == "source-served-a-header-with-another-hash":
			return "body-bound-to-key-header", served
		case m == "withdrawals-root" && legacy:
			return "withdrawals-root-checked", "legacy-container-under-header-with-withdrawals"
		default:
			return "body-roots-equal-header", m
		}
	case 0x02:
		l, ok := refList(content)
		if !ok {
			return "accepted-content-decodes", "receipts"
		}
		var rcs types.Receipts
		for _, raw := range l {
			rc := new(types.Receipt)
			if rc.UnmarshalBinary(raw) != nil {
				return "accepted-content-decodes", "receipts"
			}
			rcs = append(rcs, rc)
		}
		if t == nil || (deriveSha(rcs) != t.ReceiptHash && served == "source-served-a-header-with-another-hash") {
			return "receipts-bound-to-key-header", served
		}
		if deriveSha(rcs) != t.ReceiptHash {
			return "receipt-root-equals-header", "receipt-root"
		}
	}
	return "", ""
}

// ---- one case ----

func c02ErrClass(err error) string {
	if u := errors.Unwrap(err); u != nil {
		err = u
	}
	s := err.Error()
	if len(s) > 40 {
		s = s[:40]
	}
	return s
}

func (x *c02Ctx) mkCase(seed, kind, detail string, key, content []byte, mode string, serve *types.Header) c02Case {
	c := c02Case{Seed: seed, Kind: kind, Detail: detail, Key: hex.EncodeToString(key), Content: hex.EncodeToString(content), Oracle: mode}
	if serve != nil && mode == "serve" {
		enc, _ := rlp.EncodeToBytes(serve)
		c.Served = hex.EncodeToString(enc)
	}
	return c
}

// run executes one case on the real code and judges it; it reports whether the
// item was accepted.
func (x *c02Ctx) run(seed, kind, detail string, key, content []byte, mode string, serve *types.Header) bool {
	x.or.mode, x.or.serve, x.or.last = mode, serve, nil
	x.st.reset()
	cs := func() c02Case { return x.mkCase(seed, kind, detail, key, content, mode, serve) }
	what := func() string {
		s := fmt.Sprintf("%s, %s %s: key %s, content %s, header source: %s", seed, kind, detail, hx(key), hx(content), mode)
		if x.or.last != nil {
			s += fmt.Sprintf(" (served header %d with hash %x)", x.or.last.Number, x.or.last.Hash())
		}
		return s
	}
	var err error
	if msg, site := panicsTo(func() { err = x.net.VerifValidateContents([][]byte{key}, [][]byte{content}); x.err = err }); msg != "" {
		x.r.Violation("rejects-with-error-not-panic", site, "panic: "+msg+" on "+what(), cs())
		return false
	}
	id := sha256.Sum256(key)
	switch puts := x.st.puts; {
	case err != nil && len(puts) > 0:
		x.r.Violation("stored-only-if-validated", "history.(*Network).validateContents", "rejected ("+err.Error()+") but stored: "+what(), cs())
	case err == nil && (len(puts) != 1 || !bytes.Equal(puts[0].key, key) || !bytes.Equal(puts[0].id, id[:]) || !bytes.Equal(puts[0].content, content)):
		x.r.Violation("stored-under-offered-key", "history.(*Network).validateContents", fmt.Sprintf("accepted but %d puts / other key, id or bytes: %s", len(puts), what()), cs())
	}
	if err != nil {
		if kind == "honest" {
			x.r.Violation("honest-pair-accepted", seed[strings.LastIndexByte(seed, '/')+1:], "rejected ("+err.Error()+"): "+what(), cs())
		}
		x.r.Exec(seed + "|" + kind + "|" + mode + "|" + c02ErrClass(err))
		return false
	}
	if clause, site := x.unbound(key, content); clause != "" {
		x.r.Violation(clause, site, "accepted although not bound to the key: "+what(), cs())
	} else if kind != "honest" {
		x.r.Count("equivalent_accepted:"+kind, 1) // differs from the honest pair but is bound just the same
	}
	x.r.Exec(seed + "|" + kind + "|" + mode + "|accepted")
	return true
}

// ---- enumeration ----

// c02Bytes: the byte positions of an n-byte string that are mutated (every bit of each
// is flipped in turn; then the byte is inverted and incremented). Thorough: all of them.
func c02Bytes(n int, thorough bool) (out []int) {
	step := 1
	if !thorough && n > 4096 {
		step = (n + 1023) / 1024
	}
	for i := 0; i < n; i++ {
		if i < 64 || i%step == 0 { // offsets and length prefixes: always
			out = append(out, i)
		}
	}
	return
}

// c02Lens: the lengths (< n) a string of n bytes is truncated to.
func c02Lens(n int, thorough bool) (out []int) {
	step := 1
	if !thorough && n > 4096 {
		step = (n + 1023) / 1024
	}
	for l := 0; l < n; l++ {
		if l < 64 || l >= n-64 || l%step == 0 {
			out = append(out, l)
		}
	}
	return
}

func withBit(b []byte, bit int) []byte {
	m := append([]byte{}, b...)
	m[bit/8] ^= 1 << (bit % 8)
	return m
}

func cat(a []byte, b ...byte) []byte { return append(append([]byte{}, a...), b...) }

func isBlockKey(k []byte) bool { return k[0] == 0x01 || k[0] == 0x02 }

func runC02(r *mc.Report, e *Env) {
	r.Rule = "every case is one call of the real Network.validateContents (real HistoryValidator over a stub header source, recording store); non-trivial = every case (the validator ran); distinct = distinct (seed, mutation family, source answer, verdict / error) observations"
	r.Assume("header proofs are judged only through uniqueness: the repository's validator is trusted that the genuine vectors verify (C03 checks the proof arithmetic); no mutant of them may be accepted")
	r.Assume("historical summaries (Capella and later) are served honestly from the repository's test vector; a lying summaries source is not modelled")
	if !e.Thorough() {
		r.Assume("quick tier: contents above 4096 bytes are mutated / truncated at the first 64 and about 1024 evenly strided byte positions (thorough: every position)")
	}
	x := newC02Ctx(r, e)
	th, seeds := e.Thorough(), x.c.Seeds
	cnt := map[string]int64{}
	do := func(family string, s *c02Seed, kind, detail string, key, content []byte, mode string, serve *types.Header) {
		if x.mine() {
			x.run(s.Name, kind, detail, key, content, mode, serve)
			cnt[family]++
		}
	}
	for _, s := range seeds {
		if x.stop {
			break
		}
		hdr := s.Block.Header
		// honest pair, also straight through the validator
		if x.mine() {
			cnt["honest"]++
			x.run(s.Name, "honest", "", s.Key, s.Content, "honest", nil)
			if err := x.val.ValidateContent(s.Key, s.Content); err != nil {
				r.Violation("honest-pair-accepted", "ValidateContent", s.Name+": "+err.Error(), c02Case{Seed: s.Name, Kind: "honest", Key: hex.EncodeToString(s.Key), Content: hex.EncodeToString(s.Content), Oracle: "honest"})
			}
		}
		// content: bit flips, truncations, extensions
		m := append([]byte{}, s.Content...) // mutated in place, restored after each case
		for _, i := range c02Bytes(len(m), th) {
			for op := 0; op < 10; op++ {
				if !x.mine() {
					continue
				}
				switch {
				case op < 8:
					cnt["content_bit_flips"]++
					m[i] ^= 1 << op
					x.run(s.Name, "content-bit-flip", fmt.Sprint(8*i+op), s.Key, m, "honest", nil)
				case op == 8:
					cnt["content_byte_mutations"]++
					m[i] ^= 0xff
					x.run(s.Name, "content-byte-inverted", fmt.Sprint(i), s.Key, m, "honest", nil)
				default:
					cnt["content_byte_mutations"]++
					m[i]++
					x.run(s.Name, "content-byte-incremented", fmt.Sprint(i), s.Key, m, "honest", nil)
				}
				m[i] = s.Content[i]
			}
		}
		for _, l := range c02Lens(len(s.Content), th) {
			do("content_truncations", s, "content-truncated", fmt.Sprint(l), s.Key, s.Content[:l], "honest", nil)
		}
		for _, ext := range [][]byte{{0x00}, {0xff}, make([]byte, 32)} {
			do("content_extensions", s, "content-extended", fmt.Sprintf("+%x", ext), s.Key, cat(s.Content, ext...), "honest", nil)
		}
		// surplus bytes at the end of ONE field of the container, the offsets of the later fields moved
		// along: every part the decoders look at first is genuine, the junk sits where a lenient
		// inner decoder (RLP stream, SSZ list) stops reading
		for _, nf := range []int{3, 2} {
			f, ok := refFields(s.Content, nf)
			if !ok || isBlockKey(s.Key) && s.Key[0] == 0x02 {
				continue
			}
			for i := range f {
				for _, ext := range [][]byte{{0x00}, {0x80}, {0xc0}, {0xff}, make([]byte, 32), f[i]} {
					g := append([][]byte{}, f...)
					g[i] = cat(f[i], ext...)
					do("field_extensions", s, "field-extended", fmt.Sprintf("field %d of %d +%d bytes (first %02x)", i, nf, len(ext), ext[:minInt(1, len(ext))]), s.Key, refJoinFields(g), "honest", nil)
				}
			}
			break
		}
		// key: every bit, truncation, extension; the source answers honestly (by the
		// asked hash) or keeps serving this block's header whatever is asked
		for _, mode := range []string{"honest", "serve"} {
			if mode == "serve" && !isBlockKey(s.Key) {
				continue
			}
			for bit := 0; bit < 8*len(s.Key); bit++ {
				do("key_mutations", s, "key-bit-flip", fmt.Sprint(bit), withBit(s.Key, bit), s.Content, mode, hdr)
			}
			for l := 0; l < len(s.Key); l++ {
				do("key_mutations", s, "key-truncated", fmt.Sprint(l), s.Key[:l], s.Content, mode, hdr)
			}
			do("key_mutations", s, "key-extended", "+00", cat(s.Key, 0), s.Content, mode, hdr)
			do("key_mutations", s, "key-extended", "+ff", cat(s.Key, 0xff), s.Content, mode, hdr)
			// bytes inserted inside the key (a byte 00 / ab at every position after the selector, 32
			// bytes right after it), the key body's leading byte dropped, its leading zero bytes
			// stripped: the right bytes are all there, in the wrong place
			for pos := 1; pos <= len(s.Key); pos++ {
				for _, b := range []byte{0x00, 0xab} {
					k := append(append(append([]byte{}, s.Key[:pos]...), b), s.Key[pos:]...)
					do("key_mutations", s, "key-byte-inserted", fmt.Sprintf("%d:%02x", pos, b), k, s.Content, mode, hdr)
				}
			}
			do("key_mutations", s, "key-bytes-inserted", "32 after the selector", append(append(append([]byte{}, s.Key[:1]...), make([]byte, 32)...), s.Key[1:]...), s.Content, mode, hdr)
			if len(s.Key) > 2 {
				do("key_mutations", s, "key-byte-dropped", "first of the body", append(append([]byte{}, s.Key[:1]...), s.Key[2:]...), s.Content, mode, hdr)
				if body := bytes.TrimLeft(s.Key[1:], "\x00"); len(body) < len(s.Key)-1 {
					do("key_mutations", s, "key-leading-zeros-stripped", "", append(append([]byte{}, s.Key[:1]...), body...), s.Content, mode, hdr)
				}
			}
		}
		if !isBlockKey(s.Key) {
			continue
		}
		// the honest pair against every other answer of the header source
		do("source_menu", s, "source", "error", s.Key, s.Content, "error", nil)
		for _, v := range c02HeaderVariants(hdr) {
			do("source_menu", s, "source", v.name, s.Key, s.Content, "serve", v.h)
		}
		// the same body in the other container, and withdrawals dropped / emptied / invented
		if b, ok := refDecodeBody(s.Content); ok && s.Key[0] == 0x01 {
			for _, v := range c02Reencodings(b) {
				do("reencodings", s, "reencoded", v.name, s.Key, v.b.encode(), "honest", nil)
			}
		}
	}
	// every ordered cross-pairing, under the answer menu of the header source
	for _, ks := range seeds {
		for _, cs := range seeds {
			if ks == cs || x.stop {
				continue
			}
			do("cross_pairings", ks, "cross", "content-of "+cs.Name, ks.Key, cs.Content, "honest", nil)
			if !isBlockKey(ks.Key) {
				continue
			}
			do("cross_pairings", ks, "cross", "content-of "+cs.Name, ks.Key, cs.Content, "error", nil)
			do("cross_pairings", ks, "cross", "content-and-header-of "+cs.Name, ks.Key, cs.Content, "serve", cs.Block.Header)
			sp := types.CopyHeader(ks.Block.Header) // the right header, roots taken from the content's block
			o := cs.Block.Header
			sp.TxHash, sp.UncleHash, sp.ReceiptHash, sp.WithdrawalsHash = o.TxHash, o.UncleHash, o.ReceiptHash, o.WithdrawalsHash
			do("cross_pairings", ks, "cross", "content-of "+cs.Name+" right-header-with-its-roots", ks.Key, cs.Content, "serve", sp)
		}
	}
	// whole-field splices: a body with one field of another body; a header with another header's proof
	for _, a := range seeds {
		for _, b := range seeds {
			if a == b || a.Key[0] != b.Key[0] || a.Key[0] == 0x02 || x.stop {
				continue
			}
			if a.Key[0] == 0x01 {
				ba, _ := refDecodeBody(a.Content)
				bb, _ := refDecodeBody(b.Content)
				for f, name := range []string{"transactions", "uncles", "withdrawals"} {
					m := *ba
					switch {
					case f == 0:
						m.Txs = bb.Txs
					case f == 1:
						m.Uncles = bb.Uncles
					case ba.Shanghai && bb.Shanghai:
						m.Wds = bb.Wds
					default:
						continue
					}
					do("field_splices", a, "splice", name+"-of "+b.Name, a.Key, m.encode(), "honest", nil)
				}
			} else if x.mine() {
				fa, _ := refFields(a.Content, 2)
				fb, _ := refFields(b.Content, 2)
				enc, _ := (&history.BlockHeaderWithProof{Header: fa[0], Proof: fb[1]}).MarshalSSZ()
				cnt["field_splices"]++
				x.run(a.Name, "splice", "proof-of "+b.Name, a.Key, enc, "honest", nil)
			}
		}
	}
	// several items in one call: whatever is stored was accepted on its own
	for i := range seeds {
		if !x.mine() {
			continue
		}
		cnt["batches"]++
		g, o := seeds[i], seeds[(i+2)%len(seeds)]
		items := [][2][]byte{{g.Key, g.Content}, {o.Key, g.Content}, {o.Key, o.Content}, {g.Key, o.Content}}
		var keys, contents [][]byte
		ok := map[string]bool{}
		for _, it := range items {
			if x.run(g.Name, "batch-item", "", it[0], it[1], "honest", nil) {
				ok[string(it[0])+"|"+string(it[1])] = true
			}
			keys, contents = append(keys, it[0]), append(contents, it[1])
		}
		x.or.mode = "honest"
		x.st.reset()
		panicsTo(func() { x.net.VerifValidateContents(keys, contents) }) // a panic was reported for the single item already
		for _, p := range x.st.puts {
			if id := sha256.Sum256(p.key); !ok[string(p.key)+"|"+string(p.content)] || !bytes.Equal(p.id, id[:]) {
				r.Violation("stored-only-if-validated", "history.(*Network).validateContents", "batch starting at "+g.Name+": stored an item that is not accepted on its own: key "+hx(p.key), c02Case{Seed: g.Name, Kind: "batch-item", Key: hex.EncodeToString(p.key), Content: hex.EncodeToString(p.content), Oracle: "honest"})
			}
		}
		r.Exec(fmt.Sprintf("batch|%s|%d stored", g.Name, len(x.st.puts)))
		// the same key twice: the genuine item first, then other content under that key - in one
		// call, and in a second call once the genuine item is in the store
		for variant := 0; variant < 2; variant++ {
			x.st.reset()
			panicsTo(func() {
				if variant == 0 {
					x.net.VerifValidateContents([][]byte{g.Key, g.Key}, [][]byte{g.Content, o.Content})
				} else {
					x.net.VerifValidateContents([][]byte{g.Key}, [][]byte{g.Content})
					x.net.VerifValidateContents([][]byte{g.Key}, [][]byte{o.Content})
				}
			})
			for _, p := range x.st.puts {
				if !ok[string(p.key)+"|"+string(p.content)] {
					r.Violation("stored-only-if-validated", "history.(*Network).validateContents:key-already-stored", fmt.Sprintf("%s: with the genuine item already stored under the key, other content offered under the same key (%s) was stored without being valid", g.Name, []string{"same call", "a later call"}[variant]), c02Case{Seed: g.Name, Kind: "batch-item", Key: hex.EncodeToString(p.key), Content: hex.EncodeToString(p.content), Oracle: "honest"})
				}
			}
			r.Exec(fmt.Sprintf("dupkey|%s|%d|%d stored", g.Name, variant, len(x.st.puts)))
		}
	}
	if e.Shard == 0 && !x.stop {
		x.getters()
	}
	for k, v := range cnt {
		r.Count(k, v)
	}
	if e.Shard == 0 {
		var names []string
		for _, s := range seeds {
			names = append(names, fmt.Sprintf("%s (%d bytes)", s.Name, len(s.Content)))
		}
		r.Set("seeds", names)
		r.Set("blocks_without_header_proof_in_era_format_header_not_a_seed", x.c.Unproven)
		r.Set("bellatrix_vectors_reordered_to_repository_field_order", x.c.Reordered)
		s := seeds[0]
		r.Sample(c02Case{Seed: s.Name, Kind: "honest", Key: hex.EncodeToString(s.Key), Content: hx(s.Content), Oracle: "honest"})
		r.Sample(c02Case{Seed: s.Name, Kind: "content-bit-flip", Detail: "70", Key: hex.EncodeToString(s.Key), Content: hx(withBit(s.Content, 70)), Oracle: "honest"})
		l := seeds[len(seeds)-2]
		r.Sample(c02Case{Seed: seeds[2].Name, Kind: "cross", Detail: "content-and-header-of " + l.Name, Key: hex.EncodeToString(seeds[2].Key), Content: hx(l.Content), Oracle: "serve"})
	}
}

type c02HeaderVariant struct {
	name string
	h    *types.Header
}

// c02HeaderVariants: the right header with one root changed, and with the same roots
// but another hash.
func c02HeaderVariants(h *types.Header) (out []c02HeaderVariant) {
	add := func(name string, f func(*types.Header)) {
		v := types.CopyHeader(h)
		f(v)
		out = append(out, c02HeaderVariant{name, v})
	}
	add("right-header-tx-root-changed", func(v *types.Header) { v.TxHash[31] ^= 1 })
	add("right-header-uncle-hash-changed", func(v *types.Header) { v.UncleHash[31] ^= 1 })
	add("right-header-receipt-root-changed", func(v *types.Header) { v.ReceiptHash[31] ^= 1 })
	if h.WithdrawalsHash != nil {
		add("right-header-withdrawals-root-changed", func(v *types.Header) { v.WithdrawalsHash[31] ^= 1 })
		add("right-header-withdrawals-root-removed", func(v *types.Header) { v.WithdrawalsHash = nil })
	} else {
		add("right-header-withdrawals-root-added", func(v *types.Header) { v.WithdrawalsHash = &types.EmptyWithdrawalsHash })
	}
	add("same-roots-other-hash", func(v *types.Header) { v.Extra = append(v.Extra, 'x') })
	return
}

type c02Reenc struct {
	name string
	b    *refBody
}

func c02Reencodings(b *refBody) (out []c02Reenc) {
	w, _ := rlp.EncodeToBytes(&types.Withdrawal{Index: 1, Validator: 2, Address: common.Address{3}, Amount: 4})
	if !b.Shanghai {
		out = append(out, c02Reenc{"shanghai-container-no-withdrawals", &refBody{Txs: b.Txs, Uncles: b.Uncles, Wds: [][]byte{}, Shanghai: true}},
			c02Reenc{"shanghai-container-invented-withdrawal", &refBody{Txs: b.Txs, Uncles: b.Uncles, Wds: [][]byte{w}, Shanghai: true}})
		return
	}
	out = append(out, c02Reenc{"legacy-container-withdrawals-dropped", &refBody{Txs: b.Txs, Uncles: b.Uncles}},
		c02Reenc{"shanghai-container-withdrawals-emptied", &refBody{Txs: b.Txs, Uncles: b.Uncles, Wds: [][]byte{}, Shanghai: true}})
	if len(b.Wds) < 16 { // the container holds at most 16
		out = append(out, c02Reenc{"shanghai-container-withdrawal-appended", &refBody{Txs: b.Txs, Uncles: b.Uncles, Wds: append(append([][]byte{}, b.Wds...), w), Shanghai: true}})
	}
	if len(b.Wds) > 0 {
		out = append(out, c02Reenc{"shanghai-container-last-withdrawal-removed", &refBody{Txs: b.Txs, Uncles: b.Uncles, Wds: b.Wds[:len(b.Wds)-1], Shanghai: true}},
			c02Reenc{"shanghai-container-last-withdrawal-replaced", &refBody{Txs: b.Txs, Uncles: b.Uncles, Wds: append(append([][]byte{}, b.Wds[:len(b.Wds)-1]...), w), Shanghai: true}})
	}
	return
}

func replayC02(r *mc.Report, e *Env, raw json.RawMessage) {
	var c c02Case
	if err := json.Unmarshal(raw, &c); err != nil {
		panic(err)
	}
	key, _ := hex.DecodeString(c.Key)
	content, _ := hex.DecodeString(c.Content)
	var serve *types.Header
	if c.Served != "" {
		enc, _ := hex.DecodeString(c.Served)
		serve = new(types.Header)
		if err := rlp.DecodeBytes(enc, serve); err != nil {
			panic(err)
		}
	}
	x := newC02Ctx(r, e)
	if c.Kind == "getter" {
		g := x.startPeers()
		defer g.stop()
		fmt.Printf("REPLAY: getter returned bound content: %v\n", g.call(c.Seed, c.Detail, key, content, c.Oracle, serve))
		return
	}
	accepted := x.run(c.Seed, c.Kind, c.Detail, key, content, c.Oracle, serve)
	fmt.Printf("REPLAY: accepted=%v, %d item(s) stored, validateContents error: %v\n", accepted, len(x.st.puts), x.err)
}

// refJoinFields: the container of n variable-size fields (the inverse of refFields).
func refJoinFields(f [][]byte) []byte {
	out := make([]byte, 4*len(f))
	off := 4 * len(f)
	for i, x := range f {
		binary.LittleEndian.PutUint32(out[4*i:], uint32(off))
		off += len(x)
	}
	for _, x := range f {
		out = append(out, x...)
	}
	return out
}
