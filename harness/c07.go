package main

import (
	"encoding/json"
	"fmt"
	"net/netip"
	"os"
	"sort"
	"strings"
	"sync"
	"sync/atomic"
	"time"

	"github.com/ethereum/go-ethereum/p2p/enode"
	"github.com/ethereum/go-ethereum/p2p/netutil"
	"github.com/zen-eth/shisui/portalwire"
	"verifharness/mc"
)

// C07 / C18 — one exploration of the routing table through its running loop, two oracles.
//
// Explicit-state BFS: events {found, inbound, delete, tick (revalidation due, with the
// scripted choice of which node is checked), answer (alive / dead / new record), lookup
// feedback, refresh} over a small colliding pool of records, from six real start states.
// C07 evaluates the structural invariants in every state; C18 evaluates the displacement
// clauses on every transition (state before / event / state after).

type c07Case struct {
	Start string   `json:"start"`
	Hist  []string `json:"history"`
	Prop  string   `json:"prop"`
}

var c07Starts = map[string][]string{
	"empty": {},
	"full256": func() (evs []string) {
		for k := 0; k < 16; k++ {
			evs = append(evs, fmt.Sprintf("foundlive:F%d", k))
		}
		for k := 16; k < 25; k++ {
			evs = append(evs, fmt.Sprintf("found:F%d", k))
		}
		return
	}(),
	"almost-full": func() (evs []string) {
		for k := 0; k < 15; k++ {
			evs = append(evs, fmt.Sprintf("foundlive:F%d", k))
		}
		return
	}(),
	"ip-limit-minus-one": func() (evs []string) {
		for k := 0; k < 9; k++ {
			evs = append(evs, fmt.Sprintf("foundlive:G%d", k))
		}
		return
	}(),
	"mixed-subnets": {"foundlive:A.1.a", "foundlive:B.1.a", "foundlive:P.1.d"},
	// a liveness check of A is under way: the entry may leave and come back before the answer arrives
	"ping-in-flight": {"foundlive:A.1.a", "foundlive:B.1.a", "tick:0"},
	"four-fails":     {"foundlive:A.1.a", "foundlive:F0", "foundlive:F1", "foundlive:F2", "track:A:fail", "track:A:fail", "track:A:fail", "track:A:fail"},
	"credit-four":    {"foundlive:A.1.a", "found:B.1.a", "tick:0", "ans:A:alive", "tick:0,0", "ans:A:alive", "ans:B:alive", "tick:0,0", "ans:A:alive"},
	// record forms (c07_forms.go): A is known with its IPv4 address in the IPv4-mapped form of the
	// "ip6" entry, B with a plain address of the same real /24; the pool switches forms both ways
	"addr-forms": {"foundlive:A.1.a.m", "foundlive:B.1.b"},
	// a verified and an unverified entry; the pool re-adds them through all three entry points,
	// forceSetLive included, with the same / a newer / an older record
	"known-forcelive": {"foundlive:A.1.a", "found:B.1.a"},
}

var c07StartOrder = []string{"empty", "full256", "almost-full", "ip-limit-minus-one", "four-fails", "credit-four", "mixed-subnets", "ping-in-flight", "addr-forms", "known-forcelive"}

func c07Pool(start string, thorough bool) (recs, ids []string, kinds []string) {
	recs = []string{"A.1.a", "A.2.a", "A.2.b", "B.1.a", "X.1.b", "C.1.d", "D.1.a", "D.2.l"}
	ids = []string{"A", "B", "C", "D"}
	kinds = []string{"alive", "dead", "nofetch", "newip", "newport"}
	if start == "ip-limit-minus-one" {
		recs = []string{"A.1.a", "A.2.b", "H.1.b", "I.1.b", "I.1.l", "D.1.a", "C.1.d", "H.1.b.m", "H.2.b"}
		ids = []string{"A", "H", "I", "G0"}
	}
	if start == "mixed-subnets" { // a refused move into a full /24, then more nodes of the old /24
		recs = []string{"P.2.b", "P.2.l", "Q.1.e", "R.1.f", "A.2.d", "X.1.b"}
		ids = []string{"A", "P", "Q", "R"}
	}
	if start == "full256" || start == "almost-full" {
		ids = []string{"A", "B", "F0", "F16"}
	}
	if start == "addr-forms" {
		// same address other form (newer / same seq), same form newer, B plain -> mapped, a third
		// node of the real /24 plain and mapped, a move to a real IPv6 address
		recs = []string{"A.2.a", "A.2.a.m", "A.1.a", "B.2.b.m", "X.1.b", "X.1.a.m", "X.2.v"}
		ids = []string{"A", "B", "X"}
		kinds = []string{"alive", "dead", "newform", "newip"}
	}
	if start == "known-forcelive" {
		recs = []string{"A.1.a", "A.2.a", "A.2.c", "A.2.b", "A.3.a", "B.2.c", "X.1.d"}
		ids = []string{"A", "B", "X"}
		kinds = []string{"alive", "dead", "newport"}
	}
	if thorough {
		recs = append(recs, "A.2.c", "B.2.d", "E.1.a")
		kinds = []string{"alive", "dead", "nofetch", "newseq", "newip", "newsubnet", "newport", "lowerseq"}
		if start == "addr-forms" {
			recs = append(recs, "C.1.a.m", "X.2.w", "A.3.b.m")
			kinds = append(kinds, "newform")
		}
	}
	return
}

// c07LiveRecs: the records that are also delivered through the forceSetLive entry point
// ("foundlive:<rec>": AddEnr, processPong / processNodes / processContent / processOffer) in
// the event alphabet of a start state - to nodes that already sit in their bucket above all.
func c07LiveRecs(start string, thorough bool) []string {
	switch start {
	case "known-forcelive":
		recs, _, _ := c07Pool(start, thorough)
		return append([]string{"B.1.a"}, recs...)
	case "addr-forms":
		return []string{"A.2.a", "A.1.a"}
	}
	return nil
}

type c07Obs struct {
	snap      portalwire.VSnap
	pending   []string
	pendingAt map[enode.ID]time.Time // start of every liveness check under way
	fails     map[string]int
	loopErr   string
}

func (t *tabEnv) observe(ids []string) c07Obs {
	if t.loopErr != "" { // the loop died, possibly with the table's mutex held: nothing can be read any more
		return c07Obs{fails: map[string]int{}, loopErr: t.loopErr}
	}
	o := c07Obs{snap: t.vt.Snapshot(), pending: t.pendingIDs(), pendingAt: map[enode.ID]time.Time{}, fails: map[string]int{}, loopErr: t.loopErr}
	t.mu.Lock()
	for id, req := range t.pending {
		o.pendingAt[id] = req.at
	}
	t.mu.Unlock()
	for _, id := range ids {
		if !strings.HasPrefix(id, "F") && !strings.HasPrefix(id, "G") {
			o.fails[id] = t.fails(id)
		}
	}
	return o
}

func (t *tabEnv) canon(o c07Obs) string {
	var sb strings.Builder
	nd := func(n portalwire.VNodeSnap) string {
		return fmt.Sprintf("%s/%d/%s:%d/%d/%v/%s", t.name(n.ID), n.Seq, n.IP, n.Port, n.Checks, n.Live, n.List)
	}
	for _, b := range o.snap.Buckets {
		fmt.Fprintf(&sb, "b%d[", b.Index)
		for _, e := range b.Entries {
			sb.WriteString(nd(e) + " ")
		}
		sb.WriteString("|")
		for _, e := range b.Replacements {
			sb.WriteString(nd(e) + " ")
		}
		sb.WriteString("]" + b.IPs)
	}
	names := func(ids []enode.ID) string {
		var s []string
		for _, id := range ids {
			s = append(s, t.name(id))
		}
		return strings.Join(s, ",")
	}
	fmt.Fprintf(&sb, " fast=%s slow=%s active=%s pending=%v ips=%s fails=", names(o.snap.Fast), names(o.snap.Slow), names(o.snap.ActiveReq), o.pending, o.snap.TableIPs)
	ks := []string{}
	for k := range o.fails {
		ks = append(ks, k)
	}
	sort.Strings(ks)
	for _, k := range ks {
		fmt.Fprintf(&sb, "%s:%d,", k, o.fails[k])
	}
	sb.WriteString(" loop=" + o.loopErr)
	return sb.String()
}

// enabled computes the events enabled in the observed state.
func (t *tabEnv) enabled(o c07Obs, start string, thorough bool) []string {
	recs, ids, kinds := c07Pool(start, thorough)
	var evs []string
	for _, r := range recs {
		evs = append(evs, "found:"+r, "inbound:"+r)
	}
	for _, r := range c07LiveRecs(start, thorough) {
		evs = append(evs, "foundlive:"+r)
	}
	for _, id := range ids {
		evs = append(evs, "del:"+id)
	}
	evs = append(evs, "track:"+ids[0]+":ok", "track:"+ids[0]+":fail", "track:"+ids[0]+":ok:"+recs[len(recs)-1]+","+recs[3], "track:"+ids[len(ids)-1]+":fail", "refresh",
		"track:"+ids[0]+":ok:S.1.a", "found:S.1.a", "inbound:S.1.a") // the local node's own record, as a peer may report it
	// ticks: which node each due list checks. Fillers are interchangeable, so the indices
	// of pool nodes plus the first filler of each list are the representatives.
	reps := func(list []enode.ID) []int {
		var out []int
		filler := false
		for i, id := range list {
			n := t.name(id)
			isFiller := (strings.HasPrefix(n, "F") || strings.HasPrefix(n, "G")) && n != "F0" && n != "F16" && n != "G0"
			if !isFiller {
				out = append(out, i)
			} else if !filler {
				filler = true
				out = append(out, i)
			}
		}
		return out
	}
	fi, si := reps(o.snap.Fast), reps(o.snap.Slow)
	switch {
	case len(fi) > 0 && len(si) > 0:
		for _, i := range fi {
			for _, j := range si {
				evs = append(evs, fmt.Sprintf("tick:%d,%d", i, j))
			}
		}
	case len(fi) > 0:
		for _, i := range fi {
			evs = append(evs, fmt.Sprintf("tick:%d", i))
		}
	case len(si) > 0:
		for _, j := range si {
			evs = append(evs, fmt.Sprintf("tick:%d", j))
		}
	}
	for _, p := range o.pending {
		for _, k := range kinds {
			evs = append(evs, "ans:"+p+":"+k)
		}
	}
	return evs
}

// ---- C07: structural invariants of one state ----

func c07Invariants(t *tabEnv, o c07Obs, viol func(clause, site, detail string), drift func(string)) {
	if o.loopErr != "" {
		viol("no-panic", "table loop: "+o.loopErr[strings.LastIndex(o.loopErr, "@ ")+2:], "the table loop panicked: "+o.loopErr)
	}
	seen := map[enode.ID]string{}
	tableNets := map[netip.Prefix]int{}
	inEntries := map[enode.ID]bool{}
	for _, b := range o.snap.Buckets {
		if len(b.Entries) > portalwire.VBucketSize {
			viol("bucket-holds-at-most-16-entries", "bucket", fmt.Sprintf("bucket %d holds %d entries", b.Index, len(b.Entries)))
		}
		if len(b.Replacements) > portalwire.VMaxReplacements {
			viol("bucket-holds-at-most-10-replacements", "bucket", fmt.Sprintf("bucket %d holds %d replacements", b.Index, len(b.Replacements)))
		}
		bucketNets := map[netip.Prefix]int{}
		for role, list := range map[string][]portalwire.VNodeSnap{"entry": b.Entries, "replacement": b.Replacements} {
			for _, n := range list {
				if n.ID == tabSelfID {
					viol("local-node-never-in-table", "bucket", "the local id is held as "+role)
				}
				if prev, dup := seen[n.ID]; dup {
					viol("node-id-at-most-once", "bucket", fmt.Sprintf("%s is held as %s and as %s in bucket %d", t.name(n.ID), prev, role, b.Index))
				}
				seen[n.ID] = fmt.Sprintf("%s in bucket %d", role, b.Index)
				d := enode.LogDist(tabSelfID, n.ID)
				want := 0
				if d > portalwire.VBucketMinDist {
					want = d - portalwire.VBucketMinDist - 1
				}
				if want != b.Index {
					viol("node-sits-in-the-bucket-for-its-distance", "bucket", fmt.Sprintf("%s (log-distance %d) sits in bucket %d, belongs in %d", t.name(n.ID), d, b.Index, want))
				}
				ip := netip.MustParseAddr(n.IP)
				if !netutil.AddrIsLAN(ip) {
					pf, _ := ip.Prefix(24)
					bucketNets[pf]++
					tableNets[pf]++
				}
				if role == "entry" {
					inEntries[n.ID] = true
					if n.List == "" {
						drift("entry on no revalidation list")
					}
				} else if n.List != "" {
					drift("replacement on a revalidation list")
				}
			}
		}
		for pf, c := range bucketNets {
			if c > portalwire.VBucketIPLimit {
				viol("at-most-2-per-slash24-per-bucket", "bucket", fmt.Sprintf("bucket %d holds %d nodes from %s", b.Index, c, pf))
			}
		}
	}
	for pf, c := range tableNets {
		if c > portalwire.VTableIPLimit {
			viol("at-most-10-per-slash24-per-table", "table", fmt.Sprintf("the table holds %d nodes from %s", c, pf))
		}
	}
	// internal agreement (reported as drift, not as violations: the statement is about what the table holds)
	lists := map[enode.ID]int{}
	for _, id := range append(append([]enode.ID{}, o.snap.Fast...), o.snap.Slow...) {
		lists[id]++
	}
	for id := range inEntries {
		if lists[id] != 1 {
			drift("entry on != 1 revalidation list")
		}
	}
	for id := range lists {
		if !inEntries[id] {
			drift("revalidation list holds a non-entry")
		}
	}
}

// ---- C18: displacement clauses on one transition ----

type c18Index struct {
	bucket map[enode.ID]int
	entry  map[enode.ID]portalwire.VNodeSnap
	repl   map[enode.ID]portalwire.VNodeSnap
	byB    map[int]portalwire.VBucketSnap
}

func indexSnap(s portalwire.VSnap) c18Index {
	x := c18Index{map[enode.ID]int{}, map[enode.ID]portalwire.VNodeSnap{}, map[enode.ID]portalwire.VNodeSnap{}, map[int]portalwire.VBucketSnap{}}
	for _, b := range s.Buckets {
		x.byB[b.Index] = b
		for _, n := range b.Entries {
			x.bucket[n.ID], x.entry[n.ID] = b.Index, n
		}
		for _, n := range b.Replacements {
			x.bucket[n.ID], x.repl[n.ID] = b.Index, n
		}
	}
	return x
}

func idsOf(ns []portalwire.VNodeSnap) []enode.ID {
	out := make([]enode.ID, len(ns))
	for i, n := range ns {
		out[i] = n.ID
	}
	return out
}

func sameIDs(a, b []enode.ID) bool {
	if len(a) != len(b) {
		return false
	}
	for i := range a {
		if a[i] != b[i] {
			return false
		}
	}
	return true
}

func c18Transition(t *tabEnv, prev, next c07Obs, ev string, cleared c18Cleared, viol func(clause, site, detail string), count func(string)) {
	p, n := indexSnap(prev.snap), indexSnap(next.snap)
	parts := strings.Split(ev, ":")
	kind := parts[0]
	subject := enode.ID{}
	if len(parts) > 1 && kind != "tick" {
		subject = tabID(tabRecID(parts[1]))
	}
	// (1) an entry leaves only by failed liveness, five fruitless queries, or deletion
	for id, pe := range p.entry {
		if _, still := n.entry[id]; still {
			continue
		}
		bIdx := p.bucket[id]
		ok := false
		switch {
		case kind == "del" && id == subject:
			ok = true
		case kind == "ans" && id == subject && parts[2] == "dead":
			// ... of a check of THIS entry: a check started before the entry was (re-)added was
			// a check of an entry that has left since, and says nothing about this one
			ok = true
			if at, known := prev.pendingAt[id]; known && pe.Added.After(at) {
				ok = false
			}
		case kind == "track" && id == subject && parts[2] == "fail" && prev.fails[parts[1]]+1 >= portalwire.VMaxFindFails && len(p.byB[bIdx].Entries) >= portalwire.VBucketSize/4:
			ok = true
		}
		if !ok {
			viol("entry-leaves-only-by-failed-liveness-fruitless-queries-or-deletion", kind, fmt.Sprintf("%s left bucket %d in step %q (checks %d, fails %d)", t.name(id), bIdx, ev, pe.Checks, prev.fails[t.name(id)]))
			continue
		}
		// (2) succeeded by a replacement iff one existed
		pb, nb := p.byB[bIdx], n.byB[bIdx]
		var promoted []enode.ID
		for _, e := range nb.Entries {
			if _, was := p.entry[e.ID]; !was {
				promoted = append(promoted, e.ID)
			}
		}
		if kind == "track" && len(parts) > 3 {
			continue // found nodes are added in the same step
		}
		if len(pb.Replacements) > 0 {
			if len(promoted) != 1 {
				viol("removed-entry-succeeded-by-a-replacement", kind, fmt.Sprintf("%s left bucket %d which had %d replacements, %d nodes were promoted", t.name(id), bIdx, len(pb.Replacements), len(promoted)))
			} else if _, was := p.repl[promoted[0]]; !was {
				viol("removed-entry-succeeded-by-a-replacement", kind, fmt.Sprintf("%s was succeeded by %s, which was not a replacement", t.name(id), t.name(promoted[0])))
			} else if _, still := n.repl[promoted[0]]; still {
				viol("removed-entry-succeeded-by-a-replacement", kind, fmt.Sprintf("%s was promoted but is still listed as a replacement", t.name(promoted[0])))
			}
		} else if len(promoted) != 0 {
			viol("removed-entry-succeeded-by-a-replacement", kind, fmt.Sprintf("%s left bucket %d which had no replacements, yet %s appeared", t.name(id), bIdx, t.name(promoted[0])))
		}
	}
	// (3) full bucket + newcomer: entries unchanged, newcomer pushed in front of the replacements
	if kind == "found" || kind == "foundlive" || kind == "inbound" {
		rec := tabNode(parts[1])
		bIdx := t.vt.BucketIndex(rec.ID())
		pb, nb := p.byB[bIdx], n.byB[bIdx]
		_, isEntry := p.entry[rec.ID()]
		if len(pb.Entries) >= portalwire.VBucketSize && !isEntry {
			if !sameIDs(idsOf(pb.Entries), idsOf(nb.Entries)) {
				viol("full-bucket-newcomer-displaces-nobody", kind, fmt.Sprintf("bucket %d was full; after %q its entries changed", bIdx, ev))
			}
			pr, nr := idsOf(pb.Replacements), idsOf(nb.Replacements)
			pushed := append([]enode.ID{rec.ID()}, pr...)
			if len(pushed) > portalwire.VMaxReplacements {
				pushed = pushed[:portalwire.VMaxReplacements]
			}
			if !sameIDs(nr, pr) && !sameIDs(nr, pushed) {
				viol("newcomer-enters-replacements-most-recent-first", kind, fmt.Sprintf("bucket %d was full; after %q the replacement list is neither unchanged nor the newcomer pushed in front", bIdx, ev))
			}
		}
	}
	// (4)+(5) record versions and verified status
	for id, ne := range n.entry {
		pe, was := p.entry[id]
		if !was {
			continue
		}
		changed := pe.Seq != ne.Seq || pe.IP != ne.IP || pe.Port != ne.Port
		if !changed {
			continue
		}
		if !(kind == "inbound" && id == subject) && ne.Seq <= pe.Seq {
			viol("record-changes-only-to-a-higher-sequence-number", kind, fmt.Sprintf("%s: record seq %d %s:%d -> seq %d %s:%d in step %q", t.name(id), pe.Seq, pe.IP, pe.Port, ne.Seq, ne.IP, ne.Port, ev))
		}
		// (the same IPv4 address in another record form is the same endpoint: nothing is demanded then)
		if snapEndpoint(pe) != snapEndpoint(ne) && ne.Live {
			viol("endpoint-change-clears-verified-status", kind, fmt.Sprintf("%s: endpoint %s:%d -> %s:%d in step %q but the entry is still marked verified", t.name(id), pe.IP, pe.Port, ne.IP, ne.Port, ev))
		}
	}
	// (6) ... and the status stays cleared until something speaks for the endpoint now stored:
	// the entry's endpoint was changed in an earlier step (cleared, as of the state before this
	// step), it was unverified before this step and is verified after it. That is in order for
	// the answer of a liveness check and for a contact / report that names exactly the stored
	// endpoint (the statement does not say what may set the status); a record naming ANOTHER
	// endpoint - a stale answer to a request addressed with the old record - says nothing
	// about this one.
	for id, ne := range n.entry {
		pe, was := p.entry[id]
		at, flagged := cleared[id]
		if !was || !flagged || pe.Live || !ne.Live || snapEndpoint(pe) != at.ep || snapEndpoint(ne) != at.ep {
			continue
		}
		if kind == "ans" && id == subject {
			if at.stale { // upstream behaviour, not claimed by the statement either way: evidence only
				count("liveness_answer_for_the_old_endpoint_marks_the_changed_endpoint_verified")
			}
			continue
		}
		if (kind == "found" || kind == "foundlive" || kind == "inbound") && id == subject {
			if r := tabNode(parts[1]); fmt.Sprintf("%s:%d", r.IPAddr().Unmap(), r.UDP()) == at.ep {
				continue
			}
		}
		viol("endpoint-change-clears-verified-status", kind+"-naming-another-endpoint", fmt.Sprintf("%s: the endpoint was changed to %s in an earlier step, which cleared the verified status; step %q, which names another endpoint or none, marks the entry verified again", t.name(id), at.ep, ev))
	}
	// what the forceSetLive entry point was tried on
	if kind == "foundlive" {
		rec := tabNode(parts[1])
		if pe, known := p.entry[rec.ID()]; known {
			class := "older or same record"
			switch {
			case rec.Seq() > pe.Seq && fmt.Sprintf("%s:%d", rec.IPAddr().Unmap(), rec.UDP()) != snapEndpoint(pe):
				class = "newer record, other endpoint"
			case rec.Seq() > pe.Seq:
				class = "newer record, same endpoint"
			}
			v := "verified"
			if !pe.Live {
				v = "unverified"
			}
			count("forcesetlive on a known " + v + " entry: " + class)
		} else {
			count("forcesetlive on a node that is no entry")
		}
	}
}

// ---- execution ----

var c18DriftSampled atomic.Bool

var c07Enabled sync.Map // start + "\x00" + history -> []string

func c07Run1(r *mc.Report, prop, start string, hist []string, thorough bool) (canon string, expand bool) {
	c := c07Case{start, hist, prop}
	viol := func(clause, site, detail string) { r.Violation(clause, site, detail, c) }
	if prop == "C07" && histHasForms(start, hist) {
		// input class: the per-/24 accounting across records whose address is not a plain IPv4 in "ip"
		viol = func(clause, site, detail string) {
			if strings.Contains(clause, "slash24") {
				site += "-with-mixed-address-forms"
			}
			r.Violation(clause, site, detail, c)
		}
	}
	drift := func(what string) { r.Count("internal_drift: "+what, 1) }
	msg := inBubble(func() {
		t := newTabEnv()
		t.startLoop()
		defer t.stop()
		model := newTabModel()
		cleared := c18Cleared{} // C18: endpoints stored by an endpoint change and not confirmed since (before the last event)
		var lastSnap portalwire.VSnap
		follow, final := prop == "C18", false
		applyBoth := func(ev string) string { // the real table and the reference model step together
			was := map[string]bool{}
			for _, id := range t.pendingIDs() {
				was[id] = true
			}
			if e := t.apply(ev); e != "" {
				return e
			}
			if t.loopErr != "" {
				return ""
			}
			if follow && !final {
				now := t.vt.Snapshot()
				cleared.step(lastSnap, now, ev)
				lastSnap = now
			}
			var started []string
			for _, id := range t.pendingIDs() {
				if !was[id] {
					started = append(started, id)
				}
			}
			model.step(ev, started)
			return ""
		}
		for _, ev := range c07Starts[start] {
			if e := applyBoth(ev); e != "" {
				r.EngineError("start state " + start + ": " + e)
				return
			}
		}
		_, ids, _ := c07Pool(start, thorough)
		var prev c07Obs
		for i, ev := range hist {
			if i == len(hist)-1 {
				prev = t.observe(ids)
				final = true
			}
			if e := applyBoth(ev); e != "" {
				r.EngineError(fmt.Sprintf("replay of %v: %s", hist, e))
				return
			}
			if os.Getenv("VERIF_DEBUG") != "" {
				fmt.Fprintln(os.Stderr, "after", ev, ":", t.canon(t.observe(ids)))
			}
			if t.loopErr != "" {
				break
			}
		}
		o := t.observe(ids)
		if prop == "C18" && o.loopErr == "" {
			// layer 2: the reference model, stepped with the same events and scripted draws
			r.Count("model_steps_compared", 1)
			if got, want := renderSnap(t, o.snap), model.render(t.name); got != want {
				r.Count("model_drift", 1)
				if !c18DriftSampled.Swap(true) {
					r.Set("model_drift_example", map[string]string{"start": start, "history": strings.Join(hist, " "), "table": got, "model": want})
				}
			}
		}
		if prop == "C07" {
			c07Invariants(t, o, viol, drift)
			if len(hist) > 0 && o.loopErr == "" {
				c07CountForms(r, prev, o, hist[len(hist)-1])
			}
		} else if len(hist) > 0 && o.loopErr == "" {
			c18Transition(t, prev, o, hist[len(hist)-1], cleared, viol, func(what string) { r.Count(what, 1) })
		}
		canon = t.canon(o)
		expand = o.loopErr == ""
		c07Enabled.Store(start+"\x00"+strings.Join(hist, "\x00"), t.enabled(o, start, thorough))
	})
	if msg != "" {
		viol("no-panic", "table operation", "panic: "+msg)
		return "", false
	}
	return
}

type c07Unit struct {
	start string
	depth int
}

func c07Units(thorough bool) []c07Unit {
	var us []c07Unit
	for _, s := range c07StartOrder {
		d := 3
		if thorough {
			d = 4
		}
		us = append(us, c07Unit{s, d})
	}
	return us
}

const c07Shards = 8

func c07Explore(r *mc.Report, e *Env, prop string) {
	units := c07Units(e.Thorough())
	for ui, u := range units {
		for sh := 0; sh < c07Shards; sh++ {
			if e.Of > 1 && e.Shard != ui*c07Shards+sh {
				continue
			}
			b := &mc.BFS{Starts: [][]string{{u.start}}, MaxDepth: u.depth, Par: 1, Deadline: e.Deadline, Shard: sh, Of: c07Shards,
				Events: func(h []string) []string {
					v, _ := c07Enabled.Load(u.start + "\x00" + strings.Join(h[1:], "\x00"))
					evs, _ := v.([]string)
					return evs
				},
				Exec: func(h []string) (string, bool) { return c07Run1(r, prop, u.start, h[1:], e.Thorough()) }}
			if e.Of <= 1 {
				b.Of = 1
			}
			b.Run()
			if sh != 0 && e.Of > 1 {
				b.States-- // every shard runs the root
			}
			r.States += b.States
			r.Transitions += b.Transitions
			r.Evaluations += b.Transitions
			r.Depth(b.Depth)
			for s := range b.Seen {
				r.Digests[mcShort(u.start+s)] = struct{}{}
			}
			if !b.Complete {
				r.NotExhaustive("internal deadline reached during BFS")
			}
			r.Count(fmt.Sprintf("transitions_%s_depth%d", u.start, u.depth), b.Transitions)
			if e.Of <= 1 {
				break
			}
		}
	}
	if e.Shard == 0 {
		r.Sample(c07Case{"full256", []string{"found:A.1.a", "tick:0,0", "ans:F0:dead"}, prop})
		r.Sample(c07Case{"ip-limit-minus-one", []string{"found:H.1.b", "inbound:I.1.b", "del:G0"}, prop})
		r.Sample(c07Case{"four-fails", []string{"track:A:fail"}, prop})
		r.Sample(c07Case{"addr-forms", []string{"tick:0,0", "ans:A:newform", "found:X.1.b"}, prop})
		r.Sample(c07Case{"known-forcelive", []string{"found:A.2.c", "foundlive:A.1.a"}, prop})
	}
	r.Assume("events: found/inbound over 8 (thorough 11) records of 4-6 colliding ids, delete, revalidation tick with every representative choice of the checked node, answers {alive, dead, new ip, new port} (thorough + new seq, new subnet, lower-seq record), lookup feedback ok/fail/with found nodes, refresh; fillers are interchangeable and represented by one index per list")
	r.Assume("record forms: start state addr-forms and the pool of ip-limit-minus-one also hold records that carry an IPv4 address as IPv4-mapped IPv6 address in the ip6 entry (same node: newer / same-seq record in the other form, both directions; revalidation answer newform) and a real IPv6 address; a /24 is taken of the address in the form the table keeps it (an IPv4-mapped address counts for ::/24, as in the table's own sets), not of the embedded IPv4 address")
	r.Assume("forceSetLive entry point (AddEnr, processPong/Nodes/Content/Offer): foundlive events on known entries are part of the alphabet of the start states known-forcelive (every pool record: same, newer with the same / another port / another ip, older) and addr-forms; the other start states use it for fresh ids while building the start state only")
	r.Assume("the first-level events of every start state are dealt out to worker processes with separate visited sets: the reported state count can include duplicates across workers")
	r.Assume("the node database stays below 6 successful checks per node, so no seed nodes are loaded")
}

// c07CountForms: evidence of what the record-form dimension reached - transitions in which a
// stored entry's address changed between the plain and the IPv4-mapped form of one IPv4 address.
func c07CountForms(r *mc.Report, prev, next c07Obs, ev string) {
	p, n := indexSnap(prev.snap), indexSnap(next.snap)
	kind := ev[:strings.Index(ev+":", ":")]
	for id, ne := range n.entry {
		pe, was := p.entry[id]
		if !was || pe.IP == ne.IP {
			continue
		}
		a, b := netip.MustParseAddr(pe.IP), netip.MustParseAddr(ne.IP)
		if a.Unmap() == b.Unmap() {
			dir := "plain->mapped"
			if a.Is4In6() {
				dir = "mapped->plain"
			}
			r.Count("address form switch of a stored entry ("+dir+") by "+kind, 1)
		}
	}
	for _, b := range next.snap.Buckets {
		for _, e := range append(append([]portalwire.VNodeSnap{}, b.Entries...), b.Replacements...) {
			if a := netip.MustParseAddr(e.IP); !a.Is4() {
				r.Count("states holding a node with an IPv4-mapped or IPv6 address", 1)
				return
			}
		}
	}
}

func mcShort(s string) string {
	if len(s) > 64 {
		return fmt.Sprintf("%x", sha256Sum(s))
	}
	return s
}

func init() {
	budget := func(t string) time.Duration {
		if t == "thorough" {
			return 40 * time.Minute
		}
		return 6 * time.Minute
	}
	register(&Prop{ID: "C07", Level: "model_checking", Procs: 1, Budget: budget,
		Workers: func(e *Env) int { return len(c07Units(e.Thorough()))*c07Shards + c07ConcTasks },
		Run: func(r *mc.Report, e *Env) {
			r.Rule = "BFS: every transition is one event applied to a fresh real Table (running loop, stub transport, scripted random source, virtual clock) reached by replaying its history; the structural invariants are evaluated on a snapshot of every state reached; concurrent part: every interleaving (bounded preemptions) of API calls against the loop at lock, channel and random-draw gates; distinct = distinct canonical table states / schedule outcomes"
			nb := len(c07Units(e.Thorough())) * c07Shards
			if (e.Of <= 1 || e.Shard < nb) && freeRuns == 0 {
				c07Explore(r, e, "C07")
			}
			if e.Of <= 1 || e.Shard >= nb {
				runC07Conc(r, e, e.Shard-nb)
			}
		},
		Replay: func(r *mc.Report, e *Env, raw json.RawMessage) {
			var c c07Case
			if json.Unmarshal(raw, &c) == nil && c.Start != "" {
				c07Run1(r, "C07", c.Start, c.Hist, true)
				return
			}
			replayC07Conc(r, e, raw)
		}})
	register(&Prop{ID: "C18", Level: "model_checking", Procs: 1, Budget: budget,
		Workers: func(e *Env) int { return len(c07Units(e.Thorough())) * c07Shards },
		Run: func(r *mc.Report, e *Env) {
			r.Rule = "BFS as in C07; on every transition the displacement clauses are evaluated on (snapshot before, event, snapshot after): an entry leaves only by a failed liveness answer, a fifth consecutive fruitless query with >= 4 entries in the bucket, or deletion; a removed entry is succeeded by a replacement iff one existed; a newcomer to a full bucket leaves the entries unchanged and is pushed in front of the replacement list (at most 10); a stored record changes only to a higher sequence number unless the node itself contacted us; an endpoint change clears the verified status, whoever reports it (found, inbound, forceSetLive, revalidation answer), and a later step that names another endpoint than the stored one does not bring the status back"
			c07Explore(r, e, "C18")
		},
		Replay: func(r *mc.Report, e *Env, raw json.RawMessage) {
			var c c07Case
			if json.Unmarshal(raw, &c) == nil {
				c07Run1(r, "C18", c.Start, c.Hist, true)
			}
		}})
}
