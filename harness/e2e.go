package main

import (
	"bytes"
	"encoding/json"
	"fmt"
	"github.com/zen-eth/shisui/verifhook"
	"os"
	"strings"
	"sync/atomic"
	"testing/synctest"
	"time"

	"github.com/zen-eth/shisui/portalwire"
	"verifharness/mc"
)

// End-to-end cases on the in-memory wire (E4), shared by C08, C09 and C19: two real
// started nodes (discv5 + uTP), one transfer per case, explorer-owned FIFO delivery,
// optionally with one datagram dropped. One worker process per case (see c16.go).

type e2eCase struct {
	Prop string  `json:"prop"`
	Op   string  `json:"op"` // "findcontent" | "offer"
	VA   []uint8 `json:"versions_a,omitempty"`
	VBs  []uint8 `json:"versions_b,omitempty"`
	Size int     `json:"size,omitempty"`      // findcontent: content size
	Keys int     `json:"keys,omitempty"`      // offer: number of keys
	Drop int     `json:"drop"`                // index of the datagram that is lost (-1: none)
	Ask  string  `json:"ask,omitempty"`       // findcontent: "" = one FINDCONTENT request; "lookup" = the recursive ContentLookup (holder in the asker's table)
	Via  string  `json:"via,omitempty"`       // "gnet": both nodes receive through the receive path of portalwire/gnet.go
	Dev  string  `json:"deviation,omitempty"` // "" = lost, "dup" = delivered twice, "swap" = delivered after its successor, "cut" = this and every later datagram lost
}

func versionSets() [][]uint8 { return [][]uint8{{0}, {1}, {0, 1}, {1, 0}} }

func shareVersion(a, b []uint8) bool {
	for _, x := range a {
		for _, y := range b {
			if x == y {
				return true
			}
		}
	}
	return false
}

// e2eRun executes one case; finish (one-case worker process) is called from inside the bubble.
func e2eRun(r *mc.Report, c e2eCase, finish func(digest string)) (digest string, datagrams int) {
	viol := func(clause, site, detail string) { r.Violation(clause, site, detail, c) }
	msg := inBubble(func() {
		w := newWire()
		a := newMNode(w, mnodeOpts{keyIdx: 31, versions: c.VA, utpLimit: 5, gnet: c.Via == "gnet"})
		b := newMNode(w, mnodeOpts{keyIdx: 32, versions: c.VBs, utpLimit: 5, gnet: c.Via == "gnet"})
		swapped := false
		// "late-accept": the goroutine in which the responder waits for the uTP connection is held at
		// its AcceptWithCid call (an injected yield tagged with the callee) until Drop further
		// datagrams have been delivered - the asker's SYN arrives before anybody accepts
		var parked, released atomic.Bool
		held := make(chan struct{})
		after := 0
		if c.Dev == "late-accept" {
			verifhook.Set(func(label string) {
				if strings.HasSuffix(label, ":AcceptWithCid") && !released.Load() {
					parked.Store(true)
					<-held
				}
			})
			defer verifhook.Set(nil)
			defer func() {
				if !released.Swap(true) {
					close(held)
				}
			}()
		}
		decide := func(idx int, d mdgram) pumpAction {
			if c.Dev == "late-accept" {
				if parked.Load() && !released.Load() {
					if after++; after > c.Drop {
						released.Store(true)
						close(held)
					}
				}
				return deliver
			}
			if c.Dev == "cut" {
				if c.Drop >= 0 && idx >= c.Drop {
					return drop // the link is dead from this datagram on
				}
				return deliver
			}
			if idx == c.Drop {
				switch c.Dev {
				case "dup":
					return duplicate
				case "swap":
					if !swapped {
						swapped = true
						return swapNext
					}
					return deliver
				}
				return drop
			}
			return deliver
		}
		share := shareVersion(c.VA, c.VBs)
		site := fmt.Sprintf("%s:%v-%v", c.Op, c.VA, c.VBs)
		if c.Via != "" {
			site = fmt.Sprintf("%s:%v-%v:via-%s", c.Op, c.VA, c.VBs, c.Via)
		}
		if c.Ask != "" {
			site += ":asked-through-" + c.Ask
		}
		if c.Drop >= 0 {
			site = c.Op + ":one-datagram-" + map[string]string{"": "lost", "dup": "duplicated", "swap": "reordered", "cut": "and-all-later-ones-lost", "late-accept": "-no-loss-but-the-responder-accepts-late"}[c.Dev]
		}
		switch c.Op {
		case "findcontent":
			content := make([]byte, c.Size)
			for i := range content {
				content[i] = byte(i*31 + 7)
			}
			key := []byte("e2e-key")
			a.P.Put(key, a.P.ToContentId(key), content)
			var flag byte
			var res interface{}
			var err error
			done := false
			if c.Ask == "lookup" {
				b.P.VerifTable().AddFound(a.Self(), true)
				synctest.Wait()
			}
			go func() {
				if c.Ask == "lookup" { // the caller most users go through: it picks the holder from the table and reads the stream itself
					var content []byte
					content, _, err = b.P.ContentLookup(key, b.P.ToContentId(key))
					if err == nil {
						res = content
						if content == nil {
							res = []byte{}
						}
					}
				} else {
					flag, res, err = b.P.VerifFindContent(a.Self(), key)
				}
				done = true
			}()
			_, timedOut := w.pump(func() bool { return done }, 10*time.Minute, decide)
			got, isBytes := res.([]byte)
			switch {
			case timedOut:
				viol("lookup-returns", site, "FINDCONTENT did not return within 10 virtual minutes")
			case err == nil && isBytes && !bytes.Equal(got, content):
				viol("peer-ends-up-with-the-stored-bytes", site, fmt.Sprintf("asked for %d stored bytes, got %d other bytes (flag %d)", len(content), len(got), flag))
			case err == nil && !isBytes:
				viol("held-content-is-returned", site, fmt.Sprintf("the responder holds the content but the asker got %T", res))
			case err != nil && share && (c.Drop < 0 || c.Dev == "dup" || c.Dev == "late-accept"):
				viol("transfer-succeeds-between-nodes-sharing-a-version", site, fmt.Sprintf("%d bytes, no datagram lost: %v", c.Size, err))
			case err == nil && !share && c.Size > 1200:
				viol("no-transfer-without-a-common-version", site, "a large transfer succeeded although the version sets are disjoint")
			}
			digest = fmt.Sprintf("ok=%v err=%v", err == nil, err != nil)
		case "offer":
			var entries []*portalwire.ContentEntry
			var keys, vals [][]byte
			for i := 0; i < c.Keys; i++ {
				k, v := []byte(fmt.Sprintf("e2e-offer-%d", i)), bytes.Repeat([]byte{byte(i + 1)}, 1500*(i+1))
				keys, vals = append(keys, k), append(vals, v)
				entries = append(entries, &portalwire.ContentEntry{ContentKey: k, Content: v})
			}
			req := &portalwire.OfferRequest{Kind: portalwire.TransientOfferRequestKind, Request: &portalwire.TransientOfferRequest{Contents: entries}}
			permit, _ := a.P.Utp.GetOutboundPermit()
			var err error
			done := false
			go func() {
				_, err = a.P.VerifOffer(b.Self(), req, permit)
				done = true
			}()
			w.pump(func() bool { return done }, 2*time.Minute, decide)
			w.pump(func() bool { return len(b.Q) > 0 }, 3*time.Minute, decide)
			var el *portalwire.ContentElement
			select {
			case el = <-b.Q:
			default:
			}
			switch {
			case el != nil && (!eqLists(el.ContentKeys, keys) || !eqLists(el.Contents, vals)):
				viol("accepted-content-arrives-intact-under-its-key", site, fmt.Sprintf("offered %d keys, the validation queue got %d keys / %d contents that differ", len(keys), len(el.ContentKeys), len(el.Contents)))
			case el != nil && el.Node != a.Self().ID():
				viol("accepted-content-arrives-intact-under-its-key", site, "the queue element names another source node")
			case el == nil && share && (c.Drop < 0 || c.Dev == "dup"):
				viol("transfer-succeeds-between-nodes-sharing-a-version", site, fmt.Sprintf("offer of %d fresh keys on a fault-free link delivered nothing (offer error: %v)", c.Keys, err))
			case el != nil && !share:
				viol("no-transfer-without-a-common-version", site, "content was delivered although the version sets are disjoint")
			}
			digest = fmt.Sprintf("delivered=%v err=%v", el != nil, err != nil)
		}
		if w.maxLen > portalwire.VerifMaxPacketSize {
			viol("every-datagram-fits-one-packet", c.Op, fmt.Sprintf("a datagram of %d bytes was sent (limit %d)", w.maxLen, portalwire.VerifMaxPacketSize))
		}
		datagrams = w.sent
		r.Max("max_e2e_datagram_bytes", int64(w.maxLen))
		if w.maxLen == portalwire.VerifMaxPacketSize {
			r.Count("e2e_cases_with_a_datagram_of_exactly_the_maximum_size", 1)
		}
		r.Max("max_e2e_datagrams", int64(w.sent))
		if finish != nil {
			finish(digest)
		}
		a.close()
		b.close()
	})
	if msg != "" {
		viol("no-panic", c.Op, "panic: "+msg)
	}
	return
}

// e2eCasesFor lists the cases a property contributes.
func e2eCasesFor(prop string, thorough bool) []e2eCase {
	var cs []e2eCase
	lossIdx := func(total int) []int {
		step := 3
		if thorough {
			step = 1
		}
		var out []int
		for k := 0; k < total; k += step {
			out = append(out, k)
		}
		return out
	}
	for _, va := range versionSets() {
		for _, vb := range versionSets() {
			switch prop {
			case "C19":
				cs = append(cs, e2eCase{Prop: prop, Op: "offer", VA: va, VBs: vb, Keys: 2, Drop: -1})
				cs = append(cs, e2eCase{Prop: prop, Op: "findcontent", VA: va, VBs: vb, Size: 5000, Drop: -1})
			case "C08":
				if !shareVersion(va, vb) {
					continue
				}
				for _, size := range []int{1176, 5000, 70_000} {
					cs = append(cs, e2eCase{Prop: prop, Op: "findcontent", VA: va, VBs: vb, Size: size, Drop: -1})
				}
			case "C09":
				if !shareVersion(va, vb) {
					continue
				}
				for keys := 1; keys <= 3; keys++ {
					cs = append(cs, e2eCase{Prop: prop, Op: "offer", VA: va, VBs: vb, Keys: keys, Drop: -1})
				}
			}
		}
	}
	// the inline threshold on the wire: every content size from well below it up to the first that
	// goes over uTP, on the plain wire and through the receive path of the gnet transport (one of
	// these replies is a datagram of exactly the maximum size)
	if prop == "C08" {
		for _, v := range [][]uint8{{0}, {1}} {
			for _, via := range []string{"", "gnet"} {
				lo := 1168
				if thorough {
					lo = 1100
				}
				for size := lo; size <= 1178; size++ {
					cs = append(cs, e2eCase{Prop: prop, Op: "findcontent", VA: v, VBs: v, Size: size, Drop: -1, Via: via})
				}
				for _, size := range []int{0, 1, 5000} {
					if via != "" {
						cs = append(cs, e2eCase{Prop: prop, Op: "findcontent", VA: v, VBs: v, Size: size, Drop: -1, Via: via})
					}
				}
				// the same question through the recursive lookup (the holder is in the asker's table)
				if via == "" {
					for _, size := range []int{0, 1, 1175, 1176, 5000} {
						cs = append(cs, e2eCase{Prop: prop, Op: "findcontent", VA: v, VBs: v, Size: size, Drop: -1, Ask: "lookup"})
					}
				}
			}
		}
	}
	// single-datagram loss: every (quick: every 3rd) index of the fault-free trace (the bounds
	// exceed the measured trace lengths 44 / 76; later indices repeat the fault-free case)
	switch prop {
	case "C08":
		for _, v := range [][]uint8{{0}, {1}} {
			for _, dev := range []string{"", "dup", "swap"} {
				for _, k := range lossIdx(66) {
					cs = append(cs, e2eCase{Prop: prop, Op: "findcontent", VA: v, VBs: v, Size: 5000, Drop: k, Dev: dev})
				}
			}
			// nothing is lost, but the responder's accept is held while k datagrams are delivered
			for _, k := range []int{1, 2, 3, 5, 8} {
				cs = append(cs, e2eCase{Prop: prop, Op: "findcontent", VA: v, VBs: v, Size: 20_000, Drop: k, Dev: "late-accept"})
			}
			// the link dies for good at datagram k of a 20 kB transfer
			for _, k := range lossIdx(96) {
				cs = append(cs, e2eCase{Prop: prop, Op: "findcontent", VA: v, VBs: v, Size: 20_000, Drop: k, Dev: "cut"})
			}
		}
	case "C09":
		for _, v := range [][]uint8{{0}, {1}} {
			for _, dev := range []string{"", "dup", "swap", "cut"} {
				for _, k := range lossIdx(90) {
					cs = append(cs, e2eCase{Prop: prop, Op: "offer", VA: v, VBs: v, Keys: 2, Drop: k, Dev: dev})
				}
			}
		}
	}
	return cs
}

// e2eTask runs case idx of prop in a one-case worker process.
func e2eTask(r *mc.Report, e *Env, prop string, idx int) {
	cases := e2eCasesFor(prop, e.Thorough())
	if idx < 0 || idx >= len(cases) {
		return
	}
	c := cases[idx]
	r.Count("e2e_cases", 1)
	if idx == 0 || c.Drop == 9 {
		r.Sample(c)
	}
	e2eRun(r, c, func(d string) {
		r.Exec(fmt.Sprintf("e2e|%s|%v|%v|%d|%d|drop=%v%s|%s", c.Op, c.VA, c.VBs, c.Size, c.Keys, c.Drop >= 0, c.Dev, d))
		e.FinishNow(r)
	})
}

// The e2e cases ride on the checks of C08, C09 and C19 as extra one-case worker tasks.
func init() {
	for _, prop := range []string{"C08", "C09", "C19"} {
		prop := prop
		p := registry[prop]
		oldW, oldRun, oldReplay := p.Workers, p.Run, p.Replay
		base := func(e *Env) int {
			if oldW == nil {
				return 1
			}
			return oldW(e)
		}
		p.Workers = func(e *Env) int { return base(e) + len(e2eCasesFor(prop, e.Thorough())) }
		p.Run = func(r *mc.Report, e *Env) {
			nb := base(e)
			if e.Of <= 1 || e.Shard < nb {
				he := *e
				if e.Of > 1 {
					he.Of = nb
				}
				oldRun(r, &he)
				if e.Shard == 0 {
					r.Assume("end-to-end part: two real started nodes on the in-memory wire, FIFO delivery; one datagram lost, duplicated or swapped with its successor, or the link dead from that datagram on, at every (quick: every 3rd) index of one transfer per version; the responder's accept held while 1..8 datagrams are delivered; content sizes across the inline threshold on the plain wire and through the receive path of the gnet transport (its event loop, socket options and multicore mode are outside)")
				}
				return
			}
			e2eTask(r, e, prop, e.Shard-nb)
		}
		p.Replay = func(r *mc.Report, e *Env, raw json.RawMessage) {
			var c e2eCase
			if json.Unmarshal(raw, &c) == nil && c.Op != "" && c.Prop == prop {
				e2eRun(r, c, func(d string) {
					fmt.Println("outcome:", d)
					for _, v := range r.Violations {
						fmt.Printf("REPLAY: reproduced %s\n  %s\n", v.Fingerprint, v.Detail)
					}
					if len(r.Violations) > 0 {
						os.Exit(1)
					}
					fmt.Println("REPLAY: no violation reproduced")
					os.Exit(0)
				})
				return
			}
			oldReplay(r, e, raw)
		}
	}
}
