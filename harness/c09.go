package main

import (
	"context"
	"encoding/binary"
	"encoding/json"
	"fmt"
	"sync/atomic"
	"testing/synctest"
	"time"

	bitfield "github.com/OffchainLabs/go-bitfield"

	"github.com/zen-eth/shisui/portalwire"
	"verifharness/mc"
)

// C09 — OFFER gets one verdict per key and accepted content arrives intact under its key.
//
// Handler level. Every case runs the real code on a fresh unstarted node inside a synctest
// bubble; the node's uTP transport is the real one over an in-memory packet pipe whose
// other end is a second real uTP socket driven by the harness (c09_fixture.go).
//
//	verdicts  handleOffer over all key-class vectors x peer versions x slot limit/taken x
//	          validation queue empty/full x what the offerer then does with the ACCEPT.
//	          "Really waiting on the announced id" is observed black-box: a uTP dial to that
//	          id from the offerer's identity connects iff somebody accepts on it.
//	contents  handleOfferedContents over all (accepted keys, items) count pairs and item sizes.
//	offering  processOffer over a menu of ACCEPT replies x request kinds x versions; the
//	          harness socket accepts the node's dial and reads what it sends.
//
// The end-to-end part (two started nodes on the in-memory network) and the schedule
// exploration of overlapping offers are separate functions to be called from runC09.

func init() {
	register(&Prop{ID: "C09", Level: "exploration", Run: runC09, Replay: replayC09,
		Workers: func(e *Env) int { return minInt(cpus(), 12) }, Procs: 1, CrashIsViolation: true,
		Budget: func(t string) time.Duration {
			if t == "thorough" {
				return 20 * time.Minute
			}
			return 5 * time.Minute
		}})
}

type c09Case struct {
	Part string `json:"part"` // "verdicts" | "contents" | "offering"
	// verdicts
	Vers    []int  `json:"peer_versions,omitempty"`
	Classes []int  `json:"classes,omitempty"` // per offered key: bit0 out of radius, bit1 stored, bit2 in flight
	Pattern string `json:"pattern,omitempty"` // name of a 64-key pattern (Classes is authoritative)
	Limit   int    `json:"limit,omitempty"`
	Taken   int    `json:"taken,omitempty"`
	QFull   bool   `json:"queue_full,omitempty"`
	Xfer    string `json:"xfer,omitempty"` // what the offerer does after ACCEPT: exact | fewer | more | none
	// contents
	Keys  int   `json:"keys,omitempty"`
	Items []int `json:"items,omitempty"` // item sizes
	// offering
	Ver   int    `json:"ver,omitempty"`
	Kind  byte   `json:"kind,omitempty"`
	N     int    `json:"n,omitempty"`
	Shape string `json:"shape,omitempty"`
	Mask  uint   `json:"mask,omitempty"`
}

const c09Settle = 3 * time.Minute // virtual: outlasts every accept/read/idle timeout and the sockets' 20 s tables

func c09Negotiated(vers []int) int {
	for _, v := range vers {
		if v == 1 {
			return 1
		}
	}
	return 0
}

// c09Verdicts decodes the verdict list of an ACCEPT reply: per key "accepted?" plus the
// printable verdicts and the announced connection id.
func c09Verdicts(ver int, reply []byte) (acc []bool, shown string, connId uint16, err error) {
	if len(reply) == 0 || reply[0] != portalwire.ACCEPT {
		return nil, "", 0, fmt.Errorf("not an ACCEPT message: %x", reply)
	}
	if ver == 0 {
		a := &portalwire.Accept{}
		if err = a.UnmarshalSSZ(reply[1:]); err != nil {
			return
		}
		bl := bitfield.Bitlist(a.ContentKeys)
		for i := uint64(0); i < bl.Len(); i++ {
			acc = append(acc, bl.BitAt(i))
		}
		return acc, fmt.Sprint(acc), binary.BigEndian.Uint16(a.ConnectionId), nil
	}
	a := &portalwire.AcceptV1{}
	if err = a.UnmarshalSSZ(reply[1:]); err != nil {
		return
	}
	for _, code := range a.ContentKeys {
		acc = append(acc, code == uint8(portalwire.Accepted))
	}
	return acc, fmt.Sprint(a.ContentKeys), binary.BigEndian.Uint16(a.ConnectionId), nil
}

func c09Verdict(r *mc.Report, nw *c09Net, c c09Case) {
	ver := c09Negotiated(c.Vers)
	bn, st := c09Node(nw, c.Limit)
	defer bn.Close()
	self := bn.P.Self().ID()
	keys := make([][]byte, len(c.Classes))
	for i, cl := range c.Classes {
		keys[i] = c09Key(self, i, cl)
		if cl&c09Stored != 0 {
			st.items[string(keys[i])] = []byte{0xee}
		}
		if cl&c09InFlight != 0 {
			bn.P.VerifMarkTransferring(keys[i : i+1])
		}
		if cl&c09LookupFails != 0 {
			if st.failing == nil {
				st.failing = map[string]bool{}
			}
			st.failing[string(keys[i])] = true
		}
	}
	for i := 0; i < c.Taken; i++ {
		bn.P.Utp.GetInboundPermit() // held for the whole case, through the real controller
	}
	if c.QFull {
		c09FillQueue(bn)
	}
	free0, _ := bn.P.VerifPermits()
	var reply []byte
	var err error
	if msg, site := panicsTo(func() {
		reply, err = bn.P.VerifHandleOffer(c09PeerRec(c.Vers), c09PeerAddr, &portalwire.Offer{ContentKeys: keys})
	}); msg != "" {
		r.Violation("no-panic", site, "handleOffer panicked: "+msg, c)
		return
	}
	synctest.Wait()
	vtag := fmt.Sprintf("v%d", ver)
	fail := func(clause, site, detail string) { // record, then let whatever the handler started run out before the next case
		r.Violation(clause, site, detail, c)
		time.Sleep(c09Settle)
	}
	if err != nil {
		fail("one-verdict-per-key", vtag+":handler-error", "handleOffer returned an error instead of a reply: "+err.Error())
		return
	}
	acc, shown, connId, err := c09Verdicts(ver, reply)
	if err != nil {
		fail("one-verdict-per-key", vtag+":undecodable-reply", fmt.Sprintf("reply %x: %v", reply, err))
		return
	}
	if len(acc) != len(keys) {
		fail("one-verdict-per-key", vtag+":verdict-count", fmt.Sprintf("%d keys offered, %d verdicts %s", len(keys), len(acc), shown))
		return
	}
	var accKeys, accContents [][]byte
	for i, a := range acc {
		if !a {
			continue
		}
		cl, clause, site := c.Classes[i], "", vtag+":"+c09ClassName(c.Classes[i])
		switch {
		case !portalwire.VerifInRange(self, st.radius, keys[i]): // the node's own in-range test
			clause = "accepted-only-if-in-range"
		case cl&c09Stored != 0:
			clause = "accepted-only-if-not-stored"
		case ver == 1 && cl&c09InFlight != 0:
			clause = "accepted-only-if-not-in-flight"
		case free0 == 0:
			clause, site = "accepted-only-if-slot-obtained", vtag+":no-free-slot"
		}
		if clause != "" {
			fail(clause, site, fmt.Sprintf("key #%d (%s) marked accepted; verdicts %s, connection id %04x, free slots before the offer %d", i, c09ClassName(cl), shown, connId, free0))
			return
		}
		accKeys, accContents = append(accKeys, keys[i]), append(accContents, c09Content(i))
	}
	free1, _ := bn.P.VerifPermits()
	digest := fmt.Sprintf("verdicts:%s:%v:%s:L%d-%d:q%v:%s:%s:slot%d", vtag, c.Classes, c.Pattern, c.Limit, c.Taken, c.QFull, c.Xfer, shown, free0-free1)
	if len(accKeys) == 0 {
		if c.Xfer != "exact" { // the offerer's behaviour is irrelevant when nothing was accepted
			r.Trivial()
			return
		}
		// nobody may be waiting on the id the reply carries, and no slot may stay taken
		if s, err := nw.dial(connId); err == nil {
			s.Close()
			fail("connection-id-iff-accepted", vtag+":waiting-without-acceptance", fmt.Sprintf("verdicts %s accept nothing, yet a dial to the announced id %04x is accepted", shown, connId))
			return
		}
		time.Sleep(c09Settle)
		if free2, _ := bn.P.VerifPermits(); free2 != free0 {
			fail("no-slot-kept-when-nothing-accepted", vtag, fmt.Sprintf("verdicts %s accept nothing; free slots before %d, after quiescence %d", shown, free0, free2))
			return
		}
		r.Exec(digest)
		return
	}
	if free1 != free0-1 {
		fail("accepted-only-if-slot-obtained", vtag+":slot-not-held", fmt.Sprintf("verdicts %s accept keys but free slots went %d -> %d", shown, free0, free1))
		return
	}
	r.Count("offers_accepted", 1)
	sent := accContents
	switch c.Xfer {
	case "fewer":
		sent = sent[:len(sent)-1]
	case "more":
		sent = append(append([][]byte{}, sent...), []byte{0x77})
	}
	if c.Xfer != "none" {
		s, err := nw.dial(connId)
		if err != nil {
			fail("connection-id-iff-accepted", vtag+":not-waiting-on-announced-id", fmt.Sprintf("verdicts %s accept %d keys but a dial to the announced id %04x fails: %v", shown, len(accKeys), connId, err))
			return
		}
		if payload := portalwire.VerifEncodeContents(sent); len(payload) > 0 {
			if _, err := s.Write(context.Background(), payload); err != nil {
				r.EngineError("harness uTP write failed: " + err.Error())
			}
		}
		s.Close()
	}
	time.Sleep(c09Settle)
	got := c09Drain(bn)
	switch {
	case c.Xfer != "exact":
		if len(got) != 0 {
			fail("different-item-count-discarded", vtag+":"+c.Xfer, fmt.Sprintf("%d keys accepted, %d items streamed, yet %d element(s) reached the validation queue", len(accKeys), len(sent), len(got)))
			return
		}
	case c.QFull:
		r.Count("transfer_completed_but_dropped_on_full_queue", 1) // select-default in handleOfferedContents; reported, not judged
	case len(got) != 1 || !c09Pairs(got[0], c09PeerID, accKeys, accContents):
		fail("delivered-items-match-accepted-keys", vtag+":receive-goroutine", fmt.Sprintf("verdicts %s, %d items streamed: %d element(s) on the validation queue, pairing exact=%v", shown, len(sent), len(got), len(got) == 1 && c09Pairs(got[0], c09PeerID, accKeys, accContents)))
		return
	default:
		r.Count("transfers_delivered", 1)
	}
	r.Exec(fmt.Sprintf("%s:queued%d", digest, len(got)))
}

// c09VerdictCases enumerates part 1.
func c09VerdictCases(thorough bool, emit func(c09Case)) {
	classes := []int{0, c09Stored, c09InFlight, c09Out, c09Stored | c09InFlight, c09LookupFails}
	var vectors []c09Case
	var rec func(v, cls []int, max int)
	rec = func(v, cls []int, max int) {
		vectors = append(vectors, c09Case{Classes: append([]int{}, v...)})
		if len(v) < max {
			for _, c := range cls {
				rec(append(v, c), cls, max)
			}
		}
	}
	if thorough {
		rec(nil, []int{0, 1, 2, 3, 4, 5, 6, 7}, 3) // every (range, stored, in flight) combination
		for _, a := range classes {                // and all 4-key vectors over the five main classes
			for _, b := range classes {
				for _, c := range classes {
					for _, d := range classes {
						vectors = append(vectors, c09Case{Classes: []int{a, b, c, d}})
					}
				}
			}
		}
	} else {
		rec(nil, classes, 3)
	}
	pat := func(name string, f func(i int) int) {
		v := make([]int, 64)
		for i := range v {
			v[i] = f(i)
		}
		vectors = append(vectors, c09Case{Classes: v, Pattern: name})
	}
	pat("64-fresh", func(int) int { return 0 })
	pat("64-stored", func(int) int { return c09Stored })
	pat("64-alternating", func(i int) int { return i % 2 * c09Stored })
	pat("64-one-fresh-among-stored", func(i int) int {
		if i == 37 {
			return 0
		}
		return c09Stored
	})
	pat("64-out", func(int) int { return c09Out })
	for _, v := range vectors {
		for _, vers := range [][]int{{0}, {1}, {0, 1}} {
			for limit := 0; limit <= 2; limit++ {
				for taken := 0; taken <= limit; taken++ {
					for _, qfull := range []bool{false, true} {
						for _, xfer := range []string{"exact", "fewer", "more", "none"} {
							c := v
							c.Part, c.Vers, c.Limit, c.Taken, c.QFull, c.Xfer = "verdicts", vers, limit, taken, qfull, xfer
							emit(c)
						}
					}
				}
			}
		}
	}
}

func c09Dispatch(r *mc.Report, nw *c09Net, c c09Case) {
	switch c.Part {
	case "verdicts":
		c09Verdict(r, nw, c)
	case "contents":
		c09Contents(r, c)
	case "offering":
		c09Offering(r, nw, c)
	}
}

func runC09(r *mc.Report, e *Env) {
	r.Rule = "every case is one call of the real handler on a fresh node in a synctest bubble, followed by real uTP traffic over an in-memory pipe until quiescence; distinct = distinct (inputs, decoded verdicts, slot delta, queue outcome) observations; cases where nothing was accepted and the offerer's behaviour varies are counted trivial"
	r.Assume("handler level only: the remote party is a harness-driven uTP socket on a loss-free pipe, not a second node behind discv5; overlapping concurrent offers and lost datagrams are left to the end-to-end and schedule parts")
	r.Assume("offers of 0..3 keys (thorough: 0..4) plus five 64-key patterns; slot limit 0..2; item sizes 0, 1 and 5000 bytes")
	var over atomic.Bool // the bubble's clock is virtual: the internal deadline is watched from outside
	t := time.AfterFunc(time.Until(e.Deadline), func() { over.Store(true) })
	defer t.Stop()
	var cases []c09Case
	n := 0
	add := func(c c09Case) {
		if e.Mine(int(uint32(n) * 2654435761 >> 12)) { // scrambled: the inner dimensions have periods dividing the worker count
			cases = append(cases, c)
		}
		n++
	}
	c09VerdictCases(e.Thorough(), add)
	c09ContentsCases(e.Thorough(), add)
	c09OfferingCases(e.Thorough(), add)
	if msg := inBubble(func() {
		nw := newC09Net()
		defer nw.close()
		sampled := map[string]bool{}
		if freeRuns > 0 { // race-detector pass: only the concurrent-offer part
			c09Race(r, e, nw)
			return
		}
		for _, c := range cases {
			if over.Load() {
				r.NotExhaustive("internal deadline reached")
				return
			}
			if !e.Mark(func() string { b, _ := json.Marshal(c); return string(b) }) {
				continue
			}
			if !sampled[c.Part] {
				sampled[c.Part] = true
				r.Sample(c)
			}
			r.Count("cases_"+c.Part, 1)
			c09Dispatch(r, nw, c)
		}
		c09Sequences(r, e, nw, over.Load)
		if e.Shard == 0 {
			c09Race(r, e, nw)
		}
	}); msg != "" {
		r.EngineError("bubble ended with: " + msg)
	}
	// the end-to-end (memnet) and overlapping-offer schedule parts are called from here
}

func replayC09(r *mc.Report, e *Env, raw json.RawMessage) {
	var c c09Case
	if err := json.Unmarshal(raw, &c); err != nil {
		panic(err)
	}
	var sc c09SeqCase
	json.Unmarshal(raw, &sc)
	if msg := inBubble(func() {
		nw := newC09Net()
		defer nw.close()
		if sc.Part == "sequence" {
			c09SeqRun(r, nw, sc.Seq)
			return
		}
		var rc c09RaceCase
		if json.Unmarshal(raw, &rc); rc.Part == "race" {
			mc.Replay(rc.Choices, func(x *mc.Ctx) { fmt.Println("outcome:", c09RaceRun(r, nw, x)) })
			return
		}
		c09Dispatch(r, nw, c)
	}); msg != "" {
		r.EngineError("bubble ended with: " + msg)
	}
}
