package main

import (
	"fmt"
	"net/netip"
	"strings"

	"github.com/ethereum/go-ethereum/p2p/enode"
	"github.com/ethereum/go-ethereum/p2p/netutil"
	"github.com/zen-eth/shisui/portalwire"
)

// C18 layer 2 — an executable reference model of bucket membership, replacement order,
// liveness credit and record versions, stepped with the same events and the same scripted
// random draws as the real table. A disagreement that none of the statement's clauses
// (layer 1, c07.go) explains is recorded in the evidence as `model_drift`; it is not a
// violation, because the statement does not fix the credit arithmetic or list orders.

type mNode struct {
	id     enode.ID
	seq    uint64
	ip     string
	port   int
	checks uint
	live   bool
	list   string
}

type mBucket struct {
	entries, repl []*mNode
	nets          map[netip.Prefix]int
}

type tabModel struct {
	b       map[int]*mBucket
	nets    map[netip.Prefix]int
	fast    []*mNode
	slow    []*mNode
	active  map[enode.ID]bool
	pending map[enode.ID]mNode // record the ping was started with
	fails   map[enode.ID]int
	script  []int // scripted Intn answers still unconsumed
}

func newTabModel() *tabModel {
	return &tabModel{b: map[int]*mBucket{}, nets: map[netip.Prefix]int{}, active: map[enode.ID]bool{}, pending: map[enode.ID]mNode{}, fails: map[enode.ID]int{}}
}

func (m *tabModel) draw() int {
	if len(m.script) == 0 {
		return 0
	}
	k := m.script[0]
	m.script = m.script[1:]
	return k
}

func mBucketIndex(id enode.ID) int {
	d := enode.LogDist(tabSelfID, id)
	if d <= portalwire.VBucketMinDist {
		return 0
	}
	return d - portalwire.VBucketMinDist - 1
}

func (m *tabModel) bucket(id enode.ID) *mBucket {
	i := mBucketIndex(id)
	if m.b[i] == nil {
		m.b[i] = &mBucket{nets: map[netip.Prefix]int{}}
	}
	return m.b[i]
}

func pfx(ip string) (netip.Prefix, bool) {
	a := netip.MustParseAddr(ip)
	if netutil.AddrIsLAN(a) {
		return netip.Prefix{}, false
	}
	p, _ := a.Prefix(24)
	return p, true
}

func (m *tabModel) addIP(b *mBucket, ip string) bool {
	p, counted := pfx(ip)
	if !counted {
		return true
	}
	if m.nets[p] >= portalwire.VTableIPLimit {
		return false
	}
	if b.nets[p] >= portalwire.VBucketIPLimit {
		return false
	}
	m.nets[p]++
	b.nets[p]++
	return true
}

func (m *tabModel) removeIP(b *mBucket, ip string) {
	if p, counted := pfx(ip); counted {
		if m.nets[p] > 0 {
			m.nets[p]--
		}
		if b.nets[p] > 0 {
			b.nets[p]--
		}
	}
}

func removeFrom(l []*mNode, n *mNode) []*mNode {
	for i, x := range l {
		if x == n {
			return append(l[:i:i], l[i+1:]...)
		}
	}
	return l
}

func (m *tabModel) moveTo(dest string, n *mNode) {
	if n.list == dest {
		return
	}
	m.fast, m.slow = removeFrom(m.fast, n), removeFrom(m.slow, n)
	if dest == "fast" {
		m.fast = append(m.fast, n)
	} else {
		m.slow = append(m.slow, n)
	}
	n.list = dest
}

func find(l []*mNode, id enode.ID) *mNode {
	for _, n := range l {
		if n.id == id {
			return n
		}
	}
	return nil
}

func recOf(n *enode.Node) mNode {
	return mNode{id: n.ID(), seq: n.Seq(), ip: n.IPAddr().String(), port: n.UDP()}
}

// bump mirrors bumpInBucket; it returns (found, endpointChanged).
func (m *tabModel) bump(b *mBucket, r mNode, inbound bool) (bool, bool) {
	n := find(b.entries, r.id)
	if n == nil {
		return false, false
	}
	if r.seq <= n.seq && !inbound {
		return true, false
	}
	ipch, portch := r.ip != n.ip, r.port != n.port
	if ipch {
		m.removeIP(b, n.ip)
		if !m.addIP(b, r.ip) {
			m.addIP(b, n.ip)
			return true, false
		}
	}
	n.seq, n.ip, n.port = r.seq, r.ip, r.port
	if ipch || portch {
		n.live = false
		m.moveTo("fast", n)
		return true, true
	}
	return true, false
}

func (m *tabModel) add(r mNode, inbound, forceLive bool) {
	if r.id == tabSelfID {
		return
	}
	b := m.bucket(r.id)
	if found, _ := m.bump(b, r, inbound); found {
		return
	}
	if len(b.entries) >= portalwire.VBucketSize {
		if find(b.repl, r.id) != nil || !m.addIP(b, r.ip) {
			return
		}
		n := r
		b.repl = append([]*mNode{&n}, b.repl...)
		if len(b.repl) > portalwire.VMaxReplacements {
			m.removeIP(b, b.repl[len(b.repl)-1].ip)
			b.repl = b.repl[:portalwire.VMaxReplacements]
		}
		return
	}
	if !m.addIP(b, r.ip) {
		return
	}
	n := r
	if forceLive {
		n.checks, n.live = 1, true
	}
	b.entries = append(b.entries, &n)
	if old := find(b.repl, r.id); old != nil {
		b.repl = removeFrom(b.repl, old)
	}
	m.moveTo("fast", &n)
}

func (m *tabModel) del(id enode.ID) {
	b := m.bucket(id)
	n := find(b.entries, id)
	if n == nil {
		return
	}
	b.entries = removeFrom(b.entries, n)
	m.removeIP(b, n.ip)
	m.fast, m.slow = removeFrom(m.fast, n), removeFrom(m.slow, n)
	n.list = ""
	if len(b.repl) == 0 {
		return
	}
	r := b.repl[m.draw()%len(b.repl)]
	b.repl = removeFrom(b.repl, r)
	b.entries = append(b.entries, r)
	m.moveTo("fast", r)
}

// step applies one event of the harness alphabet (see tablefix.go). Which nodes a
// revalidation tick pings is taken from the implementation (started = ids whose ping
// became pending during the event): the model is about membership, replacement order,
// credit and record versions, not about the revalidation scheduler.
func (m *tabModel) step(ev string, started []string) {
	p := strings.Split(ev, ":")
	m.script = nil
	defer func() {
		for _, name := range started {
			id := tabID(name)
			if n := find(m.bucket(id).entries, id); n != nil && !m.active[id] {
				m.active[id] = true
				m.pending[id] = *n
			}
		}
	}()
	switch p[0] {
	case "found", "foundlive", "inbound":
		m.add(recOf(tabNode(p[1])), p[0] == "inbound", p[0] == "foundlive")
	case "del":
		m.del(tabID(p[1]))
	case "tick":
	case "ans":
		id := tabID(p[1])
		cur, ok := m.pending[id]
		if !ok {
			return
		}
		delete(m.pending, id)
		delete(m.active, id)
		b := m.bucket(id)
		n := find(b.entries, id)
		if n == nil {
			return
		}
		if p[2] == "dead" {
			n.checks /= 3
			if n.checks == 0 {
				m.del(id)
			} else {
				m.moveTo("fast", n)
			}
			return
		}
		n.checks++
		n.live = true
		changed := false
		if p[2] != "alive" && p[2] != "nofetch" { // nofetch: the newer record could not be fetched, nothing to update
			nr := mNode{id: id, seq: cur.seq + 1, ip: cur.ip, port: cur.port}
			base := netip.MustParseAddr(cur.ip)
			if v6 := !base.Is4() && !base.Is4In6(); p[2] == "newform" || v6 && (p[2] == "newip" || p[2] == "newsubnet") {
				nr.ip = tabAltAddr(base, p[2]).String() // see tabFormAnswer
			} else {
				// the driver writes the answers below with VNode, which puts an IPv4 address
				// into the "ip" entry whatever form the current record has
				base = base.Unmap()
				nr.ip = base.String()
				switch p[2] {
				case "newip":
					a := base.As4()
					a[3] ^= 1
					nr.ip = netip.AddrFrom4(a).String()
				case "newsubnet":
					a := base.As4()
					a[2] ^= 1
					nr.ip = netip.AddrFrom4(a).String()
				case "newport":
					nr.port++
				case "lowerseq":
					nr.port++
					nr.seq = 0
				}
			}
			_, changed = m.bump(b, nr, false)
		}
		if !changed {
			m.moveTo("slow", n)
		}
	case "track":
		id := tabID(p[1])
		if p[2] == "ok" {
			m.fails[id] = 0
		} else {
			m.fails[id]++
		}
		if b := m.bucket(id); m.fails[id] >= portalwire.VMaxFindFails && len(b.entries) >= portalwire.VBucketSize/4 {
			m.del(id)
		}
		if len(p) > 3 {
			for _, r := range strings.Split(p[3], ",") {
				m.add(recOf(tabNode(r)), false, false)
			}
		}
	}
}

// render gives the model state in the same shape as renderSnap gives the table's.
func (m *tabModel) render(name func(enode.ID) string) string {
	var sb strings.Builder
	for i := 0; i <= portalwire.VNBuckets; i++ {
		b := m.b[i]
		if b == nil || len(b.entries)+len(b.repl) == 0 {
			continue
		}
		fmt.Fprintf(&sb, "b%d[", i)
		for _, n := range b.entries {
			fmt.Fprintf(&sb, "%s/%d/%s:%d/%d/%v/%s ", name(n.id), n.seq, n.ip, n.port, n.checks, n.live, n.list)
		}
		sb.WriteString("|")
		for _, n := range b.repl {
			sb.WriteString(name(n.id) + " ")
		}
		sb.WriteString("]")
	}
	return sb.String()
}

func renderSnap(t *tabEnv, s portalwire.VSnap) string {
	var sb strings.Builder
	for _, b := range s.Buckets {
		if len(b.Entries)+len(b.Replacements) == 0 {
			continue
		}
		fmt.Fprintf(&sb, "b%d[", b.Index)
		for _, n := range b.Entries {
			fmt.Fprintf(&sb, "%s/%d/%s:%d/%d/%v/%s ", t.name(n.ID), n.Seq, n.IP, n.Port, n.Checks, n.Live, n.List)
		}
		sb.WriteString("|")
		for _, n := range b.Replacements {
			sb.WriteString(t.name(n.ID) + " ")
		}
		sb.WriteString("]")
	}
	return sb.String()
}
