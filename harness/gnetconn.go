package main

import (
	"errors"
	"net"
	"net/netip"

	"github.com/ethereum/go-ethereum/log"
	"github.com/ethereum/go-ethereum/p2p/discover"
	"github.com/panjf2000/gnet/v2"
	"github.com/zen-eth/shisui/portalwire"
)

// gnetOver puts the receive path of the repository's second UDP transport
// (portalwire/gnet.go: OnTraffic -> packet channel -> ReadFromUDPAddrPort) between the
// in-memory wire and discv5. gnet's event loop itself (epoll on a real socket) cannot be
// owned by the explorer; what it does per datagram - call OnTraffic with a connection
// whose Next() yields the datagram - is done here by a forwarding goroutine inside the
// bubble. Writes go straight to the wire (gnet.go writes through a plain *net.UDPConn).

type gnetRecv interface {
	OnTraffic(gnet.Conn) gnet.Action
	ReadFromUDPAddrPort(b []byte) (int, netip.AddrPort, error)
}

type gnetOver struct {
	*mconn
	gc gnetRecv
}

var _ discover.UDPConn = (*gnetOver)(nil)

// gnetDgram is the gnet.Conn handed to OnTraffic: the two methods gnet.go calls.
type gnetDgram struct {
	gnet.Conn
	data []byte
	from netip.AddrPort
	err  error
}

func (d *gnetDgram) Next(int) ([]byte, error) { return d.data, d.err }
func (d *gnetDgram) RemoteAddr() net.Addr     { return net.UDPAddrFromAddrPort(d.from) }

func newGnetOver(c *mconn) *gnetOver {
	g := &gnetOver{mconn: c, gc: portalwire.NewGnetConn(log.New())}
	go func() {
		buf := make([]byte, 65536)
		for {
			n, from, err := c.ReadFromUDPAddrPort(buf)
			if err != nil { // wire endpoint closed: the reader sees an error, as after gnet's shutdown
				g.gc.OnTraffic(&gnetDgram{err: errors.New("closed")})
				return
			}
			g.gc.OnTraffic(&gnetDgram{data: buf[:n], from: from})
		}
	}()
	return g
}

func (g *gnetOver) ReadFromUDPAddrPort(b []byte) (int, netip.AddrPort, error) {
	return g.gc.ReadFromUDPAddrPort(b)
}
