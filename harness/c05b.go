package main

import (
	"encoding/json"
	"errors"
	"fmt"
	"strings"

	"github.com/zen-eth/shisui/storage"
	"verifharness/mc"
)

// C05(b) — concurrent Puts. Every interleaving (up to a preemption bound) of 2–3
// putter goroutines at the yield points injected before each shared-state statement
// of storage/pebble/storage.go; the capacity and usage clauses are evaluated once
// every call has returned.

type c05bScenario struct {
	Name    string
	Prefill int        // sequential puts of 30 kB filler items before the threads start
	Threads [][]c05bOp // per thread: its puts, in order
	// Observes > 0: an observer thread that, whenever the explorer picks it, scans the database (one
	// step): the persisted usage record must not be below the bytes held - at that moment too
	Observes int
}

type c05bOp struct {
	Id   string // pool id name (c05Pool) or "f<n>" for a filler id
	Size int
}

var c05bScenarios = []c05bScenario{
	{"two-puts-distinct-ids", 1, [][]c05bOp{{{"uni", 1000}}, {{"lo1", 2000}}}, 0},
	{"two-puts-same-id", 1, [][]c05bOp{{{"uni", 1000}}, {{"uni", 2000}}}, 0},
	{"both-cross-capacity", 32, [][]c05bOp{{{"uni", 30_000}}, {{"lo1", 30_000}}}, 0},
	{"overwrite-races-prune", 32, [][]c05bOp{{{"f3", 30_000}}, {{"lo256", 30_000}}}, 0},
	{"two-puts-each", 1, [][]c05bOp{{{"uni", 1000}, {"lo1", 10}}, {{"mid", 2000}, {"uni", 30}}}, 0},
	{"three-putters", 1, [][]c05bOp{{{"uni", 1000}}, {{"lo1", 2000}}, {{"uni", 3000}}}, 0},
	{"three-cross-capacity", 32, [][]c05bOp{{{"uni", 30_000}}, {{"lo1", 30_000}}, {{"mid", 30_000}}}, 0},
	{"two-puts-observed", 1, [][]c05bOp{{{"uni", 1000}}, {{"lo1", 2000}}}, 2},
	{"crossing-put-observed", 33, [][]c05bOp{{{"uni", 30_000}}}, 3},
}

type c05bCase struct {
	Scenario string   `json:"scenario"`
	Choices  []int    `json:"choices"`
	Trace    []string `json:"trace,omitempty"`
}

// c05bRun executes one schedule of one scenario and evaluates the oracle.
func c05bRun(r *mc.Report, sc *c05bScenario, c *mc.Ctx) (outcome string) {
	var trace []string
	viol := func(clause, site, detail string) {
		r.Violation(clause, site+" (concurrent:"+sc.Name+")", detail+" | schedule: "+strings.Join(trace, " "), c05bCase{sc.Name, c.Choices(), trace})
	}
	msg := inBubble(func() {
		env, err := newStoreEnv(c04Nodes["mixed"], 1, false)
		if err != nil {
			r.EngineError("open: " + err.Error())
			return
		}
		defer env.close()
		pool := c05Pool(env.node)
		idOf := func(n string) []byte {
			if strings.HasPrefix(n, "f") {
				var k int
				fmt.Sscanf(n, "f%d", &k)
				return c05Filler(env.node, k)
			}
			return pool[n]
		}
		for i := 0; i < sc.Prefill; i++ {
			env.cs.Put(nil, c05Filler(env.node, i), fillBytes(30_000, byte(i)))
			quiesce()
		}
		s := newSched()
		defer s.stop()
		errs := make([][]error, len(sc.Threads))
		maxItem := 30_032
		for ti, ops := range sc.Threads {
			ti, ops := ti, ops
			errs[ti] = make([]error, len(ops))
			s.spawn(fmt.Sprintf("T%d", ti+1), func() {
				for oi, op := range ops {
					errs[ti][oi] = env.cs.Put(nil, idOf(op.Id), fillBytes(op.Size, byte(0x10*(ti+1)+oi)))
				}
			})
		}
		type obsT struct {
			held, rec uint64
			has       bool
			n         int
		}
		var seen []obsT
		if sc.Observes > 0 && freeRuns == 0 {
			s.spawn("OBS", func() {
				for i := 0; i < sc.Observes; i++ {
					s.Gate("observe")
					s.Atomically(func() {
						items, rec, has := env.scan()
						seen = append(seen, obsT{held(items), rec, has, len(items)})
					})
				}
			})
		}
		ok, why := s.run(c, 2000)
		trace = s.Trace
		if !ok {
			viol("puts-return", "ContentStorage.Put", why)
			return
		}
		for i, o := range seen {
			if (o.has && o.rec < o.held) || (!o.has && o.held > 0) {
				viol("usage-never-under-reports", "persisted record (observed during the puts)", fmt.Sprintf("observation %d: the persisted usage record says %d (present=%v) while %d bytes in %d items are held", i+1, o.rec, o.has, o.held, o.n))
				break
			}
		}
		quiesce()
		items, rec, hasRec := env.scan()
		A := held(items)
		mem := c04MemSize(env)
		var es []string
		for ti := range errs {
			for _, e := range errs[ti] {
				if e != nil && !errors.Is(e, storage.ErrInsufficientRadius) {
					viol("put-no-internal-error", "ContentStorage.Put", fmt.Sprintf("a concurrent Put returned %v", e))
				}
				es = append(es, fmt.Sprint(e))
			}
		}
		capB := uint64(c05Cap)
		if uint64(maxItem) <= capB/20 && A > capB {
			viol("held-within-capacity", "ContentStorage.Put", fmt.Sprintf("after all Puts returned the store holds %d bytes, capacity %d", A, capB))
		}
		if mem < A {
			viol("usage-never-under-reports", "in-memory counter", fmt.Sprintf("in-memory usage %d < bytes held %d", mem, A))
		}
		if (hasRec && rec < A) || (!hasRec && A > 0) {
			viol("usage-never-under-reports", "persisted record", fmt.Sprintf("persisted usage %d < bytes held %d", rec, A))
		}
		outcome = fmt.Sprintf("items=%d held=%d rec-held=%d mem-held=%d errs=%v", len(items), A, int64(rec)-int64(A), int64(mem)-int64(A), es)
	})
	if msg != "" {
		viol("no-panic", "ContentStorage", "panic: "+msg)
	}
	return
}

const c05bShards = 4 // worker processes per scenario

func c05bTasks(thorough bool) int { return len(c05bScenarios) * c05bShards }

// runC05b explores shard (task % c05bShards) of scenario (task / c05bShards).
func runC05b(r *mc.Report, e *Env, task int) {
	total := int64(0)
	for si := range c05bScenarios {
		if si != task/c05bShards {
			continue
		}
		sc := &c05bScenarios[si]
		bound := 2
		if e.Thorough() {
			bound = 3
		}
		if !e.Thorough() && len(sc.Threads) == 3 && sc.Prefill > 1 {
			bound = 1
		}
		outcomes := map[string]int{}
		d := &mc.DFS{Bound: bound, Shard: task % c05bShards, Of: c05bShards, ShardDepth: 1, Deadline: e.Deadline}
		var out string
		d.Body = func(c *mc.Ctx) { out = c05bRun(r, sc, c) }
		if freeRuns > 0 { // race-detector pass: no exploration, the bodies run freely
			for i := 0; i < freeRuns; i++ {
				ctx := mc.Replay(nil, d.Body)
				_ = ctx
				r.Exec("free|" + sc.Name + "|" + out)
			}
			r.Count("free_running_executions", int64(freeRuns))
			continue
		}
		d.After = func(c *mc.Ctx) {
			if c.Diverged != "" {
				r.EngineError("schedule replay diverged in " + sc.Name + ": " + c.Diverged)
				return
			}
			r.Exec(sc.Name + "|" + out)
			outcomes[out]++
		}
		d.Run()
		total += d.Executions
		if d.TimedOut {
			r.NotExhaustive("internal deadline reached during schedule exploration of " + sc.Name)
		}
		r.Count("schedules_"+sc.Name, d.Executions)
		r.Max("max_schedule_points", int64(d.MaxPoints))
		r.Set("preemption_bound_"+sc.Name, bound)
		if task%c05bShards == 0 {
			r.Sample(map[string]any{"scenario": sc.Name, "threads": sc.Threads, "prefill_items": sc.Prefill, "distinct_outcomes_in_shard0": len(outcomes)})
		}
	}
	r.SetMaxSamples(12)
	r.Count("schedules", total)
	r.Assume("interleavings are at statement granularity of storage.go (yields before every statement that touches c.size, c.radius, c.db or commits a batch); pebble itself is not interleaved; the background Compact goroutine runs only when no putter is enabled")
}

func replayC05b(r *mc.Report, e *Env, raw json.RawMessage) {
	var c c05bCase
	if err := json.Unmarshal(raw, &c); err != nil {
		panic(err)
	}
	for si := range c05bScenarios {
		if c05bScenarios[si].Name == c.Scenario {
			ctx := mc.Replay(c.Choices, func(x *mc.Ctx) { c05bRun(r, &c05bScenarios[si], x) })
			if ctx.Diverged != "" {
				fmt.Println("replay diverged:", ctx.Diverged)
			}
		}
	}
}
