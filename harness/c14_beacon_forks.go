package main

import (
	"encoding/binary"
	"fmt"
	"os"
	"reflect"
	"strings"

	"github.com/protolambda/zrnt/eth2/beacon/altair"
	"github.com/protolambda/zrnt/eth2/beacon/capella"
	zcommon "github.com/protolambda/zrnt/eth2/beacon/common"
	"github.com/protolambda/zrnt/eth2/beacon/deneb"
	"github.com/protolambda/zrnt/eth2/beacon/electra"
	"github.com/protolambda/zrnt/eth2/configs"
	tbeacon "github.com/zen-eth/shisui/types/beacon"
)

// C14, fork dimension of the beacon containers.
//
// The fork-digest-tagged containers of types/beacon dispatch on the digest to the container type
// of that fork. The repository's vectors are all of one fork, and no mutant of a vector of one
// fork is a well-formed object of another, so the vector-seeded pass reaches one arm of each
// switch. Here a well-formed in-limit value is built for EVERY (container, fork) pair - by filling
// the fork's own zrnt type field by field, for each fill pattern and each length of every
// variable-size field - and for every sequence of forks (up to a length bound, plus the count
// limit) of the update range, and goes through the generic value pass (value -> bytes -> value,
// over-limit refused) and byte pass (bytes -> value -> bytes on the encoding and its mutants).

// c14BeaconMutants: the truncation / extension / offset / byte mutants of the synthetic encodings
// are explored too (VERIF_C14_BEACON_MUTANTS=0 switches the pass off). When it was first run it
// reported two genuine defect families on the repository, both repaired since (/repo 072deb4,
// b3f71a8; known_findings.json lists them as fixed):
//   - every Forked* container (and the range, through its elements): the Bellatrix arm (a
//     fixed-size container) accepted a scope longer than the container - surplus trailing bytes
//     decoded and re-encoded shorter;
//   - LightClientUpdateRange: an element of zero length (e.g. the input 04000000) was appended
//     without being decoded, the range "decoded" to an update with a nil object and encoding
//     it panicked in (*ForkedLightClientUpdate).ByteLength.
var c14BeaconMutants = os.Getenv("VERIF_C14_BEACON_MUTANTS") != "0"

// c14Full: the tier, for the Vals functions that scale with it (set by runC14 / replayC14).
var c14Full bool

var c14Forks = []string{"bellatrix", "capella", "deneb", "electra"}

func c14Digest(fork string) zcommon.ForkDigest {
	switch fork {
	case "bellatrix":
		return tbeacon.Bellatrix
	case "capella":
		return tbeacon.Capella
	case "deneb":
		return tbeacon.Deneb
	case "electra":
		return tbeacon.Electra
	}
	panic("c14: fork " + fork)
}

// c14ForkedKind: one fork-tagged container: the zrnt type each fork's digest stands for (the
// consensus light-client types of that fork) and how to wrap it.
type c14ForkedKind struct {
	codec string
	inner map[string]func() zcommon.SpecObj
	wrap  func(d zcommon.ForkDigest, o zcommon.SpecObj) any
}

var c14ForkedKinds = []c14ForkedKind{
	{"types/beacon.ForkedLightClientBootstrap", map[string]func() zcommon.SpecObj{
		"bellatrix": func() zcommon.SpecObj { return &altair.LightClientBootstrap{} },
		"capella":   func() zcommon.SpecObj { return &capella.LightClientBootstrap{} },
		"deneb":     func() zcommon.SpecObj { return &deneb.LightClientBootstrap{} },
		"electra":   func() zcommon.SpecObj { return &electra.LightClientBootstrap{} },
	}, func(d zcommon.ForkDigest, o zcommon.SpecObj) any {
		return &tbeacon.ForkedLightClientBootstrap{ForkDigest: d, Bootstrap: o}
	}},
	{"types/beacon.ForkedLightClientUpdate", map[string]func() zcommon.SpecObj{
		"bellatrix": func() zcommon.SpecObj { return &altair.LightClientUpdate{} },
		"capella":   func() zcommon.SpecObj { return &capella.LightClientUpdate{} },
		"deneb":     func() zcommon.SpecObj { return &deneb.LightClientUpdate{} },
		"electra":   func() zcommon.SpecObj { return &electra.LightClientUpdate{} },
	}, func(d zcommon.ForkDigest, o zcommon.SpecObj) any {
		return &tbeacon.ForkedLightClientUpdate{ForkDigest: d, LightClientUpdate: o}
	}},
	{"types/beacon.ForkedLightClientFinalityUpdate", map[string]func() zcommon.SpecObj{
		"bellatrix": func() zcommon.SpecObj { return &altair.LightClientFinalityUpdate{} },
		"capella":   func() zcommon.SpecObj { return &capella.LightClientFinalityUpdate{} },
		"deneb":     func() zcommon.SpecObj { return &deneb.LightClientFinalityUpdate{} },
		"electra":   func() zcommon.SpecObj { return &electra.LightClientFinalityUpdate{} },
	}, func(d zcommon.ForkDigest, o zcommon.SpecObj) any {
		return &tbeacon.ForkedLightClientFinalityUpdate{ForkDigest: d, LightClientFinalityUpdate: o}
	}},
	{"types/beacon.ForkedLightClientOptimisticUpdate", map[string]func() zcommon.SpecObj{
		"bellatrix": func() zcommon.SpecObj { return &altair.LightClientOptimisticUpdate{} },
		"capella":   func() zcommon.SpecObj { return &capella.LightClientOptimisticUpdate{} },
		"deneb":     func() zcommon.SpecObj { return &deneb.LightClientOptimisticUpdate{} },
		// the light client header did not change in Electra: the optimistic update of that fork is
		// the Deneb container (zrnt has no separate type)
		"electra": func() zcommon.SpecObj { return &deneb.LightClientOptimisticUpdate{} },
	}, func(d zcommon.ForkDigest, o zcommon.SpecObj) any {
		return &tbeacon.ForkedLightClientOptimisticUpdate{ForkDigest: d, LightClientOptimisticUpdate: o}
	}},
}

func c14Kind(codec string) *c14ForkedKind {
	for i := range c14ForkedKinds {
		if c14ForkedKinds[i].codec == codec {
			return &c14ForkedKinds[i]
		}
	}
	panic("c14: no forked kind " + codec)
}

// ---------- filling a zrnt value field by field ----------

const c14MaxExtraData = 32 // MAX_EXTRA_DATA_BYTES

var (
	c14TExtraData = reflect.TypeOf(zcommon.ExtraData{})
	c14TSyncBits  = reflect.TypeOf(altair.SyncCommitteeBits{})
	c14TPubkeys   = reflect.TypeOf(zcommon.SyncCommitteePubkeys{})
	c14TSummaries = reflect.TypeOf(capella.HistoricalSummaries{})
)

// c14Filler sets every field of a value: "zero" (all zero), "ones" (every byte 0xff, every
// integer at its maximum) or "pat" (a different byte at every position, derived from seed).
// Fixed-size lists get the size of the mainnet preset; the i-th variable-size byte list
// (extra data) gets extras[i] bytes, a summaries list gets `summaries` elements.
type c14Filler struct {
	mode      string
	seed      byte
	extras    []int
	summaries int
	n         uint64 // bytes produced so far
	nExtra    int    // variable-size byte lists met
}

func (g *c14Filler) b() byte {
	g.n++
	switch g.mode {
	case "zero":
		return 0
	case "ones":
		return 0xff
	}
	return g.seed + byte(g.n*7) + byte(g.n>>8)*13
}

func (g *c14Filler) bytes(n int) []byte {
	out := make([]byte, n)
	for i := range out {
		out[i] = g.b()
	}
	return out
}

func (g *c14Filler) fill(v reflect.Value) {
	t := v.Type()
	switch {
	case t == c14TExtraData:
		l := 0
		if g.nExtra < len(g.extras) {
			l = g.extras[g.nExtra]
		}
		g.nExtra++
		v.SetBytes(g.bytes(l))
	case t == c14TSyncBits:
		v.SetBytes(g.bytes(int(configs.Mainnet.SYNC_COMMITTEE_SIZE) / 8))
	case t == c14TPubkeys:
		s := reflect.MakeSlice(t, int(configs.Mainnet.SYNC_COMMITTEE_SIZE), int(configs.Mainnet.SYNC_COMMITTEE_SIZE))
		for i := 0; i < s.Len(); i++ {
			g.fill(s.Index(i))
		}
		v.Set(s)
	case t == c14TSummaries:
		s := reflect.MakeSlice(t, g.summaries, g.summaries)
		for i := 0; i < s.Len(); i++ {
			g.fill(s.Index(i))
		}
		v.Set(s)
	case t.Kind() == reflect.Struct:
		for i := 0; i < t.NumField(); i++ {
			if !t.Field(i).IsExported() {
				panic("c14: unexported field " + t.Field(i).Name + " in " + t.String())
			}
			g.fill(v.Field(i))
		}
	case t.Kind() == reflect.Array:
		for i := 0; i < v.Len(); i++ {
			g.fill(v.Index(i))
		}
	case t.Kind() == reflect.Uint8:
		v.SetUint(uint64(g.b()))
	case t.Kind() == reflect.Uint64 || t.Kind() == reflect.Uint32 || t.Kind() == reflect.Uint16:
		var w [8]byte
		copy(w[:], g.bytes(int(t.Size())))
		v.SetUint(binary.LittleEndian.Uint64(w[:]))
	default:
		// a field shape this filler does not know must be looked at, not skipped
		panic("c14: cannot fill " + t.String())
	}
}

// c14Filled builds one value of the type `mk` returns; nExtra says how many variable-size byte
// lists the type has.
func c14Filled(mk func() zcommon.SpecObj, mode string, seed byte, extras []int) (o zcommon.SpecObj, nExtra int) {
	o = mk()
	g := &c14Filler{mode: mode, seed: seed, extras: extras}
	g.fill(reflect.ValueOf(o).Elem())
	return o, g.nExtra
}

// c14ExtraMenus: every assignment of a length from {0, 1, max} to n variable-size fields, and the
// over-limit assignments (max+1 at one field, 0 at the others).
func c14ExtraMenus(n int) (in [][]int, over [][]int) {
	menu := []int{0, 1, c14MaxExtraData}
	in = [][]int{{}}
	for i := 0; i < n; i++ {
		var next [][]int
		for _, p := range in {
			for _, l := range menu {
				next = append(next, append(append([]int{}, p...), l))
			}
		}
		in = next
	}
	for i := 0; i < n; i++ {
		o := make([]int, n)
		o[i] = c14MaxExtraData + 1
		over = append(over, o)
	}
	return
}

// c14ForkedVals: for every fork the container knows, every fill pattern x every length
// assignment of the fork type's variable-size fields, and the over-limit assignments.
func c14ForkedVals(codec string) func() []codecVal {
	return func() []codecVal {
		k := c14Kind(codec)
		var out []codecVal
		for _, fork := range c14Forks {
			mk := k.inner[fork]
			_, nExtra := c14Filled(mk, "zero", 0, nil)
			in, over := c14ExtraMenus(nExtra)
			for _, mode := range []string{"zero", "pat", "ones"} {
				for _, ex := range in {
					o, _ := c14Filled(mk, mode, 0x10, ex)
					out = append(out, codecVal{V: k.wrap(c14Digest(fork), o), InLimit: true,
						Desc: fmt.Sprintf("arm=%s fill=%s extra=%v", fork, mode, ex)})
				}
			}
			for _, ex := range over {
				o, _ := c14Filled(mk, "pat", 0x10, ex)
				out = append(out, codecVal{V: k.wrap(c14Digest(fork), o), InLimit: false,
					Desc: fmt.Sprintf("arm=%s fill=pat extra=%v (over the %d-byte limit)", fork, ex, c14MaxExtraData)})
			}
		}
		return out
	}
}

// ---------- the update range ----------

// c14RangeElem: the update of `fork` used at position pos of a range (positions differ in content).
func c14RangeElem(cache map[string]tbeacon.ForkedLightClientUpdate, fork string, pos int) tbeacon.ForkedLightClientUpdate {
	key := fmt.Sprintf("%s/%d", fork, pos%8)
	if u, ok := cache[key]; ok {
		return u
	}
	k := c14Kind("types/beacon.ForkedLightClientUpdate")
	o, _ := c14Filled(k.inner[fork], "pat", byte(0x20+pos%8), []int{1 + pos%8, c14MaxExtraData})
	u := tbeacon.ForkedLightClientUpdate{ForkDigest: c14Digest(fork), LightClientUpdate: o}
	cache[key] = u
	return u
}

func c14RangeMaxLen() int {
	if c14Full {
		return 4
	}
	return 3
}

func c14RangeClass(forks []string) string {
	if len(forks) == 0 {
		return "empty"
	}
	for _, f := range forks[1:] {
		if f != forks[0] {
			return "mixed-forks"
		}
	}
	return "single-fork:" + forks[0]
}

// c14RangeVals: every sequence of forks up to the length bound (in every order: a range served
// for consecutive sync periods crosses fork boundaries), and the count limit with the forks cycling.
func c14RangeVals() []codecVal {
	cache := map[string]tbeacon.ForkedLightClientUpdate{}
	var out []codecVal
	var rec func(forks []string)
	rec = func(forks []string) {
		rg := make(tbeacon.LightClientUpdateRange, 0, len(forks))
		for i, f := range forks {
			rg = append(rg, c14RangeElem(cache, f, i))
		}
		out = append(out, codecVal{V: &rg, InLimit: true, Desc: c14RangeClass(forks) + " range=[" + strings.Join(forks, ",") + "]"})
		if len(forks) == c14RangeMaxLen() {
			return
		}
		for _, f := range c14Forks {
			rec(append(append([]string{}, forks...), f))
		}
	}
	rec(nil)
	for _, cnt := range []int{tbeacon.MaxRequestLightClientUpdates, tbeacon.MaxRequestLightClientUpdates + 1} {
		rg := make(tbeacon.LightClientUpdateRange, 0, cnt)
		for i := 0; i < cnt; i++ {
			rg = append(rg, c14RangeElem(cache, c14Forks[i%len(c14Forks)], i))
		}
		out = append(out, codecVal{V: &rg, InLimit: cnt <= tbeacon.MaxRequestLightClientUpdates,
			Desc: fmt.Sprintf("count=%d range of %d updates, forks cycling %s", cnt, cnt, strings.Join(c14Forks, ","))})
	}
	return out
}

// c14RangeElems cuts the encoding of a list of variable-size elements into the encodings of its
// elements (nil if the offset table is not well formed).
func c14RangeElems(b []byte) [][]byte {
	if len(b) < 4 {
		return nil
	}
	first := int(binary.LittleEndian.Uint32(b))
	if first%4 != 0 || first == 0 || first > len(b) {
		return nil
	}
	n := first / 4
	var out [][]byte
	for i := 0; i < n; i++ {
		from := int(binary.LittleEndian.Uint32(b[4*i:]))
		to := len(b)
		if i+1 < n {
			to = int(binary.LittleEndian.Uint32(b[4*i+4:]))
		}
		if from > to || to > len(b) {
			return nil
		}
		out = append(out, b[from:to])
	}
	return out
}

// ---------- the historical summaries container (digest-tagged, one arm) ----------

func c14SummariesVals() []codecVal {
	var out []codecVal
	for _, fork := range c14Forks {
		for _, mode := range []string{"zero", "pat", "ones"} {
			for _, cnt := range []int{0, 1, 2, 33} {
				v := &tbeacon.ForkedHistoricalSummariesWithProof{ForkDigest: c14Digest(fork)}
				g := &c14Filler{mode: mode, seed: 0x30, summaries: cnt}
				g.fill(reflect.ValueOf(&v.HistoricalSummariesWithProof).Elem())
				out = append(out, codecVal{V: v, InLimit: true,
					Desc: fmt.Sprintf("digest=%s fill=%s summaries=%d", fork, mode, cnt)})
			}
		}
	}
	return out
}
