package main

import (
	"crypto/sha256"
	"runtime"
	"strings"
)

const repoPkg = "github.com/zen-eth/shisui/"

// repoFrame returns the innermost frame of the current (panicking) stack that
// belongs to the repository, as "pkg.Func" without line numbers. Called from a
// deferred function during a panic, the panicking frames are still on the stack.
func repoFrame() string {
	pcs := make([]uintptr, 64)
	n := runtime.Callers(2, pcs)
	frames := runtime.CallersFrames(pcs[:n])
	for {
		f, more := frames.Next()
		if strings.HasPrefix(f.Function, repoPkg) {
			fn := strings.TrimPrefix(f.Function, repoPkg)
			// closures: portalwire.(*PortalProtocol).handleOffer.func1 → keep the named function
			for strings.Contains(fn, ".func") {
				fn = fn[:strings.LastIndex(fn, ".func")]
			}
			if !strings.Contains(fn, "Verif") { // skip the export wrappers
				return fn
			}
		}
		if !more {
			break
		}
	}
	return "outside-repo"
}

func minInt(a, b int) int {
	if a < b {
		return a
	}
	return b
}

func sha256Sum(s string) []byte {
	h := sha256.Sum256([]byte(s))
	return h[:8]
}
