package main

import (
	"bytes"
	"fmt"
	"net"
	"os"
	"slices"
	"strings"
	"time"

	bitfield "github.com/OffchainLabs/go-bitfield"
	"github.com/ethereum/go-ethereum/common/hexutil"
	"github.com/zen-eth/shisui/portalwire"
	"verifharness/mc"
)

// C19, the third consumer of the negotiated version: the offer RPC. PortalProtocolAPI.Offer
// sends the OFFER, lets processOffer read the ACCEPT at the negotiated version and hands the
// caller the peer's verdicts. After a version-1 exchange these are the codes of the ACCEPT;
// after a version-0 exchange the ACCEPT is a bit list with one bit per offered key, which a
// node that also speaks version 1 converts (handleV0Offer) into one verdict byte per key.
// Whatever the pairing, what the RPC reports has to be the ACCEPT the peer sent, read at the
// version the two sides settled on: one verdict per offered key, "accepted" exactly for the
// keys the peer accepted.
//
// (a) "rpc-v0-verdicts": the conversion itself on a real unstarted node per local version
//     list that contains 0 (only such a node can settle on version 0) and one node without a
//     "pv" entry x every bit pattern of 1..9 (thorough: 1..12) offered keys;
// (b) "rpc-offer": the RPC method between two real started nodes on the in-memory wire, one
//     worker process per (local list, peer list, number of keys): every pattern of stored /
//     fresh keys of that length is offered in turn (fresh key names per pattern); the peer
//     declines what it already stores. The verdicts are judged against what then arrives in
//     the peer's validation queue - the peer's ACCEPT made visible - not against a model of
//     the peer.

var c19Accepted = byte(portalwire.Accepted)

// c19ReadVerdicts reads out as the verdicts for n offered keys, of which accepted(i) says
// whether the peer accepted the i-th. A node that speaks version 1 reports one byte per key.
// A node that speaks version 0 only has no such codes: it may hand out the bit list itself.
// It returns the violated clause ("" = none) and the form the output has.
func c19ReadVerdicts(out []byte, n int, accepted func(i int) bool, perKeyOnly bool) (clause, form, detail string) {
	if !perKeyOnly && len(out) > 0 {
		bl := bitfield.Bitlist(out)
		ok := int(bl.Len()) == n
		for i := 0; ok && i < n; i++ {
			ok = bl.BitAt(uint64(i)) == accepted(i)
		}
		if ok {
			return "", "bit-list", ""
		}
	}
	if len(out) != n {
		return "rpc-verdicts-one-per-offered-key", "", fmt.Sprintf("%d keys offered, %d verdicts reported", n, len(out))
	}
	for i := 0; i < n; i++ {
		if (out[i] == c19Accepted) != accepted(i) {
			return "rpc-verdicts-agree-with-the-accept", "", fmt.Sprintf("key %d: reported code %d, accepted by the peer: %v", i, out[i], accepted(i))
		}
	}
	return "", "per-key", ""
}

// ---- (a) the conversion ----

func c19V0Verdicts(r *mc.Report, n *bareNode, c c19Case) {
	a := u8s(c.A)
	if len(a) == 0 {
		a = []uint8(portalwire.Versions)
	}
	bl := bitfield.NewBitlist(uint64(len(c.Bits)))
	for i := range c.Bits {
		bl.SetBitAt(uint64(i), c.Bits[i] == '1')
	}
	var out []byte
	if msg, site := panicsTo(func() { out = n.P.VerifHandleV0Offer(slices.Clone([]byte(bl))) }); msg != "" {
		r.Violation("no-panic", site, fmt.Sprintf("local %v, version-0 ACCEPT %x (%s): %s", a, []byte(bl), c.Bits, msg), c)
		return
	}
	speaks1 := slices.Contains(a, 1)
	site := "handleV0Offer"
	if !speaks1 {
		site = "handleV0Offer:node-without-version-1"
	}
	clause, form, detail := c19ReadVerdicts(out, len(c.Bits), func(i int) bool { return c.Bits[i] == '1' }, speaks1)
	if clause != "" {
		r.Violation(clause, site, fmt.Sprintf("local %v settled on version 0, the peer's ACCEPT is the bit list %x (one character per offered key, 1 = accepted: %s): the RPC reports %x: %s", a, []byte(bl), c.Bits, out, detail), c)
	}
	r.Exec(fmt.Sprintf("rpc-v0:%v:%s:%d->%d", speaks1, form, len(c.Bits), len(out)))
}

func c19BitPatterns(maxLen int) (out []string) {
	for n := 1; n <= maxLen; n++ {
		for m := 0; m < 1<<n; m++ {
			b := make([]byte, n)
			for i := range b {
				b[i] = '0' + byte(m>>i&1)
			}
			out = append(out, string(b))
		}
	}
	return
}

func c19RunV0Verdicts(r *mc.Report, e *Env) {
	maxLen := 9
	if e.Thorough() {
		maxLen = 12
	}
	pats := c19BitPatterns(maxLen)
	nodes := 0
	for _, a := range append([][]uint8{nil}, c19Lists(e)...) {
		if a != nil && !slices.Contains(a, 0) {
			continue
		}
		if e.Expired() {
			return
		}
		node := c19Local(a)
		for _, bits := range pats {
			c19V0Verdicts(r, node, c19Case{Part: "rpc-v0-verdicts", A: ints(a), Bits: bits})
		}
		node.Close()
		nodes++
	}
	r.Count("rpc_v0_conversion_local_lists", int64(nodes))
	r.Count("rpc_v0_conversion_bit_patterns_per_list", int64(len(pats)))
	r.Set("rpc_v0_conversion_max_keys", maxLen)
	r.Sample(c19Case{Part: "rpc-v0-verdicts", A: []int{1, 0}, Bits: "0101"})
}

// ---- (b) the RPC method between two real nodes ----

type c19RPCTask struct {
	A, B  []uint8
	Unadv bool // the record the RPC is given for B carries no "pv" entry (B works with its list all the same)
	N     int
}

// c19RPCVersions: what the statement makes each side derive. A reads B's record (its own
// base version when that advertises none), B reads A's record from the session.
func c19RPCVersions(a, b []uint8, unadv bool) (vA uint8, okA bool, vB uint8, okB bool) {
	vB, okB = c19Max(b, a)
	if unadv {
		return a[0], true, vB, okB
	}
	vA, okA = c19Max(a, b)
	return
}

func c19RPCPairings() (run []c19RPCTask, outside int) {
	for _, a := range versionSets() {
		for _, b := range versionSets() {
			run = append(run, c19RPCTask{A: a, B: b})
		}
		// a peer from before version negotiation: speaks version 0, advertises nothing. Where
		// the statement itself gives the two sides different versions (A's base is not 0) no
		// exchange is promised
		b := []uint8{0}
		vA, _, vB, okB := c19RPCVersions(a, b, true)
		if !okB || vA != vB {
			outside++
			continue
		}
		run = append(run, c19RPCTask{A: a, B: b, Unadv: true})
	}
	return
}

func c19RPCTasks(e *Env) (out []c19RPCTask) {
	maxN := 4
	if e.Thorough() {
		maxN = 6
	}
	pairs, _ := c19RPCPairings()
	for _, p := range pairs {
		for n := 1; n <= maxN; n++ {
			p.N = n
			out = append(out, p)
		}
	}
	return
}

func c19StoredFresh(n int) (out []string) {
	for m := 0; m < 1<<n; m++ {
		b := make([]byte, n)
		for i := range b {
			b[i] = "sf"[m>>i&1]
		}
		out = append(out, string(b))
	}
	return
}

const c19RPCKeyA, c19RPCKeyB = 1931, 1932

// c19RPCOffers starts the two nodes of c and issues one RPC offer per pattern. finish (worker
// and replay processes) is called from inside the bubble.
func c19RPCOffers(r *mc.Report, c c19Case, patterns []string, finish func()) {
	msg := inBubble(func() {
		w := newWire()
		a := newMNode(w, mnodeOpts{keyIdx: c19RPCKeyA, versions: u8s(c.A), utpLimit: 5})
		b := newMNode(w, mnodeOpts{keyIdx: c19RPCKeyB, versions: u8s(c.B), utpLimit: 5})
		rec := b.Self()
		if c.Unadv {
			rec = signedNode(detKey(c19RPCKeyB), 1, net.ParseIP(b.Conn.addr.Addr().String()), int(b.Conn.addr.Port()), portalwire.Tag)
		}
		api := portalwire.NewPortalAPI(a.P)
		for _, pat := range patterns {
			c.Keys = pat
			if !c19RPCOffer(r, w, a, b, api, rec.String(), c) {
				break
			}
		}
		if finish != nil {
			finish()
		}
		a.close()
		b.close()
	})
	if msg != "" {
		r.Violation("no-panic", "PortalProtocolAPI.Offer", "panic: "+msg, c)
	}
}

// c19RPCOffer: one offer of len(c.Keys) keys through the RPC method; false = the nodes are
// not in a state to go on with.
func c19RPCOffer(r *mc.Report, w *mwire, a, b *mnode, api *portalwire.PortalProtocolAPI, enrB string, c c19Case) bool {
	n := len(c.Keys)
	var keys [][]byte
	var items [][2]string
	for i := 0; i < n; i++ {
		k, v := []byte(fmt.Sprintf("c19-rpc-%s-%d", c.Keys, i)), bytes.Repeat([]byte{byte(0x40 + i)}, 300*(i+1))
		keys = append(keys, k)
		items = append(items, [2]string{hexutil.Encode(k), hexutil.Encode(v)})
		if c.Keys[i] == 's' {
			if err := b.P.Put(k, b.P.ToContentId(k), v); err != nil {
				r.EngineError("C19 rpc-offer: " + err.Error())
				return false
			}
		}
	}
	va, vb := u8s(c.A), u8s(c.B)
	vA, okA, vB, okB := c19RPCVersions(va, vb, c.Unadv)
	peer := fmt.Sprint(vb)
	if c.Unadv {
		peer += " (record without a version entry)"
	}
	who := fmt.Sprintf("RPC offer of keys %q (s = the peer stores it already, f = fresh) by a node advertising %v to a peer speaking %s", c.Keys, va, peer)
	r.Count("rpc_offers", 1)

	var res, pmsg, psite string
	var err error
	done := false
	go func() {
		pmsg, psite = panicsTo(func() { res, err = api.Offer(enrB, items) })
		done = true
	}()
	_, timedOut := w.pump(func() bool { return done }, 2*time.Minute, nil)
	if timedOut {
		r.Violation("rpc-offer-returns", "PortalProtocolAPI.Offer", who+": no result within 2 virtual minutes", c)
		return false
	}
	if pmsg != "" {
		r.Violation("no-panic", psite, who+": "+pmsg, c)
		return false
	}
	// what the peer accepted shows in its validation queue
	w.pump(func() bool { return len(b.Q) > 0 }, time.Minute, nil)
	var el *portalwire.ContentElement
	select {
	case el = <-b.Q:
	default:
	}
	w.pump(func() bool { return true }, 10*time.Second, nil) // let the connection wind down
	got := make([]bool, n)
	if el != nil {
		for _, k := range el.ContentKeys {
			i := slices.IndexFunc(keys, func(x []byte) bool { return bytes.Equal(x, k) })
			if i < 0 {
				r.Violation("accepted-content-arrives-intact-under-its-key", "PortalProtocolAPI.Offer", who+fmt.Sprintf(": the peer's queue got the key %q, which was not offered", k), c)
				return false
			}
			got[i] = true
		}
	}
	arrived := func(i int) bool { return got[i] }

	if !okA || !okB {
		if err == nil {
			r.Violation("no-common-version-no-transfer", "PortalProtocolAPI.Offer", who+fmt.Sprintf(": no common version, yet the RPC reports %s", res), c)
		}
		if el != nil {
			r.Violation("no-common-version-no-transfer", "PortalProtocolAPI.Offer:delivery", who+": no common version, yet content was delivered", c)
		}
		r.Count("rpc_offers_without_common_version", 1)
		r.Exec("rpc-offer:refused")
		return true
	}
	if vA != vB { // not enumerated (c19RPCPairings)
		r.Trivial()
		return true
	}
	speaks1 := slices.Contains(va, 1)
	class := fmt.Sprintf("negotiated-v%d", vA)
	if vA == 0 && speaks1 {
		class += ":node-also-speaks-v1"
	}
	site := "PortalProtocolAPI.Offer:" + class
	r.Count("rpc_offers_"+strings.NewReplacer(":", "_", "-", "_").Replace(class), 1)
	if err != nil {
		r.Violation("transfer-succeeds-between-nodes-sharing-a-version", site, who+fmt.Sprintf(" (version %d): the RPC fails: %v", vA, err), c)
		return false
	}
	out, derr := hexutil.Decode(res)
	if derr != nil && res != "0x" {
		r.Violation("rpc-verdicts-one-per-offered-key", site, who+fmt.Sprintf(": result %q is not hex: %v", res, derr), c)
		return true
	}
	perKeyOnly := vA >= 1 || speaks1
	clause, form, detail := c19ReadVerdicts(out, n, arrived, perKeyOnly)
	claimed := form == "" && len(out) == n && slices.Contains(out, c19Accepted)
	switch {
	case clause == "":
	case el == nil && claimed:
		// the verdicts name accepted keys but nothing came through: the exchange, not the reading
		r.Violation("transfer-succeeds-between-nodes-sharing-a-version", site+":delivery", who+fmt.Sprintf(" (version %d): the RPC reports %x, nothing arrived at the peer within a virtual minute", vA, out), c)
	default:
		r.Violation(clause, site, who+fmt.Sprintf(" (version %d): the RPC reports %x, the peer accepted and received the keys %v: %s", vA, out, trueIdx(got), detail), c)
	}
	for i := 0; i < n; i++ {
		if got[i] != (c.Keys[i] == 'f') {
			r.Count("model_drift", 1) // which keys the peer wants is C09's business
			break
		}
	}
	r.Exec(fmt.Sprintf("rpc-offer:%s:%s:%s:%x", class, form, c.Keys, out))
	return true
}

func trueIdx(bs []bool) []int {
	out := []int{}
	for i, b := range bs {
		if b {
			out = append(out, i)
		}
	}
	return out
}

// c19RPCTaskRun: task idx in a worker process of its own.
func c19RPCTaskRun(r *mc.Report, e *Env, idx int) {
	tasks := c19RPCTasks(e)
	if idx < 0 || idx >= len(tasks) {
		return
	}
	t := tasks[idx]
	c := c19Case{Part: "rpc-offer", A: ints(t.A), B: ints(t.B), Unadv: t.Unadv}
	r.Count("rpc_offer_tasks", 1)
	pats := c19StoredFresh(t.N)
	if idx == 5 {
		s := c
		s.Keys = pats[len(pats)/2]
		r.Sample(s)
	}
	c19RPCOffers(r, c, pats, func() { e.FinishNow(r) })
}

// c19RPCEvidence: what the worker tasks enumerate, recorded once (by the base shard).
func c19RPCEvidence(r *mc.Report, e *Env) {
	pairs, outside := c19RPCPairings()
	tasks := c19RPCTasks(e)
	r.Set("rpc_offer_pairings", len(pairs))
	r.Set("rpc_offer_pairings_for_which_the_statement_gives_the_sides_different_versions", outside)
	r.Set("rpc_offer_max_keys", tasks[len(tasks)-1].N)
	r.Assume("RPC part: the offer RPC between two real started nodes on the in-memory wire (FIFO, no loss), every stored/fresh pattern of 1..rpc_offer_max_keys keys for every pairing of {0},{1},{0,1},{1,0} and a version-0 peer whose record has no version entry; out-of-radius and rate-limited declines reach the RPC through the same ACCEPT codes and are enumerated at the encoding level only (accept part); the pairing local base 1 x peer without entry is outside the statement (the sides derive different versions)")
}

func c19RPCReplay(r *mc.Report, c c19Case) {
	c19RPCOffers(r, c, []string{c.Keys}, func() {
		for _, v := range r.Violations {
			fmt.Printf("REPLAY: reproduced %s\n  %s\n", v.Fingerprint, v.Detail)
		}
		if len(r.Violations) > 0 {
			os.Exit(1)
		}
		fmt.Println("REPLAY: no violation reproduced")
		os.Exit(0)
	})
}
