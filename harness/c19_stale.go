package main

import (
	"fmt"
	"net"
	"testing/synctest"

	"github.com/ethereum/go-ethereum/p2p/enode"
	"github.com/holiman/uint256"
	"github.com/zen-eth/shisui/portalwire"
	"github.com/zen-eth/shisui/storage"
	"verifharness/mc"
)

// C19, an older record of the sender in the routing table. "For any two nodes advertising
// version sets" - the sets they advertise now. B's table still holds A's previous record
// (learnt from a third party, or from before A's upgrade) with another version list; A's OFFER
// arrives with A's current record (what the discv5 session carries). The ACCEPT must be
// encoded for the highest version common to B's list and A's CURRENT list. Three stored keys:
// nothing is accepted, no transfer starts, and the two encodings differ in length.

type c19StaleCase struct {
	Part string `json:"part"` // "stale-table-record"
	Old  []int  `json:"a_old_record"`
	New  []int  `json:"a_current_record"`
	B    []int  `json:"b"`
}

func c19Stale(r *mc.Report, c c19StaleCase) {
	msg := inBubble(func() {
		st := &fixedRadiusStore{ContentStorage: storage.NewMockStorage(), radius: new(uint256.Int).SetAllOne()}
		b := newBareNode(bareOpts{keyIdx: 1921, versions: u8s(c.B), store: st})
		defer b.Close()
		b.P.VerifSetContentIdFunc(func(k []byte) []byte { return k })
		vt := b.initTable()
		go vt.Loop()
		synctest.Wait()
		defer vt.Close()
		akey := detKey(1920)
		ip, port := net.IP{127, 0, 0, 1}, 9920
		oldRec := signedNode(akey, 1, ip, port, versEntry(u8s(c.Old)))
		newRec := signedNode(akey, 2, ip, port, versEntry(u8s(c.New)))
		if !vt.InsertDirect(oldRec, true) {
			r.EngineError("C19 stale: table refused the old record")
			return
		}
		var keys [][]byte
		for i := 0; i < 3; i++ {
			k := c19Key(b.P.Self().ID(), 's', i)
			st.Put(k, k, []byte{1})
			keys = append(keys, k)
		}
		offer, _ := (&portalwire.Offer{ContentKeys: keys}).MarshalSSZ()
		var reply []byte
		if m, site := panicsTo(func() {
			reply = b.P.VerifHandleTalkRequest(newRec, &net.UDPAddr{IP: ip, Port: port}, append([]byte{portalwire.OFFER}, offer...))
		}); m != "" {
			r.Violation("no-panic", site, m, c)
			return
		}
		v, common := c19Max(u8s(c.New), u8s(c.B))
		switch {
		case !common:
			if len(reply) != 0 {
				r.Violation("no-common-version-no-transfer", "handleTalkRequest:stale-table-record", fmt.Sprintf("A's current list %v shares no version with B %v (A's old record %v does), yet B answered %x", c.New, c.B, c.Old, reply), c)
			}
			r.Exec("stale:refused")
			return
		case v > 1:
			r.Exec("stale:unsupported")
			return
		case len(reply) < 2 || reply[0] != portalwire.ACCEPT:
			r.Violation("accept-encoding-follows-negotiated-version", "handleTalkRequest:stale-table-record", fmt.Sprintf("A %v (old record %v) offers to B %v: no ACCEPT, reply %x", c.New, c.Old, c.B, reply), c)
			return
		}
		okV0 := (&portalwire.Accept{}).UnmarshalSSZ(reply[1:]) == nil
		a1 := &portalwire.AcceptV1{}
		okV1 := a1.UnmarshalSSZ(reply[1:]) == nil && len(a1.ContentKeys) == len(keys)
		got := map[bool]int{true: 1, false: 0}[okV1]
		if !okV1 && !okV0 {
			got = -1
		}
		if got != int(v) {
			r.Violation("accept-encoding-follows-negotiated-version", "handleTalkRequest:stale-table-record", fmt.Sprintf("B %v holds A's old record %v in its table; A's current record advertises %v, so the common version is %d, but the ACCEPT %x is a version-%d encoding", c.B, c.Old, c.New, v, reply, got), c)
		}
		r.Exec(fmt.Sprintf("stale:v%d:%d", v, got))
	})
	if msg != "" {
		r.EngineError("C19 stale: " + msg)
	}
}

func c19RunStale(r *mc.Report, e *Env) {
	n := 0
	lists := [][]uint8{{0}, {1}, {0, 1}, {1, 0}}
	for _, old := range lists {
		for _, cur := range lists {
			for _, b := range lists {
				if e.Expired() {
					return
				}
				c19Stale(r, c19StaleCase{"stale-table-record", ints(old), ints(cur), ints(b)})
				n++
			}
		}
	}
	r.Count("stale_record_cases", int64(n))
}

var _ = enode.ID{}
