// Command instr prepares the -overlay used to build the harness against the
// CURRENT sources of the repository:
//   - applies an optional mutant (exact-match text replacements, for self-tests),
//   - inserts verifhook.Yield("<func>#<n>") before every statement that touches a
//     listed shared object (E6 in DESIGN.md) in the listed files,
//   - adds the virtual package github.com/zen-eth/shisui/verifhook.
//
// The repository itself is never written to.
package main

import (
	"bytes"
	"encoding/json"
	"flag"
	"fmt"
	"go/ast"
	"go/format"
	"go/parser"
	"go/token"
	"os"
	"path/filepath"
	"strings"
)

type target struct {
	File    string
	Targets []string
}

// Files and the receiver-rooted objects whose uses are scheduling points.
var plan = []target{
	{"storage/pebble/storage.go", []string{"c.size", "c.radius", "c.db", "batch.Commit", "cs.db", "cs.size", "cs.radius"}},
	{"state/storage.go", []string{"s.store"}},
	// "*": a yield before every statement (the validator has no fields to name: what concurrent
	// validations may share is package-level or inside the accumulators)
	{"validation/header_validator.go", []string{"*"}},
	{"portalwire/portal_protocol.go", []string{"p.transferringKeyCache", "p.Utp", "p.contentQueue", "p.offerQueue", "p.cacheTransferringKeys", "p.deleteTransferringContentKeys", "p.storage", "permit.Release", "p.filterContentKeys", "p.handleOfferedContents"}},
	{"portalwire/portal_protocol_v1.go", []string{"p.transferringKeyCache", "p.contentQueue", "p.storage"}},
	// lock hooks only (no yield targets): the table's mutexes are modelled by the scheduler
	{"portalwire/table.go", nil},
	{"portalwire/table_reval.go", nil},
	{"portalwire/common.go", nil},
}

const cfgSrc = `package verifcfg

import (
	"github.com/urfave/cli/v2"
	"github.com/zen-eth/shisui/portal"
)

var _ = verifMain

// ConfigFromArgs parses a command line with the command's own flag set and returns what
// getPortalConfig makes of it (the node is not built).
func ConfigFromArgs(args []string) (cfg *portal.Config, err error) {
	a := *app
	a.Before, a.After = nil, nil
	a.Action = func(ctx *cli.Context) error {
		cfg, err = getPortalConfig(ctx)
		return nil
	}
	if rerr := a.Run(append([]string{"shisui"}, args...)); rerr != nil {
		return nil, rerr
	}
	return cfg, err
}
`

const hookSrc = `// Package verifhook is a virtual package supplied by the verification overlay.
package verifhook

import "sync/atomic"

var fn atomic.Pointer[func(string)]

// Set installs (or with nil removes) the scheduler callback.
func Set(f func(string)) {
	if f == nil {
		fn.Store(nil)
		return
	}
	fn.Store(&f)
}

// Yield is a scheduling point; a no-op unless a scheduler is installed.
func Yield(label string) {
	if f := fn.Load(); f != nil {
		(*f)(label)
	}
}

var lockFn atomic.Pointer[func(m any, write, acquire bool)]

// SetLock installs the scheduler's mutex model (nil removes it).
func SetLock(f func(m any, write, acquire bool)) {
	if f == nil {
		lockFn.Store(nil)
		return
	}
	lockFn.Store(&f)
}

// BeforeLock is called before m.Lock()/m.RLock() in instrumented files: the
// scheduler parks the thread until its model of m is free, so that the real lock
// never blocks while another controlled thread is parked holding it.
func BeforeLock(m any, write bool) {
	if f := lockFn.Load(); f != nil {
		(*f)(m, write, true)
	}
}

// AfterUnlock is called after m.Unlock()/m.RUnlock().
func AfterUnlock(m any, write bool) {
	if f := lockFn.Load(); f != nil {
		(*f)(m, write, false)
	}
}
`

var targets []string
var locks int
var count int
var curFn string

func rootOf(e ast.Expr) string {
	switch v := e.(type) {
	case *ast.SelectorExpr:
		if r := rootOf(v.X); r != "" {
			return r + "." + v.Sel.Name
		}
	case *ast.Ident:
		return v.Name
	case *ast.CallExpr:
		return rootOf(v.Fun)
	case *ast.ParenExpr:
		return rootOf(v.X)
	}
	return ""
}

func isTarget(r string) bool {
	for _, t := range targets {
		if r == t || strings.HasPrefix(r, t+".") {
			return true
		}
	}
	return false
}

func touches(n ast.Node) bool {
	if n == nil {
		return false
	}
	if len(targets) == 1 && targets[0] == "*" {
		return true
	}
	found := false
	ast.Inspect(n, func(x ast.Node) bool {
		switch v := x.(type) {
		case *ast.FuncLit, *ast.BlockStmt, *ast.CaseClause, *ast.CommClause:
			return false
		case *ast.CallExpr:
			if isTarget(rootOf(v.Fun)) {
				found = true
			}
		case *ast.UnaryExpr:
			if v.Op == token.ARROW && isTarget(rootOf(v.X)) {
				found = true
			}
		case *ast.SendStmt:
			if isTarget(rootOf(v.Chan)) {
				found = true
			}
		}
		return true
	})
	return found
}

// yieldTag: appended to the label of the next yield (the callee when the statement calls one of a
// few named methods: a harness can then hold a goroutine at exactly that call without relying on
// the statement numbering).
var yieldTag string

func yield() ast.Stmt {
	count++
	label := fmt.Sprintf("%s#%d", curFn, count)
	if yieldTag != "" {
		label += ":" + yieldTag
		yieldTag = ""
	}
	return &ast.ExprStmt{X: &ast.CallExpr{Fun: &ast.SelectorExpr{X: ast.NewIdent("verifhook"), Sel: ast.NewIdent("Yield")},
		Args: []ast.Expr{&ast.BasicLit{Kind: token.STRING, Value: fmt.Sprintf("%q", label)}}}}
}

func namedCallee(st ast.Stmt) (name string) {
	ast.Inspect(st, func(n ast.Node) bool {
		if c, ok := n.(*ast.CallExpr); ok {
			if sel, ok := c.Fun.(*ast.SelectorExpr); ok && (sel.Sel.Name == "AcceptWithCid" || sel.Sel.Name == "DialWithCid") {
				name = sel.Sel.Name
			}
		}
		return name == ""
	})
	return
}

func headerTouches(st ast.Stmt) (before bool, perIter bool) {
	switch v := st.(type) {
	case *ast.IfStmt:
		return touches(v.Init) || touches(v.Cond), false
	case *ast.ForStmt:
		return touches(v.Init), touches(v.Cond) || touches(v.Post)
	case *ast.RangeStmt:
		return touches(v.X), false
	case *ast.SwitchStmt:
		return touches(v.Init) || touches(v.Tag), false
	case *ast.TypeSwitchStmt:
		return touches(v.Init) || touches(v.Assign), false
	case *ast.SelectStmt:
		t := false
		for _, c := range v.Body.List {
			if cc := c.(*ast.CommClause); cc.Comm != nil && touches(cc.Comm) {
				t = true
			}
		}
		return t, false
	case *ast.LabeledStmt:
		return headerTouches(v.Stmt)
	case *ast.BlockStmt, *ast.GoStmt:
		return false, false
	case *ast.DeferStmt:
		return false, false
	}
	return touches(st), false
}

// lockCall recognises X.Lock() / X.RLock() / X.Unlock() / X.RUnlock() with no arguments.
func lockCall(e ast.Expr) (recv ast.Expr, write, acquire, ok bool) {
	c, isCall := e.(*ast.CallExpr)
	if !isCall || len(c.Args) != 0 {
		return
	}
	sel, isSel := c.Fun.(*ast.SelectorExpr)
	if !isSel {
		return
	}
	switch sel.Sel.Name {
	case "Lock":
		return sel.X, true, true, true
	case "RLock":
		return sel.X, false, true, true
	case "Unlock":
		return sel.X, true, false, true
	case "RUnlock":
		return sel.X, false, false, true
	}
	return
}

func lockHook(name string, recv ast.Expr, write bool) ast.Stmt {
	w := "false"
	if write {
		w = "true"
	}
	return &ast.ExprStmt{X: &ast.CallExpr{Fun: &ast.SelectorExpr{X: ast.NewIdent("verifhook"), Sel: ast.NewIdent(name)},
		Args: []ast.Expr{&ast.UnaryExpr{Op: token.AND, X: recv}, ast.NewIdent(w)}}}
}

func rewriteList(list []ast.Stmt) []ast.Stmt {
	var out []ast.Stmt
	for _, st := range list {
		if es, ok := st.(*ast.ExprStmt); ok {
			if recv, write, acquire, ok := lockCall(es.X); ok && rootOf(recv) != "" {
				locks++
				if acquire {
					out = append(out, lockHook("BeforeLock", recv, write), st)
				} else {
					out = append(out, st, lockHook("AfterUnlock", recv, write))
				}
				continue
			}
		}
		if ds, ok := st.(*ast.DeferStmt); ok {
			if recv, write, acquire, ok := lockCall(ds.Call); ok && !acquire && rootOf(recv) != "" {
				locks++
				body := &ast.BlockStmt{List: []ast.Stmt{&ast.ExprStmt{X: ds.Call}, lockHook("AfterUnlock", recv, write)}}
				out = append(out, &ast.DeferStmt{Call: &ast.CallExpr{Fun: &ast.FuncLit{Type: &ast.FuncType{Params: &ast.FieldList{}}, Body: body}}})
				continue
			}
		}
		before, perIter := headerTouches(st)
		if before {
			yieldTag = namedCallee(st)
			out = append(out, yield())
		}
		if perIter {
			inner := st
			if l, ok := st.(*ast.LabeledStmt); ok {
				inner = l.Stmt
			}
			if f, ok := inner.(*ast.ForStmt); ok {
				f.Body.List = append([]ast.Stmt{yield()}, f.Body.List...)
			}
		}
		out = append(out, st)
	}
	return out
}

func instrument(src []byte, name string, tg []string) ([]byte, int, error) {
	targets = tg
	count = 0
	fset := token.NewFileSet()
	f, err := parser.ParseFile(fset, name, src, 0)
	if err != nil {
		return nil, 0, err
	}
	for _, d := range f.Decls {
		fd, ok := d.(*ast.FuncDecl)
		if !ok || fd.Body == nil {
			continue
		}
		curFn = fd.Name.Name
		var walk func(n ast.Node)
		walk = func(n ast.Node) {
			ast.Inspect(n, func(x ast.Node) bool {
				if x == nil || x == n {
					return true
				}
				switch v := x.(type) {
				case *ast.BlockStmt:
					walk(v)
					v.List = rewriteList(v.List)
					return false
				case *ast.CaseClause:
					walk(v)
					v.Body = rewriteList(v.Body)
					return false
				case *ast.CommClause:
					walk(v)
					v.Body = rewriteList(v.Body)
					return false
				case *ast.GoStmt:
					if fl, ok := v.Call.Fun.(*ast.FuncLit); ok {
						walk(fl.Body)
						fl.Body.List = rewriteList(fl.Body.List)
						fl.Body.List = append([]ast.Stmt{yield()}, fl.Body.List...)
						for _, a := range v.Call.Args {
							walk(a)
						}
						return false
					}
				}
				return true
			})
		}
		walk(fd.Body)
		fd.Body.List = rewriteList(fd.Body.List)
	}
	f.Decls = append([]ast.Decl{&ast.GenDecl{Tok: token.IMPORT, Specs: []ast.Spec{&ast.ImportSpec{Path: &ast.BasicLit{Kind: token.STRING, Value: `"github.com/zen-eth/shisui/verifhook"`}}}}}, f.Decls...)
	var buf bytes.Buffer
	if err := format.Node(&buf, fset, f); err != nil {
		return nil, 0, err
	}
	return buf.Bytes(), count, nil
}

type replacement struct {
	File string `json:"file"`
	Old  string `json:"old"`
	New  string `json:"new"`
}

func main() {
	repo := flag.String("repo", "/repo", "repository root")
	out := flag.String("out", "", "directory for rewritten files")
	js := flag.String("json", "", "overlay json path")
	mutant := flag.String("mutant", "", "mutant directory (contains mutant.json)")
	flag.Parse()
	os.MkdirAll(*out, 0o755)
	content := map[string][]byte{} // repo-relative path -> content (only files we replace)
	load := func(rel string) ([]byte, error) {
		if b, ok := content[rel]; ok {
			return b, nil
		}
		return os.ReadFile(filepath.Join(*repo, rel))
	}
	if *mutant != "" {
		b, err := os.ReadFile(filepath.Join(*mutant, "mutant.json"))
		if err != nil {
			fmt.Fprintln(os.Stderr, err)
			os.Exit(2)
		}
		var reps []replacement
		if err := json.Unmarshal(b, &reps); err != nil {
			fmt.Fprintln(os.Stderr, "mutant.json:", err)
			os.Exit(2)
		}
		for _, r := range reps {
			src, err := load(r.File)
			if err != nil {
				fmt.Fprintln(os.Stderr, err)
				os.Exit(2)
			}
			if n := bytes.Count(src, []byte(r.Old)); n != 1 {
				fmt.Fprintf(os.Stderr, "mutant: %q occurs %d times in %s (want exactly 1)\n", r.Old, n, r.File)
				os.Exit(2)
			}
			content[r.File] = bytes.Replace(src, []byte(r.Old), []byte(r.New), 1)
		}
	}
	for _, t := range plan {
		src, err := load(t.File)
		if err != nil {
			fmt.Fprintln(os.Stderr, err)
			os.Exit(2)
		}
		res, n, err := instrument(src, t.File, t.Targets)
		if err != nil {
			fmt.Fprintln(os.Stderr, "instrument", t.File+":", err)
			os.Exit(2)
		}
		content[t.File] = res
		fmt.Printf("%s: %d yields, %d lock hooks (cumulative)\n", t.File, n, locks)
	}
	// virtual package verifcfg: the command's own configuration code (package main cannot be imported)
	// under another package name, with one exported entry that runs the real flag parsing and
	// getPortalConfig for a command line. Nothing is written into the repository.
	for _, f := range []string{"cmd/shisui/config.go", "cmd/shisui/main.go"} {
		src, err := load(f)
		if err != nil {
			fmt.Fprintln(os.Stderr, err)
			os.Exit(2)
		}
		if bytes.Count(src, []byte("\npackage main\n")) != 1 && !bytes.HasPrefix(src, []byte("package main\n")) {
			fmt.Fprintln(os.Stderr, "verifcfg: no package clause found in", f)
			os.Exit(2)
		}
		src = bytes.Replace(src, []byte("package main\n"), []byte("package verifcfg\n"), 1)
		src = bytes.Replace(src, []byte("\nfunc main() {"), []byte("\nfunc verifMain() {"), 1)
		content["verifcfg/"+filepath.Base(f)] = src
	}
	content["verifcfg/verif_export.go"] = []byte(cfgSrc)
	replace := map[string]string{}
	for rel, b := range content {
		p := filepath.Join(*out, strings.ReplaceAll(rel, "/", "__"))
		if old, err := os.ReadFile(p); err != nil || !bytes.Equal(old, b) {
			if err := os.WriteFile(p, b, 0o644); err != nil {
				fmt.Fprintln(os.Stderr, err)
				os.Exit(2)
			}
		}
		replace[filepath.Join(*repo, rel)] = p
	}
	hp := filepath.Join(*out, "verifhook__hook.go")
	if old, err := os.ReadFile(hp); err != nil || string(old) != hookSrc {
		os.WriteFile(hp, []byte(hookSrc), 0o644)
	}
	replace[filepath.Join(*repo, "verifhook", "hook.go")] = hp
	b, _ := json.MarshalIndent(map[string]any{"Replace": replace}, "", " ")
	if err := os.WriteFile(*js, b, 0o644); err != nil {
		fmt.Fprintln(os.Stderr, err)
		os.Exit(2)
	}
}
