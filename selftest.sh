#!/bin/bash
# selftest.sh [name-prefix]: runs every own mutant (mutants/<name>/mutant.json, named <prop>-<what>) through
# the quick tier of its property and reports whether the check flags it. Output goes to
# .build/mutant-<name>/ (never to evidence/). Exit 0 iff every mutant applies and is caught
# (mutants/<name>/expect_drift: the reference model must report drift instead).
cd "$(dirname "${BASH_SOURCE[0]}")"
bad=0
for d in mutants/${1:-}*/; do
  m=$(basename "$d"); p=${m%%-*}
  out=$(./check "$p" quick --mutant "$m" 2>&1); e=$?
  n=$(grep -c '^VIOLATION' <<<"$out")
  rm -f ".build/harness-$m" # 35 MB per mutant binary
  if [ -f "mutants/$m/expect_drift" ]; then
    # a mutant inside what the statement leaves open: the layer-2 reference model must report drift, the clauses nothing
    dr=$(jq '[.coverage | to_entries[] | select(.key|test("model_drift")) | .value | numbers] | add // 0' ".build/mutant-$m/evidence/$p.json" 2>/dev/null)
    if [ $e -eq 0 ] && [ "${dr:-0}" -gt 0 ]; then echo "drift    $m (model_drift=$dr, no violation: as intended)"; else echo "MISSED   $m (exit $e, model_drift=${dr:-0})"; bad=1; fi
  elif [ $e -eq 1 ] && [ "$n" -gt 0 ]; then echo "caught   $m ($n fingerprints)"
  elif [ $e -eq 2 ]; then echo "BROKEN   $m: $(tail -2 <<<"$out" | head -1 | cut -c1-160)"; bad=1
  else echo "MISSED   $m (exit $e)"; bad=1; fi
done
exit $bad
