# sourced by check, build.sh and setup.sh
export VERIF_DIR="$(cd "$(dirname "${BASH_SOURCE[0]}")" && pwd)"
export GOBIN_REAL=/root/go/pkg/mod/golang.org/toolchain@v0.0.1-go1.24.2.linux-amd64/bin/go
export GOFLAGS=-mod=mod GOPROXY=off GOSUMDB=off GOTOOLCHAIN=local GOEXPERIMENT=synctest
REPO=${VERIF_REPO:-/repo}
