#!/bin/bash
# Rebuilds the harness binary from /repo's current working tree (hooks on: -tags verif,
# yields injected by overlay). Prints nothing on success. Exit 2 = infrastructure error.
set -u
. "$(dirname "${BASH_SOURCE[0]}")/env.sh"
B="$VERIF_DIR/.build"
mkdir -p "$B/overlay"
cd "$VERIF_DIR/harness" || exit 2
# go.mod is regenerated from the repository's so that its replace lines / versions are followed
{
  echo 'module verifharness'; echo; echo 'go 1.24.2'; echo
  sed -n '/^replace/p' "$REPO/go.mod"
  echo "replace github.com/zen-eth/shisui => $REPO"; echo
  echo 'require github.com/zen-eth/shisui v0.0.0-00010101000000-000000000000'; echo
  awk '/^require \(/{p=1} p{print} /^\)/{p=0}' "$REPO/go.mod"
} > go.mod.new
cmp -s go.mod.new go.mod || cp go.mod.new go.mod
rm -f go.mod.new
cp "$REPO/go.sum" go.sum
(
  flock 9
  # instrumenter (plain tool, no repo dependency)
  if [ ! -x "$B/instr" ] || [ cmd/instr/main.go -nt "$B/instr" ]; then
    "$GOBIN_REAL" build -o "$B/instr" ./cmd/instr >"$B/build.log" 2>&1 || { cat "$B/build.log" >&2; echo "INFRASTRUCTURE ERROR: instrumenter build failed" >&2; exit 2; }
  fi
  "$B/instr" -repo "$REPO" -out "$B/overlay" -json "$B/overlay.json" ${VERIF_MUTANT:+-mutant "$VERIF_DIR/mutants/$VERIF_MUTANT"} >"$B/instr.log" 2>&1 || { cat "$B/instr.log" >&2; echo "INFRASTRUCTURE ERROR: instrumentation failed (does the source still parse?)" >&2; exit 2; }
  "$GOBIN_REAL" build -tags verif -overlay "$B/overlay.json" -o "$B/harness${VERIF_MUTANT:+-$VERIF_MUTANT}" . >"$B/build.log" 2>&1 || { cat "$B/build.log" >&2; echo "INFRASTRUCTURE ERROR: harness build failed" >&2; exit 2; }
) 9>"$B/build.lock"
