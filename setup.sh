#!/bin/bash
# Builds the framework offline from files on disk (instrumenter + harness binary).
set -eu
. "$(dirname "${BASH_SOURCE[0]}")/env.sh"
"$VERIF_DIR/build.sh"
"$VERIF_DIR/.build/harness" -list
