#!/bin/bash
# racepass.sh <id> [runs]: the separate free-running race-detector pass for the properties with a
# concurrent part (C03 C04 C05 C06 C07 C09). Under the cooperative scheduler every hand-off is a
# happens-before edge, so the detector is blind there; here the same scenario bodies run <runs>
# times with plain goroutines in a -race build. Prints "RACEPASS property=<id> runs=<n> races=<k>"
# and, for every distinct racing pair of repository frames, a line "RACE <frames>"; exit 1 iff k > 0.
# The evidence of <id> gets a "race_pass" entry. Exit 2 = infrastructure error.
set -u
. "$(dirname "${BASH_SOURCE[0]}")/env.sh"
id=${1:?property id}; runs=${2:-100}
B="$VERIF_DIR/.build"
"$VERIF_DIR/build.sh" || exit 2
cd "$VERIF_DIR/harness" || exit 2
"$GOBIN_REAL" build -race -tags verif -overlay "$B/overlay.json" -o "$B/harness-race" . >"$B/race-build.log" 2>&1 || { cat "$B/race-build.log" >&2; echo "INFRASTRUCTURE ERROR: -race build failed" >&2; exit 2; }
cd "$VERIF_DIR"
out="$B/racepass-$id"; rm -rf "$out"; mkdir -p "$out"
VERIF_FREERUN=$runs VERIF_OUT="$out" GORACE="halt_on_error=0 history_size=5" "$B/harness-race" -prop "$id" -tier quick >"$out/log" 2>&1
rm -f "$B/harness-race"
n=$(grep -c 'WARNING: DATA RACE' "$out/log")
execs=$(jq '.coverage.free_running_executions // 0' "$out/evidence/$id.json" 2>/dev/null || echo 0)
# one line per distinct pair of first repository frames of the two racing accesses
pairs=$(awk '/WARNING: DATA RACE/{inr=1; f=""; next} inr && /^  [A-Za-z].*\(\)$/ && /zen-eth\/shisui/ {gsub(/^ +/,""); if (f=="") f=$0; else if (index(f," <-> ")==0) f=f" <-> "$0} /^==================$/ && inr {if (f!="") print f; inr=0}' "$out/log" | sort -u)
echo "RACEPASS property=$id runs=$runs free_running_executions=$execs races=$n"
[ -n "$pairs" ] && sed 's/^/RACE /' <<<"$pairs"
if [ -f "evidence/$id.json" ]; then
  jq --argjson n "$n" --argjson runs "$runs" --argjson ex "${execs:-0}" --arg pairs "$pairs" '.coverage.race_pass = {technique: "separate free-running pass of the concurrent scenario bodies in a -race build (validates the assumption that scheduling points at synchronisation operations suffice)", runs_per_scenario: $runs, executions: $ex, data_race_reports: $n, racing_pairs: ($pairs | split("\n") | map(select(. != "")))}' "evidence/$id.json" > "$out/ev.json" && mv "$out/ev.json" "evidence/$id.json"
fi
grep -E '^VIOLATION' "$out/log" | sed 's/^/(free-running oracle) /'
[ "$n" -gt 0 ] && exit 1
exit 0
